import EzdxfVerif.Model.Curve
import EzdxfVerif.Gen.CurveKernels
import Drivers.Proto
open EzdxfVerif.Curve EzdxfVerif.Gen.CurveKernels Proto

/-! Line protocol driver of C13.  Rationals travel as `p/q` (or `p`), lists are comma separated,
    points are `x:y:z`.  One response line per request line. -/

def parseRat (s : String) : Option Rat :=
  match s.splitOn "/" with
  | [n] => (parseInt n).map (fun i => (i : Rat))
  | [n, d] => match parseInt n, d.toNat? with
    | some i, some k => if k = 0 then none else some (mkRat i k)
    | _, _ => none
  | _ => none

def parseRats (s : String) : Option (List Rat) :=
  if s.isEmpty then some [] else (s.splitOn ",").mapM parseRat

def parseV3 (s : String) : Option V3 :=
  match s.splitOn ":" with
  | [a, b, c] => match parseRat a, parseRat b, parseRat c with
    | some x, some y, some z => some ⟨x, y, z⟩
    | _, _, _ => none
  | _ => none

def parseV3s (s : String) : Option (List V3) :=
  if s.isEmpty then some [] else (s.splitOn ",").mapM parseV3

def showRat (r : Rat) : String := if r.den = 1 then toString r.num else toString r.num ++ "/" ++ toString r.den
def showRats (l : List Rat) : String := ",".intercalate (l.map showRat)
def showV3 (v : V3) : String := showRat v.x ++ ":" ++ showRat v.y ++ ":" ++ showRat v.z
def showV3s (l : List V3) : String := ",".intercalate (l.map showV3)

def parseAffine (s : String) : Option Affine :=
  match parseRats s with
  | some [a0, a1, a2, a4, a5, a6, a8, a9, a10, a12, a13, a14] => some ⟨a0, a1, a2, a4, a5, a6, a8, a9, a10, a12, a13, a14⟩
  | _ => none

/-- evaluate a cubic through one of the three kernels -/
def bez4With (impl : String) (c : Bez4) (t : Rat) : Option (V3 × V3) :=
  let q1 := c.p1.sub c.p0
  let q2 := c.p2.sub c.p0
  let q3 := c.p3.sub c.p0
  match impl with
  | "py" => some (bez4PointPy c.p0 q1 q2 q3 t, bez4TangentPy q1 q2 q3 t)
  | "pyx" => some (bez4PointPyx c.p0 q1 q2 q3 t, bez4TangentPyx q1 q2 q3 t)
  | "model" => some (c.point t, c.tangent t)
  | _ => none

def bez3With (impl : String) (c : Bez3) (t : Rat) : Option (V3 × V3) :=
  let q1 := c.p1.sub c.p0
  let q2 := c.p2.sub c.p0
  match impl with
  | "py" => some (bez3PointPy c.p0 q1 q2 t, bez3TangentPy q1 q2 t)
  | "pyx" => some (bez3PointPyx c.p0 q1 q2 t, bez3TangentPyx q1 q2 t)
  | "model" => some (c.point t, c.tangent t)
  | _ => none

def showPT : Option (V3 × V3) → String
  | some (p, t) => showV3 p ++ ";" ++ showV3 t
  | none => "bad-op impl"

def step (line : String) : String :=
  match line.splitOn "|" with
  | ["span", order, count, u, knots] =>
    match order.toNat?, count.toNat?, parseRat u, parseRats knots with
    | some o, some c, some u, some k => toString (findSpan k o c u)
    | _, _, _, _ => "bad-op"
  | ["basis", order, span, u, knots, weights] =>
    match order.toNat?, span.toNat?, parseRat u, parseRats knots, parseRats weights with
    | some o, some s, some u, some k, some w =>
      match basisFuncsW k w o s u with
      | some N => "ok " ++ showRats N
      | none => "err ZeroDivisionError"
    | _, _, _, _, _ => "bad-op"
  | ["point", order, u, knots, weights, cps] =>
    match order.toNat?, parseRat u, parseRats knots, parseRats weights, parseV3s cps with
    | some o, some u, some k, some w, some p =>
      match evalPoint k w p o u with
      | some v => "ok " ++ showV3 v
      | none => "err ZeroDivisionError"
    | _, _, _, _, _ => "bad-op"
  | ["ref", order, u, knots, cps] =>      -- textbook Cox - de Boor sum (half open spans)
    match order.toNat?, parseRat u, parseRats knots, parseV3s cps with
    | some o, some u, some k, some p => showV3 (curveRef k p (o - 1) u)
    | _, _, _, _ => "bad-op"
  | ["bez4", impl, kind, t, pts, mat] =>
    match parseRat t, parseV3s pts with
    | some t, some [p0, p1, p2, p3] =>
      let c : Bez4 := ⟨p0, p1, p2, p3⟩
      match kind with
      | "eval" => showPT (bez4With impl c t)
      | "rev" => showPT (bez4With impl c.reverse t)
      | "tr" => match parseAffine mat with
        | some m => showPT (bez4With impl (c.transform m) t)
        | none => "bad-op"
      | _ => "bad-op"
    | _, _ => "bad-op"
  | ["bez3", impl, kind, t, pts, mat] =>
    match parseRat t, parseV3s pts with
    | some t, some [p0, p1, p2] =>
      let c : Bez3 := ⟨p0, p1, p2⟩
      match kind with
      | "eval" => showPT (bez3With impl c t)
      | "rev" => showPT (bez3With impl c.reverse t)
      | "tr" => match parseAffine mat with
        | some m => showPT (bez3With impl (c.transform m) t)
        | none => "bad-op"
      | _ => "bad-op"
    | _, _ => "bad-op"
  | ["ins", order, t, knots, cps] =>
    match order.toNat?, parseRat t, parseRats knots, parseV3s cps with
    | some o, some t, some k, some p =>
      match insertKnot k p o t with
      | .ok (p', k') => "ok " ++ showRats k' ++ "|" ++ showV3s p'
      | .error .valueError => "err DXFValueError"
      | .error .zeroDivision => "err ZeroDivisionError"
    | _, _, _, _ => "bad-op"
  | ["refine", order, ts, knots, cps] =>
    match order.toNat?, parseRats ts, parseRats knots, parseV3s cps with
    | some o, some ts, some k, some p =>
      match knotRefinement k p o ts with
      | .ok (p', k') => "ok " ++ showRats k' ++ "|" ++ showV3s p'
      | .error .valueError => "err DXFValueError"
      | .error .zeroDivision => "err ZeroDivisionError"
    | _, _, _, _ => "bad-op"
  | ["bsplit", t, pts] =>
    match parseRat t, parseV3s pts with
    | some t, some p =>
      match splitBezier p t with
      | .ok (l, r) => "ok " ++ showV3s l ++ "|" ++ showV3s r
      | .error _ => "err ValueError"
    | _, _ => "bad-op"
  | ["revpt", order, u, knots, weights, cps] =>   -- BSpline.reverse().point(1 - (u - k0)/(kn - k0))
    match order.toNat?, parseRat u, parseRats knots, parseRats weights, parseV3s cps with
    | some o, some u, some k, some w, some p =>
      let r := reverseSpline k w p
      match evalPoint r.1 r.2.1 r.2.2 o (reverseParam k u) with
      | some v => "ok " ++ showV3 v
      | none => "err ZeroDivisionError"
    | _, _, _, _, _ => "bad-op"
  | ["ders", order, span, u, n, knots] =>       -- Basis.basis_funcs_derivatives(span, u, n)
    match order.toNat?, span.toNat?, parseRat u, n.toNat?, parseRats knots with
    | some o, some s, some u, some n, some k =>
      match basisFuncsDerivatives k o s u n with
      | some rows => "ok " ++ ";".intercalate (rows.map showRats)
      | none => "err ZeroDivisionError"
    | _, _, _, _, _ => "bad-op"
  | ["deriv", order, u, n, knots, weights, cps] =>   -- Evaluator.derivative(u, n)
    match order.toNat?, parseRat u, n.toNat?, parseRats knots, parseRats weights, parseV3s cps with
    | some o, some u, some n, some k, some w, some p =>
      match evalDerivative k w p o u n with
      | some vs => "ok " ++ showV3s vs
      | none => "err ZeroDivisionError"
    | _, _, _, _, _, _ => "bad-op"
  | ["split", order, t, knots, cps] =>
    match order.toNat?, parseRat t, parseRats knots, parseV3s cps with
    | some o, some t, some k, some p =>
      match splitBSpline k p o t with
      | .ok (s1, s2) => "ok " ++ showRats s1.2 ++ "|" ++ showV3s s1.1 ++ "|" ++ showRats s2.2 ++ "|" ++ showV3s s2.1
      | .error .valueError => "err ValueError"
      | .error .dxfValueError => "err DXFValueError"
      | .error .zeroDivision => "err ZeroDivisionError"
    | _, _, _, _ => "bad-op"
  | ["b2b", curves] =>      -- curvetools.bezier_to_bspline: curves separated by ';', 3 or 4 points each
    let parseCurve (c : String) : Option Bez4 :=
      match parseV3s c with
      | some [p0, p1, p2, p3] => some ⟨p0, p1, p2, p3⟩
      | some [p0, p1, p2] => some (quadToCubic ⟨p0, p1, p2⟩)
      | _ => none
    match (if curves.isEmpty then some [] else (curves.splitOn ";").mapM parseCurve) with
    | some cs =>
      match bezierToBSpline cs with
      | some (p, k) => "ok " ++ showRats k ++ "|" ++ showV3s p
      | none => "err ValueError"
    | none => "bad-op"
  | ["insr", order, t, knots, weights, cps] =>    -- BSpline._insert_knot_rational
    match order.toNat?, parseRat t, parseRats knots, parseRats weights, parseV3s cps with
    | some o, some t, some k, some w, some p =>
      match insertKnotRational k w p o t with
      | .ok (p', w', k') => "ok " ++ showRats k' ++ "|" ++ showRats w' ++ "|" ++ showV3s p'
      | .error .valueError => "err DXFValueError"
      | .error .zeroDivision => "err ZeroDivisionError"
    | _, _, _, _, _ => "bad-op"
  | ["bvec", order, count, u, knots, weights] =>    -- Basis.basis_vector(u)
    match order.toNat?, count.toNat?, parseRat u, parseRats knots, parseRats weights with
    | some o, some c, some u, some k, some w =>
      match basisVector k w o c u with
      | some v => "ok " ++ showRats v
      | none => "err ZeroDivisionError"
    | _, _, _, _, _ => "bad-op"
  | ["bezn", t, pts] =>       -- generic Bezier class: point and derivative
    match parseRat t, parseV3s pts with
    | some t, some p =>
      match bezierPoint p t, bezierDerivative p t with
      | some v, some (a, b, c) => "ok " ++ showV3 v ++ ";" ++ showV3 a ++ ";" ++ showV3 b ++ ";" ++ showV3 c
      | _, _ => "err ValueError"
    | _, _ => "bad-op"
  | ["refiner", order, ts, knots, weights, cps] =>
    match order.toNat?, parseRats ts, parseRats knots, parseRats weights, parseV3s cps with
    | some o, some ts, some k, some w, some p =>
      match knotRefinementRational k w p o ts with
      | .ok (p', w', k') => "ok " ++ showRats k' ++ "|" ++ showRats w' ++ "|" ++ showV3s p'
      | .error .valueError => "err DXFValueError"
      | .error .zeroDivision => "err ZeroDivisionError"
    | _, _, _, _, _ => "bad-op"
  | ["beznx", t, pts, mat] =>   -- generic Bezier class: reverse().point(t) and transform(m).point(t)
    match parseRat t, parseV3s pts, parseAffine mat with
    | some t, some p, some m =>
      match bezierPoint p.reverse t, bezierPoint (p.map m.apply) t with
      | some a, some b => "ok " ++ showV3 a ++ ";" ++ showV3 b
      | _, _ => "err ValueError"
    | _, _, _ => "bad-op"
  | ["kvec", kind, count, order, norm] =>     -- open_uniform_knot_vector / uniform_knot_vector
    match count.toNat?, order.toNat? with
    | some c, some o =>
      match kind with
      | "open" => showRats (openUniformKnots c o (norm == "1"))
      | "uniform" => showRats (uniformKnots c o (norm == "1"))
      | _ => "bad-op"
    | _, _ => "bad-op"
  | ["splitr", order, t, knots, weights, cps] =>
    match order.toNat?, parseRat t, parseRats knots, parseRats weights, parseV3s cps with
    | some o, some t, some k, some w, some p =>
      match splitBSplineRational k w p o t with
      | .ok (s1, s2) => "ok " ++ showRats s1.2.2 ++ "|" ++ showRats s1.2.1 ++ "|" ++ showV3s s1.1 ++ "|" ++
          showRats s2.2.2 ++ "|" ++ showRats s2.2.1 ++ "|" ++ showV3s s2.1
      | .error .valueError => "err ValueError"
      | .error .dxfValueError => "err DXFValueError"
      | .error .zeroDivision => "err ZeroDivisionError"
    | _, _, _, _, _ => "bad-op"
  | ["elev1", t, ua, ub, pts] =>     -- degree_elevation of a single Bezier segment
    match t.toNat?, parseRat ua, parseRat ub, parseV3s pts with
    | some t, some a, some b, some p =>
      let r := elevateBezier p t a b
      "ok " ++ showRats r.2 ++ "|" ++ showV3s r.1
    | _, _, _, _ => "bad-op"
  | ["decomp", order, knots, weights, cps] =>     -- BSpline.bezier_decomposition
    match order.toNat?, parseRats knots, parseRats weights, parseV3s cps with
    | some o, some k, some w, some p =>
      match bezierDecomposition k w p o with
      | .ok segs => "ok " ++ ";".intercalate (segs.map showV3s)
      | .error _ => "err TypeError"
    | _, _, _, _ => "bad-op"
  | ["tvec", ds] =>     -- parametrize._normalize_distances
    match parseRats ds with
    | some d => "ok " ++ showRats (normalizeDistances d)
    | none => "bad-op"
  | ["aknots", n, p, t] =>   -- averaged_knots_unconstrained
    match n.toNat?, p.toNat?, parseRats t with
    | some n, some p, some t => "ok " ++ showRats (averagedKnotsUnconstrained n p t)
    | _, _, _ => "bad-op"
  | ["revk", knots] =>
    match parseRats knots with
    | some k => showRats (reverseKnots k)
    | none => "bad-op"
  | ["bulge", sx, sy, ex, ey, b] =>
    match parseRat sx, parseRat sy, parseRat ex, parseRat ey, parseRat b with
    | some sx, some sy, some ex, some ey, some b =>
      let c := bulgeCenter sx sy ex ey b
      let a := bulgeApex sx sy ex ey b
      showRat c.1 ++ ":" ++ showRat c.2 ++ "|" ++ showRat (bulgeRadiusSq sx sy ex ey b) ++ "|" ++
        showRat a.1 ++ ":" ++ showRat a.2 ++ "|" ++ showRat (signedBulgeRadiusPy 1 b)
    | _, _, _, _, _ => "bad-op"
  | _ => "bad-op"

def main : IO Unit := Proto.run step

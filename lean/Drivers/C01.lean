import EzdxfVerif.Model.Schema
import EzdxfVerif.Model.Payload
import EzdxfVerif.Gen.Schemas
import EzdxfVerif.Gen.PayloadTables
import Drivers.Proto
open EzdxfVerif EzdxfVerif.Schema Proto
open EzdxfVerif.Payload (P2 P3)

/-! Line protocol of C01 (see harness/props/c01.py).
  values    N | i<int> | d<bits> | s<cp.cp.…> | p<x.y.z> | q<x.y> | b<byte.byte.…>
  tag       <code>:<value>              tags  tag;tag;…        labelled tag  <label>@<code>:<value>
  mapping   <code>=<id>*?,<id>*?…  joined by ';'  (one name = `one`, a trailing '+' marks a list entry)
  namespace <id>=<value> joined by ';'
-/

def dropFirst (s : String) : String := String.ofList (s.toList.drop 1)
def dropLast1 (s : String) : String := String.ofList s.toList.dropLast

def parseDots (s : String) : Option (List Nat) :=
  if s.isEmpty then some [] else (s.splitOn ".").mapM (fun t => t.toNat?)

def parseVal (s : String) : Option (Option Val) :=
  if s == "N" then some none
  else
    let body := dropFirst s
    match s.front with
    | 'i' => (parseInt body).map (fun v => some (.int v))
    | 'd' => body.toNat?.map (fun b => some (.dbl b))
    | 's' => (parseDots body).map (fun l => some (.str l))
    | 'b' => (parseDots body).map (fun l => some (.bin l))
    | 'p' => match parseDots body with
      | some [x, y, z] => some (some (.pt x y z))
      | _ => none
    | 'q' => match parseDots body with
      | some [x, y] => some (some (.pt2 x y))
      | _ => none
    | _ => none

def parseVal1 (s : String) : Option Val := (parseVal s).bind id

def showDots (l : List Nat) : String := ".".intercalate (l.map toString)

def showVal : Val → String
  | .int v => s!"i{v}"
  | .dbl b => s!"d{b}"
  | .str s => "s" ++ showDots s
  | .bin s => "b" ++ showDots s
  | .pt x y z => s!"p{x}.{y}.{z}"
  | .pt2 x y => s!"q{x}.{y}"

def showOVal : Option Val → String
  | none => "N"
  | some v => showVal v

def showTag (t : Tag) : String := s!"{t.code}:{showVal t.val}"

def parseTag (s : String) : Option Tag :=
  match s.splitOn ":" with
  | [c, v] => do
    let code ← parseInt c
    let val ← parseVal1 v
    pure ⟨code, val⟩
  | _ => none

def parseList {α : Type} (f : String → Option α) (s : String) : Option (List α) :=
  if s.isEmpty then some [] else (s.splitOn ";").mapM f

def parseLTag (s : String) : Option LTag :=
  match s.splitOn "@" with
  | [l, t] => do
    let lab ← l.toNat?
    let tag ← parseTag t
    pure ⟨lab, tag⟩
  | _ => none

def parseMName (s : String) : Option MName :=
  if s.endsWith "*" then (dropLast1 s).toNat?.map (fun n => ⟨n, true⟩)
  else s.toNat?.map (fun n => ⟨n, false⟩)

def parseMEntry (s : String) : Option (Int × MEntry) :=
  match s.splitOn "=" with
  | [c, v] => do
    let code ← parseInt c
    if v.endsWith "+" then
      let names ← ((dropLast1 v).splitOn ",").mapM parseMName
      pure (code, .many names)
    else
      let n ← parseMName v
      pure (code, .one n)
  | _ => none

def parseNSEntry (s : String) : Option (Name × Val) :=
  match s.splitOn "=" with
  | [n, v] => do
    let name ← n.toNat?
    let val ← parseVal1 v
    pure (name, val)
  | _ => none

def parseXType : String → Option XType
  | "0" => some .none | "1" => some .point2d | "2" => some .point3d | "3" => some .anyPoint
  | "4" => some .callback | _ => none

def parseBool : String → Option Bool
  | "0" => some false | "1" => some true | _ => none

/-- distinct names of a namespace in ascending order with the value `get` returns -/
def showNS (ns : NS) (only : Option (List Name)) : String :=
  let names := (ns.map (·.1)).eraseDups
  let names := match only with
    | some l => names.filter (fun n => l.contains n)
    | none => names
  let sorted := names.toArray.qsort (· < ·) |>.toList
  ";".intercalate (sorted.map (fun n => s!"{n}={showOVal (NS.get ns n)}"))

def findClass (dxftype : Name) : Option ClassSchema :=
  Gen.Schemas.classes.find? (fun c => c.dxftype == dxftype)

def findPlan (c : ClassSchema) (ver : Nat) : Option Plan := c.plans.find? (fun p => p.ver == ver)

def parseSubs (s : String) : Option (List (List LTag)) :=
  if s.isEmpty then some [] else (s.splitOn "/").mapM (parseList parseLTag)

/-! payload codecs (Model/Payload.lean): requests carry tag lists, responses the loaded structure, the remaining tags
    and the tags the model writes for the loaded structure -/

/-- the double `360.0 - x` on bit patterns (driver only: the theorems hold for every function) -/
def compF (b : Nat) : Nat := ((360.0 : Float) - Float.ofBits b.toUInt64).toBits.toNat
def fsubBits (a b : Nat) : Nat := (Float.ofBits a.toUInt64 - Float.ofBits b.toUInt64).toBits.toNat
def subF (a b : P2) : P2 := (fsubBits a.1 b.1, fsubBits a.2 b.2)
/-- `math.degrees` / `math.radians` of CPython: multiplication by the constants 180/pi and pi/180 -/
def degF (b : Nat) : Nat := (Float.ofBits b.toUInt64 * ((180.0 : Float) / 3.141592653589793)).toBits.toNat
def radF (b : Nat) : Nat := (Float.ofBits b.toUInt64 * ((3.141592653589793 : Float) / 180.0)).toBits.toNat

def showTags (ts : List Tag) : String := ";".intercalate (ts.map showTag)
def showP2 (p : P2) : String := s!"{p.1}.{p.2}"
def showP3 (p : P3) : String := s!"{p.1}.{p.2.1}.{p.2.2}"
def showNatsC (l : List Nat) : String := ",".intercalate (l.map toString)
def showIntsC (l : List Int) : String := ",".intercalate (l.map toString)
def showOP2 : Option P2 → String
  | some p => showP2 p
  | none => "N"
def showHandles (hs : List (List Nat)) : String := ",".intercalate (hs.map showDots)

def showEdge : Payload.Edge → String
  | .line s e => s!"L({showP2 s},{showP2 e})"
  | .arc c r sa ea ccw => s!"A({showP2 c},{r},{sa},{ea},{ccw})"
  | .ellipse c m r sa ea ccw => s!"E({showP2 c},{showP2 m},{r},{sa},{ea},{ccw})"
  | .spline d r p k c w f st et =>
    s!"S({d},{r},{p},[{showNatsC k}],[{",".intercalate (c.map showP2)}],[{showNatsC w}],[{",".intercalate (f.map showP2)}],{showOP2 st},{showOP2 et})"

def showPath : Payload.BPath → String
  | .poly fl cl vs src =>
    s!"P({fl},{cl},[{",".intercalate (vs.map (fun v => s!"{v.1}.{v.2.1}.{v.2.2}"))}],[{showHandles src}])"
  | .edges fl es src => s!"G({fl},[{",".intercalate (es.map showEdge)}],[{showHandles src}])"

def showPaths (ps : List Payload.BPath) : String := " ".intercalate (ps.map showPath)

def payloadStep (op : String) (args : List String) : Option String :=
  match op, args with
  | "pspl", [tags] => do
    let ts ← parseList parseTag tags
    let r := Payload.loadSpline ts
    let d := r.1
    pure (s!"k[{showNatsC d.knots}] w[{showNatsC d.weights}] c[{",".intercalate (d.ctrl.map showP3)}] " ++
      s!"f[{",".intercalate (d.fit.map showP3)}]|{showTags r.2}|{showTags (Payload.splineCounts d ++ Payload.exportSplineData d)}")
  | "pmesh", [tags] => do
    let ts ← parseList parseTag tags
    match Payload.loadMesh id ts with
    | none => pure "err"
    | some (m, rest) =>
      pure (s!"v[{",".intercalate (m.verts.map showP3)}] f[{";".intercalate (m.faces.map showIntsC)}] e[{showIntsC m.edges}] " ++
        s!"c[{showNatsC m.creases}]|{showTags rest}|{showTags (Payload.exportMesh m)}")
  | "pmtext", [tags] => do
    let ts ← parseList parseTag tags
    let r := Payload.loadMText ts
    pure (s!"{showDots (r.1.map Char.toNat)}|{showTags r.2}|{showTags (Payload.exportMText r.1)}")
  | "pmtextexp", [text] => do
    let t ← parseDots text
    pure (showTags (Payload.exportMText (t.map Char.ofNat)))
  | "pdict", [tags] => do
    let ts ← parseList parseTag tags
    let d := Payload.loadDict ts
    pure (s!"{d.valueCode} " ++ ",".intercalate (d.items.map (fun kv => s!"{showDots kv.1}={showDots kv.2}")) ++
      "|" ++ showTags (Payload.exportDict d))
  | "ppaths", [r2010, hatch, tags] => do
    let r ← parseBool r2010
    let h ← parseBool hatch
    let ts ← parseList parseTag tags
    match Payload.loadPaths compF ts with
    | none => pure "err"
    | some ps =>
      let ok := ps.all (fun p => match p with
        | .edges _ es _ => es.all Payload.edgeExportOK
        | _ => true)
      pure (showPaths ps ++ "|" ++ (if ok then showTags (Payload.exportPaths compF subF r h ps) else "raises"))
  | "phatch", [tags] => do
    let ts ← parseList parseTag tags
    match Payload.loadHatchPaths Gen.PayloadTables.pathCodes compF [] ts with
    | none => pure "err"
    | some (ps, rest) => pure (showPaths ps ++ "|" ++ showTags rest)
  | "phatchall", [tags] => do
    let ts ← parseList parseTag tags
    match Payload.loadHatchAll Gen.PayloadTables.pathCodes Gen.PayloadTables.patternCodes compF ts with
    | none => pure "err"
    | some (d, rest) =>
      let pat := match d.pattern with
        | none => "N"
        | some ls => " ".intercalate (ls.map (fun l => s!"{l.angle},{showP2 l.base},{showP2 l.offset},[{showNatsC l.dashes}]"))
      pure (showPaths d.paths ++ "|" ++ showTags d.gradient ++ "|" ++ pat ++ "|" ++ ",".intercalate (d.seeds.map showP2) ++ "|" ++ showTags rest)
  | "pgrad", [tags] => do
    let ts ← parseList parseTag tags
    match Payload.loadGrad degF ts with
    | none => pure "err"
    | some g =>
      let so := fun (o : Option Int) => match o with | some v => toString v | none => "N"
      pure (s!"{g.kind},{g.rot},{g.centered},{g.oneColor},{g.tint},{showDots g.name},{g.ncolors},{so g.aci1},{g.c1},{so g.aci2},{g.c2}|" ++
        showTags (Payload.exportGrad radF g))
  | "pfrozen", [tbl, names, tags] => do
    let es ← parseList (fun e => match e.splitOn "," with
      | [k, n, h] => do
        let k' ← parseDots k
        let n' ← parseDots n
        let h' ← parseDots h
        pure (⟨k', n', h'⟩ : Payload.ResEntry)
      | _ => none) tbl
    let ns ← parseList parseDots names
    let ts ← parseList parseTag tags
    let lower := fun (n : List Nat) => n.map (fun c => if 65 ≤ c ∧ c ≤ 90 then c + 32 else c)
    let r := Payload.loadFrozen ts
    pure (showTags (Payload.exportFrozen lower es ns) ++ "|" ++ showHandles (Payload.handlesToNames es r.1) ++ "|" ++ showTags r.2)
  | "pcols", [hd, hi, hw, tags] => do
    let d ← parseBool hd
    let i ← parseBool hi
    let w ← parseBool hw
    let ts ← parseList parseTag tags
    -- the generator keeps total_width at 0.0 whenever the count has to be recomputed from the widths: it stays 0
    let r := Payload.loadCols (fun _ _ _ => 0) d i w ts
    let c := r.c
    let so3 := fun (o : Option P3) => match o with | some p => showP3 p | none => "N"
    let son := fun (o : Option Nat) => match o with | some n => toString n | none => "N"
    pure (s!"{c.ctype},{c.count},{c.autoH},{c.revFlow},{c.definedH},{c.width},{c.gutter},{c.totalW},{c.totalH},[{showNatsC c.heights}]|{so3 r.dir}|{so3 r.ins}|{son r.w}")
  | "pltr12", [tags] => do
    let ts ← parseList parseTag tags
    let sumAbsF := fun (l : List Tag) =>
      (l.foldl (fun (acc : Float) t => acc + Float.abs (Float.ofBits (dblOf t.val).toUInt64)) 0.0).toBits.toNat
    pure (showTags (Payload.ltypeR12 sumAbsF ts))
  | "pseeds", [tags] => do
    let ts ← parseList parseTag tags
    let r := Payload.loadSeeds [] ts
    pure (",".intercalate (r.1.map showP2) ++ "|" ++ showTags r.2 ++ "|" ++ showTags (Payload.exportSeeds r.1))
  | "pleader", [tags] => do
    let ts ← parseList parseTag tags
    let r := Payload.loadLeader ts
    pure (",".intercalate (r.1.map showP3) ++ "|" ++ showTags r.2 ++ "|" ++ showTags (Payload.exportLeader r.1))
  | "pgroup", [tags] => do
    let ts ← parseList parseTag tags
    let hs := Payload.loadGroup ts
    pure (showHandles hs ++ "|" ++ showTags (Payload.exportGroup hs))
  | "pimage", [tags] => do
    let ts ← parseList parseTag tags
    let r := Payload.loadImageBoundary ts
    pure (",".intercalate (r.1.map showP2) ++ "|" ++ showTags r.2 ++ "|" ++ showTags (Payload.exportImageBoundary r.1))
  | "pmline", [tags] => do
    let ts ← parseList parseTag tags
    let vs := Payload.loadMLine ts
    let ok := vs.all (fun v => v.lps.length == v.fps.length)
    let showLL := fun (ll : List (List Nat)) => ";".intercalate (ll.map showNatsC)
    pure (" ".intercalate (vs.map (fun v => s!"{showP3 v.loc},{showP3 v.dir},{showP3 v.miter},[{showLL v.lps}],[{showLL v.fps}]")) ++
      "|" ++ (if ok then showTags (Payload.exportMLine vs) else showTags (Payload.exportMLine vs)))
  | "ppat", [tags] => do
    let ts ← parseList parseTag tags
    let ls := Payload.loadPattern ts
    pure (" ".intercalate (ls.map (fun l => s!"{l.angle},{showP2 l.base},{showP2 l.offset},[{showNatsC l.dashes}]")) ++
      "|" ++ showTags (Payload.exportPattern ls))
  | _, _ => none

def step (line : String) : String :=
  match (match line.splitOn "|" with
      | op :: args => if op.startsWith "p" then payloadStep op args else none
      | [] => none) with
  | some r => r
  | none =>
  match line.splitOn "|" with
  -- one attribute through _export_dxf_attribute_optional / _export_group_codes
  | ["exp", code, xt, dflt, opt, minver, ver, force, stored] =>
    match parseInt code, parseXType xt, parseVal dflt, parseBool opt, minver.toNat?, ver.toNat?, parseBool force,
          parseVal stored with
    | some c, some x, some d, some o, some mv, some v, some f, some st =>
      let a : Attr := ⟨1, c, x, d, o, mv⟩
      let out := match exportAttr v f a st with
        | [] => "N"
        | t :: _ => if exportRaises a t.val then "err TypeError" else showTag t
      match st with
      | some sv => if !inClass c sv then "bad-op class" else out
      | none => out
    | _, _, _, _, _, _, _, _ => "bad-op"
  -- fast_load_dxfattribs on one tag list
  | ["fast", recover, r12, mapping, tags, ns] =>
    match parseBool recover, parseBool r12, parseList parseMEntry mapping, parseList parseTag tags,
          parseList parseNSEntry ns with
    | some rc, some r, some m, some ts, some n0 =>
      let res := fastLoad m ts n0
      let res := if rc && !r then recoverLoad Gen.Schemas.recoverTable res.2 res.1 else res
      showNS res.1 none ++ "|" ++ ";".intercalate (res.2.map showTag)
    | _, _, _, _, _ => "bad-op"
  | ["simple", mapping, tags, ns] =>
    match parseList parseMEntry mapping, parseList parseTag tags, parseList parseNSEntry ns with
    | some m, some ts, some n0 => showNS (simpleLoad m ts n0) none
    | _, _, _ => "bad-op"
  -- the attribute tags a registered class writes for a namespace (plan from Gen/Schemas)
  | [op, dxftype, ver, force, ns] =>
    if op != "expent" && op != "expents" then "bad-op" else
    match dxftype.toNat?, ver.toNat?, parseBool force, parseList parseNSEntry ns with
    | some d, some v, some f, some n0 =>
      match findClass d with
      | none => "no-class"
      | some c =>
        match findPlan c v with
        | none => "no-plan"
        | some p0 =>
          -- `expents`: the plan without the payload tags of the traced instance (Props section 8)
          let p := if op == "expents" then stripPlan p0 else p0
          match symSegs c.attrs p.segs with
          | none => "err DXFAttributeError"
          | some sss =>
            let segs := sss.map (fun ss =>
              ";".intercalate (ss.filterMap (fun s =>
                match s.src with
                | .attr a =>
                  some (match written p.ver f a (NS.get n0 a.name) with
                    | some val => s!"{s.lab}@{a.name}:{showTag ⟨a.code, val⟩}"
                    | none => s!"{s.lab}@{a.name}:N")
                | .marker n => some s!"0@M{n}"
                | .raw => some s!"{s.lab}@r{s.code}")))
            "/".intercalate segs
    | _, _, _, _ => "bad-op"
  -- the namespace the loader calls of a registered class build from the given subclasses
  | ["loadent", dxftype, ver, subs] =>
    match dxftype.toNat?, ver.toNat?, parseSubs subs with
    | some d, some v, some ss =>
      match findClass d with
      | none => "no-class"
      | some c =>
        match findPlan c v with
        | none => "no-plan"
        | some p => showNS (loadEntity Gen.Schemas.recoverTable p ss) (some (planNames p))
    | _, _, _ => "bad-op"
  | ["wf", dxftype, ver] =>
    match dxftype.toNat?, ver.toNat? with
    | some d, some v =>
      match findClass d with
      | none => "no-class"
      | some c =>
        match findPlan c v with
        | none => "no-plan"
        | some p =>
          let wf := wfPlan Gen.Schemas.recoverTable c.attrs p
          s!"{wf} exp={(expNames c.attrs p).length} unc={(uncovered Gen.Schemas.recoverTable c.attrs p).length}"
    | _, _ => "bad-op"
  -- payload codecs
  | ["lw", tags] =>
    match parseList parseTag tags with
    | some ts =>
      let r := loadLW ts
      ";".intercalate (r.1.map (fun p => s!"{p.x}.{p.y}.{p.s}.{p.e}.{p.b}")) ++ "|" ++
        ";".intercalate (r.2.map showTag)
    | none => "bad-op"
  | ["lwexp", pts] =>
    match parseList (fun s => match parseDots s with
        | some [x, y, st, e, b] => some (⟨x, y, st, e, b⟩ : LWPoint)
        | _ => none) pts with
    | some ps => ";".intercalate ((exportLW ps).map showTag)
    | none => "bad-op"
  | ["mtags", size, text] =>
    match size.toNat?, parseDots text with
    | some sz, some t =>
      if h : 0 < sz then
        let tags := textToMultiTags sz h 303 t
        ";".intercalate (tags.map (fun tg => showDots (strOf tg.val))) ++ "|" ++ showDots (multiTagsToText tags)
      else "bad-op size"
    | _, _ => "bad-op"
  | ["link", ents] =>
    match parseList (fun s => match s with
        | "P" => some EKind.polyline | "I1" => some (EKind.insert true) | "I0" => some (EKind.insert false)
        | "V" => some EKind.vertex | "A" => some EKind.attrib | "S" => some EKind.seqend
        | "O" => some (EKind.other 0) | _ => none) ents with
    | some ks =>
      let es := ks.zipIdx.map (fun (k, i) => (⟨k, i⟩ : Ent))
      match link es with
      | .error _ => "err DXFStructureError"
      | .ok nodes =>
        ";".intercalate (nodes.map (fun n => match n with
          | .single e => s!"{e.id}"
          | .linked m subs s => s!"{m.id}[" ++ ",".intercalate (subs.map (fun x => toString x.id)) ++ s!"]{s.id}"
          | .unterminated m subs => s!"{m.id}[" ++ ",".intercalate (subs.map (fun x => toString x.id)) ++ "]-"))
    | none => "bad-op"
  | _ => "bad-op"

def main : IO Unit := Proto.run step

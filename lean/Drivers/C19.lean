import EzdxfVerif.Model.Polygon
import EzdxfVerif.Gen.PolygonKernels
import Drivers.Proto
open EzdxfVerif EzdxfVerif.Polygon Proto

/-! line protocol driver of C19.  Rationals are `p/q` or `p` (optional leading `-`), points `x,y`, point lists are space
separated, lists of point lists are separated by `;`. -/

def parseRat (s : String) : Option Rat :=
  match s.splitOn "/" with
  | [n] => (parseInt n).map (fun z => (z : Rat))
  | [n, d] => match parseInt n, d.toNat? with
    | some z, some k => if k = 0 then none else some ((z : Rat) / (k : Rat))
    | _, _ => none
  | _ => none

def showRat (r : Rat) : String :=
  if r.den = 1 then toString r.num else toString r.num ++ "/" ++ toString r.den

def parsePt (s : String) : Option Pt :=
  match s.splitOn "," with
  | [a, b] => match parseRat a, parseRat b with
    | some x, some y => some ⟨x, y⟩
    | _, _ => none
  | _ => none

def parsePts (s : String) : Option (List Pt) :=
  if s.isEmpty then some [] else (s.splitOn " ").mapM parsePt

def parseRings (s : String) : Option (List (List Pt)) :=
  if s.isEmpty then some [] else (s.splitOn ";").mapM parsePts

def showPt (p : Pt) : String := showRat p.x ++ "," ++ showRat p.y
def showPts (l : List Pt) : String := " ".intercalate (l.map showPt)

def showTri (t : Tri) : String := toString t.1.pt ++ "-" ++ toString t.2.1.pt ++ "-" ++ toString t.2.2.pt

def parseBool (s : String) : Option Bool :=
  if s = "1" then some true else if s = "0" then some false else none

/-- exactly on the line `cs -> ce` -/
def onLine (cs ce p : Pt) : Bool := !shInside cs ce p && !shInside ce cs p

/-- decision band of the float implementation: a vertex that was computed by `edge_intersection()` (these are exactly the
result vertices on the clipping line of their step) lies exactly on a later clipping line it is tested against, so rounding
decides `is_inside` in the code -/
def shBand (computed : List Pt) (tol : Rat) (cs : Pt) : List Pt → List Pt → Bool
  | [], _ => false
  | ce :: rest, clipped =>
    let next := clipEdge cs ce tol clipped
    (popClosing clipped tol).any (fun v => computed.contains v && onLine cs ce v)
      || shBand (computed ++ next.filter (onLine cs ce)) tol ce rest next

def shLineBand (a b : Pt) (tol : Rat) (cs : Pt) : List Pt → Pt → Pt → Bool
  | [], _, _ => false
  | ce :: rest, es, ee =>
    ((es != a && onLine cs ce es) || (ee != b && onLine cs ce ee)) ||
    (match clipLineGo tol cs [ce] es ee with
     | some (p, q) => shLineBand a b tol ce rest p q
     | none => false)

def fuelFor (n : Nat) : Nat := 40 * (n + 4) * (n + 4) + 1000

def step (line : String) : String :=
  match line.splitOn "|" with
  | ["earcut", e, h] => match parsePts e, parseRings h with
    | some ext, some holes =>
      let n := ext.length + (holes.map List.length).sum
      match earcut (fuelFor n) ext holes with
      | .hashed => "hashed"
      | .ok o det =>
        (if o.fuelOut then "fuel " else if det then "detached " else "ok ")
          ++ " ".intercalate (o.tris.map showTri)
          ++ " #left=" ++ toString ((o.left.filter (fun r => decide (3 ≤ r.length))).length)
          ++ " cured=" ++ toString o.cured.length
    | _, _ => "bad-op"
  | ["tris", e, h] => match parsePts e, parseRings h with   -- triangles only (for the comparison with the code)
    | some ext, some holes =>
      let n := ext.length + (holes.map List.length).sum
      match earcut (fuelFor n) ext holes with
      | .hashed => "hashed"
      | .ok o det =>
        (if o.fuelOut then "fuel " else if det then "detached " else "ok ") ++ " ".intercalate (o.tris.map showTri)
    | _, _ => "bad-op"
  | ["sh", ccw, tol, c, s] => match parseBool ccw, parseRat tol, parsePts c, parsePts s with
    | some ccw, some tol, some clip, some subj =>
      match mkConvexClip clip ccw tol with
      | none => "err ValueError"
      | some cl =>
        let band := match cl with
          | [] => false
          | c :: cs => shBand [] tol (lastPt c cs) (c :: cs) subj
        (if band then "band " else "ok ") ++ showPts (clipPolygon cl tol subj)
    | _, _, _, _ => "bad-op"
  | ["shline", ccw, tol, c, a, b] => match parseBool ccw, parseRat tol, parsePts c, parsePt a, parsePt b with
    | some ccw, some tol, some clip, some a, some b =>
      match mkConvexClip clip ccw tol with
      | none => "err ValueError"
      | some cl =>
        let band := match cl with
          | [] => false
          | c :: cs => shLineBand a b tol (lastPt c cs) (c :: cs) a b
        (if band then "band " else "") ++ (match clipLineConvex cl tol a b with
        | none => "none"
        | some (p, q) => "ok " ++ showPt p ++ " " ++ showPt q)
    | _, _, _, _, _ => "bad-op"
  | ["cs", lo, hi, a, b] => match parsePt lo, parsePt hi, parsePt a, parsePt b with
    | some lo, some hi, some a, some b =>
      match csClipLine ⟨lo.x, hi.x, lo.y, hi.y⟩ 64 a b with
      | .accept p q => "accept " ++ showPt p ++ " " ++ showPt q
      | .reject => "reject"
      | .fuel => "fuel"
    | _, _, _, _ => "bad-op"
  | ["code", lo, hi, a] => match parsePt lo, parsePt hi, parsePt a with
    | some lo, some hi, some a => toString ((⟨lo.x, hi.x, lo.y, hi.y⟩ : Win).encode a.x a.y)
    | _, _, _ => "bad-op"
  | ["hull", p] => match parsePts p with
    | some pts => match convexHull pts with
      | none => "err ValueError"
      | some h => "ok " ++ showPts h
    | none => "bad-op"
  | ["convex", strict, eps, p] => match parseBool strict, parseRat eps, parsePts p with
    | some strict, some eps, some pts => if isConvexPolygon strict eps pts then "1" else "0"
    | _, _, _ => "bad-op"
  | ["cfb", tol, c, sub] => match parseRat tol, parsePts c, parsePts sub with
    | some tol, some clip, some subj =>
      match mkConcaveClip clip tol with
      | none => "err ValueError"
      | some cl => match concaveNoPart cl tol subj with
        | none => "none"
        | some v => "whole " ++ showPts v
    | _, _, _ => "bad-op"
  | ["gh", op, ins, bits] => match parseBool op, parseBool ins with
    | some op, some ins =>
      let isect := bits.toList.map (fun ch => ch == '1')
      let marks := ghPhase2 op ins isect
      String.ofList (marks.map (fun mk => match mk with | none => '-' | some true => '1' | some false => '0')) ++ "|" ++
        String.ofList ((ghUsed marks).map (fun b => if b then '1' else '0'))
    | _, _ => "bad-op"
  | ["pip", tol, p, poly] => match parseRat tol, parsePt p, parsePts poly with
    | some tol, some p, some poly => toString (pointInPolygon p poly tol)
    | _, _, _ => "bad-op"
  | ["cw", p] => match parsePts p with
    | some pts => match hasClockwiseOrientation pts with
      | none => "err ValueError"
      | some b => if b then "1" else "0"
    | none => "bad-op"
  | ["ill", v, tol, a, b, c, d] => match parseBool v, parseRat tol, parsePt a, parsePt b, parsePt c, parsePt d with
    | some v, some tol, some a, some b, some c, some d =>
      match lineLine v tol a b c d with
      | none => "none"
      | some p => "ok " ++ showPt p
    | _, _, _, _, _, _ => "bad-op"
  | _ => "bad-op"

def main : IO Unit := Proto.run step

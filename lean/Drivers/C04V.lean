import EzdxfVerif.Model.DocVersion
import EzdxfVerif.Gen.DocVersionTables
import Drivers.Proto
open EzdxfVerif EzdxfVerif.DocVersion EzdxfVerif.DocVersion.Gen Proto

/-! Line-protocol driver of the version-gate model (C04, stream X2). -/

def words (s : String) : List String := (s.splitOn " ").filter (· ≠ "")

def stepV (line : String) : String :=
  match line.splitOn "|" with
  | ["hdr", v, vars] =>
    match v.toNat? with
    | some v => " ".intercalate (exportHeader headerVars v (words vars))
    | none => "bad-op"
  | ["custom", v, vars] =>
    match v.toNat? with
    | some v => if customWritten headerVars customFallback v (words vars) then "1" else "0"
    | none => "bad-op"
  | ["cls", v, cls, inUse] =>
    match v.toNat? with
    | some v => " ".intercalate ((exportClasses classDefs reqClasses coClasses v (words cls) (words inUse)).toArray.qsort (· < ·)).toList
    | none => "bad-op"
  | ["clsfix", v, cls, inUse] =>
    match v.toNat? with
    | some v => " ".intercalate (exportClasses classDefs reqClasses coClasses v (words cls) (words inUse))
    | none => "bad-op"
  | ["gate", v, types] =>
    match v.toNat? with
    | some v => " ".intercalate (exportTypes entityMinVer v (words types))
    | none => "bad-op"
  | _ => "bad-op"

def main : IO Unit := Proto.run stepV

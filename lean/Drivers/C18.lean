import EzdxfVerif.Model.Render
import EzdxfVerif.Gen.RenderTables
import Drivers.Proto
open EzdxfVerif EzdxfVerif.Render Proto

/-! Line protocol driver of C18.
    request  `draw|<layout>|<export 0/1>|<layers>|<blocks>|<entities>`   (also `spec|…`, `reach|…`)
      layers   = `name,color,truecolor|-1,transparency|-1,linetype,lineweight,flags,plot` joined by `;`
      blocks   = `name,basex,basey:<entities>` joined by `!`
      entities = joined by `;`
         leaf   `k,<kind>,<props>,x y x y …`           kind: line point popen pclosed solid circle attdef
         insert `i,<props>,block,px,py,sx,sy,q,flip,<attribs>`   q = rotation / 90°, attribs `props~flag~x~y` joined by `&`
      props    = `layer,color,truecolor|-1,linetype,lineweight,invisible,transparency|-1`
    response `ok <prim>;<prim>…` with prim = `kind,#rrggbb[aa],pen,layer,linetype,lineweight,x y x y…`, or `err <PythonError>`;
    numbers are `p` or `p/q`. -/

def parseRat (s : String) : Option Rat :=
  match s.splitOn "/" with
  | [n] => (parseInt n).map (fun i => (i : Rat))
  | [n, d] => match parseInt n, d.toNat? with
    | some i, some k => if k = 0 then none else some ((i : Rat) / (k : Rat))
    | _, _ => none
  | _ => none

def showRat (r : Rat) : String :=
  if r.den = 1 then toString r.num else toString r.num ++ "/" ++ toString r.den

def splitList (s : String) (sep : String) : List String := if s.isEmpty then [] else s.splitOn sep

def parseOptNat (s : String) : Option (Option Nat) :=
  match parseInt s with
  | some i => if i < 0 then some none else some (some i.toNat)
  | none => none

def parseBool (s : String) : Option Bool :=
  match s with
  | "0" => some false
  | "1" => some true
  | _ => none

def parseProps (fs : List String) : Option EProps :=
  match fs with
  | [layer, color, tc, lt, lw, inv, tr] =>
    match parseInt color, parseOptNat tc, parseInt lw, parseBool inv, parseOptNat tr with
    | some c, some tc, some lw, some inv, some tr => some ⟨layer, c, tc, lt, lw, inv, tr⟩
    | _, _, _, _, _ => none
  | _ => none

def parsePts (s : String) : Option (List P2) :=
  let rec go : List String → Option (List P2)
    | [] => some []
    | [_] => none
    | x :: y :: r => match parseRat x, parseRat y, go r with
      | some a, some b, some t => some (⟨a, b⟩ :: t)
      | _, _, _ => none
  go (splitList s " ")

def parseKind (s : String) : Option Kind :=
  match s with
  | "line" => some .line | "point" => some .point | "popen" => some (.polyline false)
  | "pclosed" => some (.polyline true) | "solid" => some .solid | "circle" => some .circle
  | "attdef" => some .attdef | _ => none

def parseAttrib (s : String) : Option Attrib :=
  match s.splitOn "~" with
  | [layer, color, tc, lt, lw, inv, tr, flag, x, y] =>
    match parseProps [layer, color, tc, lt, lw, inv, tr], parseBool flag, parseRat x, parseRat y with
    | some p, some f, some a, some b => some ⟨p, f, ⟨a, b⟩⟩
    | _, _, _, _ => none
  | _ => none

def quarterDir (q : Nat) : P2 :=
  match q % 4 with
  | 0 => ⟨1, 0⟩ | 1 => ⟨0, 1⟩ | 2 => ⟨-1, 0⟩ | _ => ⟨0, -1⟩

def parseEnt (s : String) : Option Ent :=
  match s.splitOn "," with
  | ["k", kind, layer, color, tc, lt, lw, inv, tr, pts] =>
    match parseKind kind, parseProps [layer, color, tc, lt, lw, inv, tr], parsePts pts with
    | some k, some p, some ps => some (.leaf k p ps)
    | _, _, _ => none
  | ["i", layer, color, tc, lt, lw, inv, tr, name, px, py, sx, sy, q, flip, atts] =>
    match parseProps [layer, color, tc, lt, lw, inv, tr], parseRat px, parseRat py, parseRat sx, parseRat sy,
          q.toNat?, parseBool flip, (splitList atts "&").mapM parseAttrib with
    | some p, some px, some py, some sx, some sy, some q, some fl, some as =>
      some (.ins ⟨p, name, ⟨px, py⟩, sx, sy, quarterDir q, fl, as⟩)
    | _, _, _, _, _, _, _, _ => none
  | _ => none

def parseEnts (s : String) : Option (List Ent) := (splitList s ";").mapM parseEnt

def parseBlock (s : String) : Option Block :=
  match s.splitOn ":" with
  | [hdr, ents] =>
    match hdr.splitOn ",", parseEnts ents with
    | [name, bx, by'], some es =>
      match parseRat bx, parseRat by' with
      | some x, some y => some ⟨name, ⟨x, y⟩, es⟩
      | _, _ => none
    | _, _ => none
  | _ => none

def parseLayer (s : String) : Option RawLayer :=
  match s.splitOn "," with
  | [name, color, tc, tr, lt, lw, flags, plot] =>
    match parseInt color, parseOptNat tc, parseOptNat tr, parseInt lw, flags.toNat?, parseBool plot with
    | some c, some tc, some tr, some lw, some fl, some pl => some ⟨name, c, tc, tr, lt, lw, fl, pl⟩
    | _, _, _, _, _, _ => none
  | _ => none

def hexDigit (n : Nat) : Char := if n < 10 then Char.ofNat (48 + n) else Char.ofNat (87 + n)
def hex2 (n : Nat) : String := String.ofList [hexDigit (n / 16 % 16), hexDigit (n % 16)]
def showColor (c : Color) : String :=
  "#" ++ hex2 (c.rgb / 65536 % 256) ++ hex2 (c.rgb / 256 % 256) ++ hex2 (c.rgb % 256) ++
    (match c.alpha with | some a => hex2 a | none => "")

def showKind : PKind → String
  | .line => "line" | .point => "point" | .path => "path" | .fill => "fill" | .curve => "curve"
  | .attrib => "attrib" | .attdef => "attdef"

def showPrim (p : Prim) : String :=
  ",".intercalate [showKind p.kind, showColor p.color, toString p.pen, p.layer, p.linetype, showRat p.lineweight,
    " ".intercalate (p.pts.map (fun q => showRat q.x ++ " " ++ showRat q.y))]

def showErr : Err → String
  | .recursion => "RecursionError" | .structure => "DXFStructureError" | .index => "IndexError"

def showPrims (ps : List Prim) : String := "ok " ++ ";".intercalate (ps.map showPrim)

structure Req where
  doc : Doc
  ctx : Ctx
  ents : List Ent

def parseReq (layout exp layers blocks ents : String) : Option Req :=
  match parseBool exp, (splitList layers ";").mapM parseLayer, (splitList blocks "!").mapM parseBlock, parseEnts ents with
  | some ex, some ls, some bs, some es =>
    let fg := if layout = "msp" then Gen.RenderTables.mspFg else Gen.RenderTables.pspFg
    some ⟨⟨bs⟩, mkCtx fg Gen.RenderTables.aciRgb ex ls, es⟩
  | _, _, _, _ => none

def step (line : String) : String :=
  match line.splitOn "|" with
  | ["draw", layout, exp, layers, blocks, ents] =>
    match parseReq layout exp layers blocks ents with
    | some r =>
      match drawLayout r.doc r.ctx r.ents with
      | .ok (ps, st) => if st = State.init then showPrims ps else "ok-unbalanced " ++ showPrims ps
      | .error e => "err " ++ showErr e
    | none => "bad-op parse"
  | ["spec", layout, exp, layers, blocks, ents] =>
    match parseReq layout exp layers blocks ents with
    | some r =>
      match unfold r.doc (r.doc.blocks.length + 1) r.ents with
      | some f => showPrims (Spec.flatten r.ctx none Aff.id f)
      | none => "no-tree"
    | none => "bad-op parse"
  | ["reach", layout, exp, layers, blocks, ents] =>
    match parseReq layout exp layers blocks ents with
    | some r => if reach r.doc (r.doc.blocks.length + 1) r.ents then "1" else "0"
    | none => "bad-op parse"
  | _ => "bad-op"

def main : IO Unit := Proto.run step

import EzdxfVerif.Model.Render
import EzdxfVerif.Gen.RenderTables
import Drivers.Proto
open EzdxfVerif EzdxfVerif.Render Proto

/-! Line protocol driver of C18.
    request  `draw|<layout>|<export 0/1>|<layers>|<blocks>|<entities>[|<ctb>[|<keep>]]`   (also `spec|…`, `reach|…`, `lawful|…`)
      ctb      = `aci:lw|-:rgb|-` joined by `;` (lineweight in mm as a fraction, colour 0xRRGGBB decimal), may be empty
      keep     = handles (decimal) of the layout entities that pass `filter_func`, joined by `;`
      a 9th field `allon|alloff|mono` (with an empty keep field) = layer property override function installed before drawing;
      9th field `order` + 10th field `entityhandle:sorthandle;…` = redraw order table of the layout (keep `*` = no filter)
    request  `layers|<layout>|<export>|<layers>|<frozen names joined by ;>[|<overrides>]` → resolved layer table of `from_viewport`,
      overrides = `layername:aci:rgb|-:rawtransparency:linetype:lineweight` joined by `;`
    request  `drawp|<layout>|<export>|<layers>|<blocks>|<entities>|<ColorPolicy>|<custom fg rgb:alpha>|<BackgroundPolicy>|<custom bg dark 0/1>|<rgb:gray;…>`
      → `draw` followed by the colour stage of the render pipeline (policy + cache); foreground colour from the background policy
    request  `vports|<status values joined by space>` → status values of the viewports that are drawn
    request  `drawvp|<layout>|<export>|<layers>|<blocks>|<entities>|<viewports>|<modelspace entities>` → paperspace layout with
      VIEWPORT entities (`status,scale,ox,oy,frozen&…,override&…` joined by `;`)
      layers   = `name,color,truecolor|-1,transparency|-1,linetype,lineweight,flags,plot` joined by `;`
      blocks   = `name,basex,basey:<entities>` joined by `!`
      entities = joined by `;`
         leaf   `k,<kind>,<props>,x y x y …`           kind: line point popen pclosed solid circle attdef
         insert `i,<props>,block,px,py,sx,sy,q,flip,<attribs>[,rows_cols_rowSp_colSp]`   q = rotation / 90° or `r<cos>_<sin>`,
                attribs `props~flag~x~y` joined by `&`
      props    = `layer,color,truecolor|-1,linetype,lineweight,invisible,transparency|-1,handle` (handle decimal, 0 = none)
    response `ok <prim>;<prim>…` with prim = `kind,#rrggbb[aa],pen,layer,linetype,lineweight,handle,x y x y…`, or `err <PythonError>`,
      `fallback` (a nested INSERT takes the explode fall-back), `outside <why>`;
    numbers are `p` or `p/q`. -/

def parseRat (s : String) : Option Rat :=
  match s.splitOn "/" with
  | [n] => (parseInt n).map (fun i => (i : Rat))
  | [n, d] => match parseInt n, d.toNat? with
    | some i, some k => if k = 0 then none else some ((i : Rat) / (k : Rat))
    | _, _ => none
  | _ => none

def showRat (r : Rat) : String :=
  if r.den = 1 then toString r.num else toString r.num ++ "/" ++ toString r.den

def splitList (s : String) (sep : String) : List String := if s.isEmpty then [] else s.splitOn sep

def parseOptNat (s : String) : Option (Option Nat) :=
  match parseInt s with
  | some i => if i < 0 then some none else some (some i.toNat)
  | none => none

def parseBool (s : String) : Option Bool :=
  match s with
  | "0" => some false
  | "1" => some true
  | _ => none

def parseProps (fs : List String) : Option EProps :=
  match fs with
  | [layer, color, tc, lt, lw, inv, tr, h] =>
    match parseInt color, parseOptNat tc, parseInt lw, parseBool inv, parseOptNat tr, h.toNat? with
    | some c, some tc, some lw, some inv, some tr, some h => some ⟨layer, c, tc, lt, lw, inv, tr, h⟩
    | _, _, _, _, _, _ => none
  | _ => none

def parsePts (s : String) : Option (List P2) :=
  let rec go : List String → Option (List P2)
    | [] => some []
    | [_] => none
    | x :: y :: r => match parseRat x, parseRat y, go r with
      | some a, some b, some t => some (⟨a, b⟩ :: t)
      | _, _, _ => none
  go (splitList s " ")

def parseKind (s : String) : Option Kind :=
  match s with
  | "line" => some .line | "point" => some .point | "popen" => some (.polyline false)
  | "pclosed" => some (.polyline true) | "solid" => some .solid | "circle" => some .circle
  | "attdef" => some .attdef | _ => none

def parseAttrib (s : String) : Option Attrib :=
  match s.splitOn "~" with
  | [layer, color, tc, lt, lw, inv, tr, h, flag, x, y] =>
    match parseProps [layer, color, tc, lt, lw, inv, tr, h], parseBool flag, parseRat x, parseRat y with
    | some p, some f, some a, some b => some ⟨p, f, ⟨a, b⟩⟩
    | _, _, _, _ => none
  | _ => none

def quarterDir (q : Nat) : P2 :=
  match q % 4 with
  | 0 => ⟨1, 0⟩ | 1 => ⟨0, 1⟩ | 2 => ⟨-1, 0⟩ | _ => ⟨0, -1⟩

/-- `q` (quarter turns) or `r<cos>_<sin>` -/
def parseDir (s : String) : Option P2 :=
  if s.startsWith "r" then
    match ((s.drop 1).toString).splitOn "_" with
    | [c, sn] => match parseRat c, parseRat sn with
      | some c, some sn => some ⟨c, sn⟩
      | _, _ => none
    | _ => none
  else s.toNat?.map quarterDir

def parseGrid (s : String) : Option (Nat × Nat × Rat × Rat) :=
  match s.splitOn "_" with
  | [r, c, rs, cs] => match r.toNat?, c.toNat?, parseRat rs, parseRat cs with
    | some r, some c, some rs, some cs => some (r, c, rs, cs)
    | _, _, _, _ => none
  | _ => none

def parseIns (fs : List String) (grid : Nat × Nat × Rat × Rat) : Option Ent :=
  match fs with
  | [layer, color, tc, lt, lw, inv, tr, h, name, px, py, sx, sy, q, flip, atts] =>
    match parseProps [layer, color, tc, lt, lw, inv, tr, h], parseRat px, parseRat py, parseRat sx, parseRat sy,
          parseDir q, parseBool flip, (splitList atts "&").mapM parseAttrib with
    | some p, some px, some py, some sx, some sy, some d, some fl, some as =>
      some (.ins ⟨p, name, ⟨px, py⟩, sx, sy, d, fl, as, grid.1, grid.2.1, grid.2.2.1, grid.2.2.2⟩)
    | _, _, _, _, _, _, _, _ => none
  | _ => none

def parseEnt (s : String) : Option Ent :=
  match s.splitOn "," with
  | ["k", kind, layer, color, tc, lt, lw, inv, tr, h, pts] =>
    match parseKind kind, parseProps [layer, color, tc, lt, lw, inv, tr, h], parsePts pts with
    | some k, some p, some ps => some (.leaf k p ps)
    | _, _, _ => none
  | "i" :: fs =>
    if fs.length = 16 then parseIns fs (1, 1, 0, 0)
    else if fs.length = 17 then
      match parseGrid (fs.getD 16 "") with
      | some g => parseIns (fs.take 16) g
      | none => none
    else none
  | _ => none

def parseEnts (s : String) : Option (List Ent) := (splitList s ";").mapM parseEnt

def parseBlock (s : String) : Option Block :=
  match s.splitOn ":" with
  | [hdr, ents] =>
    match hdr.splitOn ",", parseEnts ents with
    | [name, bx, by'], some es =>
      match parseRat bx, parseRat by' with
      | some x, some y => some ⟨name, ⟨x, y⟩, es⟩
      | _, _ => none
    | _, _ => none
  | _ => none

def parseLayer (s : String) : Option RawLayer :=
  match s.splitOn "," with
  | [name, color, tc, tr, lt, lw, flags, plot] =>
    match parseInt color, parseOptNat tc, parseOptNat tr, parseInt lw, flags.toNat?, parseBool plot with
    | some c, some tc, some tr, some lw, some fl, some pl => some ⟨name, c, tc, tr, lt, lw, fl, pl⟩
    | _, _, _, _, _, _ => none
  | _ => none

def hexDigit (n : Nat) : Char := if n < 10 then Char.ofNat (48 + n) else Char.ofNat (87 + n)
def hex2 (n : Nat) : String := String.ofList [hexDigit (n / 16 % 16), hexDigit (n % 16)]
def showColor (c : Color) : String :=
  "#" ++ hex2 (c.rgb / 65536 % 256) ++ hex2 (c.rgb / 256 % 256) ++ hex2 (c.rgb % 256) ++
    (match c.alpha with | some a => hex2 a | none => "")

def showKind : PKind → String
  | .line => "line" | .point => "point" | .path => "path" | .fill => "fill" | .curve => "curve"
  | .attrib => "attrib" | .attdef => "attdef"

def showPrim (p : Prim) : String :=
  ",".intercalate [showKind p.kind, showColor p.color, toString p.pen, p.layer, p.linetype, showRat p.lineweight,
    toString p.handle, " ".intercalate (p.pts.map (fun q => showRat q.x ++ " " ++ showRat q.y))]

def showErr : Err → String
  | .recursion => "err RecursionError" | .structure => "err DXFStructureError" | .index => "err IndexError"
  | .fallback => "fallback" | .irrational => "outside irrational" | .degenerate => "outside degenerate"

def showPrims (ps : List Prim) : String := "ok " ++ ";".intercalate (ps.map showPrim)

structure Req where
  doc : Doc
  ctx : Ctx
  ents : List Ent

/-- `aci:lw|-:rgb|-` -/
def parseCtbEntry (s : String) : Option (Nat × Option Rat × Option Nat) :=
  match s.splitOn ":" with
  | [a, lw, rgb] =>
    match a.toNat?, (if lw = "-" then some none else (parseRat lw).map some),
          (if rgb = "-" then some none else rgb.toNat?.map some) with
    | some a, some lw, some rgb => some (a, lw, rgb)
    | _, _, _ => none
  | _ => none

def applyCtb (aci : List Nat) (es : List (Nat × Option Rat × Option Nat)) : List Nat × List (Option Rat) :=
  let colors := (List.range 256).map (fun k =>
    match es.find? (fun e => e.1 = k) with
    | some (_, _, some rgb) => rgb
    | _ => aci.getD k 0)
  let lws := (List.range 256).map (fun k =>
    match es.find? (fun e => e.1 = k) with
    | some (_, lw, _) => lw
    | none => none)
  (colors, lws)

def parseReq (layout exp layers blocks ents ctb : String) : Option Req :=
  match parseBool exp, (splitList layers ";").mapM parseLayer, (splitList blocks "!").mapM parseBlock, parseEnts ents,
        (splitList ctb ";").mapM parseCtbEntry with
  | some ex, some ls, some bs, some es, some ct =>
    let fg := if layout = "msp" then Gen.RenderTables.mspFg else Gen.RenderTables.pspFg
    let (colors, lws) := applyCtb Gen.RenderTables.aciRgb ct
    some ⟨⟨bs⟩, { mkCtx fg colors ex ls with ctbLw := lws }, es⟩
  | _, _, _, _, _ => none

def showRes (r : Res) : String :=
  match r with
  | .ok (ps, st) => if st = State.init then showPrims ps else "ok-unbalanced " ++ showPrims ps
  | .error e => showErr e

def handleOf : Ent → Nat
  | .leaf _ p _ => p.handle
  | .ins i => i.props.handle

def showLayer (p : String × LayerProps) : String :=
  ",".intercalate [p.1, p.2.layer, showColor p.2.color, toString p.2.pen, p.2.linetype, showRat p.2.lineweight,
    if p.2.visible then "1" else "0", if p.2.hasAci7 then "1" else "0"]

/-- `layername:aci:rgb|-:rawtransparency:linetype:lineweight` -/
def parseOverride (s : String) : Option (String × VpOverride) :=
  match s.splitOn ":" with
  | [name, aci, rgb, tr, lt, lw] =>
    match parseInt aci, (if rgb = "-" then some none else rgb.toNat?.map some), tr.toNat?, parseInt lw with
    | some a, some rgb, some tr, some lw => some (name, ⟨a, rgb, tr, lt, lw⟩)
    | _, _, _, _ => none
  | _ => none

/-- the layer property override functions the harness installs with `set_layer_properties_override` -/
def overrideFn (name : String) : Option (LayerProps → LayerProps) :=
  match name with
  | "allon" => some (fun lp => { lp with visible := true })
  | "alloff" => some (fun lp => { lp with visible := false })
  | "mono" => some (fun lp => { lp with color := ⟨0x112233, none⟩, hasAci7 := false, lineweight := 1 / 2, linetype := "MONO" })
  | _ => none

/-- `status,scale,ox,oy,frozen names joined by &,overrides joined by &` (override = `layername:aci:rgb|-:raw:linetype:lw`) -/
def parseVp (s : String) : Option Vp :=
  match s.splitOn "," with
  | [st, sc, ox, oy, fr, ov] =>
    match parseInt st, parseRat sc, parseRat ox, parseRat oy, (splitList ov "&").mapM parseOverride with
    | some st, some sc, some ox, some oy, some ovs => some ⟨st, splitList fr "&", ovs, sc, ⟨ox, oy⟩⟩
    | _, _, _, _, _ => none
  | _ => none

def parseHatchPolicy (s : String) : Option HatchPolicy :=
  match s with
  | "NORMAL" => some .normal | "IGNORE" => some .ignore | "SHOW_OUTLINE" => some .showOutline
  | "SHOW_SOLID" => some .showSolid | "SHOW_APPROXIMATE_PATTERN" => some .approx | _ => none

def parseFillType (s : String) : Option FillType :=
  match s with
  | "0" => some .solid | "1" => some .pattern | "2" => some .gradient | _ => none

def parsePolicy (s : String) : Option ColorPolicy :=
  match s with
  | "COLOR" => some .color | "COLOR_SWAP_BW" => some .swapBW | "COLOR_NEGATIVE" => some .negative
  | "MONOCHROME" => some .monochrome | "MONOCHROME_DARK_BG" => some .monoDark | "MONOCHROME_LIGHT_BG" => some .monoLight
  | "BLACK" => some .black | "WHITE" => some .white | "CUSTOM" => some .custom | _ => none

def parseBg (s : String) : Option BgPolicy :=
  match s with
  | "DEFAULT" => some .default | "WHITE" => some .white | "BLACK" => some .black | "PAPERSPACE" => some .paperspace
  | "MODELSPACE" => some .modelspace | "OFF" => some .off | "CUSTOM" => some .custom | _ => none

/-- `rgb:alpha|-` (decimal) -/
def parseColor (s : String) : Option Color :=
  match s.splitOn ":" with
  | [rgb, a] => match rgb.toNat?, (if a = "-" then some none else a.toNat?.map some) with
    | some rgb, some a => some ⟨rgb, a⟩
    | _, _ => none
  | _ => none

/-- `entityhandle:sorthandle` (decimal) -/
def parsePair (s : String) : Option (Nat × Nat) :=
  match s.splitOn ":" with
  | [a, b] => match a.toNat?, b.toNat? with
    | some a, some b => some (a, b)
    | _, _ => none
  | _ => none

def step (line : String) : String :=
  match line.splitOn "|" with
  | "draw" :: layout :: exp :: layers :: blocks :: ents :: rest =>
    match parseReq layout exp layers blocks ents (rest.getD 0 "") with
    | some r =>
      match rest with
      | [_, keep] =>
        match (splitList keep ";").mapM String.toNat? with
        | some ks => showRes (drawLayoutFiltered r.doc r.ctx (fun e => ks.contains (handleOf e)) r.ents)
        | none => "bad-op keep"
      | [_, keep, "order", mp] =>
        match (if keep = "*" then some [] else (splitList keep ";").mapM String.toNat?), (splitList mp ";").mapM parsePair with
        | some ks, some m =>
          showRes (drawLayoutOrdered r.doc r.ctx m (fun e => keep = "*" || ks.contains (handleOf e)) r.ents)
        | _, _ => "bad-op order"
      | [_, _, ovf] =>
        match overrideFn ovf with
        | some f => showRes (drawLayout r.doc (r.ctx.overrideLayers f) r.ents)
        | none => "bad-op override"
      | _ => showRes (drawLayout r.doc r.ctx r.ents)
    | none => "bad-op parse"
  | "spec" :: layout :: exp :: layers :: blocks :: ents :: rest =>
    match parseReq layout exp layers blocks ents (rest.getD 0 "") with
    | some r =>
      match unfold r.doc (r.doc.blocks.length + 1) r.ents with
      | some f => showPrims (Spec.flatten r.ctx none Aff.id 0 f)
      | none => "no-tree"
    | none => "bad-op parse"
  | "lawful" :: layout :: exp :: layers :: blocks :: ents :: rest =>
    match parseReq layout exp layers blocks ents (rest.getD 0 "") with
    | some r =>
      match unfold r.doc (r.doc.blocks.length + 1) r.ents with
      | some f => if f.lawful Aff.id then "1" else "0"
      | none => "no-tree"
    | none => "bad-op parse"
  | ["reach", layout, exp, layers, blocks, ents] =>
    match parseReq layout exp layers blocks ents "" with
    | some r => if reach r.doc (r.doc.blocks.length + 1) r.ents then "1" else "0"
    | none => "bad-op parse"
  | "layers" :: layout :: exp :: layers :: frozen :: rest =>
    match parseBool exp, (splitList layers ";").mapM parseLayer, (splitList (rest.getD 0 "") ";").mapM parseOverride with
    | some ex, some ls, some ovs =>
      let fg := if layout = "msp" then Gen.RenderTables.mspFg else Gen.RenderTables.pspFg
      let lso := ls.map (fun l => (l, (ovs.find? (fun o => o.1 = l.name)).map (·.2)))
      ";".intercalate ((mkVpCtxOv fg Gen.RenderTables.aciRgb ex lso (splitList frozen ";")).layers.map showLayer)
    | _, _, _ => "bad-op parse"
  | ["drawvp", layout, exp, layers, blocks, ents, vps, mspents] =>
    match parseReq layout exp layers blocks ents "", parseBool exp, (splitList layers ";").mapM parseLayer,
          (splitList vps ";").mapM parseVp, parseEnts mspents with
    | some r, some ex, some ls, some vs, some msp =>
      let fg := if layout = "msp" then Gen.RenderTables.mspFg else Gen.RenderTables.pspFg
      match drawLayoutVp r.doc r.ctx (vpCtx fg Gen.RenderTables.aciRgb ex ls) r.ents vs msp with
      | .ok (ps, st) => if st = State.init then showPrims ps else "ok-unbalanced " ++ showPrims ps
      | .error e => showErr e
    | _, _, _, _, _ => "bad-op parse"
  | ["drawp", layout, exp, layers, blocks, ents, pol, custom, bg, cdark, grays] =>
    match parsePolicy pol, parseColor custom, parseBg bg, parseBool cdark, (splitList grays ";").mapM parsePair,
          parseBool exp, (splitList layers ";").mapM parseLayer, (splitList blocks "!").mapM parseBlock, parseEnts ents with
    | some pol, some cu, some bg, some cd, some gs, some ex, some ls, some bs, some es =>
      let gray : Nat → Nat := fun rgb => match gs.find? (fun p => p.1 = rgb) with | some p => p.2 | none => 0
      match drawLayout ⟨bs⟩ (mkCtxBg bg (layout = "msp") cd Gen.RenderTables.aciRgb ex ls) es with
      | .ok (ps, st) =>
        if st = State.init then showPrims (backendStage pol cu gray ps) else "ok-unbalanced"
      | .error e => showErr e
    | _, _, _, _, _, _, _, _, _ => "bad-op parse"
  | "failing" :: layout :: exp :: layers :: blocks :: ents :: _ =>
    match parseReq layout exp layers blocks ents "" with
    | some r =>
      match unfold r.doc (r.doc.blocks.length + 1) r.ents with
      | some f =>
        let names := ((f.failing Aff.id).map (fun p => layerKey p.1.name ++ ":" ++
          (match p.2 with | .fallback => "fallback" | .irrational => "irrational" | .degenerate => "degenerate" | _ => "other")))
        ";".intercalate (names.eraseDups.mergeSort (fun a b => a ≤ b))
      | none => "no-tree"
    | none => "bad-op parse"
  | ["hatch", hasF, pol, ft, dense, loops] =>
    match parseBool hasF, parseHatchPolicy pol, parseFillType ft, parseBool dense, loops.toNat? with
    | some h, some p, some f, some d, some n =>
      match hatchDecision h p f d n with
      | .nothing => "nothing" | .patternLines => "lines" | .outline k => s!"outline {k}" | .filled k => s!"filled {k}"
    | _, _, _, _, _ => "bad-op parse"
  | ["stroke", cfgMin, scaling, lw] =>
    match (if cfgMin = "-" then some none else (parseRat cfgMin).map some), parseRat scaling, parseRat lw with
    | some m, some sc, some lw => showRat (backendStrokeWidth m sc lw)
    | _, _, _ => "bad-op parse"
  | ["vports", status] =>
    match (splitList status " ").mapM parseInt with
    | some vs => " ".intercalate ((viewportsDrawn vs).map toString)
    | none => "bad-op parse"
  | _ => "bad-op"

def main : IO Unit := Proto.run step

import EzdxfVerif.Model.Doc
import EzdxfVerif.Model.Audit
import Drivers.Proto
open EzdxfVerif EzdxfVerif.Doc Proto

/-! Stateful line-protocol driver of the document state machine (shared by C04 C05 C06). -/

def pStr (s : String) : Option Str :=
  if s.isEmpty then some [] else (s.splitOn ",").mapM (·.toNat?)

def sStr (s : Str) : String := ",".intercalate (s.map toString)

def ltStr : Str → Str → Bool
  | [], [] => false
  | [], _ :: _ => true
  | _ :: _, [] => false
  | a :: x, b :: y => if a < b then true else if b < a then false else ltStr x y

def insertBy {α : Type} (lt : α → α → Bool) (a : α) : List α → List α
  | [] => [a]
  | b :: r => if lt a b then a :: b :: r else b :: insertBy lt a r

def sortBy {α : Type} (lt : α → α → Bool) (l : List α) : List α := l.foldr (insertBy lt) []

def showErr : Err → String
  | .valueError => "ValueError" | .keyError => "KeyError" | .dxfValueError => "DXFValueError"
  | .dxfKeyError => "DXFKeyError" | .dxfTableEntryError => "DXFTableEntryError"
  | .dxfBlockInUseError => "DXFBlockInUseError" | .dxfStructureError => "DXFStructureError"
  | .notFresh => "MODEL-handle-not-fresh" | .other => "other"

def observe (s : State) (tracked : List Nat) : String :=
  let cs := (sortBy (fun a b => a.1 < b.1) s.spaces).map fun p =>
    toString p.1 ++ ":" ++ toString p.2.length ++ ":" ++ ",".intercalate (p.2.filter (isAlive s) |>.map toString)
  let es := tracked.map fun h =>
    match findEnt s h with
    | none => toString h ++ ":?"
    | some e =>
      if !e.alive then toString h ++ ":dead"
      else
        let ow := match e.owner with | some k => toString k | none => "-"
        let lay := match e.owner with
          | some k => if (spaceOf s k).isSome then toString k else "?"
          | none => "-"
        let ib := if e.indb then "1" else "0"
        let ps := if e.psp then "1" else "0"
        -- sub-entities are owned by the parent (`take_ownership`) and follow its database membership and paperspace flag
        let subs := "/".intercalate (e.subs.map fun x => toString x ++ "," ++ toString h ++ "," ++ ib ++ "," ++ ps)
        toString h ++ ":" ++ ow ++ ":" ++ ib ++ ":" ++ lay ++ ":" ++ ps ++ ":" ++ subs
  let bs := (sortBy (fun a b => ltStr a.1 b.1) s.blocks).map fun b => sStr b.1 ++ ":" ++ toString b.2.2
  let ls := (sortBy (fun (a b : Lay) => a.tab < b.tab || (a.tab == b.tab && ltStr a.name b.name)) s.layouts).map
    fun l => sStr l.name ++ ":" ++ toString l.br
  let act := match activeBr s with | some k => toString k | none => "EXCDXFTableEntryError"   -- get_active_layout_key raises
  let ly := (sortBy ltStr s.layers).map sStr
  let tb := (sortBy (fun (a b : Nat × Str) => a.1 < b.1 || (a.1 == b.1 && ltStr a.2 b.2)) s.tabs).map
    fun t => toString t.1 ++ ":" ++ sStr t.2
  let gs := (sortBy (fun (a b : Str × Nat × List Nat) => ltStr a.1 b.1) s.groups).map
    fun g => sStr g.1 ++ ":" ++ toString g.2.1 ++ ":" ++ ",".intercalate ((g.2.2.filter (isAlive s)).map toString)
  ";".intercalate [" ".intercalate cs, " ".intercalate es, " ".intercalate bs, " ".intercalate ls, act, " ".intercalate ly,
    " ".intercalate tb, " ".intercalate gs]

def parseOp (f : List String) : Option Op :=
  match f with
  | ["add", k, h, sd] => do some (.add (← k.toNat?) (← h.toNat?) (← sd.toNat?))
  | ["ins", k, n, h, sd] => do some (.ins (← k.toNat?) (← pStr n) (← h.toNat?) (← sd.toNat?))
  | ["unlink", k, e, _] => do some (.unlink (← k.toNat?) (← e.toNat?))
  | ["addex", k, e, _] => do some (.addex (← k.toNat?) (← e.toNat?))
  | ["move", k1, e, k2, _] => do some (.move (← k1.toNat?) (← e.toNat?) (← k2.toNat?))
  | ["del", k, e, _] => do some (.del (← k.toNat?) (← e.toNat?))
  | ["destroy", e, _] => do some (.destroy (← e.toNat?))
  | ["copy", e, k, h, sb, sd] => do some (.copy (← e.toNat?) (← k.toNat?) (← h.toNat?) (← pStr sb) (← sd.toNat?))
  | ["addl", k, r, h, sb, sd] => do
      let ref ← (if r == "-" then some none else (pStr r).map some)
      some (.addL (← k.toNat?) ref (← h.toNat?) (← pStr sb) (← sd.toNat?))
  | ["explode", e, ns, sd] => do
      let news ← (if ns.isEmpty then some [] else (ns.splitOn " ").mapM fun n =>
        match n.splitOn "/" with
        | [h, sb] => do some ((← h.toNat?), (← pStr sb))
        | _ => none)
      some (.explode (← e.toNat?) news (← sd.toNat?))
  | ["auditstep", sd] => do some (.audit (← sd.toNat?))
  | ["addentry", t, n, sd] => do some (.addEntry (← t.toNat?) (← pStr n) (← sd.toNat?))
  | ["delentry", t, n, _] => do some (.delEntry (← t.toNat?) (← pStr n))
  | ["dupentry", t, a, b, sd] => do some (.dupEntry (← t.toNat?) (← pStr a) (← pStr b) (← sd.toNat?))
  | ["newgroup", n, h, sd] => do some (.newGroup (← pStr n) (← h.toNat?) (← sd.toNat?))
  | ["setgroup", n, ms, _] => do some (.setGroup (← pStr n) (← pStr ms))
  | ["delgroup", n, _] => do some (.delGroup (← pStr n))
  | ["purge", _] => some .purge
  | ["newblock", n, br, sd] => do some (.newBlock (← pStr n) (← br.toNat?) (← sd.toNat?))
  | ["delblock", n, sf, _] => do some (.delBlock (← pStr n) (sf == "1"))
  | ["renblock", a, b, _] => do some (.renBlock (← pStr a) (← pStr b))
  | ["newlayout", n, br, sd] => do some (.newLayout (← pStr n) (← br.toNat?) (← sd.toNat?))
  | ["dellayout", n, _] => do some (.delLayout (← pStr n))
  | ["renlayout", a, b, _] => do some (.renLayout (← pStr a) (← pStr b))
  | ["activate", n, _] => do some (.activate (← pStr n))
  | ["addlayer", n, sd] => do some (.addLayer (← pStr n) (← sd.toNat?))
  | ["dellayer", n, _] => do some (.delLayer (← pStr n))
  | ["reload", sd] => do some (.reload (← sd.toNat?))
  | ["foreign", k, e, _] => do some (.foreign (← k.toNat?) (← e.toNat?))
  | _ => none

def created (s : State) : Op → List Nat
  | .add _ h _ => [h] | .ins _ _ h _ => [h] | .copy _ _ h _ _ => [h] | .addL _ _ h _ _ => [h]
  | .explode e news _ =>
    -- copies of the block content, then the TEXT entities that take the handles of the attached ATTRIBs
    news.map (·.1) ++ (match findEnt s e with | some x => x.subs.take (x.subs.length - 1) | none => [])
  | _ => []

/-- init|seed|k k k|key:name:br …|name:br:tab …|layer … -/
def parseInit (f : List String) : Option State :=
  match f with
  | ["init", sd, ks, bs, ls, ly, tb] => do
    let seed ← sd.toNat?
    let spaces ← (if ks.isEmpty then some [] else (ks.splitOn " ").mapM (·.toNat?))
    let blocks ← (if bs.isEmpty then some [] else (bs.splitOn " ").mapM fun b =>
      match b.splitOn ":" with
      | [k, n, br] => do some (← pStr k, ← pStr n, ← br.toNat?)
      | _ => none)
    let layouts ← (if ls.isEmpty then some [] else (ls.splitOn " ").mapM fun l =>
      match l.splitOn ":" with
      | [n, br, tab] => do let nm ← pStr n; some (⟨upper nm, nm, ← br.toNat?, ← tab.toNat?⟩ : Lay)
      | _ => none)
    let layers ← (if ly.isEmpty then some [] else (ly.splitOn " ").mapM pStr)
    let tabs ← (if tb.isEmpty then some [] else (tb.splitOn " ").mapM fun t =>
      match t.splitOn ":" with
      | [i, n] => do some ((← i.toNat?), (← pStr n))
      | _ => none)
    some { ents := [], spaces := spaces.map (fun k => (k, [])), blocks := blocks, layouts := layouts, layers := layers,
           next := seed, tabs := tabs }
  | _ => none

partial def loop (i o : IO.FS.Stream) (s : State) (tracked : List Nat) : IO Unit := do
  let line ← i.getLine
  if line.isEmpty then return ()
  let l := Proto.chomp line
  let f := l.splitOn "|"
  match f with
  | "init" :: _ =>
    match parseInit f with
    | some s0 => o.putStrLn ("ok;" ++ observe s0 []); loop i o s0 []
    | none => o.putStrLn "bad-op init"; loop i o s tracked
  | ["dmgowner", e, k, _] =>
    match e.toNat?, (if k == "-" then some none else k.toNat?.map some) with
    | some e', some ow =>
      let s' := dmgOwner s e' ow
      o.putStrLn ("ok;" ++ observe s' tracked); loop i o s' tracked
    | _, _ => o.putStrLn "bad-op"; loop i o s tracked
  | ["dmgappend", k, e, _] =>
    match k.toNat?, e.toNat? with
    | some k', some e' =>
      let s' := dmgAppend s k' e'
      o.putStrLn ("ok;" ++ observe s' tracked); loop i o s' tracked
    | _, _ => o.putStrLn "bad-op"; loop i o s tracked
  | ["audit", _] =>
    let r := audit s
    o.putStrLn ("ok:" ++ toString r.2 ++ ";" ++ observe r.1 tracked); loop i o r.1 tracked
  | ["dump"] =>
    let w := writeFile s
    o.putStrLn (" ".intercalate (w.blocks.map fun b => toString b.1 ++ ":" ++ ",".intercalate (b.2.map toString))
      ++ ";" ++ ",".intercalate (w.entities.map toString)
      ++ ";" ++ " ".intercalate ((sortBy (fun (a b : Nat × List Nat) => a.1 < b.1) w.groups).map fun g =>
          toString g.1 ++ ":" ++ ",".intercalate (g.2.map toString))
      ++ ";" ++ toString w.handseed)
    loop i o s tracked
  | _ =>
    match parseOp f with
    | none => o.putStrLn "bad-op"; loop i o s tracked
    | some op =>
      let (s', out) := step s op
      let tr := match out with | .ok => tracked ++ created s op | _ => tracked
      let os := match out with | .ok => "ok" | .err e => "err:" ++ showErr e
      o.putStrLn (os ++ ";" ++ observe s' tr)
      loop i o s' tr

def main : IO Unit := do
  let i ← IO.getStdin
  let o ← IO.getStdout
  loop i o { ents := [], spaces := [], blocks := [], layouts := [], layers := [], next := 1 } []
  o.flush

/- Shared helpers of the line-protocol drivers (DESIGN.md appendix B).
   Request:  op|arg|arg…   strings = space separated code points, integers decimal, rationals p/q.
   A driver answers exactly one line per request; `bad-op…` for anything it cannot parse. -/
namespace Proto

def parseCps (s : String) : Option (List Char) :=
  if s.isEmpty then some [] else
  (s.splitOn " ").mapM (fun t => t.toNat?.map Char.ofNat)

def parseNats (s : String) : Option (List Nat) :=
  if s.isEmpty then some [] else (s.splitOn " ").mapM (fun t => t.toNat?)

def showCps (s : List Char) : String := " ".intercalate (s.map (fun c => toString c.toNat))

def showNats (s : List Nat) : String := " ".intercalate (s.map toString)

def parseInt (s : String) : Option Int :=
  if s.startsWith "-" then (s.drop 1).toNat?.map (fun n => -(n : Int)) else s.toNat?.map (fun n => (n : Int))

/-- strip the trailing newline of a line read by `getLine` -/
def chomp (line : String) : String :=
  if line.endsWith "\n" then String.ofList (line.toList.dropLast) else line

partial def loop (h : IO.FS.Stream) (out : IO.FS.Stream) (f : String → String) : IO Unit := do
  let line ← h.getLine
  if line.isEmpty then return ()
  out.putStrLn (f (chomp line))
  loop h out f

def run (f : String → String) : IO Unit := do
  let i ← IO.getStdin
  let o ← IO.getStdout
  loop i o f
  o.flush

end Proto

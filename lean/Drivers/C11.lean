/-
Line-protocol driver for C11 (vector / matrix / coordinate-system kernels).

Request   x|<twin>|<kernel>|<arg>|…                 exact: answer is the canonical value
          t|<twin>|<kernel>|<arg>|…|<expected>|<tol> tolerant: answer `agree` or `DISAGREE <model value>`
  twin     py | pyx      (which generated module: Gen/*Py.lean or Gen/*Pyx.lean)
  arg      rational `p/q` or `p`; vectors / matrices / lists: comma separated rationals; list of vectors: `;` separated
  expected `ok <comma separated rationals>` | `err <PyErr>`
  tol      `abs:<rat>`  |v - w| ≤ rat     `rel:<rat>:<floor>`  |v - w| ≤ rat · max(|w|, floor)
           `kappa:<rat>`  |v - w| ≤ rat · κ∞(M) · max|M⁻¹|   (inverse; κ∞ and M⁻¹ computed exactly here)
          h|<twin>|<m0>|<step>|<step>|…              UCS history on ONE object whose matrix starts as m0 (session 3):
                                                       step = tr~<m> | sh~<d> | mv~<o>          in-place mutators
                                                            | fk~   a copy was mutated (state must stay) | cp~  continue on copy()
                                                            | rx~c,s | ry~c,s | rz~c,s  continue on rotate_local_*()
                                                            | q~<kernel>~<args ;;-separated>~<expected>~<tol>   query on the current state
                                                       answer `agree` or `DISAGREE step <i> <kernel> <model value>`
Square roots that the kernels take as parameters are supplied by `sqrtA`, an approximation with relative error
< 2⁻¹⁰⁰ (driver only; theorems quantify over exact roots).  The NumPy forms of the pure-Python twin
(`__mul__`, `transpose`, `determinant`, `inverse`, `chain`, `transform_array_inplace`) are answered by the
textbook algebra of Model/Rat3.lean.
-/
import EzdxfVerif.Model.Rat3
import EzdxfVerif.Gen.VectorPy
import EzdxfVerif.Gen.VectorPyx
import EzdxfVerif.Gen.Matrix44Py
import EzdxfVerif.Gen.Matrix44Pyx
import EzdxfVerif.Gen.UcsPy
import EzdxfVerif.Gen.UcsPyx
import EzdxfVerif.Gen.ConstructPy
import EzdxfVerif.Gen.ConstructPyx
import EzdxfVerif.Model.UcsMachine
import Drivers.Proto
open EzdxfVerif.Rat3 EzdxfVerif.Gen

namespace C11

-- ------------------------------------------------------------------------------------------- parsing / printing
def parseRat (s : String) : Option Rat :=
  match s.splitOn "/" with
  | [p] => (Proto.parseInt p).map fun n => (n : Rat)
  | [p, q] => match Proto.parseInt p, q.toNat? with
    | some n, some d => if d = 0 then none else some ((n : Rat) / (d : Rat))
    | _, _ => none
  | _ => none

def parseRats (s : String) : Option (List Rat) :=
  if s.isEmpty then some [] else (s.splitOn ",").mapM parseRat

def parseV3 (s : String) : Option V3 :=
  match parseRats s with | some [x, y, z] => some ⟨x, y, z⟩ | _ => none
def parseV2 (s : String) : Option V2 :=
  match parseRats s with | some [x, y] => some ⟨x, y⟩ | _ => none
def parseM (s : String) : Option M44 := (parseRats s).bind M44.ofList
def parseBool (s : String) : Option Bool :=
  if s = "T" then some true else if s = "F" then some false else none
def parseList {α} (f : String → Option α) (s : String) : Option (List α) :=
  if s.isEmpty then some [] else (s.splitOn ";").mapM f

def showRat (r : Rat) : String := if r.den = 1 then toString r.num else toString r.num ++ "/" ++ toString r.den
def showRats (l : List Rat) : String := ",".intercalate (l.map showRat)
def v3l (v : V3) : List Rat := [v.x, v.y, v.z]
def v2l (v : V2) : List Rat := [v.x, v.y]
def showErr : PyErr → String
  | .zeroDivision => "ZeroDivisionError" | .typeError => "TypeError" | .valueError => "ValueError"
  | .indexError => "IndexError"
def showB (b : Bool) : String := if b then "T" else "F"

/-- a computed value in canonical flat form -/
inductive Out where
  | ok (vals : List Rat) (tag : String := "")
  | err (e : PyErr)

def Out.show : Out → String
  | .ok vals tag => "ok " ++ tag ++ showRats vals
  | .err e => "err " ++ showErr e

def exV3 : Except PyErr V3 → Out
  | .ok v => .ok (v3l v) | .error e => .err e
def exM : Except PyErr M44 → Out
  | .ok m => .ok m.toList | .error e => .err e

-- ------------------------------------------------------------------------------------------- approximate sqrt
partial def isqrtLoop (n x : Nat) : Nat :=
  let y := (x + n / x) / 2
  if y ≥ x then x else isqrtLoop n y

def isqrt (n : Nat) : Nat := if n = 0 then 0 else isqrtLoop n (2 ^ (n.log2 / 2 + 1))

/-- sqrt(p/q) ≈ isqrt(p·q·4^k) / (q·2^k), k chosen so that the integer root has at least 100 significant bits -/
def sqrtA (a : Rat) : Rat :=
  if a ≤ 0 then 0 else
  let p := a.num.toNat
  let q := a.den
  let bits := (p * q).log2
  let k := if bits < 220 then (220 - bits) / 2 + 1 else 0
  ((isqrt (p * q * 4 ^ k) : Nat) : Rat) / ((q * 2 ^ k : Nat) : Rat)

-- ------------------------------------------------------------------------------------------- tolerance
def absR (a : Rat) : Rat := if a < 0 then -a else a
def maxAbs (l : List Rat) : Rat := l.foldl (fun acc x => if acc < absR x then absR x else acc) 0

def normInf (m : M44) : Rat :=
  let rows := [[m.m0, m.m1, m.m2, m.m3], [m.m4, m.m5, m.m6, m.m7], [m.m8, m.m9, m.m10, m.m11], [m.m12, m.m13, m.m14, m.m15]]
  maxAbs (rows.map fun r => r.foldl (fun acc x => acc + absR x) 0)

def closeLists (tol : Rat → Rat) : List Rat → List Rat → Bool
  | [], [] => true
  | a :: as, b :: bs => decide (absR (a - b) ≤ tol b) && closeLists tol as bs
  | _, _ => false

/-- numeric payload of `expected`; a leading non-numeric tag (e.g. `T;`) is compared exactly -/
def judge (model : Out) (expected : String) (tol : Rat → Rat) : String :=
  match model with
  | .err e => if expected = "err " ++ showErr e then "agree" else "DISAGREE " ++ model.show
  | .ok vals tag =>
    if !expected.startsWith ("ok " ++ tag) then "DISAGREE " ++ model.show else
    match parseRats (expected.drop (3 + tag.length)).toString with
    | some ws => if closeLists tol vals ws then "agree" else "DISAGREE " ++ model.show
    | none => "bad-op expected"

/-- tolerance as a function of the expected (implementation) value w -/
def parseTol (s : String) (a : List String) : Option (Rat → Rat) :=
  match s.splitOn ":" with
  | ["abs", r] => do let r ← parseRat r; pure fun _ => r
  | ["rel", r, fl] => do
      let r ← parseRat r; let fl ← parseRat fl
      pure fun w => r * (if absR w < fl then fl else absR w)
  | ["kappa", r] => do
      let r ← parseRat r
      let m ← (a.head?).bind parseM
      match M44.inv m with
      | .ok i => let t := r * normInf m * normInf i * maxAbs i.toList; pure fun _ => t
      | .error _ => pure fun _ => 0
  | _ => none

/-- a UCS history: mutators update the state, queries are judged against the recorded implementation value -/
def hist (run : String → List String → Option Out) (mutate : M44 → String → String → Option M44) :
    M44 → Nat → List String → String
  | _, _, [] => "agree"
  | s, i, st :: rest =>
    match st.splitOn "~" with
    | [kind, arg] =>
      match mutate s kind arg with
      | some s' => hist run mutate s' (i + 1) rest
      | none => "bad-op step " ++ toString i
    | ["q", kernel, args, expected, tol] =>
      let a := showRats s.toList :: (if args.isEmpty then [] else args.splitOn ";;")
      match parseTol tol a, run kernel a with
      | some t, some o =>
        let r := judge o expected t
        if r = "agree" then hist run mutate s (i + 1) rest
        else if r.startsWith "DISAGREE" then "DISAGREE step " ++ toString i ++ " " ++ kernel ++ (r.drop 8).toString else r
      | _, _ => "bad-op step " ++ toString i
    | _ => "bad-op step " ++ toString i

/-- a Matrix44 history on one object: `im~<o>` `is~` `tp~` in-place operations, `iv~ok|err` inverse with the outcome the
    implementation had (raising must agree, the state then stays), queries as in `hist` -/
def mhist (run : String → List String → Option Out) (stepf : M44 → EzdxfVerif.M44Machine.Op → M44) :
    M44 → Nat → List String → String
  | _, _, [] => "agree"
  | s, i, st :: rest =>
    match st.splitOn "~" with
    | ["im", o] =>
      match parseM o with
      | some o => mhist run stepf (stepf s (.imul o)) (i + 1) rest
      | none => "bad-op step " ++ toString i
    | ["is", _] => mhist run stepf (stepf s .imulSelf) (i + 1) rest
    | ["fk", _] => mhist run stepf s (i + 1) rest   -- a copy was taken and mutated: the original must not notice
    | ["tp", _] => mhist run stepf (stepf s .transpose) (i + 1) rest
    | ["iv", flag] =>
      let s' := stepf s .inverse
      let raised : Bool := match M44.inv s with | .ok _ => false | .error _ => true
      if (flag == "err") == raised then mhist run stepf s' (i + 1) rest
      else "DISAGREE step " ++ toString i ++ " inverse model-raises=" ++ toString raised
    | ["q", kernel, args, expected, tol] =>
      let a := showRats s.toList :: (if args.isEmpty then [] else args.splitOn ";;")
      match parseTol tol a, run kernel a with
      | some t, some o =>
        let r := judge o expected t
        if r = "agree" then mhist run stepf s (i + 1) rest
        else if r.startsWith "DISAGREE" then "DISAGREE step " ++ toString i ++ " " ++ kernel ++ (r.drop 8).toString else r
      | _, _ => "bad-op step " ++ toString i
    | _ => "bad-op step " ++ toString i

-- ------------------------------------------------------------------------------------------- NumPy forms of the Python twin
namespace PyNumpy
def mul := M44.mul
def imul := M44.mul
def imulSelf (m : M44) := M44.mul m m
def matmul := M44.mul
def transpose := M44.transpose
def determinant := M44.det
def inverse := M44.inv
def chain := M44.chain
def array2d := Matrix44Pyx.array2d
def array3d := Matrix44Pyx.array3d
-- `UCS.transform`: `self.matrix *= m` is np.matmul in the Python twin; sequences through it are composed here from the
-- generated Python-linked query kernels
def ucsTransform := M44.mul
/-- `basic_transformation(move, scale, 0)`: `m *= Matrix44.translate(...)` is np.matmul in the Python twin -/
def basicT0 (move scale : V3) : M44 :=
  if VectorPy.v3isnull move then Matrix44Py.scale scale.x scale.y scale.z
  else M44.mul (Matrix44Py.scale scale.x scale.y scale.z) (Matrix44Py.translate move.x move.y move.z)
def ucsSeqTransformToOcsS (sqrt : Rat → Rat) (s : M44) (_q : V3) (m : M44) (p : V3) := UcsPy.ucsToOcsS sqrt (M44.mul s m) p
def ucsSeqTransformDirToOcsS (sqrt : Rat → Rat) (s : M44) (_q : V3) (m : M44) (p : V3) := UcsPy.ucsDirToOcsS sqrt (M44.mul s m) p
def ucsSeqTransformToWcs (s : M44) (_q : V3) (m : M44) (p : V3) := UcsPy.ucsToWcs (M44.mul s m) p
def ucsSeqTransformFromWcs (s : M44) (_q : V3) (m : M44) (p : V3) := UcsPy.ucsFromWcs (M44.mul s m) p
/-- the general `basic_transformation(move, scale, angle)` of the Python twin: two NumPy products -/
def basicT (move scale : V3) (nz : Bool) (c s : Rat) : M44 :=
  let m0 := Matrix44Py.scale scale.x scale.y scale.z
  let m1 := if nz then M44.mul m0 (Matrix44Py.zRotate c s) else m0
  if VectorPy.v3isnull move then m1 else M44.mul m1 (Matrix44Py.translate move.x move.y move.z)
end PyNumpy

def parseRows (s : String) : Option (List (List Rat)) := parseList parseRats s
def showRows (rows : List (List Rat)) : String := ";".intercalate (rows.map showRats)

set_option hygiene false in
/-- the kernel table; expanded once per twin under different `open`s -/
local macro "c11_kernels" : command => `(
def run (kernel : String) (a : List String) : Option Out :=
  match kernel, a with
  | "v3add", [p, q] => do let p ← parseV3 p; let q ← parseV3 q; pure (.ok (v3l (v3add p q)))
  | "v3sub", [p, q] => do let p ← parseV3 p; let q ← parseV3 q; pure (.ok (v3l (v3sub p q)))
  | "v3rsub", [p, q] => do let p ← parseV3 p; let q ← parseV3 q; pure (.ok (v3l (v3rsub p q)))
  | "v3mul", [p, k] => do let p ← parseV3 p; let k ← parseRat k; pure (.ok (v3l (v3mul p k)))
  | "v3neg", [p] => do let p ← parseV3 p; pure (.ok (v3l (v3neg p)))
  | "v3dot", [p, q] => do let p ← parseV3 p; let q ← parseV3 q; pure (.ok [v3dot p q])
  | "v3cross", [p, q] => do let p ← parseV3 p; let q ← parseV3 q; pure (.ok (v3l (v3cross p q)))
  | "v3lerp", [p, q, t] => do let p ← parseV3 p; let q ← parseV3 q; let t ← parseRat t; pure (.ok (v3l (v3lerp p q t)))
  | "v3magsq", [p] => do let p ← parseV3 p; pure (.ok [v3magsq p])
  | "v3ortho", [p, c] => do let p ← parseV3 p; let c ← parseBool c; pure (.ok (v3l (v3ortho p c)))
  | "v3eq", [p, q] => do let p ← parseV3 p; let q ← parseV3 q; pure (.ok [] (showB (v3eq p q)))
  | "v3lt", [p, q] => do let p ← parseV3 p; let q ← parseV3 q; pure (.ok [] (showB (v3lt p q)))
  | "v3isclose", [p, q] => do let p ← parseV3 p; let q ← parseV3 q; pure (.ok [] (showB (v3isclose p q)))
  | "v3isnull", [p] => do let p ← parseV3 p; pure (.ok [] (showB (v3isnull p)))
  | "v3sum", [l] => do let l ← parseList parseV3 l; pure (.ok (v3l (v3sum l)))
  | "v3normalize", [p] => do let p ← parseV3 p; pure (exV3 (v3normalizeS sqrtA p))
  | "v3project", [p, q] => do let p ← parseV3 p; let q ← parseV3 q; pure (exV3 (v3projectS sqrtA p q))
  | "v3distance", [p, q] => do let p ← parseV3 p; let q ← parseV3 q; pure (.ok [v3distanceS sqrtA p q])
  | "v2add", [p, q] => do let p ← parseV2 p; let q ← parseV2 q; pure (.ok (v2l (v2add p q)))
  | "v2sub", [p, q] => do let p ← parseV2 p; let q ← parseV2 q; pure (.ok (v2l (v2sub p q)))
  | "v2mul", [p, k] => do let p ← parseV2 p; let k ← parseRat k; pure (.ok (v2l (v2mul p k)))
  | "v2neg", [p] => do let p ← parseV2 p; pure (.ok (v2l (v2neg p)))
  | "v2dot", [p, q] => do let p ← parseV2 p; let q ← parseV2 q; pure (.ok [v2dot p q])
  | "v2det", [p, q] => do let p ← parseV2 p; let q ← parseV2 q; pure (.ok [v2det p q])
  | "v2lerp", [p, q, t] => do let p ← parseV2 p; let q ← parseV2 q; let t ← parseRat t; pure (.ok (v2l (v2lerp p q t)))
  | "v2ortho", [p, c] => do let p ← parseV2 p; let c ← parseBool c; pure (.ok (v2l (v2ortho p c)))
  | "v2eq", [p, q] => do let p ← parseV2 p; let q ← parseV2 q; pure (.ok [] (showB (v2eq p q)))
  | "v2lt", [p, q] => do let p ← parseV2 p; let q ← parseV2 q; pure (.ok [] (showB (v2lt p q)))
  | "v2isclose", [p, q] => do let p ← parseV2 p; let q ← parseV2 q; pure (.ok [] (showB (v2isclose p q)))
  | "v2sum", [l] => do let l ← parseList parseV2 l; pure (.ok (v2l (v2sum l)))
  | "scale", [s] => do let s ← parseV3 s; pure (.ok (scale s.x s.y s.z).toList)
  | "scaleUniform", [s] => do let s ← parseRat s; pure (.ok (scaleUniform s).toList)
  | "translate", [s] => do let s ← parseV3 s; pure (.ok (translate s.x s.y s.z).toList)
  | "xRotate", [c, s] => do let c ← parseRat c; let s ← parseRat s; pure (.ok (xRotate c s).toList)
  | "yRotate", [c, s] => do let c ← parseRat c; let s ← parseRat s; pure (.ok (yRotate c s).toList)
  | "zRotate", [c, s] => do let c ← parseRat c; let s ← parseRat s; pure (.ok (zRotate c s).toList)
  | "axisRotate", [ax, c, s] => do
      let ax ← parseV3 ax; let c ← parseRat c; let s ← parseRat s; pure (exM (axisRotateS sqrtA ax c s))
  | "xyzRotate", [cs] => do
      match ← parseRats cs with
      | [cx, sx, cy, sy, cz, sz] => pure (.ok (xyzRotate cx sx cy sy cz sz).toList)
      | _ => none
  | "shearXY", [tx, ty] => do let tx ← parseRat tx; let ty ← parseRat ty; pure (.ok (shearXY tx ty).toList)
  | "ucs", [x, y, z, o] => do
      let x ← parseV3 x; let y ← parseV3 y; let z ← parseV3 z; let o ← parseV3 o; pure (.ok (ucs x y z o).toList)
  | "from2d", [c] => do
      match ← parseRats c with
      | [c0, c1, c2, c3, c4, c5] => pure (.ok (from2d c0 c1 c2 c3 c4 c5).toList)
      | _ => none
  | "transform", [m, v] => do let m ← parseM m; let v ← parseV3 v; pure (.ok (v3l (transform m v)))
  | "transformDirection", [m, v] => do let m ← parseM m; let v ← parseV3 v; pure (.ok (v3l (transformDirection m v)))
  | "transformDirectionN", [m, v] => do let m ← parseM m; let v ← parseV3 v; pure (exV3 (transformDirectionNS sqrtA m v))
  | "transformVertices", [m, l] => do
      let m ← parseM m; let l ← parseList parseV3 l; pure (.ok ((transformVertices m l).map v3l).flatten)
  | "transformDirections", [m, l] => do
      let m ← parseM m; let l ← parseList parseV3 l; pure (.ok ((transformDirections m l).map v3l).flatten)
  | "fast2d", [m, l] => do
      let m ← parseM m; let l ← parseList parseV2 l; pure (.ok ((fast2d m l).map v2l).flatten)
  | "ucsVertexFromWcs", [m, v] => do let m ← parseM m; let v ← parseV3 v; pure (.ok (v3l (ucsVertexFromWcs m v)))
  | "ucsDirectionFromWcs", [m, v] => do let m ← parseM m; let v ← parseV3 v; pure (.ok (v3l (ucsDirectionFromWcs m v)))
  | "axes", [m] => do let m ← parseM m; pure (.ok (v3l (ux m) ++ v3l (uy m) ++ v3l (uz m) ++ v3l (origin m)))
  | "copy", [m] => do let m ← parseM m; pure (.ok (copy m).toList)
  | "mul", [m, o] => do let m ← parseM m; let o ← parseM o; pure (.ok (mul m o).toList)
  | "imul", [m, o] => do let m ← parseM m; let o ← parseM o; pure (.ok (imul m o).toList)
  | "imulSelf", [m] => do let m ← parseM m; pure (.ok (imulSelf m).toList)
  | "matmul", [m, o] => do let m ← parseM m; let o ← parseM o; pure (.ok (matmul m o).toList)
  | "transpose", [m] => do let m ← parseM m; pure (.ok (transpose m).toList)
  | "determinant", [m] => do let m ← parseM m; pure (.ok [determinant m])
  | "inverse", [m] => do let m ← parseM m; pure (exM (inverse m))
  | "chain", [l] => do let l ← parseList parseM l; pure (.ok (chain l).toList)
  | "array2d", [m, rows] => do let m ← parseM m; let rows ← parseRows rows; pure (.ok (array2d m rows).flatten)
  | "array3d", [m, rows] => do let m ← parseM m; let rows ← parseRows rows; pure (.ok (array3d m rows).flatten)
  | "ocsInit", [n] => do
      let n ← parseV3 n
      match ocsInitS sqrtA n with
      | .ok (t, m) => pure (.ok m.toList (showB t ++ ";"))
      | .error e => pure (.err e)
  | "ocsFromWcs", [t, m, p] => do let t ← parseBool t; let m ← parseM m; let p ← parseV3 p; pure (.ok (v3l (ocsFromWcs t m p)))
  | "ocsToWcs", [t, m, p] => do let t ← parseBool t; let m ← parseM m; let p ← parseV3 p; pure (.ok (v3l (ocsToWcs t m p)))
  | "ocsAxes", [t, m] => do
      let t ← parseBool t; let m ← parseM m; pure (.ok (v3l (ocsUx t m) ++ v3l (ocsUy t m) ++ v3l (ocsUz t m)))
  | "ucsInitXYZ", [o, x, y, z] => do
      let o ← parseV3 o; let x ← parseV3 x; let y ← parseV3 y; let z ← parseV3 z; pure (exM (ucsInitXYZS sqrtA o x y z))
  | "ucsInitXY", [o, x, y] => do let o ← parseV3 o; let x ← parseV3 x; let y ← parseV3 y; pure (exM (ucsInitXYS sqrtA o x y))
  | "ucsInitXZ", [o, x, z] => do let o ← parseV3 o; let x ← parseV3 x; let z ← parseV3 z; pure (exM (ucsInitXZS sqrtA o x z))
  | "ucsInitYZ", [o, y, z] => do let o ← parseV3 o; let y ← parseV3 y; let z ← parseV3 z; pure (exM (ucsInitYZS sqrtA o y z))
  | "ucsToWcs", [m, p] => do let m ← parseM m; let p ← parseV3 p; pure (.ok (v3l (ucsToWcs m p)))
  | "ucsFromWcs", [m, p] => do let m ← parseM m; let p ← parseV3 p; pure (.ok (v3l (ucsFromWcs m p)))
  | "ucsDirectionToWcs", [m, p] => do let m ← parseM m; let p ← parseV3 p; pure (.ok (v3l (ucsDirectionToWcs m p)))
  | "ucsDirectionFromWcsU", [m, p] => do let m ← parseM m; let p ← parseV3 p; pure (.ok (v3l (UcsK.ucsDirectionFromWcs m p)))
  | "ucsPointsToWcs", [m, l] => do
      let m ← parseM m; let l ← parseList parseV3 l; pure (.ok ((ucsPointsToWcs m l).map v3l).flatten)
  | "v3ctor0", [_] => pure (.ok (v3l v3ctor0))
  | "v3ctor2", [x] => do match ← parseRats x with | [a, b] => pure (.ok (v3l (v3ctor2 a b))) | _ => none
  | "v3ctor3", [x] => do let v ← parseV3 x; pure (.ok (v3l (v3ctor3 v.x v.y v.z)))
  | "v3ctorT2", [x] => do match ← parseRats x with | [a, b] => pure (.ok (v3l (v3ctorT2 a b))) | _ => none
  | "v3ctorT3", [x] => do let v ← parseV3 x; pure (.ok (v3l (v3ctorT3 v.x v.y v.z)))
  | "v3ctorL3", [x] => do let v ← parseV3 x; pure (.ok (v3l (v3ctorL3 v.x v.y v.z)))
  | "v3ctorV2", [x] => do let p ← parseV2 x; pure (.ok (v3l (v3ctorV2 p)))
  | "v3ctorV3", [x] => do let v ← parseV3 x; pure (.ok (v3l (v3ctorV3 v)))
  | "v2ctor0", [_] => pure (.ok (v2l v2ctor0))
  | "v2ctor2", [x] => do match ← parseRats x with | [a, b] => pure (.ok (v2l (v2ctor2 a b))) | _ => none
  | "v2ctorT2", [x] => do match ← parseRats x with | [a, b] => pure (.ok (v2l (v2ctorT2 a b))) | _ => none
  | "v2ctorT3", [x] => do let v ← parseV3 x; pure (.ok (v2l (v2ctorT3 v.x v.y v.z)))
  | "v2ctorV3", [x] => do let v ← parseV3 x; pure (.ok (v2l (v2ctorV3 v)))
  | "v2ctorV2", [x] => do let p ← parseV2 x; pure (.ok (v2l (v2ctorV2 p)))
  | "v3fromAngle", [c, s, k] => do let c ← parseRat c; let s ← parseRat s; let k ← parseRat k; pure (.ok (v3l (v3fromAngle k c s)))
  | "v2fromAngle", [c, s, k] => do let c ← parseRat c; let s ← parseRat s; let k ← parseRat k; pure (.ok (v2l (v2fromAngle k c s)))
  | "v3bool", [x] => do let v ← parseV3 x; pure (.ok [] (showB (v3bool v)))
  | "v2bool", [x] => do let p ← parseV2 x; pure (.ok [] (showB (v2bool p)))
  | "v2rmul", [p, k] => do let p ← parseV2 p; let k ← parseRat k; pure (.ok (v2l (v2rmul p k)))
  | "v3hashArg", [x] => do let v ← parseV3 x; let t := v3hashArg v; pure (.ok [t.1, t.2.1, t.2.2])
  | "v2hashArg", [x] => do let p ← parseV2 x; let t := v2hashArg p; pure (.ok [t.1, t.2])
  | "v3cosBetween", [p, q] => do
      let p ← parseV3 p; let q ← parseV3 q
      match v3cosBetweenS sqrtA p q with | .ok c => pure (.ok [c]) | .error e => pure (.err e)
  | "v2cosBetween", [p, q] => do
      let p ← parseV2 p; let q ← parseV2 q
      match v2cosBetweenS sqrtA p q with | .ok c => pure (.ok [c]) | .error e => pure (.err e)
  | "v3rotate", [p, c, s] => do let p ← parseV3 p; let c ← parseRat c; let s ← parseRat s; pure (.ok (v3l (v3rotateS sqrtA p c s)))
  | "v2rotate", [p, c, s] => do let p ← parseV2 p; let c ← parseRat c; let s ← parseRat s; pure (.ok (v2l (v2rotateS sqrtA p c s)))
  | "v3rotateDeg", [p, c, s] => do let p ← parseV3 p; let c ← parseRat c; let s ← parseRat s; pure (.ok (v3l (v3rotateDegS sqrtA p c s)))
  | "v2rotateDeg", [p, c, s] => do let p ← parseV2 p; let c ← parseRat c; let s ← parseRat s; pure (.ok (v2l (v2rotateDegS sqrtA p c s)))
  | "perspective", [x] => do
      match ← parseRats x with
      | [l, r, t, b, n, f] => pure (exM (perspective l r t b n f))
      | _ => none
  | "perspectiveFov", [a, n, f, t] => do
      let a ← parseRat a; let n ← parseRat n; let f ← parseRat f; let t ← parseRat t; pure (exM (perspectiveFov a n f t))
  | "ocsPointsToWcs", [t, m, l] => do
      let t ← parseBool t; let m ← parseM m; let l ← parseList parseV3 l; pure (.ok ((ocsPointsToWcs t m l).map v3l).flatten)
  | "ocsPointsFromWcs", [t, m, l] => do
      let t ← parseBool t; let m ← parseM m; let l ← parseList parseV3 l; pure (.ok ((ocsPointsFromWcs t m l).map v3l).flatten)
  | "ucsToOcsAngleVec", [m, c, s] => do
      let m ← parseM m; let c ← parseRat c; let s ← parseRat s; pure (exV3 (ucsToOcsAngleVecS sqrtA m c s))
  | "v3truediv", [p, k] => do let p ← parseV3 p; let k ← parseRat k; pure (exV3 (v3truediv p k))
  | "v3rmul", [p, k] => do let p ← parseV3 p; let k ← parseRat k; pure (.ok (v3l (v3rmul p k)))
  | "v3radd", [p, q] => do let p ← parseV3 p; let q ← parseV3 q; pure (.ok (v3l (v3radd p q)))
  | "v3reversed", [p] => do let p ← parseV3 p; pure (.ok (v3l (v3reversed p)))
  | "v3vec2", [p] => do let p ← parseV3 p; pure (.ok (v2l (v3vec2 p)))
  | "v3xy", [p] => do let p ← parseV3 p; pure (.ok (v3l (v3xy p)))
  | "v3mag", [p] => do let p ← parseV3 p; pure (.ok [v3magS sqrtA p])
  | "v3magxy", [p] => do let p ← parseV3 p; pure (.ok [v3magxyS sqrtA p])
  | "v3normalizeL", [p, l] => do let p ← parseV3 p; let l ← parseRat l; pure (exV3 (v3normalizeLS sqrtA p l))
  | "v3isclose2", [p, q, rt, at'] => do
      let p ← parseV3 p; let q ← parseV3 q; let rt ← parseRat rt; let at' ← parseRat at'
      pure (.ok [] (showB (v3isclose2 p q rt at')))
  | "v3isparallel", [p, q] => do
      let p ← parseV3 p; let q ← parseV3 q
      match v3isparallelS sqrtA p q with
      | .ok b => pure (.ok [] (showB b))
      | .error e => pure (.err e)
  | "v2truediv", [p, k] => do
      let p ← parseV2 p; let k ← parseRat k
      match v2truediv p k with
      | .ok v => pure (.ok (v2l v))
      | .error e => pure (.err e)
  | "v2isnull", [p] => do let p ← parseV2 p; pure (.ok [] (showB (v2isnull p)))
  | "v2normalize", [p] => do
      let p ← parseV2 p
      match v2normalizeS sqrtA p with
      | .ok v => pure (.ok (v2l v))
      | .error e => pure (.err e)
  | "v2project", [p, q] => do
      let p ← parseV2 p; let q ← parseV2 q
      match v2projectS sqrtA p q with
      | .ok v => pure (.ok (v2l v))
      | .error e => pure (.err e)
  | "v2distance", [p, q] => do let p ← parseV2 p; let q ← parseV2 q; pure (.ok [v2distanceS sqrtA p q])
  | "normal3p", [a, b, c] => do
      let a ← parseV3 a; let b ← parseV3 b; let c ← parseV3 c; pure (exV3 (normal3pS sqrtA a b c))
  | "distPointLine", [p, a, b] => do
      let p ← parseV3 p; let a ← parseV3 a; let b ← parseV3 b
      match distPointLineS sqrtA p a b with
      | .ok d => pure (.ok [d])
      | .error e => pure (.err e)
  | "basicT0", [mv, sc] => do let mv ← parseV3 mv; let sc ← parseV3 sc; pure (.ok (basicT0 mv sc).toList)
  | "get2d", [m] => do
      let m ← parseM m
      let (a, b, c, d, e, f, g, h, i) := get2d m
      pure (.ok [a, b, c, d, e, f, g, h, i])
  | "getRow", [m] => do
      let m ← parseM m
      let ((a0, a1, a2, a3), (b0, b1, b2, b3), (c0, c1, c2, c3), (d0, d1, d2, d3)) := getRow m
      pure (.ok [a0, a1, a2, a3, b0, b1, b2, b3, c0, c1, c2, c3, d0, d1, d2, d3])
  | "getCol", [m] => do
      let m ← parseM m
      let ((a0, a1, a2, a3), (b0, b1, b2, b3), (c0, c1, c2, c3), (d0, d1, d2, d3)) := getCol m
      pure (.ok [a0, a1, a2, a3, b0, b1, b2, b3, c0, c1, c2, c3, d0, d1, d2, d3])
  | "isCartesian", [m] => do
      let m ← parseM m
      match isCartesianS sqrtA m with
      | .ok b => pure (.ok [] (showB b))
      | .error e => pure (.err e)
  | "isOrthogonal", [m] => do
      let m ← parseM m
      match isOrthogonalS sqrtA m with
      | .ok b => pure (.ok [] (showB b))
      | .error e => pure (.err e)
  | "ucsIsCartesian", [m] => do
      let m ← parseM m
      match ucsIsCartesianS sqrtA m with
      | .ok b => pure (.ok [] (showB b))
      | .error e => pure (.err e)
  | "ucsFromXaxisXY", [o, x, p] => do let o ← parseV3 o; let x ← parseV3 x; let p ← parseV3 p; pure (exM (ucsFromXaxisXYS sqrtA o x p))
  | "ucsFromXaxisXZ", [o, x, p] => do let o ← parseV3 o; let x ← parseV3 x; let p ← parseV3 p; pure (exM (ucsFromXaxisXZS sqrtA o x p))
  | "ucsFromYaxisXY", [o, x, p] => do let o ← parseV3 o; let x ← parseV3 x; let p ← parseV3 p; pure (exM (ucsFromYaxisXYS sqrtA o x p))
  | "ucsFromYaxisYZ", [o, x, p] => do let o ← parseV3 o; let x ← parseV3 x; let p ← parseV3 p; pure (exM (ucsFromYaxisYZS sqrtA o x p))
  | "ucsFromZaxisXZ", [o, x, p] => do let o ← parseV3 o; let x ← parseV3 x; let p ← parseV3 p; pure (exM (ucsFromZaxisXZS sqrtA o x p))
  | "ucsFromZaxisYZ", [o, x, p] => do let o ← parseV3 o; let x ← parseV3 x; let p ← parseV3 p; pure (exM (ucsFromZaxisYZS sqrtA o x p))
  | "ucsRotateLocalX", [m, c, s] => do let m ← parseM m; let c ← parseRat c; let s ← parseRat s; pure (exM (ucsRotateLocalXS sqrtA m c s))
  | "ucsRotateLocalY", [m, c, s] => do let m ← parseM m; let c ← parseRat c; let s ← parseRat s; pure (exM (ucsRotateLocalYS sqrtA m c s))
  | "ucsRotateLocalZ", [m, c, s] => do let m ← parseM m; let c ← parseRat c; let s ← parseRat s; pure (exM (ucsRotateLocalZS sqrtA m c s))
  | "ucsRotate", [m, ax, c, s] => do
      let m ← parseM m; let ax ← parseV3 ax; let c ← parseRat c; let s ← parseRat s; pure (exM (ucsRotateS sqrtA m ax c s))
  | "basicT", [mv, sc, nz, c, s] => do
      let mv ← parseV3 mv; let sc ← parseV3 sc; let nz ← parseBool nz; let c ← parseRat c; let s ← parseRat s
      pure (.ok (basicT mv sc nz c s).toList)
  | "ucsTransformU", [m, o] => do let m ← parseM m; let o ← parseM o; pure (.ok (ucsTransform m o).toList)
  | "ucsShift", [m, d] => do let m ← parseM m; let d ← parseV3 d; pure (.ok (ucsShift m d).toList)
  | "ucsMoveto", [m, o] => do let m ← parseM m; let o ← parseV3 o; pure (.ok (ucsMoveto m o).toList)
  | "ucsCopy", [m] => do let m ← parseM m; pure (exM (ucsCopyS sqrtA m))
  | "ucsToOcs", [m, p] => do let m ← parseM m; let p ← parseV3 p; pure (exV3 (ucsToOcsS sqrtA m p))
  | "ucsDirToOcs", [m, p] => do let m ← parseM m; let p ← parseV3 p; pure (exV3 (ucsDirToOcsS sqrtA m p))
  | "ucsPointsToOcs", [m, l] => do
      let m ← parseM m; let l ← parseList parseV3 l
      match ucsPointsToOcsS sqrtA m l with
      | .ok vs => pure (.ok (vs.map v3l).flatten)
      | .error e => pure (.err e)
  | "ucsPointsFromWcs", [m, l] => do
      let m ← parseM m; let l ← parseList parseV3 l; pure (.ok ((ucsPointsFromWcs m l).map v3l).flatten)
  | "ucsAxes", [m] => do let m ← parseM m; pure (.ok (v3l (ucsUx m) ++ v3l (ucsUy m) ++ v3l (ucsUz m) ++ v3l (ucsOrigin m)))
  | "ucsWcsFrame", [m, p] => do let m ← parseM m; let p ← parseV3 p; pure (.ok (ucsToWcsFrame m p).toList)
  | "ucsFrames", [m, p] => do
      let m ← parseM m; let p ← parseV3 p
      match ucsToOcsFrameS sqrtA m p with
      | .ok f => pure (.ok ((ucsToWcsFrame m p).toList ++ f.toList))
      | .error e => pure (.err e)
  | "ucsSeqShiftToOcs", [m, q, d, p] => do
      let m ← parseM m; let q ← parseV3 q; let d ← parseV3 d; let p ← parseV3 p; pure (exV3 (ucsSeqShiftToOcsS sqrtA m q d p))
  | "ucsSeqMovetoToOcs", [m, q, o, p] => do
      let m ← parseM m; let q ← parseV3 q; let o ← parseV3 o; let p ← parseV3 p; pure (exV3 (ucsSeqMovetoToOcsS sqrtA m q o p))
  | "ucsSeqShiftToWcs", [m, q, d, p] => do
      let m ← parseM m; let q ← parseV3 q; let d ← parseV3 d; let p ← parseV3 p; pure (.ok (v3l (ucsSeqShiftToWcs m q d p)))
  | "ocsSeqRoundtrip", [t, m, p] => do
      let t ← parseBool t; let m ← parseM m; let p ← parseV3 p; pure (.ok (v3l (ocsSeqRoundtrip t m p)))
  | "ucsSeqTransformToOcs", [s, q, m, p] => do
      let s ← parseM s; let q ← parseV3 q; let m ← parseM m; let p ← parseV3 p; pure (exV3 (ucsSeqTransformToOcsS sqrtA s q m p))
  | "ucsSeqTransformDirToOcs", [s, q, m, p] => do
      let s ← parseM s; let q ← parseV3 q; let m ← parseM m; let p ← parseV3 p; pure (exV3 (ucsSeqTransformDirToOcsS sqrtA s q m p))
  | "ucsSeqTransformToWcs", [s, q, m, p] => do
      let s ← parseM s; let q ← parseV3 q; let m ← parseM m; let p ← parseV3 p; pure (.ok (v3l (ucsSeqTransformToWcs s q m p)))
  | "ucsSeqTransformFromWcs", [s, q, m, p] => do
      let s ← parseM s; let q ← parseV3 q; let m ← parseM m; let p ← parseV3 p; pure (.ok (v3l (ucsSeqTransformFromWcs s q m p)))
  | _, _ => none)

set_option hygiene false in
/-- one mutator call of a UCS history on the state (the generated mutator kernels of this twin) -/
local macro "c11_mutate" : command => `(
def mutate (s : M44) (kind arg : String) : Option M44 :=
  if kind = "tr" then (parseM arg).map (ucsTransform s)
  else if kind = "sh" then (parseV3 arg).map (ucsShift s)
  else if kind = "mv" then (parseV3 arg).map (ucsMoveto s)
  else if kind = "fk" then some s   -- a copy was taken and mutated: the original must not notice
  else if kind = "cp" then (match ucsCopyS sqrtA s with | .ok m => some m | .error _ => none)   -- continue on the copy
  else if kind = "rx" || kind = "ry" || kind = "rz" then   -- continue on the NEW object a local rotation returns
    match parseRats arg with
    | some [c, sn] =>
      let r := if kind = "rx" then ucsRotateLocalXS sqrtA s c sn else if kind = "ry" then ucsRotateLocalYS sqrtA s c sn
               else ucsRotateLocalZS sqrtA s c sn
      match r with | .ok m => some m | .error _ => none
    | _ => none
  else if kind = "ro" then   -- continue on the NEW object `rotate(axis, angle)` returns (origin must be kept)
    match parseRats arg with
    | some [ax, ay, az, c, sn] => (match ucsRotateS sqrtA s ⟨ax, ay, az⟩ c sn with | .ok m => some m | .error _ => none)
    | _ => none
  else none)

namespace Py
open VectorPy Matrix44Py PyNumpy ConstructPy
open UcsPy hiding ucsDirectionFromWcs
namespace UcsK
def ucsDirectionFromWcs := UcsPy.ucsDirectionFromWcs
end UcsK
c11_kernels
c11_mutate
end Py

-- rotate_deg is a translated kernel only for the Python twin (the Cython form multiplies by a C constant and calls rotate)
namespace PyxStandIn
def v3rotateDegS := VectorPyx.v3rotateS
def v2rotateDegS := VectorPyx.v2rotateS
end PyxStandIn

namespace Pyx
open VectorPyx Matrix44Pyx ConstructPyx PyxStandIn
open UcsPyx hiding ucsDirectionFromWcs
namespace UcsK
def ucsDirectionFromWcs := UcsPyx.ucsDirectionFromWcs
end UcsK
c11_kernels
c11_mutate
end Pyx

def runTwin (twin kernel : String) (a : List String) : Option Out :=
  if twin = "py" then Py.run kernel a else if twin = "pyx" then Pyx.run kernel a else none

def step (line : String) : String :=
  match line.splitOn "|" with
  | "x" :: twin :: kernel :: args =>
    match runTwin twin kernel args with
    | some o => o.show
    | none => "bad-op"
  | "t" :: twin :: kernel :: rest =>
    if rest.length < 2 then "bad-op" else
    let args := rest.take (rest.length - 2)
    let expected := rest[rest.length - 2]!
    match parseTol rest[rest.length - 1]! args, runTwin twin kernel args with
    | some tol, some o => judge o expected tol
    | _, _ => "bad-op"
  | "g" :: twin :: m0 :: steps =>
    match parseM m0 with
    | some s =>
      if twin = "py" then mhist Py.run EzdxfVerif.M44Machine.stepPy s 0 steps
      else if twin = "pyx" then mhist Pyx.run EzdxfVerif.M44Machine.step s 0 steps else "bad-op"
    | none => "bad-op"
  | "h" :: twin :: m0 :: steps =>
    match parseM m0 with
    | some s =>
      if twin = "py" then hist Py.run Py.mutate s 0 steps
      else if twin = "pyx" then hist Pyx.run Pyx.mutate s 0 steps else "bad-op"
    | none => "bad-op"
  | _ => "bad-op"

end C11

def main : IO Unit := Proto.run C11.step

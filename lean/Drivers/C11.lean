/-
Line-protocol driver for C11 (vector / matrix / coordinate-system kernels).

Request   x|<twin>|<kernel>|<arg>|…                 exact: answer is the canonical value
          t|<twin>|<kernel>|<arg>|…|<expected>|<tol> tolerant: answer `agree` or `DISAGREE <model value>`
  twin     py | pyx      (which generated module: Gen/*Py.lean or Gen/*Pyx.lean)
  arg      rational `p/q` or `p`; vectors / matrices / lists: comma separated rationals; list of vectors: `;` separated
  expected `ok <comma separated rationals>` | `err <PyErr>`
  tol      `abs:<rat>`  |v - w| ≤ rat     `rel:<rat>:<floor>`  |v - w| ≤ rat · max(|w|, floor)
           `kappa:<rat>`  |v - w| ≤ rat · κ∞(M) · max|M⁻¹|   (inverse; κ∞ and M⁻¹ computed exactly here)
Square roots that the kernels take as parameters are supplied by `sqrtA`, an approximation with relative error
< 2⁻¹⁰⁰ (driver only; theorems quantify over exact roots).  The NumPy forms of the pure-Python twin
(`__mul__`, `transpose`, `determinant`, `inverse`, `chain`, `transform_array_inplace`) are answered by the
textbook algebra of Model/Rat3.lean.
-/
import EzdxfVerif.Model.Rat3
import EzdxfVerif.Gen.VectorPy
import EzdxfVerif.Gen.VectorPyx
import EzdxfVerif.Gen.Matrix44Py
import EzdxfVerif.Gen.Matrix44Pyx
import EzdxfVerif.Gen.UcsPy
import EzdxfVerif.Gen.UcsPyx
import Drivers.Proto
open EzdxfVerif.Rat3 EzdxfVerif.Gen

namespace C11

-- ------------------------------------------------------------------------------------------- parsing / printing
def parseRat (s : String) : Option Rat :=
  match s.splitOn "/" with
  | [p] => (Proto.parseInt p).map fun n => (n : Rat)
  | [p, q] => match Proto.parseInt p, q.toNat? with
    | some n, some d => if d = 0 then none else some ((n : Rat) / (d : Rat))
    | _, _ => none
  | _ => none

def parseRats (s : String) : Option (List Rat) :=
  if s.isEmpty then some [] else (s.splitOn ",").mapM parseRat

def parseV3 (s : String) : Option V3 :=
  match parseRats s with | some [x, y, z] => some ⟨x, y, z⟩ | _ => none
def parseV2 (s : String) : Option V2 :=
  match parseRats s with | some [x, y] => some ⟨x, y⟩ | _ => none
def parseM (s : String) : Option M44 := (parseRats s).bind M44.ofList
def parseBool (s : String) : Option Bool :=
  if s = "T" then some true else if s = "F" then some false else none
def parseList {α} (f : String → Option α) (s : String) : Option (List α) :=
  if s.isEmpty then some [] else (s.splitOn ";").mapM f

def showRat (r : Rat) : String := if r.den = 1 then toString r.num else toString r.num ++ "/" ++ toString r.den
def showRats (l : List Rat) : String := ",".intercalate (l.map showRat)
def v3l (v : V3) : List Rat := [v.x, v.y, v.z]
def v2l (v : V2) : List Rat := [v.x, v.y]
def showErr : PyErr → String
  | .zeroDivision => "ZeroDivisionError" | .typeError => "TypeError" | .valueError => "ValueError"
  | .indexError => "IndexError"
def showB (b : Bool) : String := if b then "T" else "F"

/-- a computed value in canonical flat form -/
inductive Out where
  | ok (vals : List Rat) (tag : String := "")
  | err (e : PyErr)

def Out.show : Out → String
  | .ok vals tag => "ok " ++ tag ++ showRats vals
  | .err e => "err " ++ showErr e

def exV3 : Except PyErr V3 → Out
  | .ok v => .ok (v3l v) | .error e => .err e
def exM : Except PyErr M44 → Out
  | .ok m => .ok m.toList | .error e => .err e

-- ------------------------------------------------------------------------------------------- approximate sqrt
partial def isqrtLoop (n x : Nat) : Nat :=
  let y := (x + n / x) / 2
  if y ≥ x then x else isqrtLoop n y

def isqrt (n : Nat) : Nat := if n = 0 then 0 else isqrtLoop n (2 ^ (n.log2 / 2 + 1))

/-- sqrt(p/q) ≈ isqrt(p·q·4^k) / (q·2^k), k chosen so that the integer root has at least 100 significant bits -/
def sqrtA (a : Rat) : Rat :=
  if a ≤ 0 then 0 else
  let p := a.num.toNat
  let q := a.den
  let bits := (p * q).log2
  let k := if bits < 220 then (220 - bits) / 2 + 1 else 0
  ((isqrt (p * q * 4 ^ k) : Nat) : Rat) / ((q * 2 ^ k : Nat) : Rat)

-- ------------------------------------------------------------------------------------------- tolerance
def absR (a : Rat) : Rat := if a < 0 then -a else a
def maxAbs (l : List Rat) : Rat := l.foldl (fun acc x => if acc < absR x then absR x else acc) 0

def normInf (m : M44) : Rat :=
  let rows := [[m.m0, m.m1, m.m2, m.m3], [m.m4, m.m5, m.m6, m.m7], [m.m8, m.m9, m.m10, m.m11], [m.m12, m.m13, m.m14, m.m15]]
  maxAbs (rows.map fun r => r.foldl (fun acc x => acc + absR x) 0)

def closeLists (tol : Rat → Rat) : List Rat → List Rat → Bool
  | [], [] => true
  | a :: as, b :: bs => decide (absR (a - b) ≤ tol b) && closeLists tol as bs
  | _, _ => false

/-- numeric payload of `expected`; a leading non-numeric tag (e.g. `T;`) is compared exactly -/
def judge (model : Out) (expected : String) (tol : Rat → Rat) : String :=
  match model with
  | .err e => if expected = "err " ++ showErr e then "agree" else "DISAGREE " ++ model.show
  | .ok vals tag =>
    if !expected.startsWith ("ok " ++ tag) then "DISAGREE " ++ model.show else
    match parseRats (expected.drop (3 + tag.length)).toString with
    | some ws => if closeLists tol vals ws then "agree" else "DISAGREE " ++ model.show
    | none => "bad-op expected"

-- ------------------------------------------------------------------------------------------- NumPy forms of the Python twin
namespace PyNumpy
def mul := M44.mul
def imul := M44.mul
def imulSelf (m : M44) := M44.mul m m
def matmul := M44.mul
def transpose := M44.transpose
def determinant := M44.det
def inverse := M44.inv
def chain := M44.chain
def array2d := Matrix44Pyx.array2d
def array3d := Matrix44Pyx.array3d
end PyNumpy

def parseRows (s : String) : Option (List (List Rat)) := parseList parseRats s
def showRows (rows : List (List Rat)) : String := ";".intercalate (rows.map showRats)

set_option hygiene false in
/-- the kernel table; expanded once per twin under different `open`s -/
local macro "c11_kernels" : command => `(
def run (kernel : String) (a : List String) : Option Out :=
  match kernel, a with
  | "v3add", [p, q] => do let p ← parseV3 p; let q ← parseV3 q; pure (.ok (v3l (v3add p q)))
  | "v3sub", [p, q] => do let p ← parseV3 p; let q ← parseV3 q; pure (.ok (v3l (v3sub p q)))
  | "v3rsub", [p, q] => do let p ← parseV3 p; let q ← parseV3 q; pure (.ok (v3l (v3rsub p q)))
  | "v3mul", [p, k] => do let p ← parseV3 p; let k ← parseRat k; pure (.ok (v3l (v3mul p k)))
  | "v3neg", [p] => do let p ← parseV3 p; pure (.ok (v3l (v3neg p)))
  | "v3dot", [p, q] => do let p ← parseV3 p; let q ← parseV3 q; pure (.ok [v3dot p q])
  | "v3cross", [p, q] => do let p ← parseV3 p; let q ← parseV3 q; pure (.ok (v3l (v3cross p q)))
  | "v3lerp", [p, q, t] => do let p ← parseV3 p; let q ← parseV3 q; let t ← parseRat t; pure (.ok (v3l (v3lerp p q t)))
  | "v3magsq", [p] => do let p ← parseV3 p; pure (.ok [v3magsq p])
  | "v3ortho", [p, c] => do let p ← parseV3 p; let c ← parseBool c; pure (.ok (v3l (v3ortho p c)))
  | "v3eq", [p, q] => do let p ← parseV3 p; let q ← parseV3 q; pure (.ok [] (showB (v3eq p q)))
  | "v3lt", [p, q] => do let p ← parseV3 p; let q ← parseV3 q; pure (.ok [] (showB (v3lt p q)))
  | "v3isclose", [p, q] => do let p ← parseV3 p; let q ← parseV3 q; pure (.ok [] (showB (v3isclose p q)))
  | "v3isnull", [p] => do let p ← parseV3 p; pure (.ok [] (showB (v3isnull p)))
  | "v3sum", [l] => do let l ← parseList parseV3 l; pure (.ok (v3l (v3sum l)))
  | "v3normalize", [p] => do let p ← parseV3 p; pure (exV3 (v3normalizeS sqrtA p))
  | "v3project", [p, q] => do let p ← parseV3 p; let q ← parseV3 q; pure (exV3 (v3projectS sqrtA p q))
  | "v3distance", [p, q] => do let p ← parseV3 p; let q ← parseV3 q; pure (.ok [v3distanceS sqrtA p q])
  | "v2add", [p, q] => do let p ← parseV2 p; let q ← parseV2 q; pure (.ok (v2l (v2add p q)))
  | "v2sub", [p, q] => do let p ← parseV2 p; let q ← parseV2 q; pure (.ok (v2l (v2sub p q)))
  | "v2mul", [p, k] => do let p ← parseV2 p; let k ← parseRat k; pure (.ok (v2l (v2mul p k)))
  | "v2neg", [p] => do let p ← parseV2 p; pure (.ok (v2l (v2neg p)))
  | "v2dot", [p, q] => do let p ← parseV2 p; let q ← parseV2 q; pure (.ok [v2dot p q])
  | "v2det", [p, q] => do let p ← parseV2 p; let q ← parseV2 q; pure (.ok [v2det p q])
  | "v2lerp", [p, q, t] => do let p ← parseV2 p; let q ← parseV2 q; let t ← parseRat t; pure (.ok (v2l (v2lerp p q t)))
  | "v2ortho", [p, c] => do let p ← parseV2 p; let c ← parseBool c; pure (.ok (v2l (v2ortho p c)))
  | "v2eq", [p, q] => do let p ← parseV2 p; let q ← parseV2 q; pure (.ok [] (showB (v2eq p q)))
  | "v2lt", [p, q] => do let p ← parseV2 p; let q ← parseV2 q; pure (.ok [] (showB (v2lt p q)))
  | "v2isclose", [p, q] => do let p ← parseV2 p; let q ← parseV2 q; pure (.ok [] (showB (v2isclose p q)))
  | "v2sum", [l] => do let l ← parseList parseV2 l; pure (.ok (v2l (v2sum l)))
  | "scale", [s] => do let s ← parseV3 s; pure (.ok (scale s.x s.y s.z).toList)
  | "scaleUniform", [s] => do let s ← parseRat s; pure (.ok (scaleUniform s).toList)
  | "translate", [s] => do let s ← parseV3 s; pure (.ok (translate s.x s.y s.z).toList)
  | "xRotate", [c, s] => do let c ← parseRat c; let s ← parseRat s; pure (.ok (xRotate c s).toList)
  | "yRotate", [c, s] => do let c ← parseRat c; let s ← parseRat s; pure (.ok (yRotate c s).toList)
  | "zRotate", [c, s] => do let c ← parseRat c; let s ← parseRat s; pure (.ok (zRotate c s).toList)
  | "axisRotate", [ax, c, s] => do
      let ax ← parseV3 ax; let c ← parseRat c; let s ← parseRat s; pure (exM (axisRotateS sqrtA ax c s))
  | "xyzRotate", [cs] => do
      match ← parseRats cs with
      | [cx, sx, cy, sy, cz, sz] => pure (.ok (xyzRotate cx sx cy sy cz sz).toList)
      | _ => none
  | "shearXY", [tx, ty] => do let tx ← parseRat tx; let ty ← parseRat ty; pure (.ok (shearXY tx ty).toList)
  | "ucs", [x, y, z, o] => do
      let x ← parseV3 x; let y ← parseV3 y; let z ← parseV3 z; let o ← parseV3 o; pure (.ok (ucs x y z o).toList)
  | "from2d", [c] => do
      match ← parseRats c with
      | [c0, c1, c2, c3, c4, c5] => pure (.ok (from2d c0 c1 c2 c3 c4 c5).toList)
      | _ => none
  | "transform", [m, v] => do let m ← parseM m; let v ← parseV3 v; pure (.ok (v3l (transform m v)))
  | "transformDirection", [m, v] => do let m ← parseM m; let v ← parseV3 v; pure (.ok (v3l (transformDirection m v)))
  | "transformDirectionN", [m, v] => do let m ← parseM m; let v ← parseV3 v; pure (exV3 (transformDirectionNS sqrtA m v))
  | "transformVertices", [m, l] => do
      let m ← parseM m; let l ← parseList parseV3 l; pure (.ok ((transformVertices m l).map v3l).flatten)
  | "transformDirections", [m, l] => do
      let m ← parseM m; let l ← parseList parseV3 l; pure (.ok ((transformDirections m l).map v3l).flatten)
  | "fast2d", [m, l] => do
      let m ← parseM m; let l ← parseList parseV2 l; pure (.ok ((fast2d m l).map v2l).flatten)
  | "ucsVertexFromWcs", [m, v] => do let m ← parseM m; let v ← parseV3 v; pure (.ok (v3l (ucsVertexFromWcs m v)))
  | "ucsDirectionFromWcs", [m, v] => do let m ← parseM m; let v ← parseV3 v; pure (.ok (v3l (ucsDirectionFromWcs m v)))
  | "axes", [m] => do let m ← parseM m; pure (.ok (v3l (ux m) ++ v3l (uy m) ++ v3l (uz m) ++ v3l (origin m)))
  | "copy", [m] => do let m ← parseM m; pure (.ok (copy m).toList)
  | "mul", [m, o] => do let m ← parseM m; let o ← parseM o; pure (.ok (mul m o).toList)
  | "imul", [m, o] => do let m ← parseM m; let o ← parseM o; pure (.ok (imul m o).toList)
  | "imulSelf", [m] => do let m ← parseM m; pure (.ok (imulSelf m).toList)
  | "matmul", [m, o] => do let m ← parseM m; let o ← parseM o; pure (.ok (matmul m o).toList)
  | "transpose", [m] => do let m ← parseM m; pure (.ok (transpose m).toList)
  | "determinant", [m] => do let m ← parseM m; pure (.ok [determinant m])
  | "inverse", [m] => do let m ← parseM m; pure (exM (inverse m))
  | "chain", [l] => do let l ← parseList parseM l; pure (.ok (chain l).toList)
  | "array2d", [m, rows] => do let m ← parseM m; let rows ← parseRows rows; pure (.ok (array2d m rows).flatten)
  | "array3d", [m, rows] => do let m ← parseM m; let rows ← parseRows rows; pure (.ok (array3d m rows).flatten)
  | "ocsInit", [n] => do
      let n ← parseV3 n
      match ocsInitS sqrtA n with
      | .ok (t, m) => pure (.ok m.toList (showB t ++ ";"))
      | .error e => pure (.err e)
  | "ocsFromWcs", [t, m, p] => do let t ← parseBool t; let m ← parseM m; let p ← parseV3 p; pure (.ok (v3l (ocsFromWcs t m p)))
  | "ocsToWcs", [t, m, p] => do let t ← parseBool t; let m ← parseM m; let p ← parseV3 p; pure (.ok (v3l (ocsToWcs t m p)))
  | "ocsAxes", [t, m] => do
      let t ← parseBool t; let m ← parseM m; pure (.ok (v3l (ocsUx t m) ++ v3l (ocsUy t m) ++ v3l (ocsUz t m)))
  | "ucsInitXYZ", [o, x, y, z] => do
      let o ← parseV3 o; let x ← parseV3 x; let y ← parseV3 y; let z ← parseV3 z; pure (exM (ucsInitXYZS sqrtA o x y z))
  | "ucsInitXY", [o, x, y] => do let o ← parseV3 o; let x ← parseV3 x; let y ← parseV3 y; pure (exM (ucsInitXYS sqrtA o x y))
  | "ucsInitXZ", [o, x, z] => do let o ← parseV3 o; let x ← parseV3 x; let z ← parseV3 z; pure (exM (ucsInitXZS sqrtA o x z))
  | "ucsInitYZ", [o, y, z] => do let o ← parseV3 o; let y ← parseV3 y; let z ← parseV3 z; pure (exM (ucsInitYZS sqrtA o y z))
  | "ucsToWcs", [m, p] => do let m ← parseM m; let p ← parseV3 p; pure (.ok (v3l (ucsToWcs m p)))
  | "ucsFromWcs", [m, p] => do let m ← parseM m; let p ← parseV3 p; pure (.ok (v3l (ucsFromWcs m p)))
  | "ucsDirectionToWcs", [m, p] => do let m ← parseM m; let p ← parseV3 p; pure (.ok (v3l (ucsDirectionToWcs m p)))
  | "ucsDirectionFromWcsU", [m, p] => do let m ← parseM m; let p ← parseV3 p; pure (.ok (v3l (UcsK.ucsDirectionFromWcs m p)))
  | "ucsPointsToWcs", [m, l] => do
      let m ← parseM m; let l ← parseList parseV3 l; pure (.ok ((ucsPointsToWcs m l).map v3l).flatten)
  | _, _ => none)

namespace Py
open VectorPy Matrix44Py PyNumpy
open UcsPy hiding ucsDirectionFromWcs
namespace UcsK
def ucsDirectionFromWcs := UcsPy.ucsDirectionFromWcs
end UcsK
c11_kernels
end Py

namespace Pyx
open VectorPyx Matrix44Pyx
open UcsPyx hiding ucsDirectionFromWcs
namespace UcsK
def ucsDirectionFromWcs := UcsPyx.ucsDirectionFromWcs
end UcsK
c11_kernels
end Pyx

def runTwin (twin kernel : String) (a : List String) : Option Out :=
  if twin = "py" then Py.run kernel a else if twin = "pyx" then Pyx.run kernel a else none

/-- tolerance as a function of the expected (implementation) value w -/
def parseTol (s : String) (a : List String) : Option (Rat → Rat) :=
  match s.splitOn ":" with
  | ["abs", r] => do let r ← parseRat r; pure fun _ => r
  | ["rel", r, fl] => do
      let r ← parseRat r; let fl ← parseRat fl
      pure fun w => r * (if absR w < fl then fl else absR w)
  | ["kappa", r] => do
      let r ← parseRat r
      let m ← (a.head?).bind parseM
      match M44.inv m with
      | .ok i => let t := r * normInf m * normInf i * maxAbs i.toList; pure fun _ => t
      | .error _ => pure fun _ => 0
  | _ => none

def step (line : String) : String :=
  match line.splitOn "|" with
  | "x" :: twin :: kernel :: args =>
    match runTwin twin kernel args with
    | some o => o.show
    | none => "bad-op"
  | "t" :: twin :: kernel :: rest =>
    if rest.length < 2 then "bad-op" else
    let args := rest.take (rest.length - 2)
    let expected := rest[rest.length - 2]!
    match parseTol rest[rest.length - 1]! args, runTwin twin kernel args with
    | some tol, some o => judge o expected tol
    | _, _ => "bad-op"
  | _ => "bad-op"

end C11

def main : IO Unit := Proto.run C11.step

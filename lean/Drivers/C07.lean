import EzdxfVerif.Gen.RecoverTables
import EzdxfVerif.Model.Recover
import EzdxfVerif.Model.RecoverLoad
import Drivers.Proto
open EzdxfVerif EzdxfVerif.Recover EzdxfVerif.RecoverLoad Proto

def showErr : PyErr → String
  | .dxfStructureError => "DXFStructureError" | .indexError => "IndexError"
  | .unicodeDecodeError => "UnicodeDecodeError" | .valueError => "ValueError" | .overflowError => "OverflowError"

def dots (s : List Nat) : String := ".".intercalate (s.map toString)

def parseCfg (s : String) : Option Cfg :=
  match s.toList with
  | [a, b, c, d] => some ⟨a == '1', b == '1', c == '1', d == '1'⟩
  | _ => none

def parseEnc (s : String) : Option Enc :=
  if s == "cp1252" then some .cp1252 else if s == "utf8" then some .utf8 else if s == "other" then some .other else none

def showEnc : Enc → String
  | .cp1252 => "cp1252" | .utf8 => "utf8" | .other => "other"

def parseRawTag (s : String) : Option RawTag :=
  match s.splitOn ":" with
  | [c, v] => do let code ← Proto.parseInt c; let val ← parseNats v; some ⟨code, val⟩
  | _ => none

def parseRawTags (s : String) : Option (List RawTag) :=
  if s.isEmpty then some [] else (s.splitOn ";").mapM parseRawTag

def showRawTag (t : RawTag) : String := toString t.code ++ ":" ++ showNats t.val

def showCTag (t : CTag) : String :=
  toString t.code ++ ":" ++ (match t.val with
    | .str s => "s" ++ dots s
    | .num => "n" | .bin => "b" | .vtx => "v")

def parseCTag (s : String) : Option CTag :=
  match s.splitOn ":" with
  | [c, v] => do
    let code ← Proto.parseInt c
    if v == "n" then some ⟨code, .num⟩ else if v == "b" then some ⟨code, .bin⟩ else if v == "v" then some ⟨code, .vtx⟩
    else if v.startsWith "s" then
      let body : String := (v.drop 1).toString
      let val ← (if body.isEmpty then some [] else (body.splitOn ".").mapM (fun t => t.toNat?))
      some ⟨code, .str val⟩
    else none
  | _ => none

def showGroup (g : List CTag) : String := " ".intercalate (g.map showCTag)

def showDict (d : SectionDict) : String :=
  ";".intercalate (d.map fun e => dots e.1 ++ "=" ++ ",".intercalate (e.2.map showGroup))

/-- polynomial hash of the canonical text (big files: the response would be as long as the file) -/
def hashStr (s : String) : Nat := s.toList.foldl (fun h c => (h * 131 + c.toNat) % 2305843009213693951) 7

/-- value shown modulo 2^61-1 (sign kept): Python cannot print integers of more than 4300 digits -/
def showOptInt : Option Int → String
  | some i => "ok " ++ (if i < 0 then "-" else "") ++ toString (i.natAbs % 2305843009213693951)
  | none => "none"

def showVal : CVal → String
  | .str s => "s" ++ dots s
  | .num => "n" | .bin => "b" | .vtx => "v"

def showBItem : BItem → String
  | .tag t => showCTag t
  | .app i => "a" ++ toString i

def showGroups (gs : List (List CTag)) : String := ",".intercalate (gs.map showGroup)

def showKeyed (d : List (Str × List CTag)) : String :=
  ";".intercalate (d.map fun e => dots e.1 ++ "=" ++ showGroup e.2)

def showEnvelope (v : Envelope) : String :=
  "base=" ++ " ".intercalate (v.xt.base.map showBItem) ++ "|subs=" ++ showGroups v.xt.subclasses
    ++ "|apps=" ++ showGroups v.xt.appdata ++ "|emb=" ++ showGroups v.xt.embedded ++ "|xd=" ++ showGroups v.xt.xdata
    ++ "|r=" ++ (match v.reactors with | some hs => ",".intercalate (hs.map dots) | none => "-")
    ++ "|x=" ++ (match v.xdict with | some h => showVal h | none => "-")
    ++ "|ad=" ++ showKeyed v.appdata ++ "|xdata=" ++ showKeyed v.xdata

def parseCTags (t : String) : Option (List CTag) :=
  if t.isEmpty then some [] else (t.splitOn " ").mapM parseCTag

def step (line : String) : String :=
  match line.splitOn "|" with
  | ["front", c, mode, b] =>
    (match parseCfg c, parseNats b with
     | some cfg, some bs =>
       (match recoverFront cfg bs with
        | .ok d => if mode == "hash" then "ok h" ++ toString (hashStr (showDict d)) else "ok " ++ showDict d
        | .error e => "err " ++ showErr e)
     | _, _ => "bad-op")
  | ["loadtags", c, b] =>
    (match parseCfg c, parseNats b with
     | some cfg, some bs =>
       (match loadTags cfg bs with
        | .ok ts => "ok " ++ showGroup ts
        | .error e => "err " ++ showErr e)
     | _, _ => "bad-op")
  | ["pyint", b] => (match parseNats b with | some bs => showOptInt (pyInt bs) | none => "bad-op")
  | ["code", b] => (match parseNats b with | some bs => showOptInt (parseCode bs) | none => "bad-op")
  | ["pyhex", b] => (match parseNats b with | some bs => showOptInt (pyIntHex bs) | none => "bad-op")
  | ["float", b] =>
    (match parseNats b with
     | some bs => toString (pyFloatOk bs) ++ " " ++ toString (pyFloatOk bs || recoverFloatOk bs) ++ " "
         ++ toString ((pyInt bs).isSome || recoverIntOk bs) ++ " " ++ toString (unhexOk bs)
     | none => "bad-op")
  | ["utf8", b] =>
    (match parseNats b with
     | some bs => dots (utf8Esc bs) ++ "|" ++ dots (utf8Ignore bs) ++ "|" ++ dots (cp1252Esc bs) ++ "|"
         ++ toString (strictOk .utf8 bs) ++ " " ++ toString (strictOk .cp1252 bs)
     | none => "bad-op")
  | ["udec", c, s] =>
    (match parseCfg c, parseNats s with
     | some cfg, some cs =>
       if hasDxfUnicode cs then
         (match decodeDxfUnicode cfg cs with
          | .ok r => "ok " ++ dots r
          | .error e => "err " ++ showErr e)
       else "nomatch"
     | _, _ => "bad-op")
  | ["loader", b] =>
    (match parseNats b with
     | some bs =>
       let s := bytesLoader (splitLines bs)
       ";".intercalate (s.tags.map showRawTag) ++ "|" ++ (match s.err with | some e => showErr e | none => "end")
     | none => "bad-op")
  | ["detect", c, b] =>
    (match parseCfg c, parseNats b with
     | some cfg, some bs =>
       (match detectEncoding cfg (bytesLoader (splitLines bs)) with
        | .ok e => "ok " ++ showEnc e
        | .error e => "err " ++ showErr e)
     | _, _ => "bad-op")
  | ["repair", f, t] =>
    (match parseRawTags t with
     | some ts => ";".intercalate ((repairTags ⟨ts, if f == "1" then none else some .dxfStructureError⟩).map showRawTag)
     | none => "bad-op")
  | ["compile", c, e, t] =>
    (match parseCfg c, parseEnc e, parseRawTags t with
     | some cfg, some enc, some ts =>
       (match compile cfg enc ts with
        | .ok r => "ok " ++ showGroup r
        | .error x => "err " ++ showErr x)
     | _, _, _ => "bad-op")
  | ["validate", t] =>
    (match (if t.isEmpty then some [] else (t.splitOn " ").mapM parseCTag) with
     | some ts => toString (validEntity ts)
     | none => "bad-op")
  | ["envelope", t] =>
    (match parseCTags t with
     | some ts =>
       (match loadEnvelope ts with
        | .ok v => "ok " ++ showEnvelope v ++ "|iter=" ++ toString (v.xt.iter == ts)
        | .error x => "err " ++ showErr x)
     | none => "bad-op")
  | ["loadseq", t] =>
    -- section names (as code point lists separated by ',') -> the order in which their groups are loaded
    (match (if t.isEmpty then some [] else (t.splitOn ",").mapM parseNats) with
     | some names =>
       let d : SectionDict := names.map (fun n => (n, [[(⟨0, .str n⟩ : CTag)]]))
       ",".intercalate ((loadSequence d).map (fun g => dots (entityType g)))
     | none => "bad-op")
  | _ => "bad-op"

def main : IO Unit := Proto.run step

import EzdxfVerif.Model.Flatten
import EzdxfVerif.Gen.FlattenKernels
import Drivers.Proto
open EzdxfVerif.Flatten EzdxfVerif.Gen.FlattenKernels Proto

/-! Line protocol driver of C14.  Rationals travel as `p/q` (or `p`), points as `x:y:z`, lists comma
    separated, table entries as `t=x:y:z`.  One response line per request line:
    `ok t=x:y:z,t=x:y:z,…` (emitted parameter/vertex pairs) or `err <python exception | fuel>`.

    bez|<3|4>|<py|pyx>|<distance>|<segments>|<fuel or recursion budget>|<control points>
    tab|beziern|<distance>|<segments>|<budget>|<first>,<last>|<table>
    tab|bspline|<distance>|<segments>|<budget>|<knots>|<table>
    tab|ellipse|<distance>|<segments>|<budget>|<param>,<end_param>,<delta>|<table>
-/

def parseRat (s : String) : Option Rat :=
  match s.splitOn "/" with
  | [n] => (parseInt n).map (fun i => (i : Rat))
  | [n, d] => match parseInt n, d.toNat? with
    | some i, some k => if k = 0 then none else some (mkRat i k)
    | _, _ => none
  | _ => none

def parseRats (s : String) : Option (List Rat) :=
  if s.isEmpty then some [] else (s.splitOn ",").mapM parseRat

def parseV3 (s : String) : Option V3 :=
  match s.splitOn ":" with
  | [a, b, c] => match parseRat a, parseRat b, parseRat c with
    | some x, some y, some z => some ⟨x, y, z⟩
    | _, _, _ => none
  | _ => none

def parseV3s (s : String) : Option (List V3) :=
  if s.isEmpty then some [] else (s.splitOn ",").mapM parseV3

def parseEntry (s : String) : Option (Rat × V3) :=
  match s.splitOn "=" with
  | [t, p] => match parseRat t, parseV3 p with
    | some t, some p => some (t, p)
    | _, _ => none
  | _ => none

def parseTable (s : String) : Option (List (Rat × V3)) :=
  if s.isEmpty then some [] else (s.splitOn ",").mapM parseEntry

def showRat (r : Rat) : String := if r.den = 1 then toString r.num else toString r.num ++ "/" ++ toString r.den
def showV3 (v : V3) : String := showRat v.x ++ ":" ++ showRat v.y ++ ":" ++ showRat v.z

def showErr : Err → String
  | .fuel => "err fuel"
  | .recursion => "err RecursionError"
  | .zeroDivision => "err ZeroDivisionError"

def showOut (r : Except Err (List (Rat × V3))) : String :=
  match r with
  | .ok l => "ok " ++ ",".intercalate (l.map (fun p => showRat p.1 ++ "=" ++ showV3 p.2))
  | .error e => showErr e

def showOutOpt (r : Except Err (List (Rat × Option V3))) : String :=
  match r with
  | .ok l => "ok " ++ ",".intercalate (l.map (fun p => showRat p.1 ++ "=" ++ (match p.2 with | some v => showV3 v | none => "?")))
  | .error e => showErr e

def runBez (deg : Nat) (twin : String) (d : Rat) (segs budget : Nat) (cps : List V3) : String :=
  let go (P : Rat → V3) (first last : V3) : String :=
    let C : Curve V3 := ⟨P, midTest d⟩
    match twin with
    | "py" => showOut (bezierFlat C (stackSub C budget) mathRelTol mathAbsTol first last segs (segs + 2))
    | "pyx" => showOut (bezierFlat C (recSub C budget) pyxRelTol pyxAbsTol first last segs (segs + 2))
    | _ => "bad-op twin"
  match deg, cps with
  | 4, [p0, p1, p2, p3] => go (bez4Point p0 p1 p2 p3) p0 p3
  | 3, [p0, p1, p2] => go (bez3Point p0 p1 p2) p0 p2
  | _, _ => "bad-op control points"

def runTab (kind : String) (d : Rat) (segs budget : Nat) (extra : String) (tab : List (Rat × V3)) : String :=
  let P : Rat → Option V3 := tablePoint tab
  match kind with
  | "beziern" =>
    match parseV3s extra with
    | some [first, last] =>
      let C : Curve (Option V3) := ⟨P, optTest (midTest d)⟩
      showOutOpt (bezierFlat C (recSub C budget) mathRelTol mathAbsTol (some first) (some last) segs (segs + 2))
    | _ => "bad-op first,last"
  | "bspline" =>
    match parseRats extra with
    | some knots =>
      let C : Curve (Option V3) := ⟨P, optTest (lineTest vecRelTol vecAbsTol true d)⟩
      showOutOpt (bsplineFlat C budget npRtol npAtol knots segs (segs + 2))
    | none => "bad-op knots"
  | "ellipse" =>
    match parseRats extra with
    | some [param, endParam, delta] =>
      let C : Curve (Option V3) := ⟨P, optTest (lineTest vecRelTol vecAbsTol false d)⟩
      showOutOpt (ellipseFlat C budget mathRelTol mathAbsTol param endParam delta (segs + 2))
    | _ => "bad-op param,end,delta"
  | _ => "bad-op kind"

def step (line : String) : String :=
  match line.splitOn "|" with
  | ["bez", deg, twin, d, segs, budget, cps] =>
    match deg.toNat?, parseRat d, segs.toNat?, budget.toNat?, parseV3s cps with
    | some deg, some d, some segs, some budget, some cps => runBez deg twin d segs budget cps
    | _, _, _, _, _ => "bad-op"
  | ["tab", kind, d, segs, budget, extra, tab] =>
    match parseRat d, segs.toNat?, budget.toNat?, parseTable tab with
    | some d, some segs, some budget, some tab => runTab kind d segs budget extra tab
    | _, _, _, _ => "bad-op"
  | _ => "bad-op"

def main : IO Unit := Proto.run step

import EzdxfVerif.Model.Flatten
import EzdxfVerif.Model.FlattenPath
import EzdxfVerif.Gen.FlattenKernels
import Drivers.Proto
open EzdxfVerif.Flatten EzdxfVerif.FlattenPath EzdxfVerif.Gen.FlattenKernels Proto

/-! Line protocol driver of C14.  Rationals travel as `p/q` (or `p`), points as `x:y:z`, lists comma
    separated, table entries as `t=x:y:z`.  One response line per request line:
    `ok t=x:y:z,t=x:y:z,…` (emitted parameter/vertex pairs) or `err <python exception | fuel>`.

    bez|<3|4>|<py|pyx>|<distance>|<segments>|<fuel or recursion budget>|<control points>
    tab|beziern|<distance>|<segments>|<budget>|<first>,<last>|<table>
    tab|bspline|<distance>|<segments>|<budget>|<knots>|<table>
    tab|ellipse|<distance>|<segments>|<budget>|<param>,<end_param>,<delta>|<table>

    Path machine (two registers, the operations act on the current one):
      N v  Path(v)            L v  line_to        M v  move_to       Q e c  curve3_to(e, c)   C e c1 c2  curve4_to
      Z    close()            S    close_sub_path R    p = p.reversed()
      X    swap registers     A    p.append_path(q)    E    p.extend_multi_path(q)
      T r1 r2 r3 b   p = p.transform(m) with the affine map v -> (r1.v, r2.v, r3.v) + b
    path|<ops ;-separated>                 -> state after EVERY operation, `|`-separated, then `#` and the sub_paths() of the result
    pflat|<py|pyx>|<distance>|<segments>|<ops>   -> `ok v,v,…` of Path.flattening or `err <exception>`
    addbez|<4|3>|<ops>|<curves: p0,p1,p2,p3~…>   -> state after add_bezier4p / add_bezier3p
    bulge|<ops>|<p2>|<arcs: curve~curve^curve~…> -> state after the curve assembly of add_2d_polyline.bulge_to
    fromv|<0|1>|<vertices>                       -> state of converter.from_vertices(vertices, close)
    poly2d|<0|1>|<vertices>                      -> state of tools.add_2d_polyline for points without bulges
    prelude|<start>|<end>|<param_span>|<segments>   -> `none` or `param,end_param,delta` of the ellipse prelude
    edges|<ops of segment 1>^<ops of segment 2>^…    -> state of from_hatch_edge_path for these edge segments
    npstate|<ops>       -> NumpyPath2d(path): commands!vertices # sub_paths() # reverse() # has_sub_paths # to_path() state
    npflat|<py|pyx>|<distance>|<segments>|<ops>   -> NumpyPath2d(path).flattening
    npext|<ops>^<ops>^…  -> NumpyPath2d(first).extend([NumpyPath2d(p) for the others])
    state = start_index,…!commands,…!has_sub_paths!vertices,…
-/

def parseRat (s : String) : Option Rat :=
  match s.splitOn "/" with
  | [n] => (parseInt n).map (fun i => (i : Rat))
  | [n, d] => match parseInt n, d.toNat? with
    | some i, some k => if k = 0 then none else some (mkRat i k)
    | _, _ => none
  | _ => none

def parseRats (s : String) : Option (List Rat) :=
  if s.isEmpty then some [] else (s.splitOn ",").mapM parseRat

def parseV3 (s : String) : Option V3 :=
  match s.splitOn ":" with
  | [a, b, c] => match parseRat a, parseRat b, parseRat c with
    | some x, some y, some z => some ⟨x, y, z⟩
    | _, _, _ => none
  | _ => none

def parseV3s (s : String) : Option (List V3) :=
  if s.isEmpty then some [] else (s.splitOn ",").mapM parseV3

def parseEntry (s : String) : Option (Rat × V3) :=
  match s.splitOn "=" with
  | [t, p] => match parseRat t, parseV3 p with
    | some t, some p => some (t, p)
    | _, _ => none
  | _ => none

def parseTable (s : String) : Option (List (Rat × V3)) :=
  if s.isEmpty then some [] else (s.splitOn ",").mapM parseEntry

def showRat (r : Rat) : String := if r.den = 1 then toString r.num else toString r.num ++ "/" ++ toString r.den
def showV3 (v : V3) : String := showRat v.x ++ ":" ++ showRat v.y ++ ":" ++ showRat v.z

def showErr : Err → String
  | .fuel => "err fuel"
  | .recursion => "err RecursionError"
  | .zeroDivision => "err ZeroDivisionError"

def showOut (r : Except Err (List (Rat × V3))) : String :=
  match r with
  | .ok l => "ok " ++ ",".intercalate (l.map (fun p => showRat p.1 ++ "=" ++ showV3 p.2))
  | .error e => showErr e

def showOutOpt (r : Except Err (List (Rat × Option V3))) : String :=
  match r with
  | .ok l => "ok " ++ ",".intercalate (l.map (fun p => showRat p.1 ++ "=" ++ (match p.2 with | some v => showV3 v | none => "?")))
  | .error e => showErr e

def runBez (deg : Nat) (twin : String) (d : Rat) (segs budget : Nat) (cps : List V3) : String :=
  let go (P : Rat → V3) (first last : V3) : String :=
    let C : Curve V3 := ⟨P, midTest d⟩
    match twin with
    | "py" => showOut (bezierFlat C (stackSub C budget) mathRelTol mathAbsTol first last segs (segs + 2))
    | "pyx" => showOut (bezierFlat C (recSub C budget) pyxRelTol pyxAbsTol first last segs (segs + 2))
    | _ => "bad-op twin"
  match deg, cps with
  | 4, [p0, p1, p2, p3] => go (bez4Point p0 p1 p2 p3) p0 p3
  | 3, [p0, p1, p2] => go (bez3Point p0 p1 p2) p0 p2
  | _, _ => "bad-op control points"

def runTab (kind : String) (d : Rat) (segs budget : Nat) (extra : String) (tab : List (Rat × V3)) : String :=
  let P : Rat → Option V3 := tablePoint tab
  match kind with
  | "beziern" =>
    match parseV3s extra with
    | some [first, last] =>
      let C : Curve (Option V3) := ⟨P, optTest (midTest d)⟩
      showOutOpt (bezierFlat C (recSub C budget) mathRelTol mathAbsTol (some first) (some last) segs (segs + 2))
    | _ => "bad-op first,last"
  | "bspline" =>
    match parseRats extra with
    | some knots =>
      let C : Curve (Option V3) := ⟨P, optTest (chordTest d)⟩
      showOutOpt (bsplineFlat C budget mathRelTol mathAbsTol knots segs (segs + 2))
    | none => "bad-op knots"
  | "ellipse" =>
    match parseRats extra with
    | some [param, endParam, delta] =>
      let C : Curve (Option V3) := ⟨P, optTest (chordTest d)⟩
      showOutOpt (ellipseFlat C budget mathRelTol mathAbsTol param endParam delta (segs + 2))
    | _ => "bad-op param,end,delta"
  | _ => "bad-op kind"

/-! ### Path machine -/

def vClose (a b : V3) : Bool := v3Isclose vecRelTol vecAbsTol a b
def vExact (a b : V3) : Bool := v3Isclose pathLinearRelTol pathLinearAbsTol a b
def vCloseRel (a b : V3) : Bool := v3Isclose pathIsCloseTol 0 a b
def pathTol : Tol V3 := ⟨vClose, vExact⟩

def showNatsC (l : List Nat) : String := ",".intercalate (l.map toString)

def showPath (p : Path V3) : String :=
  showNatsC p.startIndex ++ "!" ++ showNatsC p.commands ++ "!" ++ (if p.hasSub then "1" else "0") ++ "!" ++
    ",".intercalate (p.vertices.map showV3)

structure Regs where
  p : Path V3
  q : Path V3

def pathOp (r : Regs) (op : String) : Option Regs :=
  match (op.splitOn " ").filter (· ≠ "") with
  | ["N", v] => (parseV3 v).map fun v => { r with p := Path.new v }
  | ["L", v] => (parseV3 v).map fun v => { r with p := r.p.lineTo v }
  | ["M", v] => (parseV3 v).map fun v => { r with p := r.p.moveTo v }
  | ["Q", e, c] => match parseV3 e, parseV3 c with
    | some e, some c => some { r with p := r.p.curve3To e c }
    | _, _ => none
  | ["C", e, c1, c2] => match parseV3 e, parseV3 c1, parseV3 c2 with
    | some e, some c1, some c2 => some { r with p := r.p.curve4To e c1 c2 }
    | _, _, _ => none
  | ["T", a, b, c, t] => match parseV3 a, parseV3 b, parseV3 c, parseV3 t with
    | some a, some b, some c, some t => some { r with p := r.p.mapV (Affine.app ⟨a, b, c, t⟩) }
    | _, _, _, _ => none
  | ["Z"] => some { r with p := r.p.closeP vClose }
  | ["S"] => (r.p.closeSubPath vClose).map fun p => { r with p := p }
  | ["R"] => some { r with p := r.p.reversed }
  | ["X"] => some ⟨r.q, r.p⟩
  | ["A"] => some { r with p := r.p.appendPath vClose r.q }
  | ["E"] => some { r with p := r.p.extendMultiPath r.q }
  | _ => none

def zeroV : V3 := ⟨0, 0, 0⟩

def runOps (ops : String) : Option (Regs × List String) :=
  let go := fun (acc : Option (Regs × List String)) (op : String) =>
    match acc with
    | none => none
    | some (r, out) => match pathOp r op with
      | none => none
      | some r' => some (r', showPath r'.p :: out)
  match (if ops.isEmpty then [] else ops.splitOn ";").foldl go (some (⟨Path.new zeroV, Path.new zeroV⟩, [])) with
  | some (r, out) => some (r, out.reverse)
  | none => none

def runPath (ops : String) : String :=
  match runOps ops with
  | none => "bad-op path"
  | some (r, out) =>
    "|".intercalate out ++ "#" ++ "|".intercalate (r.p.subPaths.map showPath) ++ "#" ++
      (match r.p.startOfLastSubPath with | some v => showV3 v | none => "-") ++ "#" ++ showV3 r.p.fin

def showPErr : PErr → String
  | .curve e => showErr e
  | .stopIteration => "err RuntimeError"
  | .valueError => "err ValueError"
  | .indexError => "err IndexError"
  | .invalidCommand => "err ValueError"

def cfgOf (twin : String) : Option FlatCfg :=
  match twin with
  | "py" => some ⟨fun C => stackSub C 200000, mathRelTol, mathAbsTol, 1000000⟩
  | "pyx" => some ⟨fun C => recSub C 1001, pyxRelTol, pyxAbsTol, 1000000⟩
  | _ => none

def runPFlat (twin : String) (d : Rat) (segs : Nat) (ops : String) : String :=
  match cfgOf twin, runOps ops with
  | some cfg, some (r, _) =>
    match pathFlat { cfg with fuel := segs + 2 } d segs r.p with
    | .ok l => "ok " ++ ",".intercalate (l.map showV3)
    | .error e => showPErr e
  | _, _ => "bad-op pflat"

def parseCubic (s : String) : Option (Cubic V3) :=
  match parseV3s s with
  | some [a, b, c, d] => some ⟨a, b, c, d⟩
  | _ => none

def parseQuad (s : String) : Option (Quad V3) :=
  match parseV3s s with
  | some [a, b, c] => some ⟨a, b, c⟩
  | _ => none

def parseList {α : Type} (sep : String) (f : String → Option α) (s : String) : Option (List α) :=
  if s.isEmpty then some [] else (s.splitOn sep).mapM f

def runAddBez (deg : String) (ops curves : String) : String :=
  match runOps ops with
  | none => "bad-op ops"
  | some (r, _) =>
    match deg with
    | "4" => match parseList "~" parseCubic curves with
      | some cs => showPath (addBezier4p pathTol r.p cs)
      | none => "bad-op curves"
    | "3" => match parseList "~" parseQuad curves with
      | some cs => showPath (addBezier3p pathTol r.p cs)
      | none => "bad-op curves"
    | _ => "bad-op degree"

def runBulge (ops p2 arcs : String) : String :=
  match runOps ops, parseV3 p2, parseList "^" (parseList "~" parseCubic) arcs with
  | some (r, _), some p2, some arcs => showPath (bulgeTo pathTol vCloseRel r.p p2 arcs)
  | _, _, _ => "bad-op bulge"

def runFromV (close vs : String) : String :=
  match parseV3s vs with
  | some vs => showPath (fromVertices vClose zeroV vs (close == "1"))
  | none => "bad-op vertices"

/-! ### NumpyPath2d -/

def showNp (np : NpPath V3) : String :=
  showNatsC np.commands ++ "!" ++ ",".intercalate (np.vertices.map showV3)

def npToPath (np : NpPath V3) (p : Path V3) : Path V3 :=
  -- `to_path()` = `Path.from_vertices_and_commands`: same elements, flag recomputed from the commands
  ⟨proj2 p.start, p.elems.map (Elem.mapV proj2), np.commands.contains 4⟩

def runNpState (ops : String) : String :=
  match runOps ops with
  | none => "bad-op ops"
  | some (r, _) =>
    let np := NpPath.ofPath proj2 r.p
    showNp np ++ "#" ++ "|".intercalate ((npSubPaths np).map showNp) ++ "#" ++ showNp (npReverse np) ++ "#" ++
      (if np.hasSub then "1" else "0") ++ "#" ++ showPath (npToPath np r.p)

def runNpFlat (twin : String) (d : Rat) (segs : Nat) (ops : String) : String :=
  match cfgOf twin, runOps ops with
  | some cfg, some (r, _) =>
    match npFlat { cfg with fuel := segs + 2 } d segs (NpPath.ofPath proj2 r.p) with
    | .ok l => "ok " ++ ",".intercalate (l.map showV3)
    | .error e => showPErr e
  | _, _ => "bad-op npflat"

def runNpExt (paths : String) : String :=
  match parseList "^" (fun o => (runOps o).map (fun r => NpPath.ofPath proj2 r.1.p)) paths with
  | some (first :: rest) => showNp (npExtend vClose first rest)
  | _ => "bad-op paths"

def step (line : String) : String :=
  match line.splitOn "|" with
  | ["bez", deg, twin, d, segs, budget, cps] =>
    match deg.toNat?, parseRat d, segs.toNat?, budget.toNat?, parseV3s cps with
    | some deg, some d, some segs, some budget, some cps => runBez deg twin d segs budget cps
    | _, _, _, _, _ => "bad-op"
  | ["tab", kind, d, segs, budget, extra, tab] =>
    match parseRat d, segs.toNat?, budget.toNat?, parseTable tab with
    | some d, some segs, some budget, some tab => runTab kind d segs budget extra tab
    | _, _, _, _ => "bad-op"
  | ["path", ops] => runPath ops
  | ["pflat", twin, d, segs, ops] =>
    match parseRat d, segs.toNat? with
    | some d, some segs => runPFlat twin d segs ops
    | _, _ => "bad-op"
  | ["addbez", deg, ops, curves] => runAddBez deg ops curves
  | ["bulge", ops, p2, arcs] => runBulge ops p2 arcs
  | ["fromv", close, vs] => runFromV close vs
  | ["poly2d", close, vs] =>
    match parseV3s vs with
    | some vs => showPath (polyline2dLines vCloseRel zeroV vs (close == "1"))
    | none => "bad-op vertices"
  | ["npstate", ops] => runNpState ops
  | ["npflat", twin, d, segs, ops] =>
    match parseRat d, segs.toNat? with
    | some d, some segs => runNpFlat twin d segs ops
    | _, _ => "bad-op"
  | ["npext", paths] => runNpExt paths
  | ["edges", segs] =>
    match parseList "^" (fun o => (runOps o).map (fun r => r.1.p)) segs with
    | some ps => showPath (edgePath vClose zeroV ps)
    | none => "bad-op segments"
  | ["prelude", a, b, span, segs] =>
    match parseRat a, parseRat b, parseRat span, segs.toNat? with
    | some a, some b, some span, some segs =>
      (match ellipsePrelude mathRelTol mathAbsTol mathTau a b span segs with
       | none => "none"
       | some (p, e, dl) => showRat p ++ "," ++ showRat e ++ "," ++ showRat dl)
    | _, _, _, _ => "bad-op"
  | _ => "bad-op"

def main : IO Unit := Proto.run step

import EzdxfVerif.Model.Encoding
import EzdxfVerif.Model.EncodingExt
import EzdxfVerif.Gen.EncodingTables
import EzdxfVerif.Gen.CjkTables
import Drivers.Proto
import Std.Data.HashMap
open EzdxfVerif EzdxfVerif.Encoding Proto

namespace C09Driver

def G := Gen.EncodingTables.handlerFmt

def showErr : PyErr → String
  | .unicodeEncodeError => "UnicodeEncodeError" | .valueError => "ValueError"

def name (s : String) : Str := s.toList.map Char.toNat

/-- `cp:b b b,cp:b b` -/
def parseAux (s : String) : Option (List (Nat × Bytes)) :=
  if s.isEmpty then some [] else
  (s.splitOn ",").mapM (fun e =>
    match e.splitOn ":" with
    | [c, b] => match c.toNat?, parseNats b with
      | some c, some b => some (c, b)
      | _, _ => none
    | _ => none)

/-- first-entry-wins hash map of a table list: extensionally `tabLookup` / `tabEncKey` -/
def firstWins (l : List Nat) (k v : Nat → Nat) : Std.HashMap Nat Nat :=
  l.foldl (fun m e => m.insertIfNew (k e) (v e)) {}

/-- `dbcsCodec T` with the three list look-ups replaced by hash maps built first-entry-wins from the same lists
    (the model functions `dbcsEncWith` / `dbcsDecWith` themselves are the ones of Model/Encoding.lean) -/
def fastDbcs (T : DbcsTab) : Codec :=
  let d := firstWins T.dec ekey ecp
  let g := firstWins T.encGood ecp ekey
  let l := firstWins T.encLossy ecp ekey
  { enc := dbcsEncWith (fun x => g[x]?) (fun x => l[x]?)
    dec := dbcsDecWith (isLeadB T.leads) (fun k => d[k]?)
    grouped := false }

abbrev Codecs := List (String × Codec)

/-- `mifPages` with the decoder look-up of every table replaced by its first-entry-wins hash map -/
def fastPages : Nat → Option (Bytes → Option Str) :=
  let decs := Gen.CjkTables.dbcsTabs.map (fun T =>
    (T.name, let d := firstWins T.dec ekey ecp; dbcsDecStrictWith (isLeadB T.leads) (fun k => d[k]?)))
  fun k => match Gen.EncodingTables.mifCodePage.find? (fun p => p.1 = k) with
    | some p => (decs.find? (fun q => q.1 = p.2)).map (·.2)
    | none => none

def dbcsCodecs : Codecs :=
  Gen.CjkTables.dbcsTabs.map (fun T => (String.ofList (T.name.map Char.ofNat), fastDbcs T))

def codecOf (dc : Codecs) (c : String) (aux : String) : Option Codec :=
  if c = "ascii" then some asciiCodec
  else if let some p := dc.find? (fun p => p.1 = c) then some p.2
  else if c = "utf8" then some utf8Codec
  else if c = "ext0" then (parseAux aux).map (extCodec · false)
  else if c = "ext1" then (parseAux aux).map (extCodec · true)
  else (Gen.EncodingTables.sbcsTables.find? (fun p => p.1 = name c)).map (fun p => sbcsCodec p.2)

def showBytes (r : Except PyErr Bytes) : String :=
  match r with
  | .ok b => "ok " ++ showNats b
  | .error e => "err " ++ showErr e

def fmtOf (f : String) : Option Fmt :=
  if f = "src" then some G else if f = "fixed" then some fixedFmt
  else if f = "legacy" then some legacyFmt else none

/-- `code:t:cps` (text) or `code:i:int` -/
def parseTTag (e : String) : Option TTag :=
  match e.splitOn ":" with
  | [c, "t", v] => match c.toNat?, parseNats v with
    | some c, some v => some ⟨c, .text v⟩ | _, _ => none
  | [c, "i", v] => match c.toNat?, parseInt v with
    | some c, some v => some ⟨c, .raw (.int v)⟩ | _, _ => none
  | _ => none

def showTTag (t : TTag) : String :=
  match t.val with
  | .text s => toString t.code ++ ":t:" ++ showNats s
  | .raw (.int v) => toString t.code ++ ":i:" ++ toString v
  | .raw _ => toString t.code ++ ":?"

def step (dc : Codecs) (mp : Nat → Option (Bytes → Option Str)) (line : String) : String :=
  match line.splitOn "|" with
  | ["fmt"] => if G = fixedFmt then "fixed" else if G = legacyFmt then "legacy" else "other"
  | ["handler", f, s] => match fmtOf f, parseNats s with
    | some f, some t => match handler f t with
      | .ok (.str r) => "str " ++ showNats r
      | .ok (.bytes r) => "bytes " ++ showNats r
      | .error e => "err " ++ showErr e
    | _, _ => "bad-op"
  | ["enc", f, c, s, aux] => match fmtOf f, codecOf dc c aux, parseNats s with
    | some f, some c, some t => showBytes (encode c f t)
    | _, _, _ => "bad-op"
  | ["encs", f, c, ss] => match fmtOf f, codecOf dc c "", (ss.splitOn ";").mapM parseNats with
    | some f, some c, some ts =>
      -- one `write()` per piece: the error handler never sees a run that spans two pieces
      showBytes (ts.foldl (fun acc t => match acc, encode c f t with
        | .ok a, .ok b => .ok (a ++ b)
        | .error e, _ => .error e
        | _, .error e => .error e) (.ok []))
    | _, _, _ => "bad-op"
  | ["dec", c, b] => match codecOf dc c "", parseNats b with
    | some c, some t => showNats (c.dec t)
    | _, _ => "bad-op"
  | ["rt", f, c, s] => match fmtOf f, codecOf dc c "", parseNats s with
    | some f, some c, some t => match encode c f t with
      | .ok b => "ok " ++ showNats (decodeDxfUnicode (c.dec b))
      | .error e => "encerr " ++ showErr e
    | _, _, _ => "bad-op"
  | ["undxf", s] => match parseNats s with
    | some t => "ok " ++ showNats (decodeDxfUnicode t) | none => "bad-op"
  | ["has", s] => match parseNats s with
    | some t => if hasDxfUnicode t then "1" else "0" | none => "bad-op"
  | ["hasmif", s] => match parseNats s with
    | some t => if hasMif t then "1" else "0" | none => "bad-op"
  | ["split", s] => match parseNats s with
    | some t => ";".intercalate ((reSplit [] t).map showNats) | none => "bad-op"
  | ["recover", s] => match parseNats s with
    | some t => match recoverStr t with
      | .text r => "ok " ++ showNats r
      | .mif => "mif"
    | none => "bad-op"
  | ["slowenc", c, s] => match Gen.CjkTables.dbcsTabs.find? (fun T => T.name = name c), parseNats s with
    | some T, some t => showBytes (encode (dbcsCodec T) G t)
    | _, _ => "bad-op"
  | ["slowdec", c, b] => match Gen.CjkTables.dbcsTabs.find? (fun T => T.name = name c), parseNats b with
    | some T, some t => showNats ((dbcsCodec T).dec t)
    | _, _ => "bad-op"
  | ["unmif", s] => match parseNats s with
    | some t => showNats (decodeMifWith mp t) | none => "bad-op"
  | ["slowunmif", s] => match parseNats s with
    | some t => showNats (decodeMifWith (mifPages Gen.CjkTables.dbcsTabs Gen.EncodingTables.mifCodePage) t) | none => "bad-op"
  | ["mifsplit", s] => match parseNats s with
    | some t => ";".intercalate ((mifSplit [] t).map showNats) | none => "bad-op"
  | ["recovercode", k, s] => match k.toNat?, parseNats s with
    | some k, some t => showNats (recoverTagValue mp k t) | _, _ => "bad-op"
  | ["recovertext", s] => match parseNats s with
    | some t => showNats (recoverText mp t) | none => "bad-op"
  | ["lf2crlf", b] => match parseNats b with
    | some t => showNats (lfToCrlf t) | none => "bad-op"
  | ["crlf2lf", b] => match parseNats b with
    | some t => showNats (crlfToLf t) | none => "bad-op"
  | ["written", l, v, e, o] => match parseNats v, parseNats e, parseNats o with
    | some v, some e, some o =>
      let w := writeDoc Gen.EncodingTables.encodingToCodepage ⟨l = "1", v, e, o⟩
      showNats w.acadver ++ ";" ++ showNats w.codepage ++ ";" ++ showNats w.bytesEncoding
    | _, _, _ => "bad-op"
  | ["writestr", s] => match parseNats s with
    | some t => ";".intercalate ((writeStrTags t).map (fun p => showNats (p.1.filter (· != 32)) ++ ":" ++ showNats p.2))
    | none => "bad-op"
  | ["binfile", r, c, ts] => match codecOf dc c "", (if ts.isEmpty then some [] else (ts.splitOn ";").mapM parseTTag) with
    | some c, some ts => match encodeTags c G ts with
      | .ok bts => match EzdxfVerif.Codec.encAll (r = "1") bts with
        | .ok b => "ok " ++ showNats b
        | .error _ => "err frame"
      | .error e => "err " ++ showErr e
    | _, _ => "bad-op"
  | ["asciitext", ts] => match (if ts.isEmpty then some [] else (ts.splitOn ";").mapM (fun e => match e.splitOn ":" with
        | [c, v] => match c.toNat?, parseNats v with | some c, some v => some (c, v) | _, _ => none
        | _ => none)) with
    | some ts => showNats (asciiFileText ts)
    | none => "bad-op"
  | ["asciiread", t] => match parseNats t with
    | some t => match asciiReadTags t with
      | some ts => "ok " ++ ";".intercalate (ts.map (fun p => toString p.1 ++ ":" ++ showNats p.2))
      | none => "err"
    | none => "bad-op"
  | ["binread", r, c, b] => match codecOf dc c "", parseNats b with
    | some c, some b => match EzdxfVerif.Codec.decAll (r = "1") (b.length + 1) b with
      | .ok bts => ";".intercalate (bts.map (fun t => showTTag (decodeTag c t)))
      | .error _ => "err"
    | _, _ => "bad-op"
  | ["detect", v, s] => match parseNats v, parseNats s with
    | some v, some t => showNats (detectEncoding Gen.EncodingTables.codepageToEncoding v t) | _, _ => "bad-op"
  | ["detectrec", v, s] => match parseNats v, parseNats s with
    | some v, some t => showNats (detectRecover Gen.EncodingTables.codepageToEncoding v t) | _, _ => "bad-op"
  | ["detectbin", v, b] => match parseNats v, parseNats b with
    | some v, some t => showNats (detectEncoding Gen.EncodingTables.codepageToEncoding v (binScan t)) | _, _ => "bad-op"
  | ["binname", b] => match parseNats b with
    | some t => showNats (binName t) | none => "bad-op"
  | ["toenc", s] => match parseNats s with
    | some t => showNats (toencoding Gen.EncodingTables.codepageToEncoding t) | none => "bad-op"
  | ["tocp", s] => match parseNats s with
    | some t => showNats (tocodepage Gen.EncodingTables.encodingToCodepage t) | none => "bad-op"
  | _ => "bad-op"

end C09Driver

def main : IO Unit := do
  let dc := C09Driver.dbcsCodecs
  let mp := C09Driver.fastPages
  Proto.run (C09Driver.step dc mp)

import EzdxfVerif.Model.Encoding
import EzdxfVerif.Gen.EncodingTables
import Drivers.Proto
open EzdxfVerif EzdxfVerif.Encoding Proto

namespace C09Driver

def G := Gen.EncodingTables.handlerFmt

def showErr : PyErr → String
  | .unicodeEncodeError => "UnicodeEncodeError" | .valueError => "ValueError"

def name (s : String) : Str := s.toList.map Char.toNat

/-- `cp:b b b,cp:b b` -/
def parseAux (s : String) : Option (List (Nat × Bytes)) :=
  if s.isEmpty then some [] else
  (s.splitOn ",").mapM (fun e =>
    match e.splitOn ":" with
    | [c, b] => match c.toNat?, parseNats b with
      | some c, some b => some (c, b)
      | _, _ => none
    | _ => none)

def codecOf (c : String) (aux : String) : Option Codec :=
  if c = "ascii" then some asciiCodec
  else if c = "utf8" then some utf8Codec
  else if c = "ext0" then (parseAux aux).map (extCodec · false)
  else if c = "ext1" then (parseAux aux).map (extCodec · true)
  else (Gen.EncodingTables.sbcsTables.find? (fun p => p.1 = name c)).map (fun p => sbcsCodec p.2)

def showBytes (r : Except PyErr Bytes) : String :=
  match r with
  | .ok b => "ok " ++ showNats b
  | .error e => "err " ++ showErr e

def fmtOf (f : String) : Option Fmt :=
  if f = "src" then some G else if f = "fixed" then some fixedFmt
  else if f = "legacy" then some legacyFmt else none

def step (line : String) : String :=
  match line.splitOn "|" with
  | ["fmt"] => if G = fixedFmt then "fixed" else if G = legacyFmt then "legacy" else "other"
  | ["handler", f, s] => match fmtOf f, parseNats s with
    | some f, some t => match handler f t with
      | .ok (.str r) => "str " ++ showNats r
      | .ok (.bytes r) => "bytes " ++ showNats r
      | .error e => "err " ++ showErr e
    | _, _ => "bad-op"
  | ["enc", f, c, s, aux] => match fmtOf f, codecOf c aux, parseNats s with
    | some f, some c, some t => showBytes (encode c f t)
    | _, _, _ => "bad-op"
  | ["dec", c, b] => match codecOf c "", parseNats b with
    | some c, some t => showNats (c.dec t)
    | _, _ => "bad-op"
  | ["rt", f, c, s] => match fmtOf f, codecOf c "", parseNats s with
    | some f, some c, some t => match encode c f t with
      | .ok b => "ok " ++ showNats (decodeDxfUnicode (c.dec b))
      | .error e => "encerr " ++ showErr e
    | _, _, _ => "bad-op"
  | ["undxf", s] => match parseNats s with
    | some t => "ok " ++ showNats (decodeDxfUnicode t) | none => "bad-op"
  | ["has", s] => match parseNats s with
    | some t => if hasDxfUnicode t then "1" else "0" | none => "bad-op"
  | ["hasmif", s] => match parseNats s with
    | some t => if hasMif t then "1" else "0" | none => "bad-op"
  | ["split", s] => match parseNats s with
    | some t => ";".intercalate ((reSplit [] t).map showNats) | none => "bad-op"
  | ["recover", s] => match parseNats s with
    | some t => match recoverStr t with
      | .text r => "ok " ++ showNats r
      | .mif => "mif"
    | none => "bad-op"
  | ["toenc", s] => match parseNats s with
    | some t => showNats (toencoding Gen.EncodingTables.codepageToEncoding t) | none => "bad-op"
  | ["tocp", s] => match parseNats s with
    | some t => showNats (tocodepage Gen.EncodingTables.encodingToCodepage t) | none => "bad-op"
  | _ => "bad-op"

end C09Driver

def main : IO Unit := Proto.run C09Driver.step

/-
C03  DXF tag encodings are lossless and mutually consistent.
Property theorems over Model/Codec.lean and Model/XTags.lean; tables regenerated from
lldxf/types.py, tagwriter.py, tagger.py (Gen/TagTables.lean).  `private theorem` = helper lemma.
-/
import EzdxfVerif.Model.Codec
import EzdxfVerif.Model.XTags
import EzdxfVerif.Gen.TagTables

namespace EzdxfVerif.Props.C03
open EzdxfVerif.Codec EzdxfVerif.XTags

/-! ## little-endian integers, chunks, group-code framing -/

private theorem leBytes_length (w n : Nat) : (leBytes w n).length = w := by
  induction w generalizing n with
  | zero => rfl
  | succ k ih => simp [leBytes, ih]

theorem leVal_leBytes (w n : Nat) (h : n < 256 ^ w) : leVal (leBytes w n) = n := by
  induction w generalizing n with
  | zero => simp at h; subst h; rfl
  | succ k ih =>
    have h2 : n / 256 < 256 ^ k := by
      rw [Nat.pow_succ] at h
      exact Nat.div_lt_of_lt_mul (by rw [Nat.mul_comm]; exact h)
    simp only [leBytes, leVal, ih _ h2]
    omega

private theorem leVal_lt (bs : List Nat) (h : ∀ b ∈ bs, b < 256) : leVal bs < 256 ^ bs.length := by
  induction bs with
  | nil => simp [leVal]
  | cons b r ih =>
    have hb := h b (by simp)
    have hr := ih (fun x hx => h x (by simp [hx]))
    simp only [leVal, List.length_cons, Nat.pow_succ]
    omega

theorem signed_roundtrip (w : Nat) (hw : 0 < w) (v : Int)
    (h : -(2 : Int) ^ (8 * w - 1) ≤ v ∧ v < (2 : Int) ^ (8 * w - 1)) :
    ∃ bs, encSigned w v = .ok bs ∧ bs.length = w ∧ decSigned w bs = v := by
  refine ⟨leBytes w (v % (2 : Int) ^ (8 * w)).toNat, by simp [encSigned, h], leBytes_length _ _, ?_⟩
  have hp : (2 : Int) ^ (8 * w) = 2 * (2 : Int) ^ (8 * w - 1) := by
    have : 8 * w = (8 * w - 1) + 1 := by omega
    conv => lhs; rw [this, Int.pow_succ]
    omega
  have hpos : (0 : Int) < (2 : Int) ^ (8 * w - 1) := Int.pow_pos (by decide)
  have hm0 : 0 ≤ v % (2 : Int) ^ (8 * w) := Int.emod_nonneg _ (by omega)
  have hm1 : v % (2 : Int) ^ (8 * w) < (2 : Int) ^ (8 * w) := Int.emod_lt_of_pos _ (by omega)
  have h256 : (256 : Nat) ^ w = 2 ^ (8 * w) := by
    rw [show (256 : Nat) = 2 ^ 8 by rfl, ← Nat.pow_mul]
  have hlt : (v % (2 : Int) ^ (8 * w)).toNat < 256 ^ w := by
    rw [h256]
    have : ((v % (2 : Int) ^ (8 * w)).toNat : Int) < ((2 ^ (8 * w) : Nat) : Int) := by
      rw [Int.toNat_of_nonneg hm0]; push_cast; exact hm1
    exact_mod_cast this
  unfold decSigned
  simp only [leVal_leBytes _ _ hlt, Int.toNat_of_nonneg hm0]
  by_cases hv : 0 ≤ v
  · have : v % (2 : Int) ^ (8 * w) = v := Int.emod_eq_of_lt hv (by omega)
    rw [this]; split <;> omega
  · have : v % (2 : Int) ^ (8 * w) = v + (2 : Int) ^ (8 * w) := by
      rw [Int.emod_eq_add_self_emod]
      exact Int.emod_eq_of_lt (by omega) (by omega)
    rw [this]; split <;> omega

theorem signed_overflow (w : Nat) (v : Int)
    (h : ¬ (-(2 : Int) ^ (8 * w - 1) ≤ v ∧ v < (2 : Int) ^ (8 * w - 1))) :
    encSigned w v = .error .overflowError := by
  simp [encSigned, h]

theorem byte_roundtrip (v : Int) (h : 0 ≤ v ∧ v < 256) :
    encByte v = .ok [v.toNat] ∧ ((v.toNat : Nat) : Int) = v := by
  constructor
  · simp [encByte, h]
  · exact Int.toNat_of_nonneg h.1

theorem chunks_concat (n : Nat) (h : 0 < n) (d : List Nat) : (chunks n h d).flatten = d := by
  fun_induction chunks n h d with
  | case1 => simp
  | case2 d hd ih => simp [ih]

theorem chunks_bounds (n : Nat) (h : 0 < n) (d : List Nat) :
    ∀ c ∈ chunks n h d, 0 < c.length ∧ c.length ≤ n := by
  fun_induction chunks n h d with
  | case1 => simp
  | case2 d hd ih =>
    intro c hc
    simp only [List.mem_cons] at hc
    rcases hc with rfl | hc
    · have : 0 < d.length := List.length_pos_iff.mpr hd
      simp only [List.length_take]; omega
    · exact ih c hc

/-- every group code < 65536 is framed and read back, for both group-code widths (R12: since the fix of
    F7 the marker 0xFF + 2-byte code is written for every code >= 255) -/
theorem code_framing_all (r12 : Bool) (c : Nat) (rest : List Nat) (hc : c < 65536) :
    ∃ bs, encCode r12 c = .ok bs ∧ decCode r12 (bs ++ rest) = .ok (c, rest) := by
  cases r12 with
  | false =>
    refine ⟨leBytes 2 c, by simp [encCode, hc], ?_⟩
    simp only [leBytes, List.cons_append, List.nil_append, decCode]
    simp; omega
  | true =>
    by_cases h : c ≥ 255
    · refine ⟨255 :: leBytes 2 c, by simp [encCode, h, hc], ?_⟩
      simp only [leBytes, List.cons_append, List.nil_append, decCode]
      simp; omega
    · refine ⟨[c], by simp [encCode, h], ?_⟩
      have : c ≠ 255 := by omega
      simp [decCode, this]

theorem code_framing (r12 : Bool) (c : Nat) (rest : List Nat) (hc : c < 65536)
    (_h12 : r12 = true → c < 255 ∨ 1000 ≤ c) :
    ∃ bs, encCode r12 c = .ok bs ∧ decCode r12 (bs ++ rest) = .ok (c, rest) :=
  code_framing_all r12 c rest hc

/-- F7 (fixed): before the fix the R12 writer emitted group code 255 as the single byte 0xFF, which the
    loader takes for the extended-code marker (and raised OverflowError for codes 256..999) -/
theorem code_255_r12_counterexample :
    encCodeLegacy true 255 = .ok [255] ∧ decCode true ([255] ++ [1, 2, 3]) = .ok (2 * 256 + 1, [3]) ∧
    encCodeLegacy true 256 = .error .overflowError := by
  refine ⟨rfl, rfl, rfl⟩

/-! ## decimal and hex text -/

private theorem digitsVal_natDigits (n : Nat) (r : List Nat) (acc : Nat) :
    digitsVal (natDigits n ++ r) acc = digitsVal r (acc * 10 ^ (natDigits n).length + n) := by
  fun_induction natDigits n generalizing r acc with
  | case1 n h =>
    simp only [List.cons_append, List.nil_append, digitsVal, digitChar, List.length_cons, List.length_nil]
    have : 48 ≤ 48 + n ∧ 48 + n ≤ 57 := by omega
    simp [this]
  | case2 n h ih =>
    rw [List.append_assoc, ih]
    simp only [List.cons_append, List.nil_append, digitsVal, digitChar, List.length_append,
      List.length_cons, List.length_nil]
    have : 48 ≤ 48 + n % 10 ∧ 48 + n % 10 ≤ 57 := by omega
    simp only [this, and_self, ↓reduceIte]
    congr 1
    rw [Nat.pow_succ]
    have := Nat.div_add_mod n 10
    have e : 48 + n % 10 - 48 = n % 10 := by omega
    rw [e]
    calc (acc * 10 ^ (natDigits (n / 10)).length + n / 10) * 10 + n % 10
        = acc * (10 ^ (natDigits (n / 10)).length * 10) + (10 * (n / 10) + n % 10) := by
          rw [Nat.add_mul, Nat.mul_assoc, Nat.mul_comm (n / 10) 10, Nat.add_assoc]
      _ = _ := by rw [this]

private theorem natDigits_ne_nil (n : Nat) : natDigits n ≠ [] := by
  fun_induction natDigits n <;> simp

private theorem natDigits_head_digit (n : Nat) : ∀ c ∈ natDigits n, 48 ≤ c ∧ c ≤ 57 := by
  fun_induction natDigits n with
  | case1 n h => intro c hc; simp [digitChar] at hc; omega
  | case2 n h ih =>
    intro c hc
    simp only [List.mem_append, List.mem_cons, List.not_mem_nil, or_false, digitChar] at hc
    rcases hc with hc | hc
    · exact ih c hc
    · omega

private theorem digitsVal_natDigits' (n : Nat) : digitsVal (natDigits n) 0 = some n := by
  have := digitsVal_natDigits n [] 0
  simpa [digitsVal] using this

private theorem parseInt_natDigits (n : Nat) : parseInt (natDigits n) = some (n : Int) := by
  unfold parseInt
  have hne := natDigits_ne_nil n
  have hd := natDigits_head_digit n
  cases hs : natDigits n with
  | nil => exact absurd hs hne
  | cons c r =>
    have hc := hd c (by simp [hs])
    have h32 : c ≠ 32 := by omega
    simp only [List.dropWhile, h32, decide_false]
    have h45 : c ≠ 45 := by omega
    have h43 : c ≠ 43 := by omega
    simp only [h45, h43, ↓reduceIte]
    rw [← hs, digitsVal_natDigits']
    rfl

/-- `int(str(v)) == v` -/
theorem parseInt_showInt (v : Int) : parseInt (showInt v) = some v := by
  unfold showInt
  split
  · rename_i hneg
    unfold parseInt
    simp only [List.dropWhile, show (45 : Nat) ≠ 32 by decide, decide_false, ↓reduceIte]
    have hne := natDigits_ne_nil v.natAbs
    cases hs : natDigits v.natAbs with
    | nil => exact absurd hs hne
    | cons c r =>
      have hdv : digitsVal (c :: r) 0 = some v.natAbs := by
        rw [← hs]; exact digitsVal_natDigits' _
      simp only [hdv]
      show some (-((v.natAbs : Nat) : Int)) = some v
      congr 1
      omega
  · rename_i hpos
    rw [parseInt_natDigits]
    simp only [Option.some.injEq]
    omega

/-- `int("%3d" % code) == code` -/
theorem parseInt_showCode (c : Nat) : parseInt (showCode c) = some (c : Int) := by
  have key : ∀ k, parseInt (List.replicate k 32 ++ natDigits c) = parseInt (natDigits c) := by
    intro k
    induction k with
    | zero => simp
    | succ k ih =>
      unfold parseInt at *
      simp only [List.replicate_succ, List.cons_append, List.dropWhile, decide_true]
      exact ih
  unfold showCode
  simp only
  rw [key, parseInt_natDigits]

private theorem unhexDigit_hexDigit (n : Nat) (h : n < 16) : unhexDigit (hexDigit n) = some n := by
  unfold hexDigit unhexDigit
  split
  · have : 48 ≤ 48 + n ∧ 48 + n ≤ 57 := by omega
    simp [this]
  · have h1 : ¬ (48 ≤ 55 + n ∧ 55 + n ≤ 57) := by omega
    have h2 : 65 ≤ 55 + n ∧ 55 + n ≤ 70 := by omega
    simp only [h1, h2, and_self, ↓reduceIte, Option.some.injEq]
    omega

/-- `unhexlify(hexlify(data).upper()) == data` for byte strings -/
theorem unhex_hex (d : List Nat) (h : ∀ b ∈ d, b < 256) : unhexlify (hexlify d) = some d := by
  induction d with
  | nil => rfl
  | cons b r ih =>
    have hb := h b (by simp)
    have hr := ih (fun x hx => h x (by simp [hx]))
    simp only [hexlify, unhexlify, unhexDigit_hexDigit (b / 16) (by omega),
      unhexDigit_hexDigit (b % 16) (Nat.mod_lt _ (by decide)), hr]
    simp only [Option.bind_eq_bind, Option.bind_some, Option.some.injEq, List.cons.injEq, and_true]
    omega

/-! ## points: compile ∘ flatten = id -/

/-- well-formedness of a compiled tag list w.r.t. the point codes: points have 2 or 3 coordinates
    and a point code, singles have no point code, and a 2D point with x-code `c` is not directly
    followed by a single tag with code `c + 20` (which the compiler would take for its z-axis) -/
def PointWF {α : Type} (isPt : Nat → Bool) : List (CTag α) → Prop
  | [] => True
  | .single c _ :: r => isPt c = false ∧ PointWF isPt r
  | .point c xs :: r =>
    isPt c = true ∧ (xs.length = 2 ∨ xs.length = 3) ∧
    (xs.length = 2 → match r with
      | .single c' _ :: _ => c' ≠ c + 20
      | .point c' _ :: _ => c' ≠ c + 20
      | [] => True) ∧
    PointWF isPt r

private theorem flatten_head {α : Type} (t : CTag α) (r : List (CTag α)) (isPt : Nat → Bool)
    (h : PointWF isPt (t :: r)) :
    ∃ c v rest, flatten (t :: r) = (c, v) :: rest ∧
      c = (match t with | .single c _ => c | .point c _ => c) := by
  cases t with
  | single c v => exact ⟨c, v, _, rfl, rfl⟩
  | point c xs =>
    obtain ⟨_, hl, _, _⟩ := h
    match xs, hl with
    | [x, y], _ => exact ⟨c, x, (c + 10, y) :: flatten r, by simp [flatten, flattenPt], rfl⟩
    | [x, y, z], _ =>
      exact ⟨c, x, (c + 10, y) :: (c + 20, z) :: flatten r, by simp [flatten, flattenPt], rfl⟩

theorem points_roundtrip {α : Type} (isPt : Nat → Bool) (ts : List (CTag α)) (h : PointWF isPt ts) :
    compile isPt (flatten ts) = .ok ts := by
  induction ts with
  | nil => simp [flatten, compile]
  | cons t r ih =>
    cases t with
    | single c v =>
      obtain ⟨hc, hr⟩ := h
      simp only [flatten]
      rw [compile.eq_def]
      simp [hc, ih hr, Functor.map, Except.map]
    | point c xs =>
      obtain ⟨hc, hl, hz, hr⟩ := h
      match xs, hl with
      | [x, y, z], _ =>
        simp only [flatten, flattenPt, List.cons_append, List.nil_append]
        rw [compile.eq_def]
        simp [hc, ih hr, Functor.map, Except.map]
      | [x, y], _ =>
        simp only [flatten, flattenPt, List.cons_append, List.nil_append]
        cases r with
        | nil =>
          rw [compile.eq_def]
          simp [flatten, hc]
        | cons t2 r2 =>
          obtain ⟨c2, v2, rest, hf, hc2⟩ := flatten_head t2 r2 isPt hr
          have hne : c2 ≠ c + 20 := by
            have := hz rfl
            cases t2 <;> simp_all
          have := ih hr
          rw [hf] at this ⊢
          rw [compile.eq_def]
          simp [hc, hne, this, Functor.map, Except.map]

/-! ## ExtendedTags: iter ∘ setup = id -/

def NoRef (ts : List Tag) : Prop := ∀ t ∈ ts, ∃ s, t.val = .str s

private theorem expand_append (apps : List (List Tag)) (a b : List Tag) :
    expand apps (a ++ b) = expand apps a ++ expand apps b := by
  induction a with
  | nil => rfl
  | cons t r ih => simp [expand, ih]

private theorem expand_noref (apps : List (List Tag)) (l : List Tag) (h : NoRef l) : expand apps l = l := by
  induction l with
  | nil => rfl
  | cons t r ih =>
    obtain ⟨s, hs⟩ := h t (by simp)
    have hr : NoRef r := fun x hx => h x (by simp [hx])
    simp only [expand, ih hr]
    cases t with
    | mk c v => simp only at hs; subst hs; split <;> simp_all

def RefsLt (base : List Tag) (n : Nat) : Prop := ∀ t ∈ base, ∀ k, t.val = .ref k → k < n

private theorem expand_mono (apps extra : List (List Tag)) (base : List Tag) (h : RefsLt base apps.length) :
    expand (apps ++ extra) base = expand apps base := by
  induction base with
  | nil => rfl
  | cons t r ih =>
    have hr : RefsLt r apps.length := fun x hx => h x (by simp [hx])
    simp only [expand, ih hr]
    congr 1
    split
    · rename_i n hc hv
      have := h t (by simp) n hv
      simp [List.getD, List.getElem?_append_left this]
    · rfl

private theorem collectGroups_flatten (s p : Tag → Bool) (ts : List Tag) :
    (collectGroups s p ts).1.flatten ++ (collectGroups s p ts).2 = ts := by
  fun_induction collectGroups s p ts with
  | case1 => rfl
  | case2 t r hs g ih =>
    simp only [List.flatten_cons, List.cons_append, List.append_assoc, g, ih,
      List.takeWhile_append_dropWhile]
  | case3 t r hs => rfl

/-- invariant of the base-class pass -/
private theorem collectBase_spec (ts base : List Tag) (apps : List (List Tag)) (cur : Option (Tag × List Tag))
    (hn : NoRef ts)
    (hinv : match cur with
      | none => RefsLt base apps.length
      | some _ => ∃ b' c, base = b' ++ [⟨c, .ref apps.length⟩] ∧ c = 102 ∧ RefsLt b' apps.length)
    (b : List Tag) (a : List (List Tag)) (rest : List Tag)
    (h : collectBase ts base apps cur = some (b, a, rest)) :
    expand a b ++ rest =
      expand apps base ++ (match cur with | none => [] | some (_, g) => g) ++ ts := by
  induction ts generalizing base apps cur with
  | nil =>
    cases cur with
    | none => simp only [collectBase] at h; cases h; simp
    | some p => simp [collectBase] at h
  | cons t r ih =>
    have hnr : NoRef r := fun x hx => hn x (by simp [hx])
    obtain ⟨st, hst⟩ := hn t (by simp)
    cases cur with
    | some p =>
      obtain ⟨start, grp⟩ := p
      obtain ⟨b', c, hb, hc, hlt⟩ := hinv
      simp only [collectBase] at h
      split at h
      · -- closing tag
        have hinv' : RefsLt base (apps ++ [grp ++ [t]]).length := by
          intro x hx k hk
          rw [hb] at hx
          simp only [List.mem_append, List.mem_singleton] at hx
          rcases hx with hx | hx
          · have := hlt x hx k hk; simp; omega
          · subst hx; simp at hk; subst hk; simp
        have := ih base (apps ++ [grp ++ [t]]) none hnr hinv' h
        rw [this]
        subst hb hc
        simp only [expand_append, expand, List.append_nil, List.append_assoc]
        rw [expand_mono _ _ _ hlt]
        simp [List.getD]
      · have := ih base apps (some (start, grp ++ [t])) hnr ⟨b', c, hb, hc, hlt⟩ h
        rw [this]; simp
    | none =>
      simp only [collectBase] at h
      split at h
      · rename_i happ
        have hc : t.code = 102 := by
          simp only [isAppStart, Bool.and_eq_true, beq_iff_eq] at happ; exact happ.1
        have := ih (base ++ [⟨t.code, .ref apps.length⟩]) apps (some (t, [t])) hnr
          ⟨base, t.code, rfl, hc, hinv⟩ h
        rw [this]
        simp only [expand_append, expand, hc, List.append_nil, List.append_assoc]
        simp [List.getD]
      · split at h
        · cases h; simp
        · have hinv' : RefsLt (base ++ [t]) apps.length := by
            intro x hx k hk
            simp only [List.mem_append, List.mem_singleton] at hx
            rcases hx with hx | hx
            · exact hinv x hx k hk
            · subst hx; rw [hst] at hk; cases hk
          have := ih (base ++ [t]) apps none hnr hinv' h
          rw [this]
          have : expand apps [t] = [t] := expand_noref apps [t] (by intro x hx; simp at hx; subst hx; exact ⟨st, hst⟩)
          simp [expand_append, this]

private theorem noRef_of_append_left {a b : List Tag} (h : NoRef (a ++ b)) : NoRef a :=
  fun x hx => h x (by simp [hx])
private theorem noRef_of_append_right {a b : List Tag} (h : NoRef (a ++ b)) : NoRef b :=
  fun x hx => h x (by simp [hx])

private theorem map_expand_noref (apps : List (List Tag)) (gs : List (List Tag)) (h : NoRef gs.flatten) :
    (gs.map (expand apps)).flatten = gs.flatten := by
  induction gs with
  | nil => rfl
  | cons g r ih =>
    simp only [List.flatten_cons] at h
    simp only [List.map_cons, List.flatten_cons, ih (noRef_of_append_right h),
      expand_noref apps g (noRef_of_append_left h)]

/-- iterating the split tag sequence yields the original sequence, whenever `_setup` accepts it -/
theorem xtags_roundtrip (ts : List Tag) (hn : NoRef ts) (x : XT) (h : setup ts = .ok x) :
    iter x = ts := by
  unfold setup at h
  split at h
  · cases h
  · rename_i base apps r1 hb
    simp only at h
    split at h
    · rename_i hx
      cases h
      have hbase := collectBase_spec ts [] [] none hn (by intro t ht; simp at ht) base apps r1 hb
      simp only [expand, List.nil_append] at hbase
      have h1 := collectGroups_flatten (fun t => t.code == 100) isEndOfClass r1
      have h2 := collectGroups_flatten isEO (fun t => isEO t || t.code == 1001)
        (collectGroups (fun t => t.code == 100) isEndOfClass r1).2
      have h3 := collectGroups_flatten (fun t => t.code == 1001) (fun t => t.code == 1001)
        (collectGroups isEO (fun t => isEO t || t.code == 1001)
          (collectGroups (fun t => t.code == 100) isEndOfClass r1).2).2
      rw [hx, List.append_nil] at h3
      have hr1 : NoRef r1 := by
        have : NoRef (expand apps base ++ r1) := by rw [hbase]; exact hn
        exact noRef_of_append_right this
      rw [← h1] at hr1
      have hs := noRef_of_append_left hr1
      simp only [iter, List.map_cons, List.flatten_cons, map_expand_noref apps _ hs]
      rw [h3, List.append_assoc, List.append_assoc, h2, h1, hbase]
    · cases h

/-! ## `new_app_data`: the added group appears right after the chosen subclass -/

/-- the base class `collectBase` returns only holds placeholders of groups it collected -/
private theorem collectBase_refs (ts base : List Tag) (apps : List (List Tag)) (cur : Option (Tag × List Tag))
    (hn : NoRef ts)
    (hinv : match cur with
      | none => RefsLt base apps.length
      | some _ => RefsLt base (apps.length + 1))
    (b : List Tag) (a : List (List Tag)) (rest : List Tag)
    (h : collectBase ts base apps cur = some (b, a, rest)) : RefsLt b a.length := by
  induction ts generalizing base apps cur with
  | nil =>
    cases cur with
    | none => simp only [collectBase] at h; cases h; exact hinv
    | some p => simp [collectBase] at h
  | cons t r ih =>
    have hnr : NoRef r := fun x hx => hn x (by simp [hx])
    obtain ⟨st, hst⟩ := hn t (by simp)
    cases cur with
    | some p =>
      obtain ⟨start, grp⟩ := p
      simp only [collectBase] at h
      split at h
      · exact ih base (apps ++ [grp ++ [t]]) none hnr (by simpa using hinv) h
      · exact ih base apps (some (start, grp ++ [t])) hnr hinv h
    | none =>
      simp only [collectBase] at h
      split at h
      · refine ih (base ++ [⟨t.code, .ref apps.length⟩]) apps (some (t, [t])) hnr ?_ h
        intro x hx k hk
        simp only [List.mem_append, List.mem_singleton] at hx
        rcases hx with hx | hx
        · have := hinv x hx k hk; omega
        · subst hx; simp at hk; omega
      · split at h
        · cases h; exact hinv
        · refine ih (base ++ [t]) apps none hnr ?_ h
          intro x hx k hk
          simp only [List.mem_append, List.mem_singleton] at hx
          rcases hx with hx | hx
          · exact hinv x hx k hk
          · subst hx; rw [hst] at hk; cases hk

private theorem refsLt_of_noRef (l : List Tag) (n : Nat) (h : NoRef l) : RefsLt l n := by
  intro t ht k hk
  obtain ⟨s, hs⟩ := h t ht
  rw [hs] at hk; cases hk

private theorem expand_snoc_ref (apps : List (List Tag)) (g sc : List Tag) (h : RefsLt sc apps.length) :
    expand (apps ++ [g]) (sc ++ [⟨102, .ref apps.length⟩]) = expand apps sc ++ g := by
  rw [expand_append, expand_mono apps [g] sc h]
  simp [expand, List.getD]

private theorem map_expand_unchanged (apps : List (List Tag)) (g : List Tag) (l : List (List Tag))
    (hl : ∀ sc ∈ l, RefsLt sc apps.length) (k sub : Nat) (hk : sub < k) :
    ((l.zipIdx k).map fun p => expand (apps ++ [g])
        (if p.2 = sub then p.1 ++ [⟨102, .ref apps.length⟩] else p.1)) = l.map (expand apps) := by
  induction l generalizing k with
  | nil => rfl
  | cons sc r ih =>
    have hne : k ≠ sub := by omega
    simp only [List.zipIdx_cons, List.map_cons, hne, ↓reduceIte, expand_mono apps [g] sc (hl sc (by simp)),
      ih (fun x hx => hl x (by simp [hx])) (k + 1) (by omega)]

private theorem map_expand_insert (apps : List (List Tag)) (g : List Tag) (l : List (List Tag))
    (hl : ∀ sc ∈ l, RefsLt sc apps.length) (k sub : Nat) (hsub : sub < l.length) :
    (((l.zipIdx k).map fun p => expand (apps ++ [g])
        (if p.2 = sub + k then p.1 ++ [⟨102, .ref apps.length⟩] else p.1))).flatten =
      ((l.take (sub + 1)).map (expand apps)).flatten ++ g ++ ((l.drop (sub + 1)).map (expand apps)).flatten := by
  induction l generalizing k sub with
  | nil => simp at hsub
  | cons sc r ih =>
    have hsc := hl sc (by simp)
    have hr : ∀ x ∈ r, RefsLt x apps.length := fun x hx => hl x (by simp [hx])
    cases sub with
    | zero =>
      have := map_expand_unchanged apps g r hr (k + 1) k (by omega)
      simp only [List.zipIdx_cons, List.map_cons, Nat.zero_add, ↓reduceIte, expand_snoc_ref apps g sc hsc,
        this, List.flatten_cons, List.take_succ_cons, List.take_zero, List.map_nil, List.flatten_nil,
        List.append_nil, List.drop_succ_cons, List.drop_zero, List.append_assoc]
    | succ s =>
      have hne : k ≠ s + 1 + k := by omega
      have hih := ih hr (k + 1) s (by simp at hsub; omega)
      have e : s + (k + 1) = s + 1 + k := by omega
      rw [e] at hih
      simp only [List.zipIdx_cons, List.map_cons, hne, ↓reduceIte, expand_mono apps [g] sc hsc,
        List.flatten_cons, hih, List.take_succ_cons, List.drop_succ_cons, List.append_assoc]

/-- `ExtendedTags.new_app_data(appid, tags, subclass_name)` on a loaded entity: iterating afterwards yields
    the old tags with the new group right after the tags of the chosen subclass (0 = base class) — the
    placeholder (102, index) is expanded in whichever subclass it was appended to -/
theorem new_app_data_iter (ts : List Tag) (hn : NoRef ts) (x : XT) (h : setup ts = .ok x)
    (sub : Nat) (grp : List Tag) (hsub : sub < x.subclasses.length) :
    iter (newAppData x sub grp) =
      ((x.subclasses.take (sub + 1)).map (expand x.appdata)).flatten ++ grp ++
        ((x.subclasses.drop (sub + 1)).map (expand x.appdata)).flatten ++ x.embedded.flatten ++ x.xdata.flatten := by
  have hrefs : ∀ sc ∈ x.subclasses, RefsLt sc x.appdata.length := by
    unfold setup at h
    split at h
    · cases h
    · rename_i base apps r1 hb
      simp only at h
      split at h
      · cases h
        have hbase := collectBase_refs ts [] [] none hn (by intro t ht; simp at ht) base apps r1 hb
        have hspec := collectBase_spec ts [] [] none hn (by intro t ht; simp at ht) base apps r1 hb
        simp only [expand, List.nil_append] at hspec
        have hr1 : NoRef r1 := by
          have : NoRef (expand apps base ++ r1) := by rw [hspec]; exact hn
          exact noRef_of_append_right this
        have h1 := collectGroups_flatten (fun t => t.code == 100) isEndOfClass r1
        rw [← h1] at hr1
        have hs := noRef_of_append_left hr1
        intro sc hsc
        simp only [List.mem_cons] at hsc
        rcases hsc with hsc | hsc
        · subst hsc; exact hbase
        · apply refsLt_of_noRef
          intro t ht
          exact hs t (List.mem_flatten.mpr ⟨sc, hsc, ht⟩)
      · cases h
  have := map_expand_insert x.appdata grp x.subclasses hrefs 0 sub hsub
  simp only [Nat.add_zero] at this
  simp only [iter, newAppData, List.map_map]
  have e : (List.map (expand (x.appdata ++ [grp]) ∘ fun p : List Tag × Nat =>
      if p.2 = sub then p.1 ++ [⟨102, V.ref x.appdata.length⟩] else p.1) x.subclasses.zipIdx) =
      (x.subclasses.zipIdx.map fun p => expand (x.appdata ++ [grp])
        (if p.2 = sub then p.1 ++ [⟨102, .ref x.appdata.length⟩] else p.1)) := rfl
  rw [e, this]

-- non-vacuity: group added to the named subclass (index 1) of an entity with base class, subclass and XDATA
#guard (match setup [⟨0, .str [76]⟩, ⟨5, .str [49]⟩, ⟨102, .str [123, 65]⟩, ⟨330, .str [50]⟩, ⟨102, .str [125]⟩,
    ⟨100, .str [65]⟩, ⟨10, .str [49]⟩, ⟨100, .str [66]⟩, ⟨1001, .str [88]⟩] with
  | .ok x => iter (newAppData x 1 [⟨102, .str [123, 78]⟩, ⟨102, .str [125]⟩]) ==
      [⟨0, .str [76]⟩, ⟨5, .str [49]⟩, ⟨102, .str [123, 65]⟩, ⟨330, .str [50]⟩, ⟨102, .str [125]⟩,
       ⟨100, .str [65]⟩, ⟨10, .str [49]⟩, ⟨102, .str [123, 78]⟩, ⟨102, .str [125]⟩, ⟨100, .str [66]⟩, ⟨1001, .str [88]⟩]
  | _ => false)

/-! ## binary tags -/

theorem cls_agree (c : Nat) : writerCls c = loaderCls c := by
  unfold writerCls loaderCls
  simp only [isBinary, isBytes, isInt16, isInt32, isInt64, isDouble, inR, Bool.or_eq_true,
    Bool.and_eq_true, decide_eq_true_eq, beq_iff_eq]
  repeat' split
  all_goals first | rfl | omega

theorem cstr_roundtrip (bs rest : List Nat) (h : ∀ b ∈ bs, b ≠ 0) :
    cstr (bs ++ [0] ++ rest) = .ok (bs, rest) := by
  induction bs with
  | nil => simp [cstr]
  | cons b r ih =>
    have hb := h b (by simp)
    have hr := ih (fun x hx => h x (by simp [hx]))
    simp only [List.cons_append, cstr, hb, ↓reduceIte]
    simp only [List.append_assoc] at hr ⊢
    rw [hr]; rfl

private theorem takeN_append (bs rest : List Nat) : takeN bs.length (bs ++ rest) = .ok (bs, rest) := by
  simp [takeN]

/-- a value of the class its group code prescribes, within the width of that class -/
def ValWF (t : BTag) : Prop :=
  match writerCls t.code, t.val with
  | .bytes, .int v => 0 ≤ v ∧ v < 256
  | .int16, .int v => -(2 : Int) ^ 15 ≤ v ∧ v < (2 : Int) ^ 15
  | .int32, .int v => -(2 : Int) ^ 31 ≤ v ∧ v < (2 : Int) ^ 31
  | .int64, .int v => -(2 : Int) ^ 63 ≤ v ∧ v < (2 : Int) ^ 63
  | .double, .dbl bits => bits < 2 ^ 64
  | .str, .str bs => ∀ b ∈ bs, b ≠ 0
  | _, _ => False

private theorem take_append_len (a b : List Nat) : (a ++ b).take a.length = a := by simp
private theorem drop_append_len (a b : List Nat) : (a ++ b).drop a.length = b := by simp

/-- `binary_tags_loader` reads back exactly the tag `BinaryTagWriter.write_tag2` wrote, for every
    non-binary group code the format can frame and every value within the width of its class
    (floats bit-exact, strings byte-exact up to the text codec which is C09's subject) -/
theorem bin_tag_roundtrip_all (r12 : Bool) (t : BTag) (rest : List Nat)
    (hc : t.code < 65536) (hv : ValWF t) :
    ∃ bs, encTag r12 t = .ok bs ∧ decTag r12 (bs ++ rest) = .ok (t, rest) := by
  have h12 : r12 = true → t.code < 255 ∨ 1000 ≤ t.code ∨ True := fun _ => Or.inr (Or.inr trivial)
  obtain ⟨code, val⟩ := t
  simp only at hc
  unfold ValWF at hv
  simp only at hv
  have hcls := cls_agree code
  unfold encTag decTag
  simp only
  split at hv
  all_goals try exact absurd hv id
  all_goals rename_i hw
  all_goals simp only [hw] at hcls ⊢
  -- bytes
  · rename_i v
    obtain ⟨cb, hcb, hdc⟩ := code_framing_all r12 code (([v.toNat] : List Nat) ++ rest) hc
    refine ⟨cb ++ [v.toNat], by simp [hcb, encByte, hv, bind, Except.bind], ?_⟩
    simp only [List.append_assoc, hdc, bind, Except.bind, ← hcls]
    simp only [List.cons_append, List.nil_append]
    rw [Int.toNat_of_nonneg hv.1]
  -- int16
  · rename_i v
    obtain ⟨b, hb, hbl, hbd⟩ := signed_roundtrip 2 (by decide) v hv
    obtain ⟨cb, hcb, hdc⟩ := code_framing_all r12 code (b ++ rest) hc
    refine ⟨cb ++ b, by simp [hcb, hb, bind, Except.bind], ?_⟩
    simp only [List.append_assoc, hdc, bind, Except.bind, ← hcls]
    have := takeN_append b rest; rw [hbl] at this
    simp only [this, hbd]
  -- int32
  · rename_i v
    obtain ⟨b, hb, hbl, hbd⟩ := signed_roundtrip 4 (by decide) v hv
    obtain ⟨cb, hcb, hdc⟩ := code_framing_all r12 code (b ++ rest) hc
    refine ⟨cb ++ b, by simp [hcb, hb, bind, Except.bind], ?_⟩
    simp only [List.append_assoc, hdc, bind, Except.bind, ← hcls]
    have := takeN_append b rest; rw [hbl] at this
    simp only [this, hbd]
  -- int64
  · rename_i v
    obtain ⟨b, hb, hbl, hbd⟩ := signed_roundtrip 8 (by decide) v hv
    obtain ⟨cb, hcb, hdc⟩ := code_framing_all r12 code (b ++ rest) hc
    refine ⟨cb ++ b, by simp [hcb, hb, bind, Except.bind], ?_⟩
    simp only [List.append_assoc, hdc, bind, Except.bind, ← hcls]
    have := takeN_append b rest; rw [hbl] at this
    simp only [this, hbd]
  -- double
  · rename_i bits
    obtain ⟨cb, hcb, hdc⟩ := code_framing_all r12 code (leBytes 8 bits ++ rest) hc
    refine ⟨cb ++ leBytes 8 bits, by simp [hcb, bind, Except.bind], ?_⟩
    simp only [List.append_assoc, hdc, bind, Except.bind, ← hcls]
    have := takeN_append (leBytes 8 bits) rest; rw [leBytes_length] at this
    simp only [this]
    rw [leVal_leBytes 8 bits (by simpa using hv)]
  -- str
  · rename_i s
    obtain ⟨cb, hcb, hdc⟩ := code_framing_all r12 code (s ++ [0] ++ rest) hc
    refine ⟨cb ++ s ++ [0], by simp [hcb, bind, Except.bind], ?_⟩
    have : cb ++ s ++ [0] ++ rest = cb ++ (s ++ [0] ++ rest) := by simp
    rw [this, hdc]
    simp only [bind, Except.bind, ← hcls, cstr_roundtrip s rest hv]

theorem bin_tag_roundtrip (r12 : Bool) (t : BTag) (rest : List Nat)
    (hc : t.code < 65536) (_h12 : r12 = true → t.code < 255 ∨ 1000 ≤ t.code) (hv : ValWF t) :
    ∃ bs, encTag r12 t = .ok bs ∧ decTag r12 (bs ++ rest) = .ok (t, rest) :=
  bin_tag_roundtrip_all r12 t rest hc hv

/-- binary data: the loader returns one tag per chunk the writer produced -/
theorem bin_chunk_roundtrip (r12 : Bool) (code : Nat) (ch rest : List Nat)
    (hcls : writerCls code = .binary) (hc : code < 65536) (h12 : r12 = true → 1000 ≤ code)
    (hl : ch.length < 256) :
    decTag r12 ((if r12 ∧ code ≥ 1000 then [255] else []) ++ leBytes 2 code ++ [ch.length] ++ ch ++ rest)
      = .ok (⟨code, .bin ch⟩, rest) := by
  have hl' := cls_agree code
  rw [hcls] at hl'
  unfold decTag
  cases r12 with
  | false =>
    simp only [Bool.false_eq_true, false_and, ↓reduceIte, List.nil_append, leBytes, List.cons_append,
      decCode, bind, Except.bind]
    have : code / 256 % 256 * 256 + code % 256 = code := by omega
    simp only [this, ← hl']
    simp
  | true =>
    have h := h12 rfl
    simp only [h, ge_iff_le, and_self, ↓reduceIte, leBytes, List.cons_append, List.nil_append,
      decCode, bind, Except.bind]
    have : code / 256 % 256 * 256 + code % 256 = code := by omega
    simp only [this, ← hl']
    simp

/-- binary data chunk as the fixed writer frames it (R12: marker for every code >= 255) -/
theorem bin_chunk_roundtrip_all (r12 : Bool) (code : Nat) (ch rest : List Nat)
    (hcls : writerCls code = .binary) (hc : code < 65536) (hl : ch.length < 256) :
    decTag r12 ((if r12 ∧ code ≥ 255 then [255] else []) ++ leBytes 2 code ++ [ch.length] ++ ch ++ rest)
      = .ok (⟨code, .bin ch⟩, rest) := by
  have hl' := cls_agree code
  rw [hcls] at hl'
  have h255 : code ≥ 255 := by
    unfold writerCls at hcls
    simp only [isBinary, inR, Bool.or_eq_true, Bool.and_eq_true, decide_eq_true_eq, beq_iff_eq] at hcls
    split at hcls
    · omega
    · repeat' split at hcls
      all_goals cases hcls
  unfold decTag
  cases r12 with
  | false =>
    simp only [Bool.false_eq_true, false_and, ↓reduceIte, List.nil_append, leBytes, List.cons_append,
      decCode, bind, Except.bind]
    have : code / 256 % 256 * 256 + code % 256 = code := by omega
    simp only [this, ← hl']
    simp
  | true =>
    simp only [h255, ge_iff_le, and_self, ↓reduceIte, leBytes, List.cons_append, List.nil_append,
      decCode, bind, Except.bind]
    have : code / 256 % 256 * 256 + code % 256 = code := by omega
    simp only [this, ← hl']
    simp

/-- tags the binary format can frame and whose values fit their class (binary chunks excluded: they
    are covered by `bin_chunk_roundtrip`) -/
def TagOK (r12 : Bool) (t : BTag) : Prop :=
  t.code < 65536 ∧ (r12 = true → t.code < 255 ∨ 1000 ≤ t.code) ∧ ValWF t

private theorem encTag_nonempty (r12 : Bool) (t : BTag) (bs : List Nat) (h : TagOK r12 t)
    (he : encTag r12 t = .ok bs) : bs ≠ [] := by
  obtain ⟨bs', he', hd⟩ := bin_tag_roundtrip r12 t [] h.1 h.2.1 h.2.2
  rw [he] at he'
  cases he'
  intro hnil
  rw [hnil] at hd
  simp [decTag, decCode, bind, Except.bind] at hd

/-- a whole tag list written by the binary writer is read back tag for tag -/
theorem bin_file_roundtrip (r12 : Bool) (ts : List BTag) (h : ∀ t ∈ ts, TagOK r12 t) :
    ∃ bs, encAll r12 ts = .ok bs ∧ ∀ fuel, ts.length < fuel → decAll r12 fuel bs = .ok ts := by
  induction ts with
  | nil =>
    refine ⟨[], rfl, ?_⟩
    intro fuel hf
    cases fuel with
    | zero => omega
    | succ k => simp [decAll]
  | cons t r ih =>
    have ht := h t (by simp)
    obtain ⟨br, hbr, hdr⟩ := ih (fun x hx => h x (by simp [hx]))
    obtain ⟨bt, hbt, hdt⟩ := bin_tag_roundtrip r12 t br ht.1 ht.2.1 ht.2.2
    refine ⟨bt ++ br, by simp [encAll, hbt, hbr, bind, Except.bind], ?_⟩
    intro fuel hf
    cases fuel with
    | zero => omega
    | succ k =>
      have hne : bt ≠ [] := encTag_nonempty r12 t bt ht hbt
      have hne' : (bt ++ br).isEmpty = false := by
        cases bt with
        | nil => exact absurd rfl hne
        | cons a b => rfl
      simp only [decAll, hne', Bool.false_eq_true, ↓reduceIte, hdt, bind, Except.bind]
      rw [hdr k (by simp at hf; omega)]


/-- since the fix of F7 every group code < 65536 is framable in both widths -/
def TagOK' (t : BTag) : Prop := t.code < 65536 ∧ ValWF t

private theorem encTag_nonempty' (r12 : Bool) (t : BTag) (bs : List Nat) (h : TagOK' t)
    (he : encTag r12 t = .ok bs) : bs ≠ [] := by
  obtain ⟨bs', he', hd⟩ := bin_tag_roundtrip_all r12 t [] h.1 h.2
  rw [he] at he'
  cases he'
  intro hnil
  rw [hnil] at hd
  simp [decTag, decCode, bind, Except.bind] at hd

/-- a whole tag list written by the binary writer is read back tag for tag: every code < 65536, both
    group-code widths, no restriction on R12 any more -/
theorem bin_file_roundtrip_all (r12 : Bool) (ts : List BTag) (h : ∀ t ∈ ts, TagOK' t) :
    ∃ bs, encAll r12 ts = .ok bs ∧ ∀ fuel, ts.length < fuel → decAll r12 fuel bs = .ok ts := by
  induction ts with
  | nil =>
    refine ⟨[], rfl, ?_⟩
    intro fuel hf
    cases fuel with
    | zero => omega
    | succ k => simp [decAll]
  | cons t r ih =>
    have ht := h t (by simp)
    obtain ⟨br, hbr, hdr⟩ := ih (fun x hx => h x (by simp [hx]))
    obtain ⟨bt, hbt, hdt⟩ := bin_tag_roundtrip_all r12 t br ht.1 ht.2
    refine ⟨bt ++ br, by simp [encAll, hbt, hbr, bind, Except.bind], ?_⟩
    intro fuel hf
    cases fuel with
    | zero => omega
    | succ k =>
      have hne : bt ≠ [] := encTag_nonempty' r12 t bt ht hbt
      have hne' : (bt ++ br).isEmpty = false := by
        cases bt with
        | nil => exact absurd rfl hne
        | cons a b => rfl
      simp only [decAll, hne', Bool.false_eq_true, ↓reduceIte, hdt, bind, Except.bind]
      rw [hdr k (by simp at hf; omega)]

/-! ## the hand-written class functions equal the sets and the probed behaviour of the source -/

def asciiCls (c : Nat) : Nat :=
  if isPoint c then 4 else if isBinary c then 3 else if isDouble c then 2
  else if isBytes c || isInt16 c || isInt32 c || isInt64 c then 1 else 0

theorem sets_tied :
    (List.range 1200).filter isBytes = Gen.TagTables.bytesL ∧
    (List.range 1200).filter isInt16 = Gen.TagTables.int16L ∧
    (List.range 1200).filter isInt32 = Gen.TagTables.int32L ∧
    (List.range 1200).filter isInt64 = Gen.TagTables.int64L ∧
    (List.range 1200).filter isDouble = Gen.TagTables.doubleL ∧
    (List.range 1200).filter isBinary = Gen.TagTables.binaryL ∧
    (List.range 1200).filter isPoint = Gen.TagTables.pointL := by
  decide +kernel

/-- for every group code 0..1071: the class the real BinaryTagWriter used when probed -/
theorem writer_observed :
    (List.range 1072).map (fun c => (writerCls c).toNat) = Gen.TagTables.obsWriter := by
  decide +kernel

/-- for every group code 0..1071: the class the real binary_tags_loader used when probed -/
theorem loader_observed :
    (List.range 1072).map (fun c => (loaderCls c).toNat) = Gen.TagTables.obsLoader := by
  decide +kernel

/-- for every group code 0..1071: the Python type tag_compiler produced when probed -/
theorem compile_observed :
    (List.range 1072).map asciiCls = Gen.TagTables.obsCompile := by
  decide +kernel

/-- the differently ordered if-chains of writer and loader pick the same class, for every code -/
theorem replicas_agree (c : Nat) : writerCls c = loaderCls c := cls_agree c

/-- hypothesis of `points_roundtrip` for the real point codes; points are doubles -/
theorem point_codes_facts (c : Nat) (h : isPoint c = true) :
    isPoint (c + 20) = false ∧ isPoint (c + 10) = false ∧ isDouble c = true ∧
    isDouble (c + 10) = true ∧ isDouble (c + 20) = true := by
  simp only [isPoint, isDouble, inR, Bool.or_eq_true, Bool.and_eq_true, decide_eq_true_eq,
    Bool.or_eq_false_iff, Bool.and_eq_false_iff, decide_eq_false_iff_not] at *
  omega

-- non-vacuity
example : PointWF isPoint
    [CTag.point 10 [1, 2], .single 40 (5 : Nat), .point 11 [1, 2, 3], .single 0 7, .point 10 [0, 0]] := by
  simp [PointWF, isPoint, inR]

#guard (match setup [⟨0, .str [76]⟩, ⟨5, .str [49]⟩, ⟨102, .str [123, 65]⟩, ⟨330, .str [50]⟩, ⟨102, .str [125]⟩,
    ⟨100, .str [65]⟩, ⟨10, .str [49]⟩, ⟨101, .str embeddedObjStr⟩, ⟨100, .str [66]⟩, ⟨1001, .str [88]⟩, ⟨1000, .str [89]⟩] with
  | .ok x => x.subclasses.length == 2 && x.appdata.length == 1 && x.embedded.length == 1 && x.xdata.length == 1
  | _ => false)

end EzdxfVerif.Props.C03

/-
C20  Text content tools are total and consistent.
Only property theorems and non-vacuity examples live here (helper lemmas are `private` or in
Model/); every `theorem` of this file is an obligation counted by ./check C20.
-/
import EzdxfVerif.Model.Text
import EzdxfVerif.Gen.TextTables
import EzdxfVerif.Lemmas.Text

namespace EzdxfVerif.Props.C20
open EzdxfVerif.Text

/-! ## split_mtext_string: join is the identity, every chunk within the size limit -/

theorem split_join (size : Nat) (h : 2 ≤ size) (s : Str) :
    (splitMText size h s).flatten = s := by
  fun_induction splitMText size h s with
  | case1 r hr => simp [List.length_eq_zero_iff.mp hr]
  | case2 r hr hlt => simp
  | case3 r hr hlt hc ih =>
    simp only [List.flatten_cons, ih]
    have hsz : size ≤ r.length := by omega
    have h1 : (r.take size).dropLast = r.take (size - 1) := by
      rw [List.dropLast_eq_take, List.take_take, List.length_take]
      congr 1; omega
    rw [h1, List.take_append_drop]
  | case4 r hr hlt hc ih =>
    simp only [List.flatten_cons, ih, List.take_append_drop]

theorem split_chunk_bounds (size : Nat) (h : 2 ≤ size) (s : Str) :
    ∀ c ∈ splitMText size h s, 0 < c.length ∧ c.length ≤ size := by
  fun_induction splitMText size h s with
  | case1 r hr => simp
  | case2 r hr hlt =>
    intro c hc; simp at hc; subst hc
    constructor <;> omega
  | case3 r hr hlt hc ih =>
    intro c hmem
    simp only [List.mem_cons] at hmem
    rcases hmem with rfl | hmem
    · simp only [List.length_dropLast, List.length_take]
      constructor <;> omega
    · exact ih c hmem
  | case4 r hr hlt hc ih =>
    intro c hmem
    simp only [List.mem_cons] at hmem
    rcases hmem with rfl | hmem
    · simp only [List.length_take]
      constructor <;> omega
    · exact ih c hmem

/-- a chunk of the full length `size` never ends in the caret that would separate "^X" -/
theorem split_full_chunk_no_caret (size : Nat) (h : 2 ≤ size) (s : Str) :
    ∀ c ∈ splitMText size h s, c.length = size → c.getLast? ≠ some '^' := by
  fun_induction splitMText size h s with
  | case1 r hr => simp
  | case2 r hr hlt =>
    intro c hc hl; simp at hc; subst hc; omega
  | case3 r hr hlt hc ih =>
    intro c hmem hl
    simp only [List.mem_cons] at hmem
    rcases hmem with rfl | hmem
    · simp only [List.length_dropLast, List.length_take] at hl; omega
    · exact ih c hmem hl
  | case4 r hr hlt hc ih =>
    intro c hmem hl
    simp only [List.mem_cons] at hmem
    rcases hmem with rfl | hmem
    · exact hc
    · exact ih c hmem hl

#guard splitMText 3 (by decide) "ab^cd^".toList = ["ab".toList, "^cd".toList, "^".toList]

/-! ## RE_FLOAT matches only what `float()` accepts (the statement the regex typo violated) -/

private theorem frun_append (q : Nat) (a b : Str) : frun q (a ++ b) = frun (frun q a) b := by
  simp [frun, List.foldl_append]

private theorem frun_digits (q : Nat) (ds : Str) (h : ∀ c ∈ ds, isDigit c = true)
    (hq : q = 2 ∨ q = 3 ∨ q = 6) : frun q ds = q := by
  induction ds with
  | nil => rfl
  | cons c t ih =>
    have hc := h c (by simp)
    have ht : ∀ c ∈ t, isDigit c = true := fun x hx => h x (by simp [hx])
    have : fstep q c = q := by
      rcases hq with rfl | rfl | rfl <;> simp [fstep, hc]
    simp only [frun, List.foldl_cons, this]
    exact ih ht

private theorem frun_digits_ne (q : Nat) (ds : Str) (h : ∀ c ∈ ds, isDigit c = true) (hne : ds ≠ [])
    (hq : q = 0 ∨ q = 1 ∨ q = 4 ∨ q = 5) :
    frun q ds = if q = 0 ∨ q = 1 then 2 else 6 := by
  cases ds with
  | nil => exact absurd rfl hne
  | cons c t =>
    have hc := h c (by simp)
    have ht : ∀ c ∈ t, isDigit c = true := fun x hx => h x (by simp [hx])
    rcases hq with rfl | rfl | rfl | rfl <;>
      simp only [frun, List.foldl_cons, fstep, hc] <;>
      simp <;> first | exact frun_digits 2 t ht (by simp) | exact frun_digits 6 t ht (by simp)

private theorem mem_takeWhile_prop (p : Char → Bool) (l : Str) : ∀ c ∈ l.takeWhile p, p c = true := by
  induction l with
  | nil => simp
  | cons a t ih =>
    intro c hc
    simp only [List.takeWhile] at hc
    split at hc
    · simp only [List.mem_cons] at hc
      rcases hc with rfl | hc
      · assumption
      · exact ih c hc
    · simp at hc

private theorem spanDigits_all (s : Str) : ∀ c ∈ (spanDigits s).1, isDigit c = true :=
  mem_takeWhile_prop isDigit s

private theorem sign_not_digit (c : Char) (h : c = '+' ∨ c = '-') : isDigit c = false := by
  rcases h with rfl | rfl <;> decide

private theorem frun_optSign (s : Str) :
    frun 0 (optSign s).1 = 0 ∨ frun 0 (optSign s).1 = 1 := by
  unfold optSign; split
  · split
    · rename_i c t h
      right
      simp [frun, fstep, sign_not_digit c h, h]
    · left; rfl
  · left; rfl

private theorem frun4_optSign (s : Str) :
    frun 4 (optSign s).1 = 4 ∨ frun 4 (optSign s).1 = 5 := by
  unfold optSign; split
  · split
    · rename_i c t h
      right
      simp [frun, fstep, sign_not_digit c h, h]
    · left; rfl
  · left; rfl

private theorem frun_optFrac (s : Str) :
    frun 2 (optFrac s).1 = 2 ∨ frun 2 (optFrac s).1 = 3 := by
  unfold optFrac; split
  · split
    · rename_i c t h
      right
      subst h
      have : frun 2 ('.' :: (spanDigits t).1) = frun 3 (spanDigits t).1 := by
        simp [frun, fstep]; rfl
      rw [this]
      exact frun_digits 3 _ (spanDigits_all t) (by simp)
    · left; rfl
  · left; rfl

private theorem frun_optExp (q : Nat) (hq : q = 2 ∨ q = 3) (s : Str) :
    frun q (optExp s).1 = q ∨ frun q (optExp s).1 = 6 := by
  unfold optExp; split
  · split
    · split
      · left; rfl
      · rename_i e t he hne
        right
        have hstep : fstep q e = 4 := by
          have hd : isDigit e = false := by rcases he with rfl | rfl <;> decide
          have h1 : ¬ (e = '+' ∨ e = '-') := by rcases he with rfl | rfl <;> decide
          have h2 : ¬ (e = '.') := by rcases he with rfl | rfl <;> decide
          rcases hq with rfl | rfl <;> simp [fstep, hd, h1, h2, he]
        have : frun q (e :: ((optSign t).1 ++ (spanDigits (optSign t).2).1))
            = frun (frun 4 (optSign t).1) (spanDigits (optSign t).2).1 := by
          rw [← frun_append]
          simp [frun, hstep]
        rw [this]
        rcases frun4_optSign t with h | h <;> rw [h]
        · simpa using frun_digits_ne 4 _ (spanDigits_all _) hne (by simp)
        · simpa using frun_digits_ne 5 _ (spanDigits_all _) hne (by simp)
    · left; rfl
  · left; rfl

/-- every non-empty match of RE_FLOAT is a string `float()` accepts -/
theorem matchFloat_valid (s : Str) (h : (matchFloat s).1 ≠ []) : pyFloatOk (matchFloat s).1 = true := by
  unfold matchFloat at *
  simp only at *
  split at h
  · exact absurd rfl h
  · rename_i hne
    simp only [hne, if_false]
    unfold pyFloatOk
    simp only [frun_append]
    have hs := frun_optSign s
    have hd : frun (frun 0 (optSign s).1) (spanDigits (optSign s).2).1 = 2 := by
      rcases hs with h0 | h0 <;> rw [h0]
      · simpa using frun_digits_ne 0 _ (spanDigits_all _) hne (by simp)
      · simpa using frun_digits_ne 1 _ (spanDigits_all _) hne (by simp)
    rw [hd]
    rcases frun_optFrac (spanDigits (optSign s).2).2 with hf | hf <;> rw [hf]
    · rcases frun_optExp 2 (by simp) (optFrac (spanDigits (optSign s).2).2).2 with he | he <;>
        rw [he] <;> simp
    · rcases frun_optExp 3 (by simp) (optFrac (spanDigits (optSign s).2).2).2 with he | he <;>
        rw [he] <;> simp

/-- the matcher consumes exactly the matched text -/
theorem matchFloat_split (s : Str) : (matchFloat s).1 ++ (matchFloat s).2 = s := matchFloat_append s

example : (matchFloat "-1.5e+3x;".toList) = ("-1.5e+3".toList, "x;".toList) := by decide
example : pyFloatOk "1:.5".toList = false := by decide     -- what the typo regex used to hand to float()

/-! ## MTextParser never raises -/

private theorem pyFloat_match (s : Str) (h : (matchFloat s).1 ≠ []) : pyFloat (matchFloat s).1 = .ok () := by
  simp [pyFloat, matchFloat_valid s h]

private theorem paraTabs_ok (s : Str) : paraTabs s = .ok () := by
  fun_induction paraTabs s with
  | case1 => rfl
  | case2 c r h ih => exact ih
  | case3 c r h he ih => rw [dif_pos he]; exact ih
  | case4 c r h he ih =>
    rw [dif_neg he]
    have hne : (matchFloat (c :: r)).1 ≠ [] := by
      intro h0; apply he; simp [paraFloatExpr, h0]
    have : (paraFloatExpr (c :: r)).1 = (matchFloat (c :: r)).1 := by simp [paraFloatExpr, hne]
    simp only [this, pyFloat_match _ hne, bind, Except.bind]
    exact ih

private theorem paraLoop_ok (s : Str) : paraLoop s = .ok () := by
  fun_induction paraLoop s with
  | case1 => rfl
  | case2 c r h e he ih => exact ih
  | case3 c r h e he ih =>
    have hne : (matchFloat r).1 ≠ [] := by
      intro h0; apply he; simp [e, paraFloatExpr, h0]
    have : e.1 = (matchFloat r).1 := by simp [e, paraFloatExpr, hne]
    simp only [this, pyFloat_match _ hne, bind, Except.bind]
    exact ih
  | case4 r hq ih => exact ih
  | case5 r hq ht => exact paraTabs_ok r
  | case6 c r h hq ht ih => exact ih

/-- no property command can raise -/
theorem parseProperties_no_error (cmd : Char) (tail : Str) (e : PyErr) :
    parseProperties cmd tail ≠ some (.error e) := by
  unfold parseProperties
  split; · simp
  split
  · unfold parseAlign; split <;> simp
  split; · simp [parseIntCmd]
  split
  · unfold parseFloatOrFactor
    simp only
    split
    · simp
    · rename_i hne
      simp [pyFloat_match tail hne, bind, Except.bind]
  split
  · unfold parseOblique
    simp only
    split
    · simp
    · rename_i hne
      simp [pyFloat_match tail hne, bind, Except.bind]
  split
  · simp [paraLoop_ok, bind, Except.bind]
  split <;> simp

private theorem map_ok {α β : Type} (f : α → β) (x : Except PyErr α) (h : ∃ a, x = .ok a) :
    ∃ b, f <$> x = .ok b := by
  obtain ⟨a, rfl⟩ := h
  exact ⟨f a, rfl⟩

private theorem scan_ok (sp : Special) (rest word : Str) : ∃ ts, scan sp rest word = .ok ts := by
  fun_induction scan sp rest word
  all_goals first
    | exact ⟨_, rfl⟩
    | assumption
    | (apply map_ok; assumption)
    | (rename_i hp; exact absurd hp (parseProperties_no_error _ _ _))

/-- `MTextParser(content)` yields its token stream for every string: no Python error is reachable.
    Termination is part of the definition of `scan` (well-founded, no fuel). -/
theorem parser_total (sp : Special) (s : Str) : ∃ ts, parse sp s = .ok ts :=
  scan_ok sp (caretDecode s) []

/-- `plain_mtext(content)` returns for every string -/
theorem plain_total (sp : Special) (s : Str) : ∃ ls, plainMText sp s = .ok ls := by
  obtain ⟨ts, h⟩ := parser_total sp s
  exact ⟨plainOfTokens ts [], by rw [plainMText, h]; rfl⟩

-- the three inputs that used to raise (F9, F10, F11) now parse in the model as in the code
#guard (match parse Gen.TextTables.special "\\Sa\\".toList with
  | .ok ts => decide (ts = [.stack ['a'] [] []]) | _ => false)
#guard (match parse Gen.TextTables.special "x\\A".toList with
  | .ok ts => decide (ts = [.word ['x']]) | _ => false)

/-! ## decoding plain words: both decoders return exactly the words (base case of fast == slow) -/

/-- content made of plain characters (letters, digits, blanks, non-ASCII; no control characters, none of
    `\ { } % ^`) is returned unchanged by `fast_plain_mtext` -/
theorem fast_plain_identity (sp : Special) (s : Str) (h : ∀ c ∈ s, isPlain c = true) :
    fastPlainMText sp s = s := Text.fast_plain_identity sp s h

/-- ... and by `plain_mtext` (one paragraph), so the two decoders agree on plain content -/
theorem plain_identity (sp : Special) (s : Str) (h : ∀ c ∈ s, isPlain c = true) (hne : s ≠ []) :
    plainMText sp s = .ok [s] := Text.plain_identity sp s h hne

theorem fast_eq_slow_plain (sp : Special) (s : Str) (h : ∀ c ∈ s, isPlain c = true) (hne : s ≠ []) :
    plainMText sp s = .ok [fastPlainMText sp s] := by
  rw [Text.fast_plain_identity sp s h]; exact Text.plain_identity sp s h hne

example : ∀ c ∈ "Hello wörld 42".toList, isPlain c = true := by decide

/-! ## ties of the hand-written model to the generated tables (regenerated from source each run) -/

theorem re_float_pattern : Gen.TextTables.reFloat = "[+-]?\\d+(?:\\.\\d*)?(?:[eE][+-]?\\d+)?" := by decide

theorem re_float_x_pattern :
    Gen.TextTables.reFloatX = "[+-]?\\d+(?:\\.\\d*)?(?:[eE][+-]?\\d+)?([x]?)" := by decide

theorem one_char_commands_tied : Gen.TextTables.oneCharCommands.toList = oneCharCommands := by decide

/-- special letters are plain word characters (not blank, brace, backslash or control), which is
    what `scan` and `fastLoop` assume when they append them -/
theorem special_letters_plain :
    Gen.TextTables.specialList.all (fun p => decide (32 < p.2) && p.2 != 123 && p.2 != 125 && p.2 != 92 && p.2 != 37) = true := by
  decide

end EzdxfVerif.Props.C20

/-
C20  Text content tools are total and consistent.
Only property theorems and non-vacuity examples live here (helper lemmas are `private` or in
Model/); every `theorem` of this file is an obligation counted by ./check C20.
-/
import EzdxfVerif.Model.Text
import EzdxfVerif.Gen.TextTables
import EzdxfVerif.Lemmas.Text
import EzdxfVerif.Lemmas.TextTotal
import EzdxfVerif.Lemmas.TextAgree
import EzdxfVerif.Lemmas.TextEditor
import EzdxfVerif.Lemmas.TextLines
import EzdxfVerif.Lemmas.TextPara
import EzdxfVerif.Lemmas.TextSpec
import EzdxfVerif.Lemmas.TextEditorX
import EzdxfVerif.Lemmas.TextTokens
import EzdxfVerif.Lemmas.TextLinesSpec
import EzdxfVerif.Lemmas.TextCtx
import EzdxfVerif.Lemmas.TextArgFree
import EzdxfVerif.Lemmas.TextSplit
import EzdxfVerif.Lemmas.TextScale

namespace EzdxfVerif.Props.C20
open EzdxfVerif.Text

/-! ## split_mtext_string: join is the identity, every chunk within the size limit -/

theorem split_join (size : Nat) (h : 2 ≤ size) (s : Str) :
    (splitMText size h s).flatten = s := by
  fun_induction splitMText size h s with
  | case1 r hr => simp [List.length_eq_zero_iff.mp hr]
  | case2 r hr hlt => simp
  | case3 r hr hlt hc ih =>
    simp only [List.flatten_cons, ih]
    have hsz : size ≤ r.length := by omega
    have h1 : (r.take size).dropLast = r.take (size - 1) := by
      rw [List.dropLast_eq_take, List.take_take, List.length_take]
      congr 1; omega
    rw [h1, List.take_append_drop]
  | case4 r hr hlt hc ih =>
    simp only [List.flatten_cons, ih, List.take_append_drop]

theorem split_chunk_bounds (size : Nat) (h : 2 ≤ size) (s : Str) :
    ∀ c ∈ splitMText size h s, 0 < c.length ∧ c.length ≤ size := by
  fun_induction splitMText size h s with
  | case1 r hr => simp
  | case2 r hr hlt =>
    intro c hc; simp at hc; subst hc
    constructor <;> omega
  | case3 r hr hlt hc ih =>
    intro c hmem
    simp only [List.mem_cons] at hmem
    rcases hmem with rfl | hmem
    · simp only [List.length_dropLast, List.length_take]
      constructor <;> omega
    · exact ih c hmem
  | case4 r hr hlt hc ih =>
    intro c hmem
    simp only [List.mem_cons] at hmem
    rcases hmem with rfl | hmem
    · simp only [List.length_take]
      constructor <;> omega
    · exact ih c hmem

/-- a chunk of the full length `size` never ends in the caret that would separate "^X" -/
theorem split_full_chunk_no_caret (size : Nat) (h : 2 ≤ size) (s : Str) :
    ∀ c ∈ splitMText size h s, c.length = size → c.getLast? ≠ some '^' := by
  fun_induction splitMText size h s with
  | case1 r hr => simp
  | case2 r hr hlt =>
    intro c hc hl; simp at hc; subst hc; omega
  | case3 r hr hlt hc ih =>
    intro c hmem hl
    simp only [List.mem_cons] at hmem
    rcases hmem with rfl | hmem
    · simp only [List.length_dropLast, List.length_take] at hl; omega
    · exact ih c hmem hl
  | case4 r hr hlt hc ih =>
    intro c hmem hl
    simp only [List.mem_cons] at hmem
    rcases hmem with rfl | hmem
    · exact hc
    · exact ih c hmem hl

#guard splitMText 3 (by decide) "ab^cd^".toList = ["ab".toList, "^cd".toList, "^".toList]
-- observation (the code as it is): only FULL chunks never end in a caret; with two carets at the boundary the
-- shortened chunk ends in the first one, the caret pair "^^" is separated (joining restores it)
#guard splitMText 3 (by decide) "a^^b".toList = ["a^".toList, "^b".toList]

/-! ## RE_FLOAT matches only what `float()` accepts (the statement the regex typo violated) -/

/-- every non-empty match of RE_FLOAT is a string `float()` accepts -/
theorem matchFloat_valid (s : Str) (h : (matchFloat s).1 ≠ []) : pyFloatOk (matchFloat s).1 = true :=
  Text.matchFloat_valid s h

/-- the matcher consumes exactly the matched text -/
theorem matchFloat_split (s : Str) : (matchFloat s).1 ++ (matchFloat s).2 = s := matchFloat_append s

example : (matchFloat "-1.5e+3x;".toList) = ("-1.5e+3".toList, "x;".toList) := by decide
example : pyFloatOk "1:.5".toList = false := by decide     -- what the typo regex used to hand to float()

/-! ## MTextParser never raises -/

/-- no property command can raise -/
theorem parseProperties_no_error (cmd : Char) (tail : Str) (e : PyErr) :
    parseProperties cmd tail ≠ some (.error e) := Text.parseProperties_no_error cmd tail e

/-- `MTextParser(content)` yields its token stream for every string: no Python error is reachable.
    Termination is part of the definition of `scan` (well-founded, no fuel). -/
theorem parser_total (sp : Special) (s : Str) : ∃ ts, parse sp s = .ok ts :=
  Text.scan_ok sp (caretDecode s) []

/-- `plain_mtext(content)` returns for every string -/
theorem plain_total (sp : Special) (s : Str) : ∃ ls, plainMText sp s = .ok ls := by
  obtain ⟨ts, h⟩ := parser_total sp s
  exact ⟨plainOfTokens ts [], by rw [plainMText, h]; rfl⟩

-- the three inputs that used to raise (F9, F10, F11) now parse in the model as in the code
#guard (match parse Gen.TextTables.special "\\Sa\\".toList with
  | .ok ts => decide (ts = [.stack ['a'] [] []]) | _ => false)
#guard (match parse Gen.TextTables.special "x\\A".toList with
  | .ok ts => decide (ts = [.word ['x']]) | _ => false)

/-! ## decoding plain words: both decoders return exactly the words (base case of fast == slow) -/

/-- content made of plain characters (letters, digits, blanks, non-ASCII; no control characters, none of
    `\ { } % ^`) is returned unchanged by `fast_plain_mtext` -/
theorem fast_plain_identity (sp : Special) (s : Str) (h : ∀ c ∈ s, isPlain c = true) :
    fastPlainMText sp s = s := Text.fast_plain_identity sp s h

/-- ... and by `plain_mtext` (one paragraph), so the two decoders agree on plain content.
    (Since the fix of F16 the hypothesis `s ≠ []` of the earlier version is no longer needed.) -/
theorem plain_identity (sp : Special) (s : Str) (h : ∀ c ∈ s, isPlain c = true) :
    plainMText sp s = .ok [s] := Text.plain_identity sp s h

theorem fast_eq_slow_plain (sp : Special) (s : Str) (h : ∀ c ∈ s, isPlain c = true) :
    plainMText sp s = .ok [fastPlainMText sp s] := by
  rw [Text.fast_plain_identity sp s h]; exact Text.plain_identity sp s h

example : ∀ c ∈ "Hello wörld 42".toList, isPlain c = true := by decide

/-! ## fast_plain_mtext == plain_mtext on the whole class `agreeClass`

`agreeClass sp d` (Model/Text.lean) is a decidable recogniser over the caret-decoded content: ordinary
characters (≥ U+0020, LF), `{ }` in any nesting or unbalanced, `\\ \{ \}`, `\P \L \l \O \o \K \k \X`,
`\S…;` with a backslash-free expression, every command with arguments whose argument text the parser
consumes exactly up to the first ";" (`cmdAgree`: `\A \C \c \H \W \T \Q \p \f \F`), `%`, `%%c`.
Both functions start with `caret_decode`, hence all caret sequences (`^I ^J ^M "^ "` …) are covered by
stating the class on the decoded text.  Full strength: the statement is for every string of the class,
no bound on length or nesting. -/

/-- `plain_mtext(s)` (split=False) equals `fast_plain_mtext(s)` for every content of the class -/
theorem fast_eq_slow (sp : Special) (s : Str) (h : agreeClass sp (caretDecode s) = true) :
    plainMTextStr sp s = .ok (fastPlainMText sp s) := by
  obtain ⟨ts, h1, h2⟩ := scan_agree sp (caretDecode s) [] h
  unfold plainMTextStr plainMText parse fastPlainMText
  rw [h1]
  show Except.ok (joinNL (plainOfTokens ts [])) = _
  rw [joinNL_plainOfTokens, h2]; rfl

/-- the token stream itself: the flattened tokens are the fast result (any word under construction
    is kept) -/
theorem tokens_flat_eq_fast (sp : Special) (d word : Str) (h : agreeClass sp d = true) :
    ∃ ts, scan sp d word = .ok ts ∧ flat ts = word ++ fastLoop sp d := scan_agree sp d word h

/-- `"\n".join(plain_mtext(s, split=True))` is the paragraph list glued by LF, for EVERY string
    (this is the statement F16 violated: a trailing empty paragraph was dropped) -/
theorem plain_join_flat (sp : Special) (s : Str) :
    ∃ ts, parse sp s = .ok ts ∧ plainMTextStr sp s = .ok (flat ts) := by
  obtain ⟨ts, h⟩ := parser_total sp s
  refine ⟨ts, h, ?_⟩
  unfold plainMTextStr plainMText
  rw [h]
  show Except.ok (joinNL (plainOfTokens ts [])) = _
  rw [joinNL_plainOfTokens]; rfl

-- non-vacuity: a content with every construct of the class
#guard agreeClass Gen.TextTables.special
  (caretDecode "{\\H2.5x;\\C1;a \\fArial|b1|i0;b}\\P\\pxi-2,l2,qc,t4,c8;\\S1/2;\\L%%c 50%\\l\\\\\\{^J\\A1;\\T1.5;\\Q15;\\W0.8;}".toList)
#guard fastPlainMText Gen.TextTables.special "{\\H2.5x;a\\P\\S1^ 2;%%d}^Jb".toList = "a\n1^2°\nb".toList
-- the class is a recogniser, not `true`: constructs on which the decoders differ are rejected
#guard !agreeClass Gen.TextTables.special "a\\~b".toList && !agreeClass Gen.TextTables.special "a\\Nb".toList
  && !agreeClass Gen.TextTables.special "\\H1a;".toList && !agreeClass Gen.TextTables.special "\\C1".toList
  && !agreeClass Gen.TextTables.special "a\\".toList && !agreeClass Gen.TextTables.special "\\zx;".toList
  && !agreeClass Gen.TextTables.special "%%".toList && !agreeClass Gen.TextTables.special "\\S1\\/2;".toList
  && !agreeClass Gen.TextTables.special "\t".toList

/-! ## `plain_mtext` for EVERY string is the string function `slowLoop`

`slowLoop` (Model/Text.lean) has no tokens, no word under construction and no follow-up token: one
equation per construct.  The theorem says that the whole token machinery (`MTextParser.parse` with
`next_token`, `word_and_token`, the generator loop, and the paragraph assembly of `plain_mtext`) computes
this function - for every content, unbounded. -/

theorem plain_mtext_spec (sp : Special) (s : Str) :
    plainMTextStr sp s = .ok (slowLoop sp (caretDecode s)) := by
  obtain ⟨ts, h1, h2⟩ := scan_flat sp (caretDecode s) []
  unfold plainMTextStr plainMText parse
  rw [h1]
  show Except.ok (joinNL (plainOfTokens ts [])) = _
  rw [joinNL_plainOfTokens, h2]; rfl

/-- where the two decoders differ, exactly: where the two string functions differ on the decoded text -/
theorem fast_eq_slow_iff (sp : Special) (s : Str) :
    plainMTextStr sp s = .ok (fastPlainMText sp s) ↔ slowLoop sp (caretDecode s) = fastLoop sp (caretDecode s) := by
  rw [plain_mtext_spec]
  constructor
  · intro h; injection h
  · intro h; rw [h]; rfl

theorem slow_eq_fast_on_class (sp : Special) (d : Str) (h : agreeClass sp d = true) :
    slowLoop sp d = fastLoop sp d := slowLoop_eq_fastLoop sp d h

#guard slowLoop Gen.TextTables.special "a\\~b\\Nc\td\\H1e;f\\zg\\".toList = "a b\nc    de;f\\zg ".toList

/-! ## the list form `plain_mtext(.., split=True)` for every string, and where it differs from the fast one -/

/-- the paragraph list of `plain_mtext(s, split=True)` is the list of pieces of `slowItems` between the
    breaks (`\P`, `\N`, LF characters); a LF that is part of a word (`\<LF>` printed verbatim) does not
    break - for every string -/
theorem plain_lines_spec (sp : Special) (s : Str) :
    plainMText sp s = .ok (splitNone (slowItems sp (caretDecode s))) := by
  obtain ⟨ts, h1, h2⟩ := scan_items sp (caretDecode s) []
  unfold plainMText parse
  rw [h1]
  show Except.ok (plainOfTokens ts []) = _
  rw [plainOfTokens_items, h2, consPara_nil _ (splitNone_ne_nil _)]; rfl

/-- the list forms of both decoders are equal on the agreement class when no LF is a word character -/
theorem fast_eq_slow_lines (sp : Special) (s : Str) (h : agreeClass sp (caretDecode s) = true)
    (hlf : ∀ x ∈ slowItems sp (caretDecode s), x ≠ some '\n') :
    plainMText sp s = .ok (splitNL (fastPlainMText sp s)) := by
  rw [plain_lines_spec]
  unfold fastPlainMText
  rw [← slowLoop_eq_fastLoop sp _ h, ← slowItems_getD, splitNL_getD _ hlf]

private theorem agree_unknown (sp : Special) (d : Char) (r2 : Str)
    (hd : ¬(d = '\\' ∨ d = '{' ∨ d = '}')) (hn : ¬(d = 'N' ∨ d = '~')) (h1 : d ∉ oneCharCommands) (hs : d ≠ 'S')
    (hp : parseProperties d r2 = none) (hsc : d ≠ ';') (hf : findIdx ';' r2 = none) :
    agreeClass sp ('\\' :: d :: r2) = agreeClass sp r2 := by
  have hc : cmdAgree d r2 = none := by simp [cmdAgree, hp]
  conv => lhs; rw [agreeClass.eq_def]
  simp only [↓reduceIte, hd, hn, h1, hs]
  split
  · rename_i r3 h; rw [hc] at h; cases h
  · simp [hp, hsc, hf]

/-- ... and the condition is needed: `\<LF>x` (written `\^Jx`) is in the class, the joined results are equal,
    but `plain_mtext` keeps the LF inside the word while `fast_plain_mtext(.., split=True)` splits there -/
theorem differ_lines_only (sp : Special) :
    agreeClass sp (caretDecode "\\^Jx".toList) = true ∧
    plainMText sp "\\^Jx".toList = .ok ["\\\nx".toList] ∧
    splitNL (fastPlainMText sp "\\^Jx".toList) = ["\\".toList, "x".toList] := by
  have hd : caretDecode "\\^Jx".toList = ['\\', '\n', 'x'] := by
    simp [caretDecode, caretChar]
  have hpp : parseProperties '\n' ['x'] = none := by simp [parseProperties, mem_stroke]
  refine ⟨?_, ?_, ?_⟩
  · rw [hd, agree_unknown sp '\n' ['x'] (by decide) (by decide) (by rw [mem_one]; decide) (by decide) hpp (by decide)
      (by simp [findIdx])]
    have hnil : agreeClass sp [] = true := by rw [agreeClass.eq_def]
    rw [agree_copy sp 'x' [] (by decide) (by decide) (by decide) (by decide), hnil]
    decide
  · rw [plain_lines_spec, hd, slowItems_unknown sp '\n' ['x'] (by decide) (by decide) (by decide) (by decide) (by decide) (by decide) hpp]
    rw [slowItems_char sp 'x' [] (by decide) (by decide) (by decide) (by decide) (by simp [specialAt]) (by decide), slowItems_nil]
    simp [splitNone]
  · unfold fastPlainMText
    rw [hd, fastLoop_unterminated sp '\n' ['x'] (by decide) (by rw [mem_one]; decide) (by decide) (by decide) (by simp [findIdx])]
    rw [fastLoop_copy sp 'x' [] (by decide) (by decide) (by decide) (by decide), fastLoop_nil]
    simp [splitNL]

/-- content without backslash and percent sign: characters, control characters, braces -/
def simpleFrag (d : Str) : Bool := d.all (fun c => c != '\\' && c != '%')

/-- on the backslash- and percent-free fragment the two decoders agree EXACTLY when there is no control
    character other than LF (TAB becomes four blanks, the others one blank for `plain_mtext` only) -/
private theorem agree_iff_no_control (sp : Special) (d : Str) (h : simpleFrag d = true) :
    slowLoop sp d = fastLoop sp d ↔ ∀ c ∈ d, 32 ≤ c.toNat ∨ c = '\n' := by
  induction d with
  | nil => simp [slowLoop_nil, fastLoop_nil]
  | cons c r ih =>
    simp only [simpleFrag, List.all_cons, Bool.and_eq_true, bne_iff_ne, ne_eq] at h
    obtain ⟨⟨hb, hp⟩, hr⟩ := h
    have ih' := ih (by simpa [simpleFrag] using hr)
    have hs : specialAt sp c r = none := by simp [specialAt, hp]
    by_cases hbr : c = '{' ∨ c = '}'
    · rw [slowLoop_brace sp c r hbr, fastLoop_brace sp c r hbr, ih']
      have : 32 ≤ c.toNat := by rcases hbr with h | h <;> subst h <;> decide
      simp [this]
    · have e1 : c ≠ '{' := fun hh => hbr (Or.inl hh)
      have e2 : c ≠ '}' := fun hh => hbr (Or.inr hh)
      rw [fastLoop_copy sp c r hb e1 e2 hp]
      by_cases ht : c = '\t'
      · subst ht
        rw [slowLoop_tab]
        constructor
        · intro hh; injection hh with h1 _; exact absurd h1 (by decide)
        · intro hh
          have h9 : ¬ (32 ≤ ('\t' : Char).toNat ∨ ('\t' : Char) = '\n') := by decide
          exact absurd (hh '\t' (by simp)) h9
      · by_cases hn : c = '\n'
        · subst hn
          rw [slowLoop_lf]
          constructor
          · intro hh; injection hh with _ h2
            intro x hx
            simp only [List.mem_cons] at hx
            rcases hx with rfl | hx
            · right; rfl
            · exact ih'.mp h2 x hx
          · intro hh
            rw [ih'.mpr (fun x hx => hh x (by simp [hx]))]
        · by_cases h32 : c.toNat < 32
          · rw [slowLoop_ctl sp c r hb ht hn h32]
            constructor
            · intro hh; injection hh with h1 _
              exfalso; subst h1; revert h32; decide
            · intro hh
              rcases hh c (by simp) with h' | h'
              · omega
              · exact absurd h' hn
          · rw [slowLoop_char sp c r hb ht hn h32 hs hbr]
            constructor
            · intro hh; injection hh with _ h2
              intro x hx
              simp only [List.mem_cons] at hx
              rcases hx with rfl | hx
              · left; omega
              · exact ih'.mp h2 x hx
            · intro hh
              rw [ih'.mpr (fun x hx => hh x (by simp [hx]))]


/-- exact on the backslash- and percent-free fragment (characters, control characters, braces in any
    arrangement): `plain_mtext(s) == fast_plain_mtext(s)` if and only if the decoded content has no control
    character other than LF - the `if` part is `fast_eq_slow`, the `only if` part a completeness statement -/
theorem fast_eq_slow_iff_no_control (sp : Special) (s : Str) (h : simpleFrag (caretDecode s) = true) :
    plainMTextStr sp s = .ok (fastPlainMText sp s) ↔ ∀ c ∈ caretDecode s, 32 ≤ c.toNat ∨ c = '\n' := by
  rw [fast_eq_slow_iff]
  exact agree_iff_no_control sp _ h

#guard simpleFrag (caretDecode "a{b}^Jc ^M".toList)

/-! ## final round: the entity level wrappers `MText.plain_text(split, fast)`, `MText.all_columns_plain_text(split)` -/

/-- both modes return for every content -/
theorem mtext_plain_text_total (sp : Special) (fast : Bool) (s : Str) :
    (∃ r, mtextPlainText sp fast s = .ok r) ∧ (∃ l, mtextPlainLines sp fast s = .ok l) := by
  cases fast
  · obtain ⟨ts, _, h2⟩ := plain_join_flat sp s
    obtain ⟨ls, hl⟩ := plain_total sp s
    exact ⟨⟨_, by simpa [mtextPlainText] using h2⟩, ⟨ls, by simpa [mtextPlainLines] using hl⟩⟩
  · exact ⟨⟨_, rfl⟩, ⟨_, rfl⟩⟩

/-- `mtext.plain_text(fast=True) == mtext.plain_text(fast=False)` for every content of the agreement class; the
    list forms too when no LF is a word character -/
theorem mtext_plain_text_modes_agree (sp : Special) (s : Str) (h : agreeClass sp (caretDecode s) = true) :
    mtextPlainText sp true s = mtextPlainText sp false s ∧
    ((∀ x ∈ slowItems sp (caretDecode s), x ≠ some '\n') → mtextPlainLines sp true s = mtextPlainLines sp false s) := by
  constructor
  · simp only [mtextPlainText, ↓reduceIte, Bool.false_eq_true]
    rw [fast_eq_slow sp s h]
  · intro hlf
    simp only [mtextPlainLines, ↓reduceIte, Bool.false_eq_true]
    rw [fast_eq_slow_lines sp s h hlf]

private theorem splitNL_ne_nil (r : Str) : splitNL r ≠ [] := by
  cases r with
  | nil => simp [splitNL]
  | cons c t =>
    simp only [splitNL]
    split
    · simp
    · split <;> simp

/-- `all_columns_plain_text(split=True)` of an entity with (embedded) columns drops exactly one trailing empty
    line; joined by LF it is the joined form without one trailing LF, otherwise unchanged -/
theorem all_columns_lines_join (sp : Special) (s : Str) :
    joinNL (allColumnsPlainLines sp false s) = allColumnsPlainText sp s := by
  simp only [allColumnsPlainLines, Bool.false_eq_true, ↓reduceIte, allColumnsPlainText]
  generalize fastPlainMText sp s = t
  induction t with
  | nil => rfl
  | cons c r ih =>
    simp only [splitNL]
    split
    · rename_i hc; subst hc
      have hne : splitNL r ≠ [] := splitNL_ne_nil r
      rw [joinNL_cons _ _ hne, ih]; rfl
    · cases hsr : splitNL r with
      | nil => exact absurd hsr (splitNL_ne_nil r)
      | cons p l =>
        rw [hsr] at ih
        cases l with
        | nil => simp only [joinNL] at ih ⊢; rw [ih]
        | cons q l' => simp only [joinNL] at ih ⊢; rw [← ih]; simp

/-- the wrappers still have the bodies the model transcribes -/
theorem wrapper_bodies_fixed : Gen.TextTables.wrapperBodies =
    [("MText.plain_text", "(self, split=False, fast=True) if fast: ;;     return fast_plain_mtext(self.text, split=split) ;; else: ;;     return plain_mtext(self.text, split=split)"), ("MText.all_columns_plain_text", "(self, split=False) def merged_content(): ;;     content = [fast_plain_mtext(self.text, split=False)] ;;     if self.has_columns: ;;         for c in self._columns.linked_columns: ;;             content.append(c.plain_text(split=False)) ;;     return ''.join(content) ;; def split_content(): ;;     content = fast_plain_mtext(self.text, split=True) ;;     if self.has_columns: ;;         if content and content[-1] == '': ;;             content.pop() ;;         for c in self._columns.linked_columns: ;;             content.extend(c.plain_text(split=True)) ;;             if content and content[-1] == '': ;;                 content.pop() ;;     return content ;; if split: ;;     return split_content() ;; else: ;;     return merged_content()")] := by rfl

/-! ## final round: `scale_mtext_inline_commands` - what it does (model `scaleSegs`, the scaled numbers symbolic)

The function splits the content at the TEXT `\H` (not at the command `\H` as the parser reads it) and rescales
the run of digits and points behind it unless an `x` follows. -/

/-- content without a backslash is returned unchanged -/
theorem scale_identity_without_backslash (s : Str) (h : ∀ c ∈ s, c ≠ '\\') : scaleSegs s = [.text s] :=
  scale_no_backslash s h

/-- behind each `\H`: a relative factor (`…x`) and everything behind the number is kept; the number is replaced
    when `float()` accepts it and DELETED when it is non-empty but invalid (".", "1..2") -/
theorem scale_part_law (part : Str) :
    unscale (scalePart part) =
      if validNumber (part.takeWhile isHeightChar) ∨ (part.drop (part.takeWhile isHeightChar).length).head? = some 'x'
      then '\\' :: 'H' :: part
      else '\\' :: 'H' :: part.drop (part.takeWhile isHeightChar).length :=
  scalePart_unscale part

/-- the escaped backslash: in `\\H2;a` the parser reads an escaped backslash and the TEXT `H2;a`
    (`plain_mtext` is `\H2;a`), but the function rescales the `2`: the visible text changes -/
theorem scale_rescales_visible_text (sp : Special) :
    scaleSegs "\\\\H2;a".toList = [.text "\\".toList, .text "\\H".toList, .scaled "2".toList, .text ";a".toList] ∧
    slowLoop sp "\\\\H2;a".toList = "\\H2;a".toList := by
  constructor
  · simp [scaleSegs, splitH, scalePart, isHeightChar, isDigit, validNumber]
  · have e : "\\\\H2;a".toList = '\\' :: '\\' :: ['H', '2', ';', 'a'] := rfl
    rw [e, slowLoop_esc sp '\\' _ (Or.inl rfl)]
    have hs : ∀ (c : Char) (r : Str), c ≠ '%' → specialAt sp c r = none := fun c r h => by simp [specialAt, h]
    rw [slowLoop_char sp 'H' _ (by decide) (by decide) (by decide) (by decide) (hs _ _ (by decide)) (by decide),
      slowLoop_char sp '2' _ (by decide) (by decide) (by decide) (by decide) (hs _ _ (by decide)) (by decide),
      slowLoop_char sp ';' _ (by decide) (by decide) (by decide) (by decide) (hs _ _ (by decide)) (by decide),
      slowLoop_char sp 'a' _ (by decide) (by decide) (by decide) (by decide) (hs _ _ (by decide)) (by decide), slowLoop_nil]
    rfl

#guard unscale (scaleSegs "a\\H2.5;b\\H3x;c".toList) = "a\\H2.5;b\\H3x;c".toList
#guard unscale (scaleSegs "\\H.;a".toList) = "\\H;a".toList      -- the invalid number "." is deleted

/-! ## final round: `split_mtext_string` and caret pairs

The code comment says "do not split chunks at '^'".  What holds exactly: if the content has no two adjacent
carets, NO chunk except the last ends in a caret (a caret and the character it encodes stay together), for
every size ≥ 2 and every length; with two adjacent carets at a chunk boundary the shortened chunk still ends
in a caret and the pair `^^` is separated (counterexample theorem; joining restores the content, `split_join`). -/

theorem split_no_caret_at_chunk_end (size : Nat) (h : 2 ≤ size) (s : Str) (hs : noDoubleCaret s = true) :
    ∀ c ∈ (splitMText size h s).dropLast, c.getLast? ≠ some '^' :=
  Text.split_no_caret_at_chunk_end size h s hs

/-- the hypothesis is needed: `split_mtext_string("a^^b", 3) == ["a^", "^b"]` -/
theorem split_separates_caret_pair :
    splitMText 3 (by decide) "a^^b".toList = ["a^".toList, "^b".toList] ∧ noDoubleCaret "a^^b".toList = false := by
  constructor
  · rw [splitMText.eq_def]; simp
    rw [splitMText.eq_def]; simp
  · decide

#guard noDoubleCaret "a^Ib^ c^".toList

/-! ## final round: completeness on the argument-free sub-grammar

`argFree d`: characters (control characters too), braces, `\\ \{ \}`, `\P`, the stroke switches `\L \l \O \o \K \k`,
`\X`, `\N`, a backslash at the end - everything of the property's sub-grammar except commands with arguments
(and no `%`).  On this sub-grammar the agreement of the two decoders is characterised EXACTLY by the syntactic
predicate `argFreeAgree` (no control character other than LF, no `\N`, no backslash at the end): an `iff`, so
`fast_eq_slow` (soundness of `agreeClass`) is complemented by completeness here; it extends
`fast_eq_slow_iff_no_control` from the backslash-free fragment to escapes, paragraph breaks and switches. -/

/-- one ordinary character: the decoders agree on `c :: r` iff `c` is no control character other than LF and
    they agree on `r` (the step that makes differences impossible to repair later) -/
theorem decoders_char_step (sp : Special) (c : Char) (r : Str) (hb : c ≠ '\\') (hp : c ≠ '%') :
    (slowLoop sp (c :: r) = fastLoop sp (c :: r)) ↔ ((32 ≤ c.toNat ∨ c = '\n') ∧ slowLoop sp r = fastLoop sp r) :=
  char_step sp c r hb hp

theorem fast_eq_slow_iff_arg_free (sp : Special) (s : Str) (h : argFree (caretDecode s) = true) :
    plainMTextStr sp s = .ok (fastPlainMText sp s) ↔ argFreeAgree (caretDecode s) = true := by
  rw [fast_eq_slow_iff]
  exact argFree_iff sp _ h

/-- the list forms, WITHOUT the side condition of `fast_eq_slow_lines`: on the argument-free sub-grammar a LF is
    never a word character (`argFree_no_lf_char`), so `plain_mtext(s, split=True) == fast_plain_mtext(s, split=True)`
    whenever the joined forms agree -/
theorem fast_eq_slow_lines_arg_free (sp : Special) (s : Str) (h : argFree (caretDecode s) = true)
    (ha : argFreeAgree (caretDecode s) = true) :
    plainMText sp s = .ok (splitNL (fastPlainMText sp s)) := by
  rw [plain_lines_spec]
  unfold fastPlainMText
  rw [← (argFree_iff sp _ h).mpr ha, ← slowItems_getD, splitNL_getD _ (argFree_no_lf_char sp _ h)]

#guard argFree "a{\\Lb\\l}\\P\\\\c\\{\\Nd\t\\".toList && !argFreeAgree "a\\Nb".toList && !argFreeAgree "a\\".toList
  && argFreeAgree "a{\\Lb\\l}\\P\\\\c\\{ d\n".toList && !argFree "\\H1;".toList && !argFree "50%".toList

/-! ## MTextEditor round trip: the decoders return exactly the words the builder was given

`EdOp` (Model/Text.lean) has one constructor per builder method / constant; `EdOp.wf` says the arguments
are in range (words without syntax characters, numbers as number texts - assumption: the Python text
of a finite float matches RE_FLOAT completely, checked on the real code by stream X3).
Full strength: every finite sequence of calls, no bound. -/

/-- `plain_mtext(str(editor))` is the sequence of words, paragraph breaks as LF -/
theorem editor_roundtrip (sp : Special) (ops : List EdOp) (h : ∀ o ∈ ops, o.wf = true) :
    plainMTextStr sp (editorText ops) = .ok (editorWords ops) := by
  obtain ⟨hc, hf⟩ := editor_class_and_fast sp ops h
  rw [fast_eq_slow sp _ hc, hf]

/-- ... and so is `fast_plain_mtext(str(editor))` -/
theorem editor_roundtrip_fast (sp : Special) (ops : List EdOp) (h : ∀ o ∈ ops, o.wf = true) :
    fastPlainMText sp (editorText ops) = editorWords ops :=
  (editor_class_and_fast sp ops h).2

/-- the parser reads back the argument of every command the editor writes, exactly up to its ";" -/
theorem editor_command_args_consumed (o : EdOp) (h : o.wf = true) (d : Char) (args : Str)
    (hi : Item.cmd d args ∈ o.items) (rest : Str) :
    parseProperties d (args ++ ';' :: rest) = some (.ok rest) :=
  (edop_items_wf o h _ hi).2.2 rest

/-- text made of lines: `plain_mtext(escape_dxf_line_endings-style content)`: plain lines joined by `\P`
    decode to the lines joined by LF (instance of the round trip with `append` and NEW_PARAGRAPH) -/
theorem paragraphs_roundtrip (sp : Special) (a b : Str) (ha : a.all isPlain = true) (hb : b.all isPlain = true) :
    plainMTextStr sp (a ++ '\\' :: 'P' :: b) = .ok (a ++ '\n' :: b) := by
  have := editor_roundtrip sp [.append a, .newParagraph, .append b] (by
    intro o ho
    simp only [List.mem_cons, List.not_mem_nil, or_false] at ho
    rcases ho with rfl | rfl | rfl
    · exact ha
    · rfl
    · exact hb)
  simpa [editorText, editorWords, renderItems, expectedItems, EdOp.items, Item.render, Item.expected] using this

#guard (EdOp.font "Arial".toList true false).wf && (EdOp.scaleHeight "1.5".toList).wf && (EdOp.height "1e+16".toList).wf
  && (EdOp.oblique "-15".toList).wf && (EdOp.stack "1".toList "2".toList '^').wf && (EdOp.aci "256".toList).wf
  && (EdOp.paragraph (some "i-2,l2,qc,t4,c8,r12.5".toList)).wf && !(EdOp.height "inf".toList).wf
  && !(EdOp.append "a\\b".toList).wf
#guard editorText [.group "a".toList, .scaleHeight "2.5".toList, .stack "1".toList "2".toList '^', .newParagraph,
    .underline "u".toList, .paragraph (some "i1".toList), .align '1']
  = "{a}\\H2.5x;\\S1^ 2;\\P\\Lu\\l\\pxi1;\\A1;".toList
#guard editorWords [.group "a".toList, .scaleHeight "2.5".toList, .stack "1".toList "2".toList '^', .newParagraph,
    .underline "u".toList] = "a1^2\nu".toList

/-! ## MTextEditor, part 2: TAB, NBSP, NEW_COLUMN and bullet lists (`plain_mtext` and, where defined, `fast_plain_mtext`) -/

/-- every sequence of editor calls, now including `append(TAB)`, `append(NBSP)`, `append(NEW_COLUMN)` and
    `bullet_list(...)`: `plain_mtext` returns the words (TAB as four blanks, NBSP as blank, NEW_COLUMN as LF) -/
theorem editor_roundtrip_ext (sp : Special) (ops : List XOp) (h : ∀ o ∈ ops, o.wf = true) :
    plainMTextStr sp (xEditorText ops) = .ok (xEditorWordsSlow ops) := by
  rw [plain_mtext_spec, (xeditor_slow_fast sp ops h).1]

/-- `fast_plain_mtext` returns the words with the TAB character, when NBSP / NEW_COLUMN are not used
    (there it differs: `differ_nbsp`, `differ_new_column`) -/
theorem editor_roundtrip_ext_fast (sp : Special) (ops : List XOp) (h : ∀ o ∈ ops, o.wf = true)
    (hf : ∀ o ∈ ops, o.fastOk = true) :
    fastPlainMText sp (xEditorText ops) = xEditorWordsFast ops :=
  (xeditor_slow_fast sp ops h).2 hf

private theorem rows_flatten (sep : Str) (rows : List (Str × Str)) :
    (rows.map (fun x => [x.1, sep, x.2, ['\n']])).flatten.flatten =
      (rows.map (fun r => r.1 ++ sep ++ r.2 ++ ['\n'])).flatten := by
  induction rows with
  | nil => rfl
  | cons r t ih => simp [ih]

/-- `MTextEditor().bullet_list(indent, bullets, content)` decodes to the lines "bullet TAB item" -/
theorem bullet_list_roundtrip (sp : Special) (args : Option Str) (rows : List (Str × Str))
    (h : (XOp.bulletList args rows).wf = true) :
    plainMTextStr sp (xEditorText [.bulletList args rows]) =
      .ok ((rows.map (fun r => r.1 ++ [' ', ' ', ' ', ' '] ++ r.2 ++ ['\n'])).flatten) ∧
    fastPlainMText sp (xEditorText [.bulletList args rows]) =
      (rows.map (fun r => r.1 ++ ['\t'] ++ r.2 ++ ['\n'])).flatten := by
  have hw : ∀ o ∈ [XOp.bulletList args rows], o.wf = true := by simpa using h
  have e1 : xEditorWordsSlow [.bulletList args rows] = (rows.map (fun r => r.1 ++ [' ', ' ', ' ', ' '] ++ r.2 ++ ['\n'])).flatten := by
    rw [← rows_flatten [' ', ' ', ' ', ' '] rows]
    cases args <;>
      simp [xEditorWordsSlow, XOp.items, EdOp.items, XItem.expectedSlow, Item.expected, rowItems, List.flatten_append,
        Function.comp_def]
  have e2 : xEditorWordsFast [.bulletList args rows] = (rows.map (fun r => r.1 ++ ['\t'] ++ r.2 ++ ['\n'])).flatten := by
    rw [← rows_flatten ['\t'] rows]
    cases args <;>
      simp [xEditorWordsFast, XOp.items, EdOp.items, XItem.expectedFast, Item.expected, rowItems, List.flatten_append,
        Function.comp_def]
  exact ⟨by rw [editor_roundtrip_ext sp _ hw, e1], by rw [editor_roundtrip_ext_fast sp _ hw (by simp [XOp.fastOk]), e2]⟩

#guard xEditorText [.bulletList (some "i-1.5,l2,t2".toList) [("-".toList, "a".toList), ("-".toList, "b".toList)], .tab, .nbsp]
  = "{\\pxi-1.5,l2,t2;-^Ia\\P-^Ib\\P}^I\\~".toList

/-! ## token level: the parser reads back exactly the tokens the editor wrote

`scanY` / `parseY` model `MTextParser(content, yield_property_commands=True)`: every accepted command
becomes a PROPERTIES_CHANGED token that carries the command text.  `xEditorTokens ops` is the token
stream the editor calls stand for: WORD / SPACE tokens of the words, NEW_PARAGRAPH, TABULATOR, NBSP,
NEW_COLUMN, STACK (numerator, denominator, type) and one PROPERTIES_CHANGED token per command with
exactly the argument text the editor wrote (`\H2.5x;`, `\fArial|b1|i0;`, `\pxi-1.5,l2,t2;` …). -/

theorem editor_tokens_roundtrip (sp : Special) (ops : List XOp) (h : ∀ o ∈ ops, o.wfT = true) :
    parseY sp (xEditorText ops) = .ok (xEditorTokens ops) := xeditor_tokens sp ops h

/-- the default mode of the parser is the yield mode without the PROPERTIES_CHANGED tokens, for every string -/
theorem yield_mode_erase (sp : Special) (s : Str) : eraseProps <$> parseY sp s = parse sp s :=
  scanY_erase sp (caretDecode s) []

/-- hence `MTextParser(content, yield_property_commands=True)` returns for every string, too -/
theorem parserY_total (sp : Special) (s : Str) : ∃ ts, parseY sp s = .ok ts := by
  obtain ⟨ts, h⟩ := parser_total sp s
  have := yield_mode_erase sp s
  rw [h] at this
  cases hy : parseY sp s with
  | ok a => exact ⟨a, rfl⟩
  | error e => rw [hy] at this; cases this

/-- ... and in the default mode the editor's tokens come back without the command tokens -/
theorem editor_tokens_roundtrip_default (sp : Special) (ops : List XOp) (h : ∀ o ∈ ops, o.wfT = true) :
    parse sp (xEditorText ops) = .ok (eraseProps (xEditorTokens ops)) := by
  rw [← yield_mode_erase, editor_tokens_roundtrip sp ops h]; rfl

#guard xEditorTokens [.op (.append "a b".toList), .op (.scaleHeight "2.5".toList), .op (.stack "1".toList "2".toList '^'),
    .tab, .op (.group "c".toList), .op .newParagraph]
  = [.word "a".toList, .space, .word "b".toList, .props "\\H2.5x;".toList, .stack "1".toList "2".toList "^".toList, .tab,
     .word "c".toList, .newParagraph]
#guard (XOp.op (.stack "1".toList "2".toList '/')).wfT && !(XOp.op (.stack "1/2".toList "3".toList '/')).wfT

/-! ## MTextContext: the context object yielded with every token (Model/TextCtx.lean)

`scanC` threads the parser state (current context, `_ctx_stack`, `_continue_stroke`) through the same
recursion as `scanY` and attaches the current context to every token; float attributes are symbolic
(`abs(float(f))`, `previous * abs(float(f))`), evaluated by the harness with CPython floats (stream X7). -/

/-- the context has no influence on the tokens: forgetting the contexts gives the yield-mode token
    stream, for every string and every parser state -/
theorem contexts_do_not_change_tokens (sp : Special) (st : PState) (d word : Str) :
    untag <$> scanC sp st d word = scanY sp d word := scanC_tokens sp st d word

/-- every sequence of editor calls: `MTextParser(str(editor), yield_property_commands=True)` yields exactly
    the expected tokens, each with the expected context (the word in front of a command still with the old
    context, the PROPERTIES_CHANGED token and everything behind it with the new one) -/
theorem editor_contexts_roundtrip (sp : Special) (ops : List XOp) (h : ∀ o ∈ ops, o.wfT = true) :
    parseC sp (xEditorText ops) = .ok (xEditorCTokens ops) := xeditor_ctokens sp ops h

/-- `{ … }`: behind the closing brace the context and the context stack are those from before the opening
    brace, whatever commands the items in between contain (any number, no group markers in between) -/
theorem group_restores_context (xs : List XItem) (st : PState) (h : ∀ x ∈ xs, x.noGroup = true) :
    (xitemsState ([.base .openGroup] ++ xs ++ [.base .closeGroup]) st).ctx = st.ctx ∧
    (xitemsState ([.base .openGroup] ++ xs ++ [.base .closeGroup]) st).stack = st.stack :=
  group_restores xs st h

/-- the effect of a command on the parser state does not depend on the text behind its ";" -/
theorem command_effect_local (d : Char) (args rest : Str) (st : PState)
    (hs : (d = 'p' ∨ d = 'f' ∨ d = 'F') → ∀ c ∈ args, c ≠ ';') :
    applyCmd d (args ++ ';' :: rest) st = applyCmd d (args ++ [';']) st := applyCmd_rest d args rest st hs

/-- no command touches the context stack -/
theorem command_keeps_stack (d : Char) (r2 : Str) (st : PState) : (applyCmd d r2 st).stack = st.stack :=
  applyCmd_stack d r2 st

/-- all attributes outside `names` are equal (`continue_stroke` is refreshed by every command) -/
def ctxEqExcept (names : List String) (a b : Ctx) : Prop :=
  ("underline" ∈ names ∨ a.underline = b.underline) ∧ ("overline" ∈ names ∨ a.overline = b.overline) ∧
  ("strike_through" ∈ names ∨ a.strike = b.strike) ∧ ("aci" ∈ names ∨ a.aci = b.aci) ∧ ("rgb" ∈ names ∨ a.rgb = b.rgb) ∧
  ("align" ∈ names ∨ a.align = b.align) ∧ ("font_face" ∈ names ∨ a.font = b.font) ∧
  ("cap_height" ∈ names ∨ a.capHeight = b.capHeight) ∧ ("width_factor" ∈ names ∨ a.widthFactor = b.widthFactor) ∧
  ("char_tracking_factor" ∈ names ∨ a.charTracking = b.charTracking) ∧ ("oblique" ∈ names ∨ a.oblique = b.oblique) ∧
  ("paragraph" ∈ names ∨ a.paragraph = b.paragraph)

/-- frame conditions tied to the source: a command changes at most the context attributes that the AST of
    its branch of `parse_properties` (and of the handler it calls) assigns -/
theorem frame_tied : ∀ p ∈ Gen.TextTables.assigns, ∀ (r2 : Str) (st : PState),
    ctxEqExcept p.2 (applyCmd p.1 r2 st).ctx st.ctx := by
  intro p hp r2 st
  simp only [Gen.TextTables.assigns, List.mem_cons, List.not_mem_nil, or_false] at hp
  rcases hp with h | h | h | h | h | h | h | h | h | h | h | h | h | h | h | h <;> subst h <;>
    (unfold applyCmd ctxEqExcept; simp only [Char.reduceEq, ↓reduceIte]
     (try split) <;> (try split) <;> (try split) <;>
       (refine ⟨?_, ?_, ?_, ?_, ?_, ?_, ?_, ?_, ?_, ?_, ?_, ?_⟩ <;> first | (right; rfl) | (left; decide) | (right; simp; done)))

/-- the context carrying parser returns for every string -/
theorem parserC_total (sp : Special) (s : Str) : ∃ ts, parseC sp s = .ok ts := by
  obtain ⟨ts, h⟩ := parserY_total sp s
  have := contexts_do_not_change_tokens sp {} (caretDecode s) []
  unfold parseY at h
  rw [h] at this
  unfold parseC
  cases hc : scanC sp {} (caretDecode s) [] with
  | ok a => exact ⟨a, rfl⟩
  | error e => rw [hc] at this; cases this

/-! the editor's methods on the context (what the following tokens are yielded with), for all in-range arguments -/

/-- `height(h)` sets the cap height to |h|; `scale_height(k)` multiplies it by |k|; `width_factor`,
    `char_tracking_factor`, `oblique` set their attribute; nothing else changes (`continue_stroke` is
    refreshed from the parser flag by every command) -/
theorem editor_height_context (f : Str) (hf : isFloatText f = true) (st : PState) :
    ((XItem.base (.cmd 'H' f)).cstep st).ctx = { st.ctx with capHeight := .abs f, continueStroke := st.cont } ∧
    ((XItem.base (.cmd 'H' (f ++ ['x']))).cstep st).ctx =
      { st.ctx with capHeight := .mul st.ctx.capHeight f, continueStroke := st.cont } ∧
    ((XItem.base (.cmd 'W' f)).cstep st).ctx = { st.ctx with widthFactor := .abs f, continueStroke := st.cont } ∧
    ((XItem.base (.cmd 'T' f)).cstep st).ctx = { st.ctx with charTracking := .abs f, continueStroke := st.cont } ∧
    ((XItem.base (.cmd 'Q' f)).cstep st).ctx = { st.ctx with oblique := some f, continueStroke := st.cont } :=
  ⟨cmd_height f hf st, cmd_scale_height f hf st, cmd_width_factor f hf st, cmd_char_tracking f hf st, cmd_oblique f hf st⟩

/-- `aci(n)` / `color(name)` set the colour index and clear the rgb value; `rgb(..)` sets the rgb value -/
theorem editor_color_context (ds : Str) (hd : ds.all isDigit = true) (hne : ds ≠ []) (hlen : ds.length ≤ intMaxStrDigits)
    (st : PState) :
    (natOfDigits ds < 257 →
      ((XItem.base (.cmd 'C' ds)).cstep st).ctx = { st.ctx with aci := natOfDigits ds, rgb := none, continueStroke := st.cont }) ∧
    ((XItem.base (.cmd 'c' ds)).cstep st).ctx =
      { st.ctx with rgb := some (natOfDigits ds % 16777216), continueStroke := st.cont } :=
  ⟨fun hn => cmd_aci ds hd hne hlen hn st, cmd_rgb ds hd hne hlen st⟩

/-- `underline(text)`: `\L` switches the stroke (and `continue_stroke`) on for the text, `\l` restores the context -/
theorem editor_underline_context (st : PState) (h : st.ctx.hasAnyStroke = false) :
    (applyCmd 'L' [] st).ctx.underline = true ∧ (applyCmd 'L' [] st).ctx.continueStroke = true ∧
    (applyCmd 'l' [] (applyCmd 'L' [] st)).ctx = { st.ctx with underline := false, continueStroke := false } :=
  cmd_underline_on_off st h

-- heights: absolute value replaces, factor multiplies; colour: `\C` clears rgb; the stroke flag leaks out of a group
#guard ((xitemsState [.base (.cmd 'H' "2.5".toList), .base (.cmd 'H' "2x".toList)] {}).ctx.capHeight
  == .mul (.abs "2.5".toList) "2".toList)
#guard ((xitemsState [.base (.cmd 'c' "255".toList), .base (.cmd 'C' "1".toList)] {}).ctx.rgb == none)
#guard ((xitemsState [.base .openGroup, .base (.one 'L'), .base .closeGroup, .base (.cmd 'C' "1".toList)] {}).ctx.continueStroke == true)

/-! ## line endings: `escape_dxf_line_endings` (used by `safe_string`, `load_mtext_content`) and back -/

/-- for every text made of plain characters, LF and CR: `plain_mtext(escape_dxf_line_endings(s))` and
    `fast_plain_mtext(..)` return `s` without the CRs (the line structure is kept) -/
theorem escape_roundtrip (sp : Special) (s : Str) (h : ∀ c ∈ s, isPlain c = true ∨ c = '\n' ∨ c = '\r') :
    plainMTextStr sp (escapeLineEndings s) = .ok (s.filter (· ≠ '\r')) ∧
    fastPlainMText sp (escapeLineEndings s) = s.filter (· ≠ '\r') := by
  obtain ⟨h1, h2, h3⟩ := escape_class_fast sp s h
  have hf : fastPlainMText sp (escapeLineEndings s) = s.filter (· ≠ '\r') := by
    unfold fastPlainMText; rw [h1, h3]
  exact ⟨by rw [fast_eq_slow sp _ (by rw [h1]; exact h2), hf], hf⟩

/-- the escaped text contains no line ending character (a DXF string value must not) -/
theorem escape_no_line_endings (s : Str) : ∀ c ∈ escapeLineEndings s, c ≠ '\n' ∧ c ≠ '\r' := escape_chars s

theorem escape_idempotent (s : Str) : escapeLineEndings (escapeLineEndings s) = escapeLineEndings s :=
  escape_id _ (escape_chars s)

theorem safe_string_bounds (s : Str) (n : Nat) :
    (safeString s n).length ≤ n ∧ ∀ c ∈ safeString s n, c ≠ '\n' ∧ c ≠ '\r' :=
  ⟨by simp [safeString]; omega, fun c hc => escape_chars s c (List.mem_of_mem_take hc)⟩

/-! ## TEXT / ATTRIB content: `fix_one_line_text`, `plain_text` -/

/-- `fix_one_line_text` always returns a valid one line text and changes nothing on valid ones -/
theorem fix_one_line_valid (s : Str) : isValidOneLine (fixOneLine s) = true := fixOneLine_valid s
theorem fix_one_line_id (s : Str) (h : isValidOneLine s = true) : fixOneLine s = s := fixOneLine_id s h
theorem fix_one_line_idempotent (s : Str) : fixOneLine (fixOneLine s) = fixOneLine s :=
  fixOneLine_id _ (fixOneLine_valid s)

/-- `plain_text` returns content without `%`, `^` and line breaks unchanged -/
theorem plain_text_identity (sp : Special) (kou : Char → Bool) (s : Str)
    (h : ∀ c ∈ s, c ≠ '%' ∧ c ≠ '^' ∧ c ≠ '\n' ∧ c ≠ '\r') : plainText sp kou s = s := by
  unfold plainText
  have h1 : caretDecode s = s := by
    have := caretDecode_append_nocaret s [] (fun c hc => (h c hc).2.1)
    simpa [caretDecode] using this
  have h2 : fixOneLine s = s := fixOneLine_id s (by
    unfold isValidOneLine
    simp only [Bool.and_eq_true, List.all_eq_true, bne_iff_ne, ne_eq]
    refine ⟨fun c hc => ⟨(h c hc).2.2.1, (h c hc).2.2.2⟩, ?_⟩
    intro hl
    have := List.mem_of_getLast? hl
    exact (h _ this).2.1 rfl)
  rw [h1, h2, plainTextLoop_id sp kou s (fun c hc => (h c hc).1)]

/-- `%%c %%d %%p` (any case) decode to the special character -/
theorem plain_text_special (sp : Special) (kou : Char → Bool) (code l : Char) (r : Str) (h : sp code = some l) :
    plainTextLoop sp kou ('%' :: '%' :: code :: r) = l :: plainTextLoop sp kou r :=
  plainTextLoop_special sp kou code l r h

/-- `%%k %%o %%u` are dropped -/
theorem plain_text_format_code (sp : Special) (kou : Char → Bool) (code : Char) (r : Str)
    (h : sp code = none) (hk : kou code = true) :
    plainTextLoop sp kou ('%' :: '%' :: code :: r) = plainTextLoop sp kou r :=
  plainTextLoop_format sp kou code r h hk

/-- every other `%%x` (also the `%%nnn` character codes, which ezdxf does not decode) stays verbatim:
    only the first `%` is consumed, the scan continues with `%x…` -/
theorem plain_text_unknown_code (sp : Special) (kou : Char → Bool) (code : Char) (r : Str)
    (h : sp code = none) (hk : kou code = false) :
    plainTextLoop sp kou ('%' :: '%' :: code :: r) = '%' :: plainTextLoop sp kou ('%' :: code :: r) :=
  plainTextLoop_unknown sp kou code r h hk

#guard plainText Gen.TextTables.special Gen.TextTables.kou "%%uab%%C%%065^".toList = "abØ%%065".toList
#guard escapeLineEndings "a\r\nb\n".toList = "a\\Pb\\P".toList

/-! ## ParagraphProperties: `tostring()` → `\p…;` → `parse_paragraph_properties` is the identity

Stated on the value texts (`f"{x:g}"` out, matched RE_FLOAT expression in): for all properties whose
numbers are number texts and whose alignment is one of `l r c j d`; `none` = default (omitted by
`tostring()`); any number of tab stops of the three kinds.  Float-text assumption: the `:g` text of a
finite float matches RE_FLOAT completely (checked on generated values by stream X5). -/

theorem paragraph_properties_roundtrip (p : ParaProps) (h : p.Wf) :
    (match p.toArgs with
     | none => p = {}                                         -- tostring() == "" only for the default
     | some a => paraParse a = p ∧ paraParse ('x' :: a) = p)  -- `\px` a `;` as written by tostring()
    := para_roundtrip p h

/-- the tab stop list alone: any number of left / center / right stops is read back in order -/
theorem tab_stops_roundtrip (ts : List Tab) (h : ∀ t ∈ ts, t.Wf) :
    paraTabVals (commaJoin (ts.map Tab.text)) [] = ts := by
  simpa using paraTabVals_join ts h []

#guard (let p : ParaProps := { indent := some "-1.5".toList, left := some "2".toList, align := some 'c',
                               tabs := [.left "4".toList, .center "8.5".toList, .right "1e+06".toList] }
        p.toArgs = some "i-1.5,l2,qc,t4,c8.5,r1e+06".toList && decide (paraParse ('x' :: "i-1.5,l2,qc,t4,c8.5,r1e+06".toList) = p))
#guard (({} : ParaProps).toArgs = none)

/-! ## split_mtext_string for every size: `size < 2` is rejected (before the fix: size 1 never returned
    for content with a caret, size ≤ 0 returned chunks that do not join to the content) -/

theorem split_small_size_rejected (size : Nat) (h : size < 2) (s : Str) :
    splitMTextE size s = .error .valueError := by
  unfold splitMTextE
  rw [dif_neg (by omega)]

theorem split_total (size : Nat) (s : Str) :
    splitMTextE size s = .error .valueError ∨
    ∃ chunks, splitMTextE size s = .ok chunks ∧ chunks.flatten = s ∧ ∀ c ∈ chunks, 0 < c.length ∧ c.length ≤ size := by
  by_cases h : 2 ≤ size
  · right
    exact ⟨splitMText size h s, by simp [splitMTextE, h], split_join size h s, split_chunk_bounds size h s⟩
  · left; simp [splitMTextE, h]

/-! ## MTEXT content ↔ DXF tags: `export_mtext_content` then `load_mtext_content` -/

/-- writing the content as group code 3/1 chunks and loading it again returns the content (with line
    endings escaped, which is what both directions do); for every string -/
theorem export_load_roundtrip (s : Str) :
    loadMTextContent (exportMTextContent s) = escapeLineEndings s := by
  unfold loadMTextContent exportMTextContent
  obtain ⟨h3, h1⟩ := export_tags_shape (splitMText 250 (by decide) (escapeLineEndings s))
  simp only at h3 h1 ⊢
  rw [h3, h1, dropLast_getLast, split_join, escape_idempotent]

/-- the written tags: at least one, every value at most 250 characters and free of line ending
    characters, group code 1 exactly for the last one -/
theorem export_tags_wellformed (s : Str) :
    exportMTextContent s ≠ [] ∧
    (∀ t ∈ exportMTextContent s, t.2.length ≤ 250 ∧ (∀ c ∈ t.2, c ≠ '\n' ∧ c ≠ '\r')) ∧
    (∀ t ∈ (exportMTextContent s).dropLast, t.1 = 3) ∧ ((exportMTextContent s).getLast?.map (·.1)) = some 1 := by
  have hb := split_chunk_bounds 250 (by decide) (escapeLineEndings s)
  have hj := split_join 250 (by decide) (escapeLineEndings s)
  have hmem : ∀ c ∈ splitMText 250 (by decide) (escapeLineEndings s), ∀ x ∈ c, x ≠ '\n' ∧ x ≠ '\r' := by
    intro c hc x hx
    apply escape_chars s
    rw [← hj]
    exact List.mem_flatten.mpr ⟨c, hc, hx⟩
  unfold exportMTextContent
  generalize splitMText 250 (by decide) (escapeLineEndings s) = chunks at *
  refine ⟨by simp, ?_, ?_, by simp⟩
  · intro t ht
    simp only [List.mem_append, List.mem_map, List.mem_cons, List.not_mem_nil, or_false] at ht
    rcases ht with ⟨c, hc, rfl⟩ | rfl
    · have hc' : c ∈ chunks := (List.dropLast_sublist chunks).subset hc
      exact ⟨(hb c hc').2, hmem c hc'⟩
    · cases hl : chunks.getLast? with
      | none => simp
      | some c =>
        have hc' : c ∈ chunks := List.mem_of_getLast? hl
        simpa using ⟨(hb c hc').2, hmem c hc'⟩
  · intro t ht
    rw [List.dropLast_concat] at ht
    simp only [List.mem_map] at ht
    obtain ⟨c, _, rfl⟩ := ht
    rfl

#guard exportMTextContent "a\nb".toList = [(1, "a\\Pb".toList)]
#guard (exportMTextContent (List.replicate 249 'a' ++ "^I".toList ++ List.replicate 300 'b')).map (fun t => (t.1, t.2.length))
  = [(3, 249), (3, 250), (1, 52)]

/-! ## where the two decoders genuinely differ (each construct excluded from `agreeClass`)

Concrete contents, each replayed on the real code by the harness (`DIFFER` in harness/props/c20.py). -/

private theorem pp_H1a : parseProperties 'H' "1a;".toList = some (.ok "a;".toList) := by rfl
private theorem pp_H1 : parseProperties 'H' "1".toList = some (.ok []) := by rfl
private theorem pp_z (r : Str) : parseProperties 'z' r = none := by simp [parseProperties, mem_stroke]

private theorem scan_cmd_ok (sp : Special) (d : Char) (r2 r3 : Str)
    (hd : ¬(d = '\\' ∨ d = '{' ∨ d = '}')) (h1 : d ≠ '~') (h2 : d ≠ 'P') (h3 : d ≠ 'N') (h4 : d ≠ 'X') (h5 : d ≠ 'S')
    (hp : parseProperties d r2 = some (.ok r3)) :
    scan sp ('\\' :: d :: r2) [] = scan sp r3 [] := by
  rw [scan.eq_def]
  simp only [↓reduceIte, hd, h1, h2, h3, h4, h5, ne_eq, not_true_eq_false, ↓reduceDIte]
  split
  · rename_i h; rw [hp] at h; cases h
  · rename_i h; rw [hp] at h; cases h
  · rename_i h; rw [hp] at h; cases h; rfl

private theorem scan_cmd_unknown (sp : Special) (d : Char) (r2 : Str)
    (hd : ¬(d = '\\' ∨ d = '{' ∨ d = '}')) (h1 : d ≠ '~') (h2 : d ≠ 'P') (h3 : d ≠ 'N') (h4 : d ≠ 'X') (h5 : d ≠ 'S')
    (hp : parseProperties d r2 = none) :
    scan sp ('\\' :: d :: r2) [] = scan sp r2 ['\\', d] := by
  rw [scan.eq_def]
  simp only [↓reduceIte, hd, h1, h2, h3, h4, h5, ne_eq, not_true_eq_false, ↓reduceDIte]
  split
  · rfl
  · rename_i h; rw [hp] at h; cases h
  · rename_i h; rw [hp] at h; cases h

/-- `\~`: non breaking space for the parser, an unterminated command for the fast decoder -/
theorem differ_nbsp (sp : Special) :
    plainMTextStr sp "\\~".toList = .ok " ".toList ∧ fastPlainMText sp "\\~".toList = "\\~".toList := by
  constructor
  · simp [plainMTextStr, plainMText, parse, caretDecode, scan, plainOfTokens, joinNL, Functor.map, Except.map]
  · simp [fastPlainMText, caretDecode, fastLoop, findIdx, mem_one]

/-- `\N` (new column): a paragraph break for `plain_mtext`, a blank for `fast_plain_mtext` -/
theorem differ_new_column (sp : Special) :
    plainMTextStr sp "a\\Nb".toList = .ok "a\nb".toList ∧ fastPlainMText sp "a\\Nb".toList = "a b".toList := by
  constructor
  · simp [plainMTextStr, plainMText, parse, caretDecode, scan, plainOfTokens, joinNL, Functor.map, Except.map, specialAt]
  · simp [fastPlainMText, caretDecode, fastLoop, findIdx, mem_one]

/-- `^I` (TAB): four blanks vs. the TAB character -/
theorem differ_tab (sp : Special) :
    plainMTextStr sp "^I".toList = .ok "    ".toList ∧ fastPlainMText sp "^I".toList = "\t".toList := by
  constructor
  · simp [plainMTextStr, plainMText, parse, caretDecode, caretChar, scan, plainOfTokens, joinNL, Functor.map, Except.map, wordAnd]
  · simp [fastPlainMText, caretDecode, caretChar, fastLoop]

/-- a backslash at the end: a blank vs. nothing -/
theorem differ_trailing_backslash (sp : Special) :
    plainMTextStr sp "a\\".toList = .ok "a ".toList ∧ fastPlainMText sp "a\\".toList = "a".toList := by
  constructor
  · simp [plainMTextStr, plainMText, parse, caretDecode, scan, plainOfTokens, joinNL, Functor.map, Except.map, specialAt, wordAnd]
  · simp [fastPlainMText, caretDecode, fastLoop]

/-- an argument the parser does not accept in full: the rest is text for the parser, skipped by fast -/
theorem differ_bad_argument (sp : Special) :
    plainMTextStr sp "\\H1a;".toList = .ok "a;".toList ∧ fastPlainMText sp "\\H1a;".toList = [] := by
  constructor
  · have h := scan_cmd_ok sp 'H' "1a;".toList "a;".toList (by decide) (by decide) (by decide) (by decide) (by decide) (by decide) pp_H1a
    have e : caretDecode "\\H1a;".toList = '\\' :: 'H' :: "1a;".toList := by simp [caretDecode]
    simp only [plainMTextStr, plainMText, parse, e, h]
    simp [scan, plainOfTokens, joinNL, Functor.map, Except.map, specialAt]
  · simp [fastPlainMText, caretDecode, fastLoop, findIdx, mem_one]

/-- a known command without terminator: removed by the parser, printed verbatim by fast
    (the documented limitation of `fast_plain_mtext`) -/
theorem differ_unterminated (sp : Special) :
    plainMTextStr sp "\\H1".toList = .ok [] ∧ fastPlainMText sp "\\H1".toList = "\\H1".toList := by
  constructor
  · have h := scan_cmd_ok sp 'H' "1".toList [] (by decide) (by decide) (by decide) (by decide) (by decide) (by decide) pp_H1
    have e : caretDecode "\\H1".toList = '\\' :: 'H' :: "1".toList := by simp [caretDecode]
    simp only [plainMTextStr, plainMText, parse, e, h]
    simp [scan, plainOfTokens, joinNL, Functor.map, Except.map]
  · simp [fastPlainMText, caretDecode, fastLoop, findIdx, mem_one]

/-- an unknown command in front of a later ";": verbatim for the parser, skipped by fast -/
theorem differ_unknown_command (sp : Special) :
    plainMTextStr sp "\\zb;".toList = .ok "\\zb;".toList ∧ fastPlainMText sp "\\zb;".toList = [] := by
  constructor
  · have h := scan_cmd_unknown sp 'z' "b;".toList (by decide) (by decide) (by decide) (by decide) (by decide) (by decide) (pp_z _)
    have e : caretDecode "\\zb;".toList = '\\' :: 'z' :: "b;".toList := by simp [caretDecode]
    simp only [plainMTextStr, plainMText, parse, e, h]
    simp [scan, plainOfTokens, joinNL, Functor.map, Except.map, specialAt]
  · simp [fastPlainMText, caretDecode, fastLoop, findIdx, mem_one]

/-- `%%` at the end: kept by the parser, dropped by fast -/
theorem differ_percent_end (sp : Special) :
    plainMTextStr sp "%%".toList = .ok "%%".toList ∧ fastPlainMText sp "%%".toList = [] := by
  constructor
  · simp [plainMTextStr, plainMText, parse, caretDecode, scan, plainOfTokens, joinNL, Functor.map, Except.map, specialAt]
  · simp [fastPlainMText, caretDecode, fastLoop]

/-! ## differences that no continuation can repair

After ANY content written in the editor's language (items: words, commands, groups, stacking …) a
`\N` or a TAB makes the two decoders differ, whatever text follows: the outputs have a common prefix and
then LF vs blank, resp. blank vs TAB. -/

private theorem fastLoop_N (sp : Special) (r : Str) : fastLoop sp ('\\' :: 'N' :: r) = ' ' :: fastLoop sp r := by
  conv => lhs; rw [fastLoop.eq_def]
  simp [mem_one]

private theorem base_slow_fast (sp : Special) (is : List Item) (h : ∀ i ∈ is, i.Wf) (r : Str) :
    slowLoop sp (xRenderD (is.map .base) ++ r) = expectedItems is ++ slowLoop sp r ∧
    fastLoop sp (xRenderD (is.map .base) ++ r) = expectedItems is ++ fastLoop sp r := by
  have hw : ∀ x ∈ is.map XItem.base, x.Wf := by
    intro x hx; simp only [List.mem_map] at hx; obtain ⟨i, hi, rfl⟩ := hx; exact h i hi
  have hf : ∀ x ∈ is.map XItem.base, x.fastOk = true := by
    intro x hx; simp only [List.mem_map] at hx; obtain ⟨i, _, rfl⟩ := hx; rfl
  have e1 : ((is.map XItem.base).map XItem.expectedSlow).flatten = expectedItems is := by
    simp [expectedItems, XItem.expectedSlow, Function.comp_def]
  have e2 : ((is.map XItem.base).map XItem.expectedFast).flatten = expectedItems is := by
    simp [expectedItems, XItem.expectedFast, Function.comp_def]
  exact ⟨by rw [xitems_slow sp _ r hw, e1], by rw [xitems_fast sp _ r hw hf, e2]⟩

theorem differ_new_column_anywhere (sp : Special) (is : List Item) (h : ∀ i ∈ is, i.Wf) (r : Str) :
    slowLoop sp (xRenderD (is.map .base) ++ '\\' :: 'N' :: r) ≠ fastLoop sp (xRenderD (is.map .base) ++ '\\' :: 'N' :: r) := by
  obtain ⟨h1, h2⟩ := base_slow_fast sp is h ('\\' :: 'N' :: r)
  rw [h1, h2, slowLoop_N, fastLoop_N]
  intro hh
  have := List.append_cancel_left hh
  injection this with h3 _
  exact absurd h3 (by decide)

theorem differ_tab_anywhere (sp : Special) (is : List Item) (h : ∀ i ∈ is, i.Wf) (r : Str) :
    slowLoop sp (xRenderD (is.map .base) ++ '\t' :: r) ≠ fastLoop sp (xRenderD (is.map .base) ++ '\t' :: r) := by
  obtain ⟨h1, h2⟩ := base_slow_fast sp is h ('\t' :: r)
  rw [h1, h2, slowLoop_tab, fastLoop_copy sp '\t' r (by decide) (by decide) (by decide) (by decide)]
  intro hh
  have := List.append_cancel_left hh
  injection this with h3 _
  exact absurd h3 (by decide)

/-! ## ties of the hand-written model to the generated tables (regenerated from source each run) -/

theorem re_float_pattern : Gen.TextTables.reFloat = "[+-]?\\d+(?:\\.\\d*)?(?:[eE][+-]?\\d+)?" := by decide

theorem re_float_x_pattern :
    Gen.TextTables.reFloatX = "[+-]?\\d+(?:\\.\\d*)?(?:[eE][+-]?\\d+)?([x]?)" := by decide

theorem one_char_commands_tied : Gen.TextTables.oneCharCommands.toList = oneCharCommands := by decide

/-- special letters are plain word characters (not blank, brace, backslash or control), which is
    what `scan` and `fastLoop` assume when they append them -/
theorem special_letters_plain :
    Gen.TextTables.specialList.all (fun p => decide (32 < p.2) && p.2 != 123 && p.2 != 125 && p.2 != 92 && p.2 != 37) = true := by
  decide

/-! ## command dispatch extracted from the AST of `parse_properties` / `next_token` vs. the model -/

/-- the model function for a handler kind (kinds are computed from the handler bodies by
    `extract_dispatch` in harness/props/c20.py) -/
def kindModel (kind : String) (tail : Str) : Option (Except PyErr Str) :=
  if kind = "stroke" then some (.ok tail)
  else if kind = "get+term" then some (parseAlign tail)
  else if kind = "int+term" then some (parseIntCmd tail)
  else if kind = "float_x+term" then some (parseFloatOrFactor tail)
  else if kind = "float+term" then some (parseOblique tail)
  else if kind = "expr-floats" then
    some (do paraLoop (extractExpr false tail).1; .ok (extractExpr false tail).2)
  else if kind = "expr" then some (.ok (extractExpr false tail).2)
  else none

/-- every letter of the extracted if-chain is dispatched by the model to the handler of the same kind -/
theorem dispatch_tied : ∀ p ∈ Gen.TextTables.dispatch, ∀ tail, parseProperties p.1 tail = kindModel p.2 tail := by
  intro p hp tail
  simp only [Gen.TextTables.dispatch, List.mem_cons, List.not_mem_nil, or_false] at hp
  rcases hp with h | h | h | h | h | h | h | h | h | h | h | h | h | h | h | h <;> subst h <;>
    simp [parseProperties, kindModel, mem_stroke]

/-- ... and every other letter is an unknown command (`raise UnknownCommand`) -/
theorem dispatch_complete (c : Char) (h : c ∉ Gen.TextTables.dispatch.map (·.1)) (tail : Str) :
    parseProperties c tail = none := by
  simp only [Gen.TextTables.dispatch, List.map_cons, List.map_nil, List.mem_cons, List.not_mem_nil, or_false,
    not_or] at h
  obtain ⟨h1, h2, h3, h4, h5, h6, h7, h8, h9, h10, h11, h12, h13, h14, h15, h16⟩ := h
  have e : ∀ n : Nat, ∀ k : Char, Char.ofNat n = k → (¬ c = Char.ofNat n) → c ≠ k := fun n k hk hn => hk ▸ hn
  have a1 := e 76 'L' (by decide) h1; have a2 := e 108 'l' (by decide) h2; have a3 := e 79 'O' (by decide) h3
  have a4 := e 111 'o' (by decide) h4; have a5 := e 75 'K' (by decide) h5; have a6 := e 107 'k' (by decide) h6
  have a7 := e 65 'A' (by decide) h7; have a8 := e 67 'C' (by decide) h8; have a9 := e 99 'c' (by decide) h9
  have a10 := e 72 'H' (by decide) h10; have a11 := e 87 'W' (by decide) h11; have a12 := e 81 'Q' (by decide) h12
  have a13 := e 84 'T' (by decide) h13; have a14 := e 112 'p' (by decide) h14; have a15 := e 102 'f' (by decide) h15
  have a16 := e 70 'F' (by decide) h16
  simp [parseProperties, mem_stroke, a1, a2, a3, a4, a5, a6, a7, a8, a9, a10, a11, a12, a13, a14, a15, a16]

def tokOf (name : String) : Option Token :=
  if name = "NBSP" then some .nbsp else if name = "NEW_PARAGRAPH" then some .newParagraph
  else if name = "NEW_COLUMN" then some .newColumn else if name = "WRAP_AT_DIMLINE" then some .wrapAtDimline
  else none

/-- the commands that `next_token` turns into a token of their own -/
theorem token_cmds_tied : ∀ p ∈ Gen.TextTables.tokenCmds, ∀ (sp : Special) (r : Str),
    match tokOf p.2 with
    | some tok => scan sp ('\\' :: p.1 :: r) [] = (fun ts => tok :: ts) <$> scan sp r []
    | none => p = ('S', "parse_stacking") := by
  intro p hp sp r
  simp only [Gen.TextTables.tokenCmds, List.mem_cons, List.not_mem_nil, or_false] at hp
  rcases hp with h | h | h | h | h <;> subst h <;> simp [tokOf] <;> (rw [scan.eq_def]; simp)

/-- the character sets the functions test with `in` are the ones the model uses (`"\\{}"` escapes,
    `"^/#"` stacking types, `"012"` alignments, `"{}"` group markers, `"kou"` TEXT format codes) -/
theorem in_sets_tied : Gen.TextTables.inSets =
    [("next_token", ["\\{}"]), ("parse_stacking", ["^/#"]), ("parse_align", ["012"]),
     ("fast_plain_mtext", ["\\{}", "{}", "ONE_CHAR_COMMANDS"]), ("plain_text", ["kou"]),
     ("MTextEditor.stack", ["^/#"])] := by decide

/-- the small helpers that the model transcribes line by line (`exportMTextContent`, `loadMTextContent`,
    `splitMText`, `escapeLineEndings`, `caretDecode`, `safeString`, `fixOneLine`, `isValidOneLine`) still have the
    bodies they were transcribed from (AST of the current source, docstrings removed, re-printed); a change of
    any of them - e.g. a fast path in `export_mtext_content` that tests the length before the line endings are
    escaped - breaks this theorem and sends the reader back to the model and to `export_load_roundtrip`,
    `export_tags_wellformed`, `split_join`, `escape_roundtrip` … -/
theorem source_bodies_fixed : Gen.TextTables.bodies =
    [("export_mtext_content", "(text, tagwriter: AbstractTagWriter) txt = escape_dxf_line_endings(text) ;; str_chunks = split_mtext_string(txt, size=250) ;; if len(str_chunks) == 0: ;;     str_chunks.append('') ;; while len(str_chunks) > 1: ;;     tagwriter.write_tag2(3, str_chunks.pop(0)) ;; tagwriter.write_tag2(1, str_chunks[0])"), ("load_mtext_content", "(tags: Tags) tail = '' ;; content = '' ;; for code, value in tags: ;;     if code == 1: ;;         tail = value ;;     elif code == 3: ;;         content += value ;; return escape_dxf_line_endings(content + tail)"), ("split_mtext_string", "(s: str, size: int=250) if size < 2: ;;     raise ValueError('size has to be greater than or equal to 2') ;; chunks = [] ;; pos = 0 ;; while True: ;;     chunk = s[pos:pos + size] ;;     if len(chunk): ;;         if len(chunk) < size: ;;             chunks.append(chunk) ;;             return chunks ;;         pos += size ;;         if chunk[-1] == '^': ;;             chunk = chunk[:-1] ;;             pos -= 1 ;;         chunks.append(chunk) ;;     else: ;;         return chunks"), ("escape_dxf_line_endings", "(text: str) return text.replace('\\r', '').replace('\\n', '\\\\P')"), ("caret_decode", "(text: str) def replace_match(match: re.Match) -> str: ;;     c = ord(match.group(1)) ;;     return chr((c - 64) % 126) ;; return re.sub('\\\\^(.)', replace_match, text)"), ("safe_string", "(s: Optional[str], max_len: int=MAX_STR_LEN) if isinstance(s, str): ;;     return escape_dxf_line_endings(s)[:max_len] ;; return ''"), ("fix_one_line_text", "(text: str) return text.replace('\\n', '').replace('\\r', '').rstrip('^')"), ("is_valid_one_line_text", "(text: str) has_line_breaks = bool(set(text).intersection({'\\n', '\\r'})) ;; return not has_line_breaks and (not text.endswith('^'))")] := by rfl

end EzdxfVerif.Props.C20

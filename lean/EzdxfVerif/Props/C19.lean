/-
C19  Polygon algorithms conserve area and respect containment.
Only property theorems, private helper lemmas and non-vacuity examples live here; every `theorem` is an obligation counted
by ./check C19.  The arithmetic kernels are the definitions of Gen/PolygonKernels.lean regenerated from the source.
-/
import EzdxfVerif.Model.Polygon
import EzdxfVerif.Lemmas.PolygonHull
import EzdxfVerif.Lemmas.PolygonPip
import EzdxfVerif.Lemmas.PolygonConvex
import EzdxfVerif.Lemmas.PolygonEar
import EzdxfVerif.Lemmas.PolygonGH
import EzdxfVerif.Lemmas.PolygonEarConvex
import EzdxfVerif.Lemmas.PolygonWinding
import Mathlib.Tactic.Ring
import Mathlib.Tactic.Linarith
import Mathlib.Tactic.FieldSimp
import Mathlib.Algebra.Order.Field.Basic
import Mathlib.Tactic.Tauto
import Mathlib.Tactic.IntervalCases

namespace EzdxfVerif.Props.C19
open EzdxfVerif.Polygon EzdxfVerif.Gen

/-! ## A. shoelace facts -/

private theorem term_swap (p q : Node) : term q p = - term p q := by
  simp only [term, PolygonKernels.signedAreaTerm]; ring

private theorem area_eq_terms (a b c : Node) : area a b c = term a b + term b c + term c a := by
  simp only [area, term, PolygonKernels.area, PolygonKernels.signedAreaTerm]; ring

private theorem lastOr_append (p : Node) (l m : List Node) : lastOr p (l ++ m) = lastOr (lastOr p l) m := by
  induction l generalizing p with
  | nil => rfl
  | cons q qs ih => simp [lastOr, ih]

private theorem pathSum_append (p : Node) (l m : List Node) :
    pathSum p (l ++ m) = pathSum p l + pathSum (lastOr p l) m := by
  induction l generalizing p with
  | nil => simp [pathSum, lastOr]
  | cons q qs ih => simp [pathSum, lastOr, ih]; ring

/-- the signed area of a triangle given as a ring is the code's `area(a, b, c)` -/
theorem tri_signedArea (a b c : Node) : signedArea [a, b, c] = area a b c := by
  simp only [signedArea, pathSum, lastOr, area_eq_terms]; ring

/-- removing the cursor node `b` (between `a` = last and `c` = next) changes the signed area by the triangle a b c -/
theorem ear_removal_area (b c : Node) (r : List Node) :
    signedArea (b :: c :: r) = signedArea (c :: r) + area (lastOr c r) b c := by
  simp only [signedArea, pathSum, lastOr, area_eq_terms, term_swap c (lastOr c r)]; ring

/-- the signed area does not depend on where the ring is opened -/
theorem signedArea_append_comm (l m : List Node) : signedArea (l ++ m) = signedArea (m ++ l) := by
  cases l with
  | nil => simp
  | cons p ps =>
    cases m with
    | nil => simp
    | cons q qs =>
      simp only [signedArea, List.cons_append, pathSum, pathSum_append, lastOr, lastOr_append]
      ring

private theorem signedArea_rotl (l : List Node) : signedArea (rotl l) = signedArea l := by
  cases l with
  | nil => rfl
  | cons p ps => simpa [rotl] using signedArea_append_comm ps [p]

private theorem signedArea_rotBy (k : Nat) (l : List Node) : signedArea (rotBy k l) = signedArea l := by
  rw [rotBy, signedArea_append_comm, List.take_append_drop]


private theorem dropLast_append_lastOr (p : Node) (ps : List Node) : (p :: ps).dropLast ++ [lastOr p ps] = p :: ps := by
  induction ps generalizing p with
  | nil => rfl
  | cons q qs ih => simpa [lastOr, List.dropLast] using ih q

private theorem signedArea_rotr (l : List Node) : signedArea (rotr l) = signedArea l := by
  cases l with
  | nil => rfl
  | cons p ps =>
    have h := signedArea_append_comm [lastOr p ps] (p :: ps).dropLast
    rw [dropLast_append_lastOr] at h
    simpa [rotr] using h

private theorem mem_rotl {v : Node} {l : List Node} : v ∈ rotl l ↔ v ∈ l := by
  cases l with
  | nil => simp [rotl]
  | cons p ps => simp [rotl, or_comm]

private theorem mem_rotr {v : Node} {l : List Node} : v ∈ rotr l ↔ v ∈ l := by
  cases l with
  | nil => simp [rotr]
  | cons p ps =>
    have h : v ∈ (p :: ps).dropLast ++ [lastOr p ps] ↔ v ∈ p :: ps := by rw [dropLast_append_lastOr]
    rw [← h]
    simp only [rotr, List.mem_cons, List.mem_append, List.not_mem_nil, or_false]
    exact or_comm

private theorem mem_rotBy {v : Node} {k : Nat} {l : List Node} : v ∈ rotBy k l ↔ v ∈ l := by
  rw [rotBy, List.mem_append, or_comm, ← List.mem_append, List.take_append_drop]

/-! ## B. any sequence of ear removals conserves the signed area and only uses ring vertices -/

theorem cutEars_area (l : List Node) (ks : List Nat) :
    signedArea l = sumTri (cutEars l ks).1 + signedArea (cutEars l ks).2 := by
  induction ks generalizing l with
  | nil => simp [cutEars, sumTri]
  | cons k ks ih =>
    have hr := signedArea_rotBy (k % (l.length + 1)) l
    unfold cutEars
    split
    · rename_i b c r heq
      rw [heq] at hr
      have := ih (c :: r)
      simp only [sumTri, List.map_cons, List.sum_cons, triArea] at this ⊢
      rw [← hr, ear_removal_area]
      linarith
    · rename_i short _
      simp [sumTri]
      exact hr.symm

theorem cutEars_vertices (l : List Node) (ks : List Nat) :
    ∀ t ∈ (cutEars l ks).1, t.1 ∈ l ∧ t.2.1 ∈ l ∧ t.2.2 ∈ l := by
  induction ks generalizing l with
  | nil => simp [cutEars]
  | cons k ks ih =>
    unfold cutEars
    split
    · rename_i b c r heq
      have hm : ∀ v, v ∈ b :: c :: r → v ∈ l := by
        intro v hv; rw [← heq] at hv; exact mem_rotBy.mp hv
      have hlast : lastOr c r ∈ c :: r := by
        have := dropLast_append_lastOr c r
        rw [← this]; simp
      intro t ht
      simp only [List.mem_cons] at ht
      rcases ht with rfl | ht
      · exact ⟨hm _ (List.mem_cons_of_mem _ hlast), hm _ (by simp), hm _ (by simp)⟩
      · have := ih (c :: r) t ht
        exact ⟨hm _ (List.mem_cons_of_mem _ this.1), hm _ (List.mem_cons_of_mem _ this.2.1),
          hm _ (List.mem_cons_of_mem _ this.2.2)⟩
    · simp


/-! ## C. the earcut model: area balance of `filter_points`, `cure_local_intersections`, `split_polygon`, `earcut_linked` -/

private theorem removable_area_zero (p q : Node) (t : List Node) (h : removable (p :: q :: t) = true) :
    area (lastOr q t) p q = 0 := by
  simp only [removable, PolygonKernels.filterRemovable, Bool.and_eq_true, Bool.or_eq_true, Bool.not_eq_true',
    decide_eq_true_eq] at h
  rcases h.2 with ⟨hx, hy⟩ | h0
  · simp only [area, PolygonKernels.area, hx, hy]; ring
  · exact h0

/-- `filter_points` never changes the signed area: it only removes vertices whose triangle with their neighbours is
degenerate -/
theorem filterPoints_area (l : List Node) (r : Nat) (m : Mark) :
    signedArea (filterPointsM l r m).1 = signedArea l := by
  fun_induction filterPointsM l r m with
  | case1 => rfl
  | case2 => rfl
  | case3 m r p q t hrem l' m' hempty =>
    rw [signedArea_rotr, ear_removal_area, removable_area_zero p q t hrem]; ring
  | case4 m r p q t hrem l' m' hempty ih =>
    rw [ih, signedArea_rotr, ear_removal_area, removable_area_zero p q t hrem]; ring
  | case5 m r p q t hrem m' hr => rw [signedArea_rotl]
  | case6 m r p q t hrem m' hr ih => rw [ih, signedArea_rotl]

private theorem filterPoints_subset (l : List Node) (r : Nat) (m : Mark) :
    ∀ v ∈ (filterPointsM l r m).1, v ∈ l := by
  fun_induction filterPointsM l r m with
  | case1 => simp
  | case2 => simp
  | case3 m r p q t hrem l' m' hempty =>
    intro v hv; exact List.mem_cons_of_mem _ (mem_rotr.mp hv)
  | case4 m r p q t hrem l' m' hempty ih =>
    intro v hv; exact List.mem_cons_of_mem _ (mem_rotr.mp (ih v hv))
  | case5 m r p q t hrem m' hr => intro v hv; exact mem_rotl.mp hv
  | case6 m r p q t hrem m' hr ih => intro v hv; exact mem_rotl.mp (ih v hv)


private theorem quad_identity (a p q b : Node) : area a p q + area a q b = area a p b + area p q b := by
  simp only [area, PolygonKernels.area]; ring

/-- `cure_local_intersections`: removing p and p.next and emitting (a, p, b) misses exactly the triangle p, p.next, b -/
theorem cureLoop_area (l : List Node) (r : Nat) :
    signedArea l = signedArea (cureLoop l r).1 + sumTri (cureLoop l r).2.1 + sumCure (cureLoop l r).2.2 := by
  fun_induction cureLoop l r with
  | case1 r p q b c t htest a rest ih =>
    have e1 := ear_removal_area p q (b :: c :: t)
    have e2 := ear_removal_area q b (c :: t)
    have hq := quad_identity a p q b
    simp only [lastOr] at e1 e2
    rw [signedArea_rotl] at ih
    simp only [sumTri, sumCure, List.map_cons, List.sum_cons, triArea, cureDefect] at ih ⊢
    rw [e1, e2]
    linarith
  | case2 r p q b c t htest hr => simp [sumTri, sumCure, signedArea_rotl]
  | case3 r p q b c t htest hr ih => rw [signedArea_rotl] at ih; exact ih
  | case4 l r hl => simp [sumTri, sumCure, signedArea_rotBy]

private theorem cureLoop_subset (l : List Node) (r : Nat) : ∀ v ∈ (cureLoop l r).1, v ∈ l := by
  fun_induction cureLoop l r with
  | case1 r p q b c t htest a rest ih =>
    intro v hv
    have := mem_rotl.mp (ih v hv)
    exact List.mem_cons_of_mem _ (List.mem_cons_of_mem _ this)
  | case2 r p q b c t htest hr => intro v hv; exact mem_rotl.mp hv
  | case3 r p q b c t htest hr ih => intro v hv; exact mem_rotl.mp (ih v hv)
  | case4 l r hl => intro v hv; exact mem_rotBy.mp hv


private theorem term_congr {p p' q q' : Node} (h1 : p'.x = p.x) (h2 : p'.y = p.y) (h3 : q'.x = q.x) (h4 : q'.y = q.y) :
    term p' q' = term p q := by
  simp only [term, h1, h2, h3, h4]

private theorem pathSum_congr_head {p p' : Node} (h1 : p'.x = p.x) (h2 : p'.y = p.y) (l : List Node) :
    pathSum p' l = pathSum p l := by
  cases l with
  | nil => rfl
  | cons q qs => simp only [pathSum, term_congr h1 h2 rfl rfl]

/-- `split_polygon` inside one ring: the two rings together have the signed area of the original ring -/
theorem splitAt_area (la : List Node) (j : Nat) :
    signedArea la = signedArea (splitAt la j).1 + signedArea (splitAt la j).2 := by
  unfold splitAt
  split
  · rename_i a xs b ys h1 h2
    have hla : la = (a :: xs) ++ (b :: ys) := by rw [← h1, ← h2, List.take_append_drop]
    rw [hla]
    simp only [signedArea, List.cons_append, pathSum, pathSum_append, lastOr, lastOr_append]
    have t1 : term ({ b with steiner := false } : Node) ({ a with steiner := false } : Node) = - term a b := by
      rw [← term_swap]
      exact term_congr (p := b) (p' := { b with steiner := false }) (q := a) (q' := { a with steiner := false }) rfl rfl rfl rfl
    have t2 : pathSum ({ a with steiner := false } : Node) xs = pathSum a xs :=
      pathSum_congr_head (p := a) (p' := { a with steiner := false }) rfl rfl xs
    have t3 : term (lastOr ({ a with steiner := false } : Node) xs) ({ b with steiner := false } : Node)
        = term (lastOr a xs) b := by
      cases xs with
      | nil =>
        exact term_congr (p := a) (p' := { a with steiner := false }) (q := b) (q' := { b with steiner := false })
          rfl rfl rfl rfl
      | cons x xs' =>
        exact term_congr (p := lastOr x xs') (p' := lastOr x xs') (q := b) (q' := { b with steiner := false })
          rfl rfl rfl rfl
    rw [t1, t2, t3]; ring
  · simp [signedArea]


/-- `v` is (a copy of) a node of the ring `l`: same source point, coordinates and index -/
private def FromRing (l : List Node) (v : Node) : Prop := ∃ u ∈ l, Node.same v u
private def Sub (l' l : List Node) : Prop := ∀ v ∈ l', FromRing l v

private theorem same_refl (v : Node) : Node.same v v := ⟨rfl, rfl, rfl, rfl⟩
private theorem same_trans {a b c : Node} (h1 : Node.same a b) (h2 : Node.same b c) : Node.same a c :=
  ⟨h1.1.trans h2.1, h1.2.1.trans h2.2.1, h1.2.2.1.trans h2.2.2.1, h1.2.2.2.trans h2.2.2.2⟩
private theorem sub_of_mem {l' l : List Node} (h : ∀ v ∈ l', v ∈ l) : Sub l' l :=
  fun v hv => ⟨v, h v hv, same_refl v⟩
private theorem fromRing_trans {l' l : List Node} (h : Sub l' l) {v : Node} (hv : FromRing l' v) : FromRing l v := by
  obtain ⟨u, hu, hs⟩ := hv
  obtain ⟨w, hw, hs'⟩ := h u hu
  exact ⟨w, hw, same_trans hs hs'⟩
private theorem sub_trans {a b c : List Node} (h1 : Sub a b) (h2 : Sub b c) : Sub a c :=
  fun v hv => fromRing_trans h2 (h1 v hv)

private theorem splitAt_sub (la : List Node) (j : Nat) : Sub (splitAt la j).1 la ∧ Sub (splitAt la j).2 la := by
  unfold splitAt
  split
  · rename_i a xs b ys h1 h2
    have hla : la = (a :: xs) ++ (b :: ys) := by rw [← h1, ← h2, List.take_append_drop]
    constructor
    · apply sub_of_mem
      intro v hv
      rw [hla]
      simp only [List.mem_cons, List.mem_append] at hv ⊢
      rcases hv with rfl | rfl | hv <;> simp_all
    · intro v hv
      simp only [List.mem_cons] at hv
      rcases hv with rfl | rfl | hv
      · exact ⟨b, by rw [hla]; simp, rfl, rfl, rfl, rfl⟩
      · exact ⟨a, by rw [hla]; simp, rfl, rfl, rfl, rfl⟩
      · exact ⟨v, by rw [hla]; simp [hv], same_refl v⟩
  · exact ⟨sub_of_mem (fun v hv => hv), by intro v hv; simp at hv⟩

private theorem findSplit_spec (l r1 r2 : List Node) (h : findSplit l = some (r1, r2)) :
    signedArea l = signedArea r1 + signedArea r2 ∧ Sub r1 l ∧ Sub r2 l := by
  unfold findSplit at h
  obtain ⟨s, _, hs⟩ := List.exists_of_findSome?_eq_some h
  obtain ⟨d, _, hd⟩ := List.exists_of_findSome?_eq_some hs
  simp only at hd
  split at hd
  · simp only [Option.some.injEq, Prod.mk.injEq] at hd
    obtain ⟨rfl, rfl⟩ := hd
    have ha := splitAt_area (rotBy s l) (d + 2)
    have hsub := splitAt_sub (rotBy s l) (d + 2)
    have hrot : Sub (rotBy s l) l := sub_of_mem (fun v hv => mem_rotBy.mp hv)
    refine ⟨?_, ?_, ?_⟩
    · simp only [filterPoints, filterPoints_area]
      rw [← ha, signedArea_rotBy]
    · exact sub_trans (sub_trans (sub_of_mem (filterPoints_subset _ _ _)) hsub.1) hrot
    · exact sub_trans (sub_trans (sub_of_mem (filterPoints_subset _ _ _)) hsub.2) hrot
  · simp at hd


private theorem sumTri_append (a b : List Tri) : sumTri (a ++ b) = sumTri a + sumTri b := by simp [sumTri]
private theorem sumRings_append (a b : List (List Node)) : sumRings (a ++ b) = sumRings a + sumRings b := by
  simp [sumRings]
private theorem sumCure_append (a b : List Cure) : sumCure (a ++ b) = sumCure a + sumCure b := by simp [sumCure]

/-- Area balance of the whole ear slicing loop, for every ring, every pass and every amount of fuel:
signed area of the ring = emitted triangles + rings the run stopped on + triangles lost by `cure_local_intersections`. -/
theorem earcutLinked_area (fuel : Nat) (l : List Node) (k pass : Nat) :
    signedArea l = (earcutLinked fuel l k pass).area := by
  induction fuel generalizing l k pass with
  | zero => simp [earcutLinked, Out.area, sumTri, sumRings, sumCure]
  | succ fuel ih =>
    unfold earcutLinked
    split
    · simp [Out.area, sumTri, sumRings, sumCure]
    · split
      · split
        · rename_i b c r _ _
          have h := ih (rotl (c :: r)) 0 pass
          rw [signedArea_rotl] at h
          simp only [Out.area, sumTri, List.map_cons, List.sum_cons, triArea] at h ⊢
          rw [ear_removal_area]; linarith
        · simp [Out.area, sumTri, sumRings, sumCure]
      · split
        · rw [← ih, signedArea_rotl]
        · split
          · rw [← ih]; simp only [filterPoints, filterPoints_area, signedArea_rotl]
          · split
            · have hc := cureLoop_area (filterPoints (rotl l) (rotl l).length) (filterPoints (rotl l) (rotl l).length).length
              have h := ih (filterPoints (cureLoop (filterPoints (rotl l) (rotl l).length)
                (filterPoints (rotl l) (rotl l).length).length).1 (cureLoop (filterPoints (rotl l) (rotl l).length)
                (filterPoints (rotl l) (rotl l).length).length).1.length) 0 2
              simp only [filterPoints, filterPoints_area, signedArea_rotl] at hc h
              simp only [Out.area, sumTri_append, sumCure_append, filterPoints] at h ⊢
              linarith
            · dsimp only
              split
              · simp [Out.area, sumTri, sumRings, sumCure, signedArea_rotl]
              · rename_i r1 r2 hsp
                have hs := (findSplit_spec _ _ _ hsp).1
                rw [signedArea_rotl] at hs
                have h1 := ih r1 0 0
                have h2 := ih r2 0 0
                simp only [Out.area, Out.append, sumTri_append, sumRings_append, sumCure_append] at h1 h2 ⊢
                linarith


private theorem signedArea_short (l : List Node) (h : l.length < 3) : signedArea l = 0 := by
  match l, h with
  | [], _ => rfl
  | [a], _ => simp [signedArea, pathSum, lastOr, term, PolygonKernels.signedAreaTerm]
  | [a, b], _ => simp only [signedArea, pathSum, lastOr, term_swap a b]; ring

private theorem sumRings_short (rs : List (List Node)) (h : ∀ r ∈ rs, r.length < 3) : sumRings rs = 0 := by
  induction rs with
  | nil => rfl
  | cons r rs ih =>
    simp only [sumRings, List.map_cons, List.sum_cons] at ih ⊢
    rw [signedArea_short r (h r (by simp)), ih (fun r' hr' => h r' (by simp [hr']))]; ring

/-- `earcut_conserves`: when the run is complete (every ring was reduced to fewer than three nodes, nothing was cured, fuel
did not run out) the signed areas of the emitted triangles sum exactly to the signed area of the ring. -/
theorem earcut_conserves (fuel : Nat) (l : List Node) (k pass : Nat)
    (h : (earcutLinked fuel l k pass).complete) :
    sumTri (earcutLinked fuel l k pass).tris = signedArea l := by
  have := earcutLinked_area fuel l k pass
  obtain ⟨h1, h2, _⟩ := h
  simp only [Out.area, sumRings_short _ h1, h2, sumCure] at this
  simp at this
  exact this.symm

private theorem cureLoop_nil (l : List Node) (r : Nat) (h : (cureLoop l r).2.2 = []) : (cureLoop l r).2.1 = [] := by
  fun_induction cureLoop l r with
  | case1 r p q b c t htest a rest ih => simp at h
  | case2 r p q b c t htest hr => rfl
  | case3 r p q b c t htest hr ih => exact ih h
  | case4 l r hl => rfl

private theorem lastOr_mem (c : Node) (r : List Node) : lastOr c r ∈ c :: r := by
  have := dropLast_append_lastOr c r
  rw [← this]; simp

private theorem cureLoop_tris_mem (l : List Node) (r : Nat) :
    ∀ t ∈ (cureLoop l r).2.1, t.1 ∈ l ∧ t.2.1 ∈ l ∧ t.2.2 ∈ l := by
  fun_induction cureLoop l r with
  | case1 r p q b c t htest a rest ih =>
    intro tr htr
    simp only [List.mem_cons] at htr
    rcases htr with rfl | htr
    · refine ⟨?_, by simp, by simp⟩
      have := lastOr_mem c t
      simp only [List.mem_cons] at this ⊢
      rcases this with h | h <;> simp [a, h]
    · have := ih tr htr
      simp only [mem_rotl] at this
      exact ⟨by simp [this.1], by simp [this.2.1], by simp [this.2.2]⟩
  | case2 r p q b c t htest hr => simp
  | case3 r p q b c t htest hr ih =>
    intro tr htr
    have := ih tr htr
    simp only [mem_rotl] at this
    exact this
  | case4 l r hl => simp

private theorem isEar_area_neg (b c : Node) (r : List Node) (h : isEar (b :: c :: r) = true) :
    area (lastOr c r) b c < 0 := by
  simp only [isEar, PolygonKernels.isEarReflex] at h
  by_cases hr : PolygonKernels.area (lastOr c r).x (lastOr c r).y b.x b.y c.x c.y ≥ 0
  · simp [hr] at h
  · simpa [area] using hr

/-- every triangle cut off by the ear test is strictly counter-clockwise (`area < 0`), so together with `earcut_conserves`
the absolute triangle areas of a complete run sum to the absolute area of the ring -/
theorem earcut_triangles_ccw (fuel : Nat) (l : List Node) (k pass : Nat)
    (h : (earcutLinked fuel l k pass).cured = []) :
    ∀ t ∈ (earcutLinked fuel l k pass).tris, triArea t < 0 := by
  induction fuel generalizing l k pass with
  | zero => simp [earcutLinked]
  | succ fuel ih =>
    unfold earcutLinked at h ⊢
    split at h
    · split
      · simp
      · contradiction
    · rename_i hlen
      rw [if_neg hlen]
      split at h
      · rename_i hear
        rw [if_pos hear]
        split at h
        · rename_i b c r
          intro t ht
          simp only [List.mem_cons] at ht
          rcases ht with rfl | ht
          · exact isEar_area_neg b c r hear
          · exact ih _ _ _ h t ht
        · simp
      · rename_i hear
        rw [if_neg hear]
        split at h
        · rename_i hk; rw [if_pos hk]; exact ih _ _ _ h
        · rename_i hk
          rw [if_neg hk]
          split at h
          · rename_i hp; rw [if_pos hp]; exact ih _ _ _ h
          · rename_i hp
            rw [if_neg hp]
            split at h
            · rename_i hp1
              rw [if_pos hp1]
              simp only [List.append_eq_nil_iff] at h
              intro t ht
              simp only [cureLoop_nil _ _ h.1, List.nil_append] at ht
              exact ih _ _ _ h.2 t ht
            · rename_i hp1
              rw [if_neg hp1]
              dsimp only at h ⊢
              split at h
              · simp
              · rename_i r1 r2 hs
                simp only [Out.append, List.append_eq_nil_iff] at h ⊢
                intro t ht
                rcases List.mem_append.mp ht with ht | ht
                · exact ih _ _ _ h.1 t ht
                · exact ih _ _ _ h.2 t ht


private def TriFrom (l : List Node) (t : Tri) : Prop := FromRing l t.1 ∧ FromRing l t.2.1 ∧ FromRing l t.2.2

private theorem triFrom_trans {l' l : List Node} (h : Sub l' l) {t : Tri} (ht : TriFrom l' t) : TriFrom l t :=
  ⟨fromRing_trans h ht.1, fromRing_trans h ht.2.1, fromRing_trans h ht.2.2⟩

private theorem earcut_vertices_aux (fuel : Nat) (l : List Node) (k pass : Nat) :
    ∀ t ∈ (earcutLinked fuel l k pass).tris, TriFrom l t := by
  induction fuel generalizing l k pass with
  | zero => simp [earcutLinked]
  | succ fuel ih =>
    unfold earcutLinked
    split
    · simp
    · split
      · split
        · rename_i b c r _ _
          have hsub : Sub (rotl (c :: r)) (b :: c :: r) :=
            sub_of_mem (fun v hv => List.mem_cons_of_mem _ (mem_rotl.mp hv))
          intro t ht
          simp only [List.mem_cons] at ht
          rcases ht with rfl | ht
          · exact ⟨⟨_, List.mem_cons_of_mem _ (lastOr_mem c r), same_refl _⟩, ⟨b, by simp, same_refl _⟩,
              ⟨c, by simp, same_refl _⟩⟩
          · exact triFrom_trans hsub (ih _ _ _ t ht)
        · simp
      · have hrot : Sub (rotl l) l := sub_of_mem (fun v hv => mem_rotl.mp hv)
        split
        · intro t ht; exact triFrom_trans hrot (ih _ _ _ t ht)
        · split
          · intro t ht
            exact triFrom_trans (sub_trans (sub_of_mem (filterPoints_subset _ _ _)) hrot) (ih _ _ _ t ht)
          · split
            · have hf : Sub (filterPoints (rotl l) (rotl l).length) l :=
                sub_trans (sub_of_mem (filterPoints_subset _ _ _)) hrot
              intro t ht
              rcases List.mem_append.mp ht with ht | ht
              · have := cureLoop_tris_mem _ _ t ht
                exact triFrom_trans hf ⟨⟨_, this.1, same_refl _⟩, ⟨_, this.2.1, same_refl _⟩, ⟨_, this.2.2, same_refl _⟩⟩
              · refine triFrom_trans (sub_trans ?_ hf) (ih _ _ _ t ht)
                exact sub_trans (sub_of_mem (filterPoints_subset _ _ _)) (sub_of_mem (cureLoop_subset _ _))
            · dsimp only
              split
              · simp
              · rename_i r1 r2 hsp
                have hs := findSplit_spec _ _ _ hsp
                intro t ht
                simp only [Out.append] at ht
                rcases List.mem_append.mp ht with ht | ht
                · exact triFrom_trans (sub_trans hs.2.1 hrot) (ih _ _ _ t ht)
                · exact triFrom_trans (sub_trans hs.2.2 hrot) (ih _ _ _ t ht)

/-- every vertex of every emitted triangle is a node of the input ring (same source point, same coordinates) -/
theorem earcut_triangle_vertices (fuel : Nat) (l : List Node) (k pass : Nat) :
    ∀ t ∈ (earcutLinked fuel l k pass).tris, ∀ v ∈ [t.1, t.2.1, t.2.2], ∃ u ∈ l, Node.same v u := by
  intro t ht v hv
  have := earcut_vertices_aux fuel l k pass t ht
  simp only [List.mem_cons, List.not_mem_nil, or_false] at hv
  rcases hv with rfl | rfl | rfl
  · exact this.1
  · exact this.2.1
  · exact this.2.2


/-! ## D. `linked_list` and `eliminate_hole` -/

private theorem pathSum_reverse (a b : Node) (l : List Node) :
    pathSum b (l.reverse ++ [a]) = - pathSum a (l ++ [b]) := by
  induction l generalizing a with
  | nil => simp [pathSum, term_swap a b]
  | cons q qs ih =>
    simp only [List.reverse_cons, List.cons_append, pathSum, pathSum_append, lastOr_append, lastOr, ih q]
    rw [term_swap a q]; ring

private theorem signedArea_closed (p : Node) (ps : List Node) : signedArea (p :: ps) = pathSum p (ps ++ [p]) := by
  simp only [signedArea, pathSum, pathSum_append]; ring

/-- reversing the vertex order negates the signed area -/
theorem signedArea_reverse (l : List Node) : signedArea l.reverse = - signedArea l := by
  cases l with
  | nil => simp [signedArea]
  | cons p ps =>
    rw [List.reverse_cons, signedArea_append_comm, List.singleton_append, signedArea_closed, signedArea_closed,
      pathSum_reverse]

private theorem pathSum_setIndex (p : Node) (l : List Node) (s : Nat) : pathSum p (setIndex l s) = pathSum p l := by
  induction l generalizing p s with
  | nil => rfl
  | cons q qs ih =>
    simp only [setIndex, pathSum]
    rw [pathSum_congr_head (p := q) (p' := { q with i := s }) rfl rfl, ih]
    rw [term_congr (p := p) (p' := p) (q := q) (q' := { q with i := s }) rfl rfl rfl rfl]

private theorem lastOr_setIndex_xy (p p' : Node) (hx : p'.x = p.x) (hy : p'.y = p.y) (l : List Node) (s : Nat) :
    (lastOr p' (setIndex l s)).x = (lastOr p l).x ∧ (lastOr p' (setIndex l s)).y = (lastOr p l).y := by
  induction l generalizing p p' s with
  | nil => exact ⟨hx, hy⟩
  | cons q qs ih => exact ih q { q with i := s } rfl rfl (s + 1)

private theorem signedArea_setIndex (l : List Node) (s : Nat) : signedArea (setIndex l s) = signedArea l := by
  cases l with
  | nil => rfl
  | cons p ps =>
    simp only [setIndex, signedArea, pathSum]
    have h := lastOr_setIndex_xy p { p with i := s } rfl rfl ps (s + 1)
    rw [pathSum_congr_head (p := p) (p' := { p with i := s }) rfl rfl, pathSum_setIndex]
    rw [term_congr (p := lastOr p ps) (q := p) (q' := { p with i := s }) h.1 h.2 rfl rfl]

private theorem nodeEq_area_zero (a p q : Node) (h : nodeEq p q = true) : area a p q = 0 := by
  simp only [nodeEq, PolygonKernels.nodeEq, Bool.and_eq_true, decide_eq_true_eq] at h
  simp only [area, PolygonKernels.area, h.1, h.2]; ring

private theorem dropDuplicateLast_area (l : List Node) : signedArea (dropDuplicateLast l) = signedArea l := by
  unfold dropDuplicateLast
  split
  · rename_i last nxt t
    split
    · rename_i he
      rw [ear_removal_area last nxt t, nodeEq_area_zero _ _ _ he]; ring
    · rfl
  · rfl

/-- `linked_list(points, start, ccw=True)` yields a ring of non-positive signed area (counter-clockwise in the code's sign
convention), `ccw=False` a ring of non-negative signed area, and in both cases the magnitude is that of the input points. -/
theorem linkedList_area (pts : List Pt) (start ptOff : Nat) (ccw : Bool) :
    signedArea (linkedList pts start ptOff ccw) =
      if (signedArea (mkNodes pts ptOff) < 0) = (ccw = true) then signedArea (mkNodes pts ptOff)
      else - signedArea (mkNodes pts ptOff) := by
  unfold linkedList
  simp only [dropDuplicateLast_area, signedArea_rotr, PolygonKernels.sameWinding]
  by_cases hneg : signedArea (mkNodes pts ptOff) < 0 <;> cases ccw <;>
    simp [hneg, signedArea_setIndex, signedArea_reverse]

/-- `split_polygon(bridge, hole)` across two rings: the merged ring has the sum of the two signed areas (the two bridge
edges cancel) -/
theorem mergeHole_area (a : Node) (as : List Node) (b : Node) (bs : List Node) :
    signedArea (mergeHole (a :: as) (b :: bs)).1 = signedArea (a :: as) + signedArea (b :: bs) := by
  simp only [mergeHole, signedArea, pathSum, pathSum_append, lastOr, lastOr_append, List.cons_append]
  have t1 : term ({ b with steiner := false } : Node) ({ a with steiner := false } : Node) = - term a b := by
    rw [← term_swap]
    exact term_congr (p := b) (p' := { b with steiner := false }) (q := a) (q' := { a with steiner := false }) rfl rfl rfl rfl
  have t2 : pathSum ({ a with steiner := false } : Node) as = pathSum a as :=
    pathSum_congr_head (p := a) (p' := { a with steiner := false }) rfl rfl as
  have t3 : term (lastOr ({ a with steiner := false } : Node) as) a = term (lastOr a as) a := by
    cases as with
    | nil => exact term_congr (p := a) (p' := { a with steiner := false }) (q := a) (q' := a) rfl rfl rfl rfl
    | cons x xs => rfl
  have t4 : term (lastOr b bs) ({ b with steiner := false } : Node) = term (lastOr b bs) b :=
    term_congr (p := lastOr b bs) (p' := lastOr b bs) (q := b) (q' := { b with steiner := false }) rfl rfl rfl rfl
  rw [t1, t2, t3, t4]; ring

/-- `eliminate_hole`: whenever the model covers the situation (flag false), the outer ring is returned unchanged in area
(no bridge found) or with exactly the hole's signed area added; `filter_points` around the cut changes nothing -/
theorem eliminateHole_area (hole outer : List Node) (h : (eliminateHole hole outer).2 = false) :
    signedArea (eliminateHole hole outer).1 = signedArea outer ∨
    signedArea (eliminateHole hole outer).1 = signedArea outer + signedArea hole := by
  unfold eliminateHole at h ⊢
  split
  · exact Or.inl rfl
  · rename_i hd tl
    split
    · exact Or.inl rfl
    · rename_i idx hb
      simp only [hb] at h
      have hm : signedArea (mergeHole (rotBy idx outer) (hd :: tl)).1 = signedArea outer ∨
          signedArea (mergeHole (rotBy idx outer) (hd :: tl)).1 = signedArea outer + signedArea (hd :: tl) := by
        cases hro : rotBy idx outer with
        | nil =>
          left
          have := signedArea_rotBy idx outer
          rw [hro] at this
          simp [mergeHole, ← this]
        | cons a as =>
          right
          rw [mergeHole_area, ← hro, signedArea_rotBy]
      dsimp only at h ⊢
      split
      · simp only [filterPoints, filterPoints_area, signedArea_rotBy]; exact hm
      · split
        · split <;> simp only [filterPoints, filterPoints_area, signedArea_rotBy] <;> exact hm
        · rename_i hk
          simp_all
      · simp_all


/-- The headline for a polygon without holes: if the model of `earcut(exterior, [])` completes, the signed areas of the
triangles sum to minus the absolute value of the shoelace sum of the input (the ring is made counter-clockwise first), and
every triangle is counter-clockwise; so the absolute triangle areas sum exactly to the polygon area. -/
theorem earcut_no_holes_conserves (fuel : Nat) (exterior : List Pt) (o : Out) (d : Bool)
    (h : earcut fuel exterior [] = .ok o d) (hc : o.complete) :
    sumTri o.tris = (if signedArea (mkNodes exterior 0) < 0 then signedArea (mkNodes exterior 0)
      else - signedArea (mkNodes exterior 0)) ∧ ∀ t ∈ o.tris, triArea t < 0 := by
  unfold earcut at h
  split at h
  · simp at h
  · dsimp only at h
    split at h
    · simp only [EarcutResult.ok.injEq] at h
      obtain ⟨rfl, _⟩ := h
      have hl := linkedList_area exterior 0 0 true
      have hs := signedArea_short _ (by assumption)
      rw [hs] at hl
      simp only [eq_iff_iff, iff_true] at hl
      refine ⟨?_, by simp⟩
      simp only [sumTri, List.map_nil, List.sum_nil]
      split_ifs at hl ⊢ <;> linarith
    · simp only [List.length_nil, Nat.lt_irrefl, if_false, EarcutResult.ok.injEq] at h
      obtain ⟨rfl, _⟩ := h
      refine ⟨?_, earcut_triangles_ccw _ _ _ _ hc.2.1⟩
      rw [earcut_conserves _ _ _ _ hc, linkedList_area]
      simp

/-! ## E. Sutherland-Hodgman (`ConvexClippingPolygon2d.clip_polygon`) -/

private theorem shInside_iff (cs ce p : Pt) : shInside cs ce p = true ↔ 0 < sideOf cs ce p := by
  simp [shInside, PolygonKernels.shInside, sideOf]

private theorem sideOf_lerp (c d a b : Pt) (t : Rat) :
    sideOf c d (lerp a b t) = (1 - t) * sideOf c d a + t * sideOf c d b := by
  simp only [sideOf, lerp]; ring

/-- `intersection_line_line_2d(..., virtual=True)`: a returned point is the point of the subject line with parameter
`side(s1) / (side(s1) - side(s2))`, and the denominator is not zero -/
private theorem lineLine_virtual (tol : Rat) (htol : 0 ≤ tol) (s1 s2 c1 c2 ip : Pt)
    (h : lineLine true tol s1 s2 c1 c2 = some ip) :
    sideOf c1 c2 s1 - sideOf c1 c2 s2 ≠ 0 ∧
    ip = lerp s1 s2 (sideOf c1 c2 s1 / (sideOf c1 c2 s1 - sideOf c1 c2 s2)) := by
  simp only [lineLine, PolygonKernels.lineLine] at h
  split at h
  · simp at h
  · rename_i hden
    simp only [decide_eq_true_eq, not_le] at hden
    have hd : sideOf c1 c2 s1 - sideOf c1 c2 s2
        = (c2.y - c1.y) * (s2.x - s1.x) - (c2.x - c1.x) * (s2.y - s1.y) := by simp only [sideOf]; ring
    constructor
    · rw [hd]
      intro h0
      rw [h0] at hden
      simp only [PolygonKernels.rabs] at hden
      norm_num at hden
      linarith
    · simp only [if_true, Option.map_some, Option.some.injEq] at h
      rw [← h, hd]
      simp only [lerp, sideOf]

private theorem cut_param_range (A B : Rat) (h : (A ≤ 0 ∧ 0 < B) ∨ (0 < A ∧ B ≤ 0)) :
    0 ≤ A / (A - B) ∧ A / (A - B) ≤ 1 := by
  rcases h with ⟨hA, hB⟩ | ⟨hA, hB⟩
  · have hd : 0 < B - A := by linarith
    have e : A / (A - B) = (-A) / (B - A) := by rw [← neg_div_neg_eq]; ring_nf
    rw [e]
    exact ⟨div_nonneg (by linarith) hd.le, (div_le_one hd).mpr (by linarith)⟩
  · have hd : 0 < A - B := by linarith
    exact ⟨div_nonneg hA.le hd.le, (div_le_one hd).mpr (by linarith)⟩

/-- the two cases in which `clip_polygon` calls `edge_intersection()` -/
private def Opposite (cs ce es ee : Pt) : Prop :=
  (shInside cs ce ee = true ∧ shInside cs ce es = false) ∨ (shInside cs ce ee = false ∧ shInside cs ce es = true)

private theorem shCut_spec (cs ce : Pt) (tol : Rat) (htol : 0 ≤ tol) (es ee ip : Pt) (hop : Opposite cs ce es ee)
    (hip : ip ∈ shCut cs ce tol es ee) :
    sideOf cs ce ip = 0 ∧ ∃ t : Rat, 0 ≤ t ∧ t ≤ 1 ∧ ip = lerp es ee t := by
  unfold shCut at hip
  split at hip
  · rename_i ip' hll
    simp only [List.mem_singleton] at hip
    subst hip
    obtain ⟨hne, hlerp⟩ := lineLine_virtual tol htol es ee cs ce ip hll
    have hr : 0 ≤ sideOf cs ce es / (sideOf cs ce es - sideOf cs ce ee) ∧
        sideOf cs ce es / (sideOf cs ce es - sideOf cs ce ee) ≤ 1 := by
      apply cut_param_range
      rcases hop with ⟨h1, h2⟩ | ⟨h1, h2⟩
      · left
        rw [shInside_iff] at h1
        have : ¬ 0 < sideOf cs ce es := by rw [← shInside_iff]; simp [h2]
        exact ⟨by linarith, h1⟩
      · right
        rw [shInside_iff] at h2
        have : ¬ 0 < sideOf cs ce ee := by rw [← shInside_iff]; simp [h1]
        exact ⟨h2, by linarith⟩
    refine ⟨?_, _, hr.1, hr.2, hlerp⟩
    rw [hlerp, sideOf_lerp]
    field_simp
    ring
  · simp at hip

private theorem clipEdgeGo_forall (cs ce : Pt) (tol : Rat) (P : Pt → Prop) (es0 : Pt) (l : List Pt)
    (hin : ∀ ee ∈ l, shInside cs ce ee = true → P ee)
    (hcut : ∀ es ∈ es0 :: l, ∀ ee ∈ l, ∀ ip, Opposite cs ce es ee → ip ∈ shCut cs ce tol es ee → P ip) :
    ∀ v ∈ clipEdgeGo cs ce tol es0 l, P v := by
  induction l generalizing es0 with
  | nil => simp [clipEdgeGo]
  | cons ee rest ih =>
    intro v hv
    simp only [clipEdgeGo, List.mem_append] at hv
    rcases hv with hv | hv
    · by_cases hee : shInside cs ce ee = true
      · simp only [hee, if_true, List.mem_append, List.mem_singleton] at hv
        rcases hv with hv | rfl
        · by_cases hes : shInside cs ce es0 = true
          · simp [hes] at hv
          · simp only [hes, Bool.not_false, if_true] at hv
            exact hcut es0 (by simp) ee (by simp) v (Or.inl ⟨hee, by simpa using hes⟩) hv
        · exact hin _ (by simp) hee
      · simp only [hee] at hv
        by_cases hes : shInside cs ce es0 = true
        · simp only [hes, if_true] at hv
          exact hcut es0 (by simp) ee (by simp) v (Or.inr ⟨by simpa using hee, hes⟩) (by simpa using hv)
        · simp [hes] at hv
    · refine ih ee (fun e he => hin e (List.mem_cons_of_mem _ he)) ?_ v hv
      intro es hes e he ip hop hip
      exact hcut es (List.mem_cons_of_mem _ hes) e (List.mem_cons_of_mem _ he) ip hop hip

private theorem lastPt_mem (p : Pt) (l : List Pt) : lastPt p l ∈ p :: l := by
  induction l generalizing p with
  | nil => simp [lastPt]
  | cons q qs ih => simp only [lastPt]; exact List.mem_cons_of_mem _ (ih q)

private theorem popClosing_subset (v : List Pt) (tol : Rat) : ∀ p ∈ popClosing v tol, p ∈ v := by
  unfold popClosing
  split
  · split
    · intro p hp; exact List.dropLast_subset _ hp
    · intro p hp; exact hp
  · intro p hp; exact hp

private theorem clipEdge_forall (cs ce : Pt) (tol : Rat) (P : Pt → Prop) (poly : List Pt)
    (hin : ∀ ee ∈ poly, shInside cs ce ee = true → P ee)
    (hcut : ∀ es ∈ poly, ∀ ee ∈ poly, ∀ ip, Opposite cs ce es ee → ip ∈ shCut cs ce tol es ee → P ip) :
    ∀ v ∈ clipEdge cs ce tol poly, P v := by
  unfold clipEdge
  split
  · simp
  · rename_i v vs hpc
    have hsub : ∀ p ∈ v :: vs, p ∈ poly := by
      intro p hp; rw [← hpc] at hp; exact popClosing_subset _ _ p hp
    apply clipEdgeGo_forall
    · intro ee hee; exact hin ee (hsub ee hee)
    · intro es hes ee hee ip hop hip
      refine hcut es ?_ ee (hsub ee hee) ip hop hip
      simp only [List.mem_cons] at hes
      rcases hes with rfl | hes
      · exact hsub _ (lastPt_mem v vs)
      · exact hsub es (by simpa using hes)

/-- `sh_edge_inside`: after clipping against the edge `cs -> ce` every vertex lies in the closed half-plane left of it -/
theorem clipEdge_in_halfplane (cs ce : Pt) (tol : Rat) (htol : 0 ≤ tol) (poly : List Pt) :
    ∀ v ∈ clipEdge cs ce tol poly, 0 ≤ sideOf cs ce v := by
  apply clipEdge_forall
  · intro ee _ h; exact le_of_lt ((shInside_iff _ _ _).mp h)
  · intro es _ ee _ ip hop hip
    exact le_of_eq (shCut_spec cs ce tol htol es ee ip hop hip).1.symm

/-- every new vertex lies on the segment between two consecutive old vertices, so any closed half-plane that contains the
polygon before the step contains it afterwards -/
theorem clipEdge_preserves_halfplane (cs ce : Pt) (tol : Rat) (htol : 0 ≤ tol) (c d : Pt) (poly : List Pt)
    (h : ∀ v ∈ poly, 0 ≤ sideOf c d v) : ∀ v ∈ clipEdge cs ce tol poly, 0 ≤ sideOf c d v := by
  apply clipEdge_forall
  · intro ee hee _; exact h ee hee
  · intro es hes ee hee ip hop hip
    obtain ⟨_, t, ht0, ht1, rfl⟩ := shCut_spec cs ce tol htol es ee ip hop hip
    rw [sideOf_lerp]
    have := h es hes
    have := h ee hee
    have h1 : 0 ≤ 1 - t := by linarith
    positivity


/-- `sh_edge_on_input`: every vertex produced by one clipping step is an old vertex or a point `es + t (ee - es)`,
`0 ≤ t ≤ 1`, between two old vertices (which are consecutive: `edge_start`, `edge_end`) -/
theorem clipEdge_on_input (cs ce : Pt) (tol : Rat) (htol : 0 ≤ tol) (poly : List Pt) :
    ∀ v ∈ clipEdge cs ce tol poly,
      v ∈ poly ∨ ∃ es ∈ poly, ∃ ee ∈ poly, ∃ t : Rat, 0 ≤ t ∧ t ≤ 1 ∧ v = lerp es ee t := by
  apply clipEdge_forall
  · intro ee hee _; exact Or.inl hee
  · intro es hes ee hee ip hop hip
    obtain ⟨_, t, ht0, ht1, h⟩ := shCut_spec cs ce tol htol es ee ip hop hip
    exact Or.inr ⟨es, hes, ee, hee, t, ht0, ht1, h⟩

private theorem clipEdgeGo_keeps (cs ce : Pt) (tol : Rat) (es0 : Pt) (l : List Pt) :
    ∀ v ∈ l, shInside cs ce v = true → v ∈ clipEdgeGo cs ce tol es0 l := by
  induction l generalizing es0 with
  | nil => simp
  | cons ee rest ih =>
    intro v hv hin
    simp only [clipEdgeGo, List.mem_append]
    simp only [List.mem_cons] at hv
    rcases hv with rfl | hv
    · left; simp [hin]
    · right; exact ih ee v hv hin

/-- `sh_keeps_inside_vertices`: a vertex strictly left of the clipping edge survives the step -/
theorem clipEdge_keeps_inside (cs ce : Pt) (tol : Rat) (poly : List Pt) :
    ∀ v ∈ popClosing poly tol, shInside cs ce v = true → v ∈ clipEdge cs ce tol poly := by
  intro v hv hin
  unfold clipEdge
  split
  · rename_i h; rw [h] at hv; simp at hv
  · rename_i w ws h
    rw [h] at hv
    exact clipEdgeGo_keeps cs ce tol _ _ v hv hin

private theorem clipPolygonGo_inside (tol : Rat) (htol : 0 ≤ tol) (es : List Pt) (cs : Pt) (poly : List Pt)
    (done : List (Pt × Pt)) (hdone : ∀ e ∈ done, ∀ v ∈ poly, 0 ≤ sideOf e.1 e.2 v) :
    ∀ v ∈ clipPolygonGo tol cs es poly, ∀ e ∈ done ++ clipEdges cs es, 0 ≤ sideOf e.1 e.2 v := by
  induction es generalizing cs poly done with
  | nil =>
    intro v hv e he
    simp only [clipEdges, List.append_nil] at he
    exact hdone e he v hv
  | cons ce rest ih =>
    intro v hv e he
    simp only [clipPolygonGo] at hv
    have := ih ce (clipEdge cs ce tol poly) ((cs, ce) :: done) (by
      intro e' he' w hw
      simp only [List.mem_cons] at he'
      rcases he' with rfl | he'
      · exact clipEdge_in_halfplane cs ce tol htol poly w hw
      · exact clipEdge_preserves_halfplane cs ce tol htol e'.1 e'.2 poly (hdone e' he') w hw) v hv e
    apply this
    simp only [clipEdges, List.mem_append, List.mem_cons] at he ⊢
    tauto

/-- Sutherland-Hodgman as coded, for any clipping polygon and any subject polygon: every vertex of the result lies in the
closed left half-plane of every clipping edge, i.e. inside the clipping polygon when that is convex and counter-clockwise. -/
theorem clipPolygon_inside (clip : List Pt) (tol : Rat) (htol : 0 ≤ tol) (poly : List Pt) (hclip : clip ≠ []) :
    ∀ v ∈ clipPolygon clip tol poly, ∀ e ∈ polygonEdges clip, 0 ≤ sideOf e.1 e.2 v := by
  cases clip with
  | nil => contradiction
  | cons c cs =>
    intro v hv e he
    exact clipPolygonGo_inside tol htol (c :: cs) (lastPt c cs) poly [] (by simp) v hv e (by simpa [polygonEdges] using he)


/-! ### E2. Sutherland-Hodgman, session 3: result inside the convex hull of the subject, subject outside one clipping
edge => empty, subject strictly inside => unchanged -/

private theorem clipPolygonGo_forall_halfplane (tol : Rat) (htol : 0 ≤ tol) (c d : Pt) (es : List Pt) (cs : Pt) (poly : List Pt)
    (h : ∀ v ∈ poly, 0 ≤ sideOf c d v) : ∀ v ∈ clipPolygonGo tol cs es poly, 0 ≤ sideOf c d v := by
  induction es generalizing cs poly with
  | nil => simpa [clipPolygonGo] using h
  | cons ce rest ih =>
    simp only [clipPolygonGo]
    exact ih ce _ (clipEdge_preserves_halfplane cs ce tol htol c d poly h)

/-- the result lies in the closed convex hull of the subject: every closed half-plane that contains all subject vertices
contains all result vertices (together with `clipPolygon_inside`: result ⊆ clip ∩ hull(subject)) -/
theorem clipPolygon_in_subject_hull (clip : List Pt) (tol : Rat) (htol : 0 ≤ tol) (poly : List Pt) (c d : Pt)
    (h : ∀ v ∈ poly, 0 ≤ sideOf c d v) : ∀ v ∈ clipPolygon clip tol poly, 0 ≤ sideOf c d v := by
  cases clip with
  | nil => simpa [clipPolygon] using h
  | cons a as => exact clipPolygonGo_forall_halfplane tol htol c d (a :: as) (lastPt a as) poly h

private theorem sideOf_swap (c d v : Pt) : sideOf d c v = - sideOf c d v := by simp only [sideOf]; ring

private theorem clipEdgeGo_all_outside (cs ce : Pt) (tol : Rat) (es0 : Pt) (l : List Pt)
    (h0 : shInside cs ce es0 = false) (h : ∀ v ∈ l, shInside cs ce v = false) : clipEdgeGo cs ce tol es0 l = [] := by
  induction l generalizing es0 with
  | nil => rfl
  | cons ee rest ih =>
    have hee := h ee (by simp)
    simp only [clipEdgeGo, hee, h0, Bool.false_eq_true, if_false, List.nil_append]
    exact ih ee hee (fun v hv => h v (List.mem_cons_of_mem _ hv))

private theorem clipEdge_all_outside (cs ce : Pt) (tol : Rat) (poly : List Pt)
    (h : ∀ v ∈ poly, shInside cs ce v = false) : clipEdge cs ce tol poly = [] := by
  unfold clipEdge
  split
  · rfl
  · rename_i v vs hpc
    have hsub : ∀ p ∈ v :: vs, p ∈ poly := by
      intro p hp; rw [← hpc] at hp; exact popClosing_subset _ _ p hp
    exact clipEdgeGo_all_outside cs ce tol _ _ (h _ (hsub _ (lastPt_mem v vs))) (fun p hp => h p (hsub p hp))

private theorem clipPolygonGo_nil (tol : Rat) (cs : Pt) (es : List Pt) : clipPolygonGo tol cs es [] = [] := by
  induction es generalizing cs with
  | nil => rfl
  | cons ce rest ih =>
    simp only [clipPolygonGo]
    have : clipEdge cs ce tol [] = [] := by simp [clipEdge, popClosing]
    rw [this]; exact ih ce

private theorem clipPolygonGo_outside (tol : Rat) (htol : 0 ≤ tol) (e : Pt × Pt) (es : List Pt) (cs : Pt) (poly : List Pt)
    (he : e ∈ clipEdges cs es) (h : ∀ v ∈ poly, sideOf e.1 e.2 v ≤ 0) : clipPolygonGo tol cs es poly = [] := by
  induction es generalizing cs poly with
  | nil => simp [clipEdges] at he
  | cons ce rest ih =>
    simp only [clipEdges, List.mem_cons] at he
    simp only [clipPolygonGo]
    rcases he with rfl | he
    · have : clipEdge cs ce tol poly = [] := by
        apply clipEdge_all_outside
        intro v hv
        have := h v hv
        by_contra hc
        have : shInside cs ce v = true := by simpa using hc
        rw [shInside_iff] at this
        linarith
      rw [this]
      exact clipPolygonGo_nil tol ce rest
    · apply ih ce _ he
      intro v hv
      have := clipEdge_preserves_halfplane cs ce tol htol e.2 e.1 poly
        (fun w hw => by rw [sideOf_swap]; have := h w hw; linarith) v hv
      rw [sideOf_swap] at this
      linarith

/-- `clip_outside_empty`: a subject polygon that lies in the closed right half-plane of ONE clipping edge (outside or
touching from outside) is clipped to nothing, for any clipping polygon -/
theorem clip_outside_empty (clip : List Pt) (tol : Rat) (htol : 0 ≤ tol) (poly : List Pt) (e : Pt × Pt)
    (he : e ∈ polygonEdges clip) (h : ∀ v ∈ poly, sideOf e.1 e.2 v ≤ 0) : clipPolygon clip tol poly = [] := by
  cases clip with
  | nil => simp [polygonEdges] at he
  | cons a as => exact clipPolygonGo_outside tol htol e (a :: as) (lastPt a as) poly (by simpa [polygonEdges] using he) h

private theorem clipEdgeGo_all_inside (cs ce : Pt) (tol : Rat) (es0 : Pt) (l : List Pt)
    (h0 : shInside cs ce es0 = true) (h : ∀ v ∈ l, shInside cs ce v = true) : clipEdgeGo cs ce tol es0 l = l := by
  induction l generalizing es0 with
  | nil => rfl
  | cons ee rest ih =>
    have hee := h ee (by simp)
    simp only [clipEdgeGo, hee, h0, if_true, Bool.not_true, Bool.false_eq_true, if_false, List.nil_append, List.singleton_append]
    rw [ih ee hee (fun v hv => h v (List.mem_cons_of_mem _ hv))]

private theorem clipEdge_all_inside (cs ce : Pt) (tol : Rat) (poly : List Pt) (hopen : popClosing poly tol = poly)
    (h : ∀ v ∈ poly, shInside cs ce v = true) : clipEdge cs ce tol poly = poly := by
  unfold clipEdge
  rw [hopen]
  match poly, h with
  | [], _ => rfl
  | v :: vs, h => exact clipEdgeGo_all_inside cs ce tol _ _ (h _ (lastPt_mem v vs)) h

private theorem clipPolygonGo_all_inside (tol : Rat) (es : List Pt) (cs : Pt) (poly : List Pt)
    (hopen : popClosing poly tol = poly) (h : ∀ e ∈ clipEdges cs es, ∀ v ∈ poly, shInside e.1 e.2 v = true) :
    clipPolygonGo tol cs es poly = poly := by
  induction es generalizing cs with
  | nil => rfl
  | cons ce rest ih =>
    simp only [clipPolygonGo]
    rw [clipEdge_all_inside cs ce tol poly hopen (h (cs, ce) (by simp [clipEdges]))]
    exact ih ce (fun e he => h e (by simp only [clipEdges, List.mem_cons]; exact Or.inr he))

/-- `clip_inside_identity`: a subject polygon without a repeated closing vertex whose vertices all lie strictly left of every
clipping edge is returned unchanged (same vertices, same order, same start) -/
theorem clip_inside_identity (clip : List Pt) (tol : Rat) (poly : List Pt) (hopen : popClosing poly tol = poly)
    (h : ∀ e ∈ polygonEdges clip, ∀ v ∈ poly, shInside e.1 e.2 v = true) : clipPolygon clip tol poly = poly := by
  cases clip with
  | nil => rfl
  | cons a as => exact clipPolygonGo_all_inside tol (a :: as) (lastPt a as) poly hopen (by simpa [polygonEdges] using h)

/-! ## F. Cohen-Sutherland (`CohenSutherlandLineClipping2d`) -/

/-- position of a coordinate relative to the window interval -/
private inductive Cls | lo | mid | hi
  deriving DecidableEq

private def clsOf (a lo hi : Rat) : Cls := if a < lo then .lo else if a > hi then .hi else .mid

private def codeOf : Cls → Cls → Nat
  | .lo, .lo => 5 | .lo, .mid => 1 | .lo, .hi => 9
  | .mid, .lo => 4 | .mid, .mid => 0 | .mid, .hi => 8
  | .hi, .lo => 6 | .hi, .mid => 2 | .hi, .hi => 10

private theorem encode_eq (w : Win) (x y : Rat) :
    w.encode x y = codeOf (clsOf x w.xmin w.xmax) (clsOf y w.ymin w.ymax) := by
  simp only [Win.encode, PolygonKernels.csEncode, clsOf]
  by_cases h1 : y < w.ymin <;> by_cases h2 : y > w.ymax <;> by_cases h3 : x < w.xmin <;> by_cases h4 : x > w.xmax <;>
    simp [h1, h2, h3, h4, codeOf]

private theorem clsOf_lo {a lo hi : Rat} : clsOf a lo hi = .lo ↔ a < lo := by
  unfold clsOf; split_ifs <;> simp_all
private theorem clsOf_hi {a lo hi : Rat} (h : lo ≤ hi) : clsOf a lo hi = .hi ↔ a > hi := by
  unfold clsOf
  split_ifs with h1 h2
  · simp only [false_iff, not_lt]; linarith
  · simp [h2]
  · simp [h2]
private theorem clsOf_mid {a lo hi : Rat} : clsOf a lo hi = .mid ↔ lo ≤ a ∧ a ≤ hi := by
  unfold clsOf
  split_ifs with h1 h2
  · simp only [false_iff, not_and, not_le]; intro h; linarith
  · simp only [false_iff, not_and, not_le]; intro _; exact h2
  · simp only [true_iff]; exact ⟨not_lt.mp h1, not_lt.mp h2⟩

/-- `encode(x, y) == 0` exactly for the points of the closed window -/
theorem encode_zero_iff (w : Win) (p : Pt) : w.encode p.x p.y = 0 ↔ w.contains p := by
  rw [encode_eq, Win.contains]
  have hx := @clsOf_mid p.x w.xmin w.xmax
  have hy := @clsOf_mid p.y w.ymin w.ymax
  constructor
  · intro h
    have : clsOf p.x w.xmin w.xmax = .mid ∧ clsOf p.y w.ymin w.ymax = .mid := by
      revert h; cases clsOf p.x w.xmin w.xmax <;> cases clsOf p.y w.ymin w.ymax <;> simp [codeOf]
    exact ⟨(hx.mp this.1).1, (hx.mp this.1).2, (hy.mp this.2).1, (hy.mp this.2).2⟩
  · intro h
    rw [hx.mpr ⟨h.1, h.2.1⟩, hy.mpr ⟨h.2.2.1, h.2.2.2⟩]; rfl

/-- number of window constraints violated by at least one of two coordinates on one axis -/
private def f (a b : Cls) : Nat := (if a = .hi ∨ b = .hi then 1 else 0) + (if a = .lo ∨ b = .lo then 1 else 0)

private theorem f_comm (a b : Cls) : f a b = f b a := by cases a <;> cases b <;> rfl
private theorem f_le_two (a b : Cls) : f a b ≤ 2 := by cases a <;> cases b <;> decide
/-- the clipped axis: the violated constraint disappears -/
private theorem f_dec (aE aO : Cls) (h : (aE = .hi ∧ aO ≠ .hi) ∨ (aE = .lo ∧ aO ≠ .lo)) : f .mid aO < f aE aO := by
  cases aE <;> cases aO <;> simp_all [f]
/-- the other axis: a convex combination violates nothing new -/
private theorem f_mono (bQ bE bO : Cls) (h1 : bQ = .hi → bE = .hi ∨ bO = .hi) (h2 : bQ = .lo → bE = .lo ∨ bO = .lo) :
    f bQ bO ≤ f bE bO := by
  cases bQ <;> cases bE <;> cases bO <;> simp_all [f]

private def V (w : Win) (x0 y0 x1 y1 : Rat) : Nat :=
  f (clsOf x0 w.xmin w.xmax) (clsOf x1 w.xmin w.xmax) + f (clsOf y0 w.ymin w.ymax) (clsOf y1 w.ymin w.ymax)

/-- the control decisions of one loop iteration as a function of the four position classes -/
private theorem step_table (cx0 cy0 cx1 cy1 : Cls)
    (hacc : PolygonKernels.csAccept (codeOf cx0 cy0) (codeOf cx1 cy1) = false)
    (hrej : PolygonKernels.csReject (codeOf cx0 cy0) (codeOf cx1 cy1) = false) :
    (PolygonKernels.csPick (codeOf cx0 cy0) (codeOf cx1 cy1) = codeOf cx0 cy0 →
      (codeOf cx0 cy0 &&& 8 ≠ 0 ∧ cy0 = .hi ∧ cy1 ≠ .hi) ∨
      (codeOf cx0 cy0 &&& 8 = 0 ∧ codeOf cx0 cy0 &&& 4 ≠ 0 ∧ cy0 = .lo ∧ cy1 ≠ .lo) ∨
      (codeOf cx0 cy0 &&& 8 = 0 ∧ codeOf cx0 cy0 &&& 4 = 0 ∧ codeOf cx0 cy0 &&& 2 ≠ 0 ∧ cx0 = .hi ∧ cx1 ≠ .hi) ∨
      (codeOf cx0 cy0 &&& 8 = 0 ∧ codeOf cx0 cy0 &&& 4 = 0 ∧ codeOf cx0 cy0 &&& 2 = 0 ∧ codeOf cx0 cy0 &&& 1 ≠ 0 ∧
        cx0 = .lo ∧ cx1 ≠ .lo)) ∧
    (PolygonKernels.csPick (codeOf cx0 cy0) (codeOf cx1 cy1) ≠ codeOf cx0 cy0 →
      PolygonKernels.csPick (codeOf cx0 cy0) (codeOf cx1 cy1) = codeOf cx1 cy1 ∧
      ((codeOf cx1 cy1 &&& 8 ≠ 0 ∧ cy1 = .hi ∧ cy0 ≠ .hi) ∨
      (codeOf cx1 cy1 &&& 8 = 0 ∧ codeOf cx1 cy1 &&& 4 ≠ 0 ∧ cy1 = .lo ∧ cy0 ≠ .lo) ∨
      (codeOf cx1 cy1 &&& 8 = 0 ∧ codeOf cx1 cy1 &&& 4 = 0 ∧ codeOf cx1 cy1 &&& 2 ≠ 0 ∧ cx1 = .hi ∧ cx0 ≠ .hi) ∨
      (codeOf cx1 cy1 &&& 8 = 0 ∧ codeOf cx1 cy1 &&& 4 = 0 ∧ codeOf cx1 cy1 &&& 2 = 0 ∧ codeOf cx1 cy1 &&& 1 ≠ 0 ∧
        cx1 = .lo ∧ cx0 ≠ .lo))) := by
  revert hacc hrej
  cases cx0 <;> cases cy0 <;> cases cx1 <;> cases cy1 <;>
    simp [codeOf, PolygonKernels.csAccept, PolygonKernels.csReject, PolygonKernels.csPick]

private theorem clip_param (u0 u1 b : Rat) (hne : u0 ≠ u1) (hb : (u0 ≤ b ∧ b ≤ u1) ∨ (u1 ≤ b ∧ b ≤ u0)) :
    0 ≤ (b - u0) / (u1 - u0) ∧ (b - u0) / (u1 - u0) ≤ 1 := by
  rcases hb with ⟨h1, h2⟩ | ⟨h1, h2⟩
  · have hd : 0 < u1 - u0 := by
      rcases lt_or_eq_of_le (le_trans h1 h2) with h | h
      · linarith
      · exact absurd h hne
    exact ⟨div_nonneg (by linarith) hd.le, (div_le_one hd).mpr (by linarith)⟩
  · have hd : 0 < u0 - u1 := by
      rcases lt_or_eq_of_le (le_trans h1 h2) with h | h
      · linarith
      · exact absurd h.symm hne
    have e : (b - u0) / (u1 - u0) = (u0 - b) / (u0 - u1) := by rw [← neg_div_neg_eq]; ring_nf
    rw [e]
    exact ⟨div_nonneg (by linarith) hd.le, (div_le_one hd).mpr (by linarith)⟩

private theorem convex_le (a0 a1 s hi : Rat) (hs0 : 0 ≤ s) (hs1 : s ≤ 1) (h0 : a0 ≤ hi) (h1 : a1 ≤ hi) :
    a0 + s * (a1 - a0) ≤ hi := by
  have e : a0 + s * (a1 - a0) = (1 - s) * a0 + s * a1 := by ring
  rw [e]
  have : (1 - s) * a0 ≤ (1 - s) * hi := mul_le_mul_of_nonneg_left h0 (by linarith)
  have : s * a1 ≤ s * hi := mul_le_mul_of_nonneg_left h1 hs0
  linarith

private theorem convex_ge (a0 a1 s lo : Rat) (hs0 : 0 ≤ s) (hs1 : s ≤ 1) (h0 : lo ≤ a0) (h1 : lo ≤ a1) :
    lo ≤ a0 + s * (a1 - a0) := by
  have e : a0 + s * (a1 - a0) = (1 - s) * a0 + s * a1 := by ring
  rw [e]
  have : (1 - s) * lo ≤ (1 - s) * a0 := mul_le_mul_of_nonneg_left h0 (by linarith)
  have : s * lo ≤ s * a1 := mul_le_mul_of_nonneg_left h1 hs0
  linarith

private theorem cls_convex (a0 a1 s lo hi : Rat) (hlh : lo ≤ hi) (hs0 : 0 ≤ s) (hs1 : s ≤ 1) :
    (clsOf (a0 + s * (a1 - a0)) lo hi = .hi → clsOf a0 lo hi = .hi ∨ clsOf a1 lo hi = .hi) ∧
    (clsOf (a0 + s * (a1 - a0)) lo hi = .lo → clsOf a0 lo hi = .lo ∨ clsOf a1 lo hi = .lo) := by
  simp only [clsOf_hi hlh, clsOf_lo]
  constructor
  · intro h
    by_contra hc
    simp only [not_or, not_lt] at hc
    have := convex_le a0 a1 s hi hs0 hs1 hc.1 hc.2
    linarith
  · intro h
    by_contra hc
    simp only [not_or, not_lt] at hc
    have := convex_ge a0 a1 s lo hs0 hs1 hc.1 hc.2
    linarith

private theorem cls_bound_mid_hi {lo hi : Rat} (h : lo ≤ hi) : clsOf hi lo hi = .mid := clsOf_mid.mpr ⟨h, le_refl _⟩
private theorem cls_bound_mid_lo {lo hi : Rat} (h : lo ≤ hi) : clsOf lo lo hi = .mid := clsOf_mid.mpr ⟨le_refl _, h⟩

private theorem ne_hi {a lo hi : Rat} (hlh : lo ≤ hi) (h : clsOf a lo hi ≠ .hi) : a ≤ hi := by
  by_contra hc; exact h ((clsOf_hi hlh).mpr (not_le.mp hc))
private theorem ne_lo {a lo hi : Rat} (h : clsOf a lo hi ≠ .lo) : lo ≤ a := by
  by_contra hc; exact h (clsOf_lo.mpr (not_le.mp hc))

/-- position classes after one clipping iteration: `bit` is the handled outcode bit, E the replaced end point, O the other
one, Q the new point -/
private def StepFacts (bit : Nat) (cxE cyE cxO cyO cxQ cyQ : Cls) : Prop :=
  (bit = 8 ∧ cyQ = .mid ∧ cyE = .hi ∧ cyO ≠ .hi) ∨ (bit = 4 ∧ cyQ = .mid ∧ cyE = .lo ∧ cyO ≠ .lo) ∨
  (bit = 2 ∧ cxQ = .mid ∧ cxE = .hi ∧ cxO ≠ .hi) ∨ (bit = 1 ∧ cxQ = .mid ∧ cxE = .lo ∧ cxO ≠ .lo)

/-- a point between two points violates no window constraint that neither of them violates -/
private def Conv (aQ a0 a1 : Cls) : Prop := (aQ = .hi → a0 = .hi ∨ a1 = .hi) ∧ (aQ = .lo → a0 = .lo ∨ a1 = .lo)

/-- One iteration that neither accepts nor rejects, for outcodes that are not masked: the new point is `P0 + s (P1 - P0)`
with `0 ≤ s ≤ 1`; it lies on the window edge that was clipped; the other end point does not violate that edge. -/
private theorem cs_step (w : Win) (hx : w.xmin ≤ w.xmax) (hy : w.ymin ≤ w.ymax) (x0 y0 x1 y1 x y : Rat)
    (hacc : PolygonKernels.csAccept (w.encode x0 y0) (w.encode x1 y1) = false)
    (hrej : PolygonKernels.csReject (w.encode x0 y0) (w.encode x1 y1) = false) :
    ∃ s : Rat, 0 ≤ s ∧ s ≤ 1 ∧
      PolygonKernels.csClipX (PolygonKernels.csPick (w.encode x0 y0) (w.encode x1 y1)) x y x0 y0 x1 y1
        w.xmin w.xmax w.ymin w.ymax = x0 + s * (x1 - x0) ∧
      PolygonKernels.csClipY (PolygonKernels.csPick (w.encode x0 y0) (w.encode x1 y1)) x y x0 y0 x1 y1
        w.xmin w.xmax w.ymin w.ymax = y0 + s * (y1 - y0) ∧
      Conv (clsOf (x0 + s * (x1 - x0)) w.xmin w.xmax) (clsOf x0 w.xmin w.xmax) (clsOf x1 w.xmin w.xmax) ∧
      Conv (clsOf (y0 + s * (y1 - y0)) w.ymin w.ymax) (clsOf y0 w.ymin w.ymax) (clsOf y1 w.ymin w.ymax) ∧
      (PolygonKernels.csPick (w.encode x0 y0) (w.encode x1 y1) = w.encode x0 y0 →
        StepFacts (PolygonKernels.csClipBit (PolygonKernels.csPick (w.encode x0 y0) (w.encode x1 y1)))
          (clsOf x0 w.xmin w.xmax) (clsOf y0 w.ymin w.ymax) (clsOf x1 w.xmin w.xmax) (clsOf y1 w.ymin w.ymax)
          (clsOf (x0 + s * (x1 - x0)) w.xmin w.xmax) (clsOf (y0 + s * (y1 - y0)) w.ymin w.ymax)) ∧
      (PolygonKernels.csPick (w.encode x0 y0) (w.encode x1 y1) ≠ w.encode x0 y0 →
        StepFacts (PolygonKernels.csClipBit (PolygonKernels.csPick (w.encode x0 y0) (w.encode x1 y1)))
          (clsOf x1 w.xmin w.xmax) (clsOf y1 w.ymin w.ymax) (clsOf x0 w.xmin w.xmax) (clsOf y0 w.ymin w.ymax)
          (clsOf (x0 + s * (x1 - x0)) w.xmin w.xmax) (clsOf (y0 + s * (y1 - y0)) w.ymin w.ymax)) := by
  rw [encode_eq, encode_eq] at hacc hrej ⊢
  obtain ⟨t0, t1⟩ := step_table _ _ _ _ hacc hrej
  have vertical : ∀ b : Rat, (b = w.ymax ∨ b = w.ymin) → y0 ≠ y1 → ((y0 ≤ b ∧ b ≤ y1) ∨ (y1 ≤ b ∧ b ≤ y0)) →
      ∃ s : Rat, 0 ≤ s ∧ s ≤ 1 ∧ x0 + (x1 - x0) * (b - y0) / (y1 - y0) = x0 + s * (x1 - x0) ∧
        b = y0 + s * (y1 - y0) ∧ clsOf (y0 + s * (y1 - y0)) w.ymin w.ymax = .mid := by
    intro b hb hne hbt
    have hr := clip_param y0 y1 b hne hbt
    have hd : y1 - y0 ≠ 0 := sub_ne_zero.mpr (Ne.symm hne)
    have hbe : b = y0 + (b - y0) / (y1 - y0) * (y1 - y0) := by field_simp; ring
    refine ⟨(b - y0) / (y1 - y0), hr.1, hr.2, by ring, hbe, ?_⟩
    rw [← hbe]
    rcases hb with rfl | rfl
    · exact cls_bound_mid_hi hy
    · exact cls_bound_mid_lo hy
  have horizontal : ∀ b : Rat, (b = w.xmax ∨ b = w.xmin) → x0 ≠ x1 → ((x0 ≤ b ∧ b ≤ x1) ∨ (x1 ≤ b ∧ b ≤ x0)) →
      ∃ s : Rat, 0 ≤ s ∧ s ≤ 1 ∧ b = x0 + s * (x1 - x0) ∧
        y0 + (y1 - y0) * (b - x0) / (x1 - x0) = y0 + s * (y1 - y0) ∧ clsOf (x0 + s * (x1 - x0)) w.xmin w.xmax = .mid := by
    intro b hb hne hbt
    have hr := clip_param x0 x1 b hne hbt
    have hd : x1 - x0 ≠ 0 := sub_ne_zero.mpr (Ne.symm hne)
    have hbe : b = x0 + (b - x0) / (x1 - x0) * (x1 - x0) := by field_simp; ring
    refine ⟨(b - x0) / (x1 - x0), hr.1, hr.2, hbe, by ring, ?_⟩
    rw [← hbe]
    rcases hb with rfl | rfl
    · exact cls_bound_mid_hi hx
    · exact cls_bound_mid_lo hx
  have conv : ∀ s : Rat, 0 ≤ s → s ≤ 1 →
      Conv (clsOf (x0 + s * (x1 - x0)) w.xmin w.xmax) (clsOf x0 w.xmin w.xmax) (clsOf x1 w.xmin w.xmax) ∧
      Conv (clsOf (y0 + s * (y1 - y0)) w.ymin w.ymax) (clsOf y0 w.ymin w.ymax) (clsOf y1 w.ymin w.ymax) :=
    fun s h0 h1 => ⟨cls_convex x0 x1 s w.xmin w.xmax hx h0 h1, cls_convex y0 y1 s w.ymin w.ymax hy h0 h1⟩
  by_cases hpick : PolygonKernels.csPick (codeOf (clsOf x0 w.xmin w.xmax) (clsOf y0 w.ymin w.ymax))
      (codeOf (clsOf x1 w.xmin w.xmax) (clsOf y1 w.ymin w.ymax)) = codeOf (clsOf x0 w.xmin w.xmax) (clsOf y0 w.ymin w.ymax)
  · rw [hpick]
    rcases t0 hpick with ⟨b8, c0, c1⟩ | ⟨b8, b4, c0, c1⟩ | ⟨b8, b4, b2, c0, c1⟩ | ⟨b8, b4, b2, b1, c0, c1⟩
    · have g0 := (clsOf_hi hy).mp c0
      have g1 := ne_hi hy c1
      obtain ⟨s, h0, h1, ex, ey, hm⟩ := vertical w.ymax (Or.inl rfl) (by intro h; linarith) (Or.inr ⟨g1, g0.le⟩)
      refine ⟨s, h0, h1, ?_, ?_, (conv s h0 h1).1, (conv s h0 h1).2, fun _ => Or.inl ⟨?_, hm, c0, c1⟩, fun h => absurd rfl h⟩
      · simp only [PolygonKernels.csClipX, b8, ne_eq, not_false_eq_true, decide_true, if_true]; exact ex
      · simp only [PolygonKernels.csClipY, b8, ne_eq, not_false_eq_true, decide_true, if_true]; exact ey
      · simp only [PolygonKernels.csClipBit, b8, ne_eq, not_false_eq_true, decide_true, if_true]
    · have g0 := clsOf_lo.mp c0
      have g1 := ne_lo c1
      obtain ⟨s, h0, h1, ex, ey, hm⟩ := vertical w.ymin (Or.inr rfl) (by intro h; linarith) (Or.inl ⟨g0.le, g1⟩)
      refine ⟨s, h0, h1, ?_, ?_, (conv s h0 h1).1, (conv s h0 h1).2, fun _ => Or.inr (Or.inl ⟨?_, hm, c0, c1⟩),
        fun h => absurd rfl h⟩
      · simp only [PolygonKernels.csClipX, b8, b4, ne_eq, not_true_eq_false, not_false_eq_true, decide_true, decide_false,
          if_true, Bool.false_eq_true, if_false]; exact ex
      · simp only [PolygonKernels.csClipY, b8, b4, ne_eq, not_true_eq_false, not_false_eq_true, decide_true, decide_false,
          if_true, Bool.false_eq_true, if_false]; exact ey
      · simp only [PolygonKernels.csClipBit, b8, b4, ne_eq, not_true_eq_false, not_false_eq_true, decide_true, decide_false,
          if_true, Bool.false_eq_true, if_false]
    · have g0 := (clsOf_hi hx).mp c0
      have g1 := ne_hi hx c1
      obtain ⟨s, h0, h1, ex, ey, hm⟩ := horizontal w.xmax (Or.inl rfl) (by intro h; linarith) (Or.inr ⟨g1, g0.le⟩)
      refine ⟨s, h0, h1, ?_, ?_, (conv s h0 h1).1, (conv s h0 h1).2, fun _ => Or.inr (Or.inr (Or.inl ⟨?_, hm, c0, c1⟩)),
        fun h => absurd rfl h⟩
      · simp only [PolygonKernels.csClipX, b8, b4, b2, ne_eq, not_true_eq_false, not_false_eq_true, decide_true,
          decide_false, if_true, Bool.false_eq_true, if_false]; exact ex
      · simp only [PolygonKernels.csClipY, b8, b4, b2, ne_eq, not_true_eq_false, not_false_eq_true, decide_true,
          decide_false, if_true, Bool.false_eq_true, if_false]; exact ey
      · simp only [PolygonKernels.csClipBit, b8, b4, b2, ne_eq, not_true_eq_false, not_false_eq_true, decide_true,
          decide_false, if_true, Bool.false_eq_true, if_false]
    · have g0 := clsOf_lo.mp c0
      have g1 := ne_lo c1
      obtain ⟨s, h0, h1, ex, ey, hm⟩ := horizontal w.xmin (Or.inr rfl) (by intro h; linarith) (Or.inl ⟨g0.le, g1⟩)
      refine ⟨s, h0, h1, ?_, ?_, (conv s h0 h1).1, (conv s h0 h1).2, fun _ => Or.inr (Or.inr (Or.inr ⟨?_, hm, c0, c1⟩)),
        fun h => absurd rfl h⟩
      · simp only [PolygonKernels.csClipX, b8, b4, b2, b1, ne_eq, not_true_eq_false, not_false_eq_true, decide_true,
          decide_false, if_true, Bool.false_eq_true, if_false]; exact ex
      · simp only [PolygonKernels.csClipY, b8, b4, b2, b1, ne_eq, not_true_eq_false, not_false_eq_true, decide_true,
          decide_false, if_true, Bool.false_eq_true, if_false]; exact ey
      · simp only [PolygonKernels.csClipBit, b8, b4, b2, b1, ne_eq, not_true_eq_false, not_false_eq_true, decide_true,
          decide_false, if_true, Bool.false_eq_true, if_false]
  · obtain ⟨hp1, hcases⟩ := t1 hpick
    rw [hp1]
    rw [hp1] at hpick
    rcases hcases with ⟨b8, c0, c1⟩ | ⟨b8, b4, c0, c1⟩ | ⟨b8, b4, b2, c0, c1⟩ | ⟨b8, b4, b2, b1, c0, c1⟩
    · have g0 := (clsOf_hi hy).mp c0
      have g1 := ne_hi hy c1
      obtain ⟨s, h0, h1, ex, ey, hm⟩ := vertical w.ymax (Or.inl rfl) (by intro h; linarith) (Or.inl ⟨g1, g0.le⟩)
      refine ⟨s, h0, h1, ?_, ?_, (conv s h0 h1).1, (conv s h0 h1).2, fun h => absurd h hpick, fun _ => Or.inl ⟨?_, hm, c0, c1⟩⟩
      · simp only [PolygonKernels.csClipX, b8, ne_eq, not_false_eq_true, decide_true, if_true]; exact ex
      · simp only [PolygonKernels.csClipY, b8, ne_eq, not_false_eq_true, decide_true, if_true]; exact ey
      · simp only [PolygonKernels.csClipBit, b8, ne_eq, not_false_eq_true, decide_true, if_true]
    · have g0 := clsOf_lo.mp c0
      have g1 := ne_lo c1
      obtain ⟨s, h0, h1, ex, ey, hm⟩ := vertical w.ymin (Or.inr rfl) (by intro h; linarith) (Or.inr ⟨g0.le, g1⟩)
      refine ⟨s, h0, h1, ?_, ?_, (conv s h0 h1).1, (conv s h0 h1).2, fun h => absurd h hpick,
        fun _ => Or.inr (Or.inl ⟨?_, hm, c0, c1⟩)⟩
      · simp only [PolygonKernels.csClipX, b8, b4, ne_eq, not_true_eq_false, not_false_eq_true, decide_true, decide_false,
          if_true, Bool.false_eq_true, if_false]; exact ex
      · simp only [PolygonKernels.csClipY, b8, b4, ne_eq, not_true_eq_false, not_false_eq_true, decide_true, decide_false,
          if_true, Bool.false_eq_true, if_false]; exact ey
      · simp only [PolygonKernels.csClipBit, b8, b4, ne_eq, not_true_eq_false, not_false_eq_true, decide_true, decide_false,
          if_true, Bool.false_eq_true, if_false]
    · have g0 := (clsOf_hi hx).mp c0
      have g1 := ne_hi hx c1
      obtain ⟨s, h0, h1, ex, ey, hm⟩ := horizontal w.xmax (Or.inl rfl) (by intro h; linarith) (Or.inl ⟨g1, g0.le⟩)
      refine ⟨s, h0, h1, ?_, ?_, (conv s h0 h1).1, (conv s h0 h1).2, fun h => absurd h hpick,
        fun _ => Or.inr (Or.inr (Or.inl ⟨?_, hm, c0, c1⟩))⟩
      · simp only [PolygonKernels.csClipX, b8, b4, b2, ne_eq, not_true_eq_false, not_false_eq_true, decide_true,
          decide_false, if_true, Bool.false_eq_true, if_false]; exact ex
      · simp only [PolygonKernels.csClipY, b8, b4, b2, ne_eq, not_true_eq_false, not_false_eq_true, decide_true,
          decide_false, if_true, Bool.false_eq_true, if_false]; exact ey
      · simp only [PolygonKernels.csClipBit, b8, b4, b2, ne_eq, not_true_eq_false, not_false_eq_true, decide_true,
          decide_false, if_true, Bool.false_eq_true, if_false]
    · have g0 := clsOf_lo.mp c0
      have g1 := ne_lo c1
      obtain ⟨s, h0, h1, ex, ey, hm⟩ := horizontal w.xmin (Or.inr rfl) (by intro h; linarith) (Or.inr ⟨g0.le, g1⟩)
      refine ⟨s, h0, h1, ?_, ?_, (conv s h0 h1).1, (conv s h0 h1).2, fun h => absurd h hpick,
        fun _ => Or.inr (Or.inr (Or.inr ⟨?_, hm, c0, c1⟩))⟩
      · simp only [PolygonKernels.csClipX, b8, b4, b2, b1, ne_eq, not_true_eq_false, not_false_eq_true, decide_true,
          decide_false, if_true, Bool.false_eq_true, if_false]; exact ex
      · simp only [PolygonKernels.csClipY, b8, b4, b2, b1, ne_eq, not_true_eq_false, not_false_eq_true, decide_true,
          decide_false, if_true, Bool.false_eq_true, if_false]; exact ey
      · simp only [PolygonKernels.csClipBit, b8, b4, b2, b1, ne_eq, not_true_eq_false, not_false_eq_true, decide_true,
          decide_false, if_true, Bool.false_eq_true, if_false]

/-! ### termination for every window and every segment: each iteration handles an outcode bit that is new for its end point -/

private def pc (d : Nat) : Nat :=
  (if d &&& 8 ≠ 0 then 1 else 0) + (if d &&& 4 ≠ 0 then 1 else 0) + (if d &&& 2 ≠ 0 then 1 else 0) + (if d &&& 1 ≠ 0 then 1 else 0)

private theorem pc_le (d : Nat) : pc d ≤ 4 := by
  unfold pc; split_ifs <;> omega

private theorem mask_bit_facts : ∀ e < 16, ∀ d < 16, PolygonKernels.csMask e d ≠ 0 →
    d ||| PolygonKernels.csClipBit (PolygonKernels.csMask e d) < 16 ∧
    pc (d ||| PolygonKernels.csClipBit (PolygonKernels.csMask e d)) = pc d + 1 := by decide +kernel

private theorem encode_lt (w : Win) (x y : Rat) : w.encode x y < 16 := by
  rw [encode_eq]; cases clsOf x w.xmin w.xmax <;> cases clsOf y w.ymin w.ymax <;> decide

private theorem pick_facts (m0 m1 : Nat) (hacc : PolygonKernels.csAccept m0 m1 = false) :
    (PolygonKernels.csPick m0 m1 = m0 → m0 ≠ 0) ∧
    (PolygonKernels.csPick m0 m1 ≠ m0 → PolygonKernels.csPick m0 m1 = m1 ∧ m1 ≠ 0) := by
  simp only [PolygonKernels.csAccept, Bool.not_eq_false', decide_eq_true_eq, ne_eq, Nat.or_eq_zero_iff, not_and] at hacc
  simp only [PolygonKernels.csPick, decide_eq_true_eq]
  split_ifs with h
  · exact ⟨fun e => by omega, fun _ => ⟨rfl, by omega⟩⟩
  · refine ⟨fun _ h0 => ?_, fun e => absurd rfl e⟩
    exact hacc h0 (by omega)

private theorem csLoop_terminates_all (w : Win) (fuel : Nat) :
    ∀ x0 y0 x1 y1 x y d0 d1, d0 < 16 → d1 < 16 → 8 - (pc d0 + pc d1) < fuel →
      csLoop w fuel x0 y0 x1 y1 x y d0 d1 ≠ .fuel := by
  induction fuel with
  | zero => intro _ _ _ _ _ _ _ _ _ _ h; omega
  | succ n ih =>
    intro x0 y0 x1 y1 x y d0 d1 h0 h1 hM
    simp only [csLoop]
    split
    · simp
    · rename_i hacc
      split
      · simp
      · have pf := pick_facts _ _ (by simpa using hacc)
        split
        · rename_i hp
          have hm := pf.1 hp
          obtain ⟨hlt, hpc⟩ := mask_bit_facts _ (encode_lt w x0 y0) d0 h0 hm
          rw [hp]
          have := pc_le (d0 ||| PolygonKernels.csClipBit (PolygonKernels.csMask (w.encode x0 y0) d0))
          have := pc_le d1
          exact ih _ _ _ _ _ _ _ _ hlt h1 (by simp only [PolygonKernels.csDone, hpc] at *; omega)
        · rename_i hp
          obtain ⟨he, hm⟩ := pf.2 hp
          obtain ⟨hlt, hpc⟩ := mask_bit_facts _ (encode_lt w x1 y1) d1 h1 hm
          rw [he]
          have := pc_le (d1 ||| PolygonKernels.csClipBit (PolygonKernels.csMask (w.encode x1 y1) d1))
          have := pc_le d0
          exact ih _ _ _ _ _ _ _ _ h0 hlt (by simp only [PolygonKernels.csDone, hpc] at *; omega)

/-- `cs_terminates` at full strength, for the code as it is now (already clipped outcode bits are masked per end point):
for EVERY window (also an improper one) and EVERY segment the loop of `clip_line` ends after at most 8 clipping steps, because
every step handles an outcode bit that is new for its end point; fuel 9 is never exhausted.  The bound does not depend on the
arithmetic being exact: it only uses the bookkeeping of `done0`/`done1`. -/
theorem cs_terminates (w : Win) (p0 p1 : Pt) : csClipLine w 9 p0 p1 ≠ .fuel :=
  csLoop_terminates_all w 9 _ _ _ _ _ _ 0 0 (by norm_num) (by norm_num) (by decide)

/-! ### proper windows: the masks never change an outcode in exact arithmetic, at most four steps, sound results -/

private def SatAx (thi tlo : Prop) (a0 a1 : Cls) : Prop := (thi → a0 ≠ .hi ∧ a1 ≠ .hi) ∧ (tlo → a0 ≠ .lo ∧ a1 ≠ .lo)

/-- every window constraint whose bit is in `done0 ||| done1` is satisfied by both current end points -/
private def Sat (D : Nat) (cx0 cy0 cx1 cy1 : Cls) : Prop :=
  SatAx (D &&& 8 ≠ 0) (D &&& 4 ≠ 0) cy0 cy1 ∧ SatAx (D &&& 2 ≠ 0) (D &&& 1 ≠ 0) cx0 cx1

private theorem bits_sub : ∀ d0 < 16, ∀ d1 < 16, ∀ c ∈ [1, 2, 4, 8],
    (d0 &&& c ≠ 0 → (d0 ||| d1) &&& c ≠ 0) ∧ (d1 &&& c ≠ 0 → (d0 ||| d1) &&& c ≠ 0) := by decide +kernel

private theorem code_noop : ∀ cx cy : Cls, ∀ d < 16, (d &&& 8 ≠ 0 → cy ≠ .hi) → (d &&& 4 ≠ 0 → cy ≠ .lo) →
    (d &&& 2 ≠ 0 → cx ≠ .hi) → (d &&& 1 ≠ 0 → cx ≠ .lo) → codeOf cx cy &&& d = 0 := by
  intro cx cy d hd
  interval_cases d <;> cases cx <;> cases cy <;> simp [codeOf]

private theorem sat_noop (d0 d1 : Nat) (h0 : d0 < 16) (h1 : d1 < 16) (cx0 cy0 cx1 cy1 : Cls)
    (h : Sat (d0 ||| d1) cx0 cy0 cx1 cy1) :
    PolygonKernels.csMask (codeOf cx0 cy0) d0 = codeOf cx0 cy0 ∧ PolygonKernels.csMask (codeOf cx1 cy1) d1 = codeOf cx1 cy1 := by
  have b := bits_sub d0 h0 d1 h1
  obtain ⟨⟨y8, y4⟩, ⟨x2, x1⟩⟩ := h
  have e0 := code_noop cx0 cy0 d0 h0 (fun h => (y8 ((b 8 (by simp)).1 h)).1) (fun h => (y4 ((b 4 (by simp)).1 h)).1)
    (fun h => (x2 ((b 2 (by simp)).1 h)).1) (fun h => (x1 ((b 1 (by simp)).1 h)).1)
  have e1 := code_noop cx1 cy1 d1 h1 (fun h => (y8 ((b 8 (by simp)).2 h)).2) (fun h => (y4 ((b 4 (by simp)).2 h)).2)
    (fun h => (x2 ((b 2 (by simp)).2 h)).2) (fun h => (x1 ((b 1 (by simp)).2 h)).2)
  simp [PolygonKernels.csMask, e0, e1]

private theorem bits_step : ∀ d0 < 16, ∀ d1 < 16, ∀ b ∈ [1, 2, 4, 8], ∀ c ∈ [1, 2, 4, 8],
    ((((d0 ||| b) ||| d1) &&& c ≠ 0) ↔ ((d0 ||| d1) &&& c ≠ 0 ∨ c = b)) ∧
    (((d0 ||| (d1 ||| b)) &&& c ≠ 0) ↔ ((d0 ||| d1) &&& c ≠ 0 ∨ c = b)) ∧ d0 ||| b < 16 := by decide +kernel

private theorem conv_ne {aQ a0 a1 : Cls} (c : Conv aQ a0 a1) :
    (a0 ≠ .hi ∧ a1 ≠ .hi → aQ ≠ .hi) ∧ (a0 ≠ .lo ∧ a1 ≠ .lo → aQ ≠ .lo) :=
  ⟨fun h e => (c.1 e).elim h.1 h.2, fun h e => (c.2 e).elim h.1 h.2⟩

private theorem satAx_mono {thi tlo thi' tlo' : Prop} {a0 a1 : Cls} (h : SatAx thi tlo a0 a1) (f1 : thi' → thi)
    (f2 : tlo' → tlo) : SatAx thi' tlo' a0 a1 := ⟨fun t => h.1 (f1 t), fun t => h.2 (f2 t)⟩
private theorem satAx_swap {thi tlo : Prop} {a0 a1 : Cls} (h : SatAx thi tlo a0 a1) : SatAx thi tlo a1 a0 :=
  ⟨fun t => ⟨(h.1 t).2, (h.1 t).1⟩, fun t => ⟨(h.2 t).2, (h.2 t).1⟩⟩
private theorem conv_swap {aQ a0 a1 : Cls} (k : Conv aQ a0 a1) : Conv aQ a1 a0 :=
  ⟨fun h => (k.1 h).symm, fun h => (k.2 h).symm⟩
/-- the clipped axis: the new point sits on the window edge, the other end point does not violate that edge -/
private theorem ax_clip (thi tlo : Prop) (aE aO aQ : Cls) (hq : aQ = .mid) (h : SatAx thi tlo aE aO) :
    (aO ≠ .hi → SatAx True tlo aQ aO) ∧ (aO ≠ .lo → SatAx thi True aQ aO) := by
  subst hq
  exact ⟨fun hO => ⟨fun _ => ⟨by decide, hO⟩, fun t => ⟨by decide, (h.2 t).2⟩⟩,
    fun hO => ⟨fun t => ⟨by decide, (h.1 t).2⟩, fun _ => ⟨by decide, hO⟩⟩⟩
/-- the other axis: the new point lies between the old end points -/
private theorem ax_keep {thi tlo : Prop} {aE aO aQ : Cls} (k : Conv aQ aE aO) (h : SatAx thi tlo aE aO) :
    SatAx thi tlo aQ aO :=
  ⟨fun t => ⟨(conv_ne k).1 (h.1 t), (h.1 t).2⟩, fun t => ⟨(conv_ne k).2 (h.2 t), (h.2 t).2⟩⟩

/-- the invariant survives the replacement of end point 0 -/
private theorem sat_step0 (d0 d1 : Nat) (h0 : d0 < 16) (h1 : d1 < 16) (bit : Nat) (cx0 cy0 cx1 cy1 cxQ cyQ : Cls)
    (hs : Sat (d0 ||| d1) cx0 cy0 cx1 cy1) (kx : Conv cxQ cx0 cx1) (ky : Conv cyQ cy0 cy1)
    (hf : StepFacts bit cx0 cy0 cx1 cy1 cxQ cyQ) :
    d0 ||| bit < 16 ∧ Sat ((d0 ||| bit) ||| d1) cxQ cyQ cx1 cy1 := by
  have B := bits_step d0 h0 d1 h1
  rcases hf with ⟨rfl, hq, hE, hO⟩ | ⟨rfl, hq, hE, hO⟩ | ⟨rfl, hq, hE, hO⟩ | ⟨rfl, hq, hE, hO⟩
  · have Bb := B 8 (by simp)
    exact ⟨(Bb 8 (by simp)).2.2, satAx_mono ((ax_clip _ _ cy0 cy1 cyQ hq hs.1).1 hO)
        (fun t => by first | trivial | exact ((Bb 8 (by simp)).1.mp t).resolve_right (by decide))
        (fun t => by first | trivial | exact ((Bb 4 (by simp)).1.mp t).resolve_right (by decide)),
      satAx_mono (ax_keep kx hs.2)
        (fun t => by first | trivial | exact ((Bb 2 (by simp)).1.mp t).resolve_right (by decide))
        (fun t => by first | trivial | exact ((Bb 1 (by simp)).1.mp t).resolve_right (by decide))⟩
  · have Bb := B 4 (by simp)
    exact ⟨(Bb 8 (by simp)).2.2, satAx_mono ((ax_clip _ _ cy0 cy1 cyQ hq hs.1).2 hO)
        (fun t => by first | trivial | exact ((Bb 8 (by simp)).1.mp t).resolve_right (by decide))
        (fun t => by first | trivial | exact ((Bb 4 (by simp)).1.mp t).resolve_right (by decide)),
      satAx_mono (ax_keep kx hs.2)
        (fun t => by first | trivial | exact ((Bb 2 (by simp)).1.mp t).resolve_right (by decide))
        (fun t => by first | trivial | exact ((Bb 1 (by simp)).1.mp t).resolve_right (by decide))⟩
  · have Bb := B 2 (by simp)
    exact ⟨(Bb 8 (by simp)).2.2, satAx_mono (ax_keep ky hs.1)
        (fun t => by first | trivial | exact ((Bb 8 (by simp)).1.mp t).resolve_right (by decide))
        (fun t => by first | trivial | exact ((Bb 4 (by simp)).1.mp t).resolve_right (by decide)),
      satAx_mono ((ax_clip _ _ cx0 cx1 cxQ hq hs.2).1 hO)
        (fun t => by first | trivial | exact ((Bb 2 (by simp)).1.mp t).resolve_right (by decide))
        (fun t => by first | trivial | exact ((Bb 1 (by simp)).1.mp t).resolve_right (by decide))⟩
  · have Bb := B 1 (by simp)
    exact ⟨(Bb 8 (by simp)).2.2, satAx_mono (ax_keep ky hs.1)
        (fun t => by first | trivial | exact ((Bb 8 (by simp)).1.mp t).resolve_right (by decide))
        (fun t => by first | trivial | exact ((Bb 4 (by simp)).1.mp t).resolve_right (by decide)),
      satAx_mono ((ax_clip _ _ cx0 cx1 cxQ hq hs.2).2 hO)
        (fun t => by first | trivial | exact ((Bb 2 (by simp)).1.mp t).resolve_right (by decide))
        (fun t => by first | trivial | exact ((Bb 1 (by simp)).1.mp t).resolve_right (by decide))⟩

/-- the invariant survives the replacement of end point 1 -/
private theorem sat_step1 (d0 d1 : Nat) (h0 : d0 < 16) (h1 : d1 < 16) (bit : Nat) (cx0 cy0 cx1 cy1 cxQ cyQ : Cls)
    (hs : Sat (d0 ||| d1) cx0 cy0 cx1 cy1) (kx : Conv cxQ cx0 cx1) (ky : Conv cyQ cy0 cy1)
    (hf : StepFacts bit cx1 cy1 cx0 cy0 cxQ cyQ) :
    d1 ||| bit < 16 ∧ Sat (d0 ||| (d1 ||| bit)) cx0 cy0 cxQ cyQ := by
  have B := bits_step d0 h0 d1 h1
  have B' := bits_step d1 h1 d0 h0
  rcases hf with ⟨rfl, hq, hE, hO⟩ | ⟨rfl, hq, hE, hO⟩ | ⟨rfl, hq, hE, hO⟩ | ⟨rfl, hq, hE, hO⟩
  · have Bb := B 8 (by simp)
    exact ⟨(B' 8 (by simp) 8 (by simp)).2.2, satAx_swap (satAx_mono ((ax_clip _ _ cy1 cy0 cyQ hq (satAx_swap hs.1)).1 hO)
        (fun t => by first | trivial | exact ((Bb 8 (by simp)).2.1.mp t).resolve_right (by decide))
        (fun t => by first | trivial | exact ((Bb 4 (by simp)).2.1.mp t).resolve_right (by decide))),
      satAx_swap (satAx_mono (ax_keep (conv_swap kx) (satAx_swap hs.2))
        (fun t => by first | trivial | exact ((Bb 2 (by simp)).2.1.mp t).resolve_right (by decide))
        (fun t => by first | trivial | exact ((Bb 1 (by simp)).2.1.mp t).resolve_right (by decide)))⟩
  · have Bb := B 4 (by simp)
    exact ⟨(B' 4 (by simp) 8 (by simp)).2.2, satAx_swap (satAx_mono ((ax_clip _ _ cy1 cy0 cyQ hq (satAx_swap hs.1)).2 hO)
        (fun t => by first | trivial | exact ((Bb 8 (by simp)).2.1.mp t).resolve_right (by decide))
        (fun t => by first | trivial | exact ((Bb 4 (by simp)).2.1.mp t).resolve_right (by decide))),
      satAx_swap (satAx_mono (ax_keep (conv_swap kx) (satAx_swap hs.2))
        (fun t => by first | trivial | exact ((Bb 2 (by simp)).2.1.mp t).resolve_right (by decide))
        (fun t => by first | trivial | exact ((Bb 1 (by simp)).2.1.mp t).resolve_right (by decide)))⟩
  · have Bb := B 2 (by simp)
    exact ⟨(B' 2 (by simp) 8 (by simp)).2.2, satAx_swap (satAx_mono (ax_keep (conv_swap ky) (satAx_swap hs.1))
        (fun t => by first | trivial | exact ((Bb 8 (by simp)).2.1.mp t).resolve_right (by decide))
        (fun t => by first | trivial | exact ((Bb 4 (by simp)).2.1.mp t).resolve_right (by decide))),
      satAx_swap (satAx_mono ((ax_clip _ _ cx1 cx0 cxQ hq (satAx_swap hs.2)).1 hO)
        (fun t => by first | trivial | exact ((Bb 2 (by simp)).2.1.mp t).resolve_right (by decide))
        (fun t => by first | trivial | exact ((Bb 1 (by simp)).2.1.mp t).resolve_right (by decide)))⟩
  · have Bb := B 1 (by simp)
    exact ⟨(B' 1 (by simp) 8 (by simp)).2.2, satAx_swap (satAx_mono (ax_keep (conv_swap ky) (satAx_swap hs.1))
        (fun t => by first | trivial | exact ((Bb 8 (by simp)).2.1.mp t).resolve_right (by decide))
        (fun t => by first | trivial | exact ((Bb 4 (by simp)).2.1.mp t).resolve_right (by decide))),
      satAx_swap (satAx_mono ((ax_clip _ _ cx1 cx0 cxQ hq (satAx_swap hs.2)).2 hO)
        (fun t => by first | trivial | exact ((Bb 2 (by simp)).2.1.mp t).resolve_right (by decide))
        (fun t => by first | trivial | exact ((Bb 1 (by simp)).2.1.mp t).resolve_right (by decide)))⟩

private theorem vdec0 (cx0 cy0 cx1 cy1 cxQ cyQ : Cls) (bit : Nat) (kx : Conv cxQ cx0 cx1) (ky : Conv cyQ cy0 cy1)
    (hf : StepFacts bit cx0 cy0 cx1 cy1 cxQ cyQ) : f cxQ cx1 + f cyQ cy1 < f cx0 cx1 + f cy0 cy1 := by
  rcases hf with ⟨_, rfl, hE, hO⟩ | ⟨_, rfl, hE, hO⟩ | ⟨_, rfl, hE, hO⟩ | ⟨_, rfl, hE, hO⟩
  · have := f_dec cy0 cy1 (Or.inl ⟨hE, hO⟩); have := f_mono cxQ cx0 cx1 kx.1 kx.2; omega
  · have := f_dec cy0 cy1 (Or.inr ⟨hE, hO⟩); have := f_mono cxQ cx0 cx1 kx.1 kx.2; omega
  · have := f_dec cx0 cx1 (Or.inl ⟨hE, hO⟩); have := f_mono cyQ cy0 cy1 ky.1 ky.2; omega
  · have := f_dec cx0 cx1 (Or.inr ⟨hE, hO⟩); have := f_mono cyQ cy0 cy1 ky.1 ky.2; omega

private theorem vdec1 (cx0 cy0 cx1 cy1 cxQ cyQ : Cls) (bit : Nat) (kx : Conv cxQ cx0 cx1) (ky : Conv cyQ cy0 cy1)
    (hf : StepFacts bit cx1 cy1 cx0 cy0 cxQ cyQ) : f cx0 cxQ + f cy0 cyQ < f cx0 cx1 + f cy0 cy1 := by
  have sx : Conv cxQ cx1 cx0 := ⟨fun h => (kx.1 h).symm, fun h => (kx.2 h).symm⟩
  have sy : Conv cyQ cy1 cy0 := ⟨fun h => (ky.1 h).symm, fun h => (ky.2 h).symm⟩
  have := vdec0 cx1 cy1 cx0 cy0 cxQ cyQ bit sx sy hf
  rw [f_comm cx0 cxQ, f_comm cy0 cyQ, f_comm cx0 cx1, f_comm cy0 cy1]
  exact this

private theorem V_le_four (w : Win) (x0 y0 x1 y1 : Rat) : V w x0 y0 x1 y1 ≤ 4 := by
  have a := f_le_two (clsOf x0 w.xmin w.xmax) (clsOf x1 w.xmin w.xmax)
  have b := f_le_two (clsOf y0 w.ymin w.ymax) (clsOf y1 w.ymin w.ymax)
  simp only [V]; omega

private theorem lerp_lerp (p0 p1 : Pt) (t0 t1 s : Rat) :
    (lerp p0 p1 t0).x + s * ((lerp p0 p1 t1).x - (lerp p0 p1 t0).x) = (lerp p0 p1 (t0 + s * (t1 - t0))).x ∧
    (lerp p0 p1 t0).y + s * ((lerp p0 p1 t1).y - (lerp p0 p1 t0).y) = (lerp p0 p1 (t0 + s * (t1 - t0))).y := by
  simp only [lerp]; constructor <;> ring

private def Inv (w : Win) (x0 y0 x1 y1 : Rat) (d0 d1 : Nat) : Prop :=
  d0 < 16 ∧ d1 < 16 ∧
  Sat (d0 ||| d1) (clsOf x0 w.xmin w.xmax) (clsOf y0 w.ymin w.ymax) (clsOf x1 w.xmin w.xmax) (clsOf y1 w.ymin w.ymax)

/-- the loop for a proper window, started anywhere on the segment with the invariant: termination within the number of violated
window constraints, accepted end points inside the window and on the segment -/
private theorem cs_master (w : Win) (hx : w.xmin ≤ w.xmax) (hy : w.ymin ≤ w.ymax) (p0 p1 : Pt) (fuel : Nat) :
    ∀ (t0 t1 x y : Rat) (d0 d1 : Nat), 0 ≤ t0 → t0 ≤ 1 → 0 ≤ t1 → t1 ≤ 1 →
      Inv w (lerp p0 p1 t0).x (lerp p0 p1 t0).y (lerp p0 p1 t1).x (lerp p0 p1 t1).y d0 d1 →
      (V w (lerp p0 p1 t0).x (lerp p0 p1 t0).y (lerp p0 p1 t1).x (lerp p0 p1 t1).y < fuel →
        csLoop w fuel (lerp p0 p1 t0).x (lerp p0 p1 t0).y (lerp p0 p1 t1).x (lerp p0 p1 t1).y x y d0 d1 ≠ .fuel) ∧
      (∀ q0 q1, csLoop w fuel (lerp p0 p1 t0).x (lerp p0 p1 t0).y (lerp p0 p1 t1).x (lerp p0 p1 t1).y x y d0 d1
          = .accept q0 q1 →
        w.contains q0 ∧ w.contains q1 ∧
        ∃ u0 u1 : Rat, 0 ≤ u0 ∧ u0 ≤ 1 ∧ 0 ≤ u1 ∧ u1 ≤ 1 ∧ q0 = lerp p0 p1 u0 ∧ q1 = lerp p0 p1 u1) := by
  induction fuel with
  | zero =>
    intro t0 t1 x y d0 d1 _ _ _ _ _
    exact ⟨fun h => by omega, fun q0 q1 h => by simp [csLoop] at h⟩
  | succ n ih =>
    intro t0 t1 x y d0 d1 a0 a1 b0 b1 hinv
    obtain ⟨hd0, hd1, hsat⟩ := hinv
    have hno := sat_noop d0 d1 hd0 hd1 _ _ _ _ hsat
    simp only [csLoop, encode_eq, hno.1, hno.2]
    simp only [← encode_eq]
    split
    · rename_i hacc
      refine ⟨fun _ => by simp, fun q0 q1 h => ?_⟩
      simp only [CsResult.accept.injEq] at h
      simp only [PolygonKernels.csAccept, Bool.not_eq_true', decide_eq_false_iff_not, ne_eq, not_not,
        Nat.or_eq_zero_iff] at hacc
      obtain ⟨rfl, rfl⟩ := h
      exact ⟨(encode_zero_iff w _).mp hacc.1, (encode_zero_iff w _).mp hacc.2, t0, t1, a0, a1, b0, b1, rfl, rfl⟩
    · rename_i hacc
      split
      · exact ⟨fun _ => by simp, fun q0 q1 h => by simp at h⟩
      · rename_i hrej
        obtain ⟨s, s0, s1, ex, ey, kx, ky, f0, f1⟩ :=
          cs_step w hx hy _ _ _ _ x y (by simpa using hacc) (by simpa using hrej)
        have hl := lerp_lerp p0 p1 t0 t1 s
        have c0 : 0 ≤ t0 + s * (t1 - t0) := convex_ge t0 t1 s 0 s0 s1 a0 b0
        have c1 : t0 + s * (t1 - t0) ≤ 1 := convex_le t0 t1 s 1 s0 s1 a1 b1
        simp only [hl.1, hl.2] at ex ey kx ky f0 f1
        rw [ex, ey]
        split
        · rename_i hp
          have hf := f0 hp
          have hs' := sat_step0 d0 d1 hd0 hd1 _ _ _ _ _ _ _ hsat kx ky hf
          have hv := vdec0 _ _ _ _ _ _ _ kx ky hf
          have := ih (t0 + s * (t1 - t0)) t1 (lerp p0 p1 (t0 + s * (t1 - t0))).x (lerp p0 p1 (t0 + s * (t1 - t0))).y
            (PolygonKernels.csDone d0 _) d1 c0 c1 b0 b1 ⟨hs'.1, hd1, hs'.2⟩
          exact ⟨fun hV => this.1 (by simp only [V] at hV ⊢; omega), this.2⟩
        · rename_i hp
          have hf := f1 hp
          have hs' := sat_step1 d0 d1 hd0 hd1 _ _ _ _ _ _ _ hsat kx ky hf
          have hv := vdec1 _ _ _ _ _ _ _ kx ky hf
          have := ih t0 (t0 + s * (t1 - t0)) (lerp p0 p1 (t0 + s * (t1 - t0))).x (lerp p0 p1 (t0 + s * (t1 - t0))).y
            d0 (PolygonKernels.csDone d1 _) a0 a1 c0 c1 ⟨hd0, hs'.1, hs'.2⟩
          exact ⟨fun hV => this.1 (by simp only [V] at hV ⊢; omega), this.2⟩

private theorem cs_master_start (w : Win) (hx : w.xmin ≤ w.xmax) (hy : w.ymin ≤ w.ymax) (p0 p1 : Pt) (fuel : Nat) :
    (V w p0.x p0.y p1.x p1.y < fuel → csClipLine w fuel p0 p1 ≠ .fuel) ∧
    (∀ q0 q1, csClipLine w fuel p0 p1 = .accept q0 q1 → w.contains q0 ∧ w.contains q1 ∧
      ∃ u0 u1 : Rat, 0 ≤ u0 ∧ u0 ≤ 1 ∧ 0 ≤ u1 ∧ u1 ≤ 1 ∧ q0 = lerp p0 p1 u0 ∧ q1 = lerp p0 p1 u1) := by
  have e0 : p0 = lerp p0 p1 0 := by simp [lerp]
  have e1 : p1 = lerp p0 p1 1 := by simp [lerp]
  have := cs_master w hx hy p0 p1 fuel 0 1 p0.x p0.y 0 0 (le_refl _) (by norm_num) (by norm_num) (le_refl _)
    ⟨by norm_num, by norm_num, by simp [Sat, SatAx]⟩
  rw [← e0, ← e1] at this
  exact this

/-- for a proper window (`x_min ≤ x_max`, `y_min ≤ y_max`) four clipping steps are enough in exact arithmetic: fuel 5 is never
exhausted (and 4 can be, see the `#guard` below) -/
theorem cs_terminates_proper_window (w : Win) (hx : w.xmin ≤ w.xmax) (hy : w.ymin ≤ w.ymax) (p0 p1 : Pt) :
    csClipLine w 5 p0 p1 ≠ .fuel :=
  (cs_master_start w hx hy p0 p1 5).1 (by have := V_le_four w p0.x p0.y p1.x p1.y; omega)

/-- `cs_sound`, accept part: for a proper window the returned end points lie inside the window (the masked outcode bits are
never raised again in exact arithmetic, so an accept means both real outcodes are 0) -/
theorem cs_accept_inside (w : Win) (hx : w.xmin ≤ w.xmax) (hy : w.ymin ≤ w.ymax) (fuel : Nat) (p0 p1 q0 q1 : Pt)
    (h : csClipLine w fuel p0 p1 = .accept q0 q1) : w.contains q0 ∧ w.contains q1 :=
  let r := (cs_master_start w hx hy p0 p1 fuel).2 q0 q1 h
  ⟨r.1, r.2.1⟩

/-- `cs_sound`, second part: the returned end points are points `p0 + t (p1 - p0)`, `0 ≤ t ≤ 1`, of the input segment -/
theorem cs_accept_on_segment (w : Win) (hx : w.xmin ≤ w.xmax) (hy : w.ymin ≤ w.ymax) (fuel : Nat) (p0 p1 q0 q1 : Pt)
    (h : csClipLine w fuel p0 p1 = .accept q0 q1) :
    ∃ t0 t1 : Rat, 0 ≤ t0 ∧ t0 ≤ 1 ∧ 0 ≤ t1 ∧ t1 ≤ 1 ∧ q0 = lerp p0 p1 t0 ∧ q1 = lerp p0 p1 t1 :=
  ((cs_master_start w hx hy p0 p1 fuel).2 q0 q1 h).2.2

private theorem clsOf_hi_gt {a lo hi : Rat} (h : clsOf a lo hi = .hi) : a > hi := by
  unfold clsOf at h; split_ifs at h with h1 h2; exact h2
private theorem convex_gt (a0 a1 s b : Rat) (hs0 : 0 ≤ s) (hs1 : s ≤ 1) (h0 : b < a0) (h1 : b < a1) :
    b < a0 + s * (a1 - a0) := by
  have := convex_ge a0 a1 s (min a0 a1) hs0 hs1 (min_le_left _ _) (min_le_right _ _)
  have : b < min a0 a1 := lt_min h0 h1
  linarith
private theorem convex_lt (a0 a1 s b : Rat) (hs0 : 0 ≤ s) (hs1 : s ≤ 1) (h0 : a0 < b) (h1 : a1 < b) :
    a0 + s * (a1 - a0) < b := by
  have := convex_le a0 a1 s (max a0 a1) hs0 hs1 (le_max_left _ _) (le_max_right _ _)
  have : max a0 a1 < b := max_lt h0 h1
  linarith

/-- `cs_reject_sound` for the test on the input end points (the trivial reject of the first iteration): when the two
outcodes share a bit, no point of the segment lies in the window.
Not proved: the same for a reject in a later iteration (needs the invariant that every discarded piece is outside). -/
theorem cs_reject_sound_partial (w : Win) (p0 p1 : Pt)
    (h : PolygonKernels.csReject (w.encode p0.x p0.y) (w.encode p1.x p1.y) = true) :
    ∀ t : Rat, 0 ≤ t → t ≤ 1 → ¬ w.contains (lerp p0 p1 t) := by
  rw [encode_eq, encode_eq] at h
  have hc : (clsOf p0.y w.ymin w.ymax = .hi ∧ clsOf p1.y w.ymin w.ymax = .hi) ∨
      (clsOf p0.y w.ymin w.ymax = .lo ∧ clsOf p1.y w.ymin w.ymax = .lo) ∨
      (clsOf p0.x w.xmin w.xmax = .hi ∧ clsOf p1.x w.xmin w.xmax = .hi) ∨
      (clsOf p0.x w.xmin w.xmax = .lo ∧ clsOf p1.x w.xmin w.xmax = .lo) := by
    revert h
    cases clsOf p0.x w.xmin w.xmax <;> cases clsOf p0.y w.ymin w.ymax <;> cases clsOf p1.x w.xmin w.xmax <;>
      cases clsOf p1.y w.ymin w.ymax <;> simp [codeOf, PolygonKernels.csReject]
  intro t t0 t1 hcon
  simp only [Win.contains, lerp] at hcon
  rcases hc with ⟨a, b⟩ | ⟨a, b⟩ | ⟨a, b⟩ | ⟨a, b⟩
  · have := convex_gt p0.y p1.y t w.ymax t0 t1 (clsOf_hi_gt a) (clsOf_hi_gt b); linarith
  · have := convex_lt p0.y p1.y t w.ymin t0 t1 (clsOf_lo.mp a) (clsOf_lo.mp b); linarith
  · have := convex_gt p0.x p1.x t w.xmax t0 t1 (clsOf_hi_gt a) (clsOf_hi_gt b); linarith
  · have := convex_lt p0.x p1.x t w.xmin t0 t1 (clsOf_lo.mp a) (clsOf_lo.mp b); linarith


/-! ### F2. exactness (session 3): the accepted segment is exactly segment ∩ window, a reject means an empty intersection

Additional loop invariant: every point of the input segment that lies in the window has its parameter between the
parameters of the two current end points ("every discarded piece lies outside"). -/

private theorem clip_on_bound (code : Nat) (x y x0 y0 x1 y1 xmin xmax ymin ymax : Rat) :
    (PolygonKernels.csClipBit code = 8 → PolygonKernels.csClipY code x y x0 y0 x1 y1 xmin xmax ymin ymax = ymax) ∧
    (PolygonKernels.csClipBit code = 4 → PolygonKernels.csClipY code x y x0 y0 x1 y1 xmin xmax ymin ymax = ymin) ∧
    (PolygonKernels.csClipBit code = 2 → PolygonKernels.csClipX code x y x0 y0 x1 y1 xmin xmax ymin ymax = xmax) ∧
    (PolygonKernels.csClipBit code = 1 → PolygonKernels.csClipX code x y x0 y0 x1 y1 xmin xmax ymin ymax = xmin) := by
  simp only [PolygonKernels.csClipBit, PolygonKernels.csClipX, PolygonKernels.csClipY]
  split_ifs <;> simp

/-- three values of an affine function at `te`, `tq`, `t`; the value at `te` violates a bound that the value at `tq`
meets exactly and the value at `t` respects: `t` is not on the side of `te` -/
private theorem cut_left_hi (g0 gq gt te tq t : Rat) (haff : (gt - gq) * (te - tq) = (g0 - gq) * (t - tq))
    (hE : gq < g0) (ht : gt ≤ gq) (hle : te ≤ tq) : tq ≤ t := by
  by_contra h
  rw [not_le] at h
  have a : (g0 - gq) * (t - tq) < 0 := mul_neg_of_pos_of_neg (by linarith) (by linarith)
  have b : 0 ≤ (gt - gq) * (te - tq) := mul_nonneg_of_nonpos_of_nonpos (by linarith) (by linarith)
  linarith
private theorem cut_left_lo (g0 gq gt te tq t : Rat) (haff : (gt - gq) * (te - tq) = (g0 - gq) * (t - tq))
    (hE : g0 < gq) (ht : gq ≤ gt) (hle : te ≤ tq) : tq ≤ t :=
  cut_left_hi (-g0) (-gq) (-gt) te tq t (by linear_combination -haff) (by linarith) (by linarith) hle
private theorem cut_right_hi (g0 gq gt te tq t : Rat) (haff : (gt - gq) * (te - tq) = (g0 - gq) * (t - tq))
    (hE : gq < g0) (ht : gt ≤ gq) (hle : tq ≤ te) : t ≤ tq := by
  have := cut_left_hi g0 gq gt (-te) (-tq) (-t) (by linear_combination -haff) hE ht (by linarith)
  linarith
private theorem cut_right_lo (g0 gq gt te tq t : Rat) (haff : (gt - gq) * (te - tq) = (g0 - gq) * (t - tq))
    (hE : g0 < gq) (ht : gq ≤ gt) (hle : tq ≤ te) : t ≤ tq :=
  cut_right_hi (-g0) (-gq) (-gt) te tq t (by linear_combination -haff) (by linarith) (by linarith) hle

private theorem lerp_aff (p0 p1 : Pt) (a b c : Rat) :
    ((lerp p0 p1 c).x - (lerp p0 p1 b).x) * (a - b) = ((lerp p0 p1 a).x - (lerp p0 p1 b).x) * (c - b) ∧
    ((lerp p0 p1 c).y - (lerp p0 p1 b).y) * (a - b) = ((lerp p0 p1 a).y - (lerp p0 p1 b).y) * (c - b) := by
  simp only [lerp]; constructor <;> ring

/-- an affine function that exceeds `b` at both ends of an interval exceeds `b` inside -/
private theorem aff_gt (a d t0 t1 t b : Rat) (h0 : b < a + t0 * d) (h1 : b < a + t1 * d) (k0 : t0 ≤ t) (k1 : t ≤ t1) :
    b < a + t * d := by
  rcases le_or_gt 0 d with hd | hd
  · have := mul_nonneg (sub_nonneg.mpr k0) hd
    nlinarith
  · have := mul_nonneg_of_nonpos_of_nonpos (sub_nonpos.mpr k1) hd.le
    nlinarith
private theorem aff_lt (a d t0 t1 t b : Rat) (h0 : a + t0 * d < b) (h1 : a + t1 * d < b) (k0 : t0 ≤ t) (k1 : t ≤ t1) :
    a + t * d < b := by
  have := aff_gt (-a) (-d) t0 t1 t (-b) (by linarith) (by linarith) k0 k1
  linarith

/-- the reject test on two points of the segment: nothing between them is in the window -/
private theorem reject_between (w : Win) (p0 p1 : Pt) (t0 t1 t : Rat)
    (h : PolygonKernels.csReject (w.encode (lerp p0 p1 t0).x (lerp p0 p1 t0).y) (w.encode (lerp p0 p1 t1).x (lerp p0 p1 t1).y) = true)
    (k0 : t0 ≤ t) (k1 : t ≤ t1) : ¬ w.contains (lerp p0 p1 t) := by
  rw [encode_eq, encode_eq] at h
  have hc : (clsOf (lerp p0 p1 t0).y w.ymin w.ymax = .hi ∧ clsOf (lerp p0 p1 t1).y w.ymin w.ymax = .hi) ∨
      (clsOf (lerp p0 p1 t0).y w.ymin w.ymax = .lo ∧ clsOf (lerp p0 p1 t1).y w.ymin w.ymax = .lo) ∨
      (clsOf (lerp p0 p1 t0).x w.xmin w.xmax = .hi ∧ clsOf (lerp p0 p1 t1).x w.xmin w.xmax = .hi) ∨
      (clsOf (lerp p0 p1 t0).x w.xmin w.xmax = .lo ∧ clsOf (lerp p0 p1 t1).x w.xmin w.xmax = .lo) := by
    revert h
    cases clsOf (lerp p0 p1 t0).x w.xmin w.xmax <;> cases clsOf (lerp p0 p1 t0).y w.ymin w.ymax <;>
      cases clsOf (lerp p0 p1 t1).x w.xmin w.xmax <;> cases clsOf (lerp p0 p1 t1).y w.ymin w.ymax <;>
      simp [codeOf, PolygonKernels.csReject]
  intro hcon
  simp only [Win.contains] at hcon
  simp only [lerp] at hc hcon
  rcases hc with ⟨a, b⟩ | ⟨a, b⟩ | ⟨a, b⟩ | ⟨a, b⟩
  · have := aff_gt p0.y (p1.y - p0.y) t0 t1 t w.ymax (clsOf_hi_gt a) (clsOf_hi_gt b) k0 k1; linarith
  · have := aff_lt p0.y (p1.y - p0.y) t0 t1 t w.ymin (clsOf_lo.mp a) (clsOf_lo.mp b) k0 k1; linarith
  · have := aff_gt p0.x (p1.x - p0.x) t0 t1 t w.xmax (clsOf_hi_gt a) (clsOf_hi_gt b) k0 k1; linarith
  · have := aff_lt p0.x (p1.x - p0.x) t0 t1 t w.xmin (clsOf_lo.mp a) (clsOf_lo.mp b) k0 k1; linarith

/-- the window points of the segment have parameters between `t0` and `t1` -/
private def Between (w : Win) (p0 p1 : Pt) (t0 t1 : Rat) : Prop :=
  ∀ t : Rat, 0 ≤ t → t ≤ 1 → w.contains (lerp p0 p1 t) → t0 ≤ t ∧ t ≤ t1

private theorem cs_master2 (w : Win) (hx : w.xmin ≤ w.xmax) (hy : w.ymin ≤ w.ymax) (p0 p1 : Pt) (fuel : Nat) :
    ∀ (t0 t1 x y : Rat) (d0 d1 : Nat), 0 ≤ t0 → t0 ≤ t1 → t1 ≤ 1 →
      Inv w (lerp p0 p1 t0).x (lerp p0 p1 t0).y (lerp p0 p1 t1).x (lerp p0 p1 t1).y d0 d1 →
      Between w p0 p1 t0 t1 →
      (∀ q0 q1, csLoop w fuel (lerp p0 p1 t0).x (lerp p0 p1 t0).y (lerp p0 p1 t1).x (lerp p0 p1 t1).y x y d0 d1
          = .accept q0 q1 →
        ∃ u0 u1 : Rat, 0 ≤ u0 ∧ u0 ≤ u1 ∧ u1 ≤ 1 ∧ q0 = lerp p0 p1 u0 ∧ q1 = lerp p0 p1 u1 ∧ Between w p0 p1 u0 u1) ∧
      (csLoop w fuel (lerp p0 p1 t0).x (lerp p0 p1 t0).y (lerp p0 p1 t1).x (lerp p0 p1 t1).y x y d0 d1 = .reject →
        ∀ t : Rat, 0 ≤ t → t ≤ 1 → ¬ w.contains (lerp p0 p1 t)) := by
  induction fuel with
  | zero =>
    intro t0 t1 x y d0 d1 _ _ _ _ _
    exact ⟨fun q0 q1 h => by simp [csLoop] at h, fun h => by simp [csLoop] at h⟩
  | succ n ih =>
    intro t0 t1 x y d0 d1 a0 a01 b1 hinv hbet
    obtain ⟨hd0, hd1, hsat⟩ := hinv
    have hno := sat_noop d0 d1 hd0 hd1 _ _ _ _ hsat
    simp only [csLoop, encode_eq, hno.1, hno.2]
    simp only [← encode_eq]
    split
    · rename_i hacc
      refine ⟨fun q0 q1 h => ?_, fun h => by simp at h⟩
      simp only [CsResult.accept.injEq] at h
      obtain ⟨rfl, rfl⟩ := h
      exact ⟨t0, t1, a0, a01, b1, rfl, rfl, hbet⟩
    · rename_i hacc
      split
      · rename_i hrej
        refine ⟨fun q0 q1 h => by simp at h, fun _ t k0 k1 hc => ?_⟩
        obtain ⟨m0, m1⟩ := hbet t k0 k1 hc
        exact reject_between w p0 p1 t0 t1 t hrej m0 m1 hc
      · rename_i hrej
        obtain ⟨s, s0, s1, ex, ey, kx, ky, f0, f1⟩ :=
          cs_step w hx hy _ _ _ _ x y (by simpa using hacc) (by simpa using hrej)
        have hl := lerp_lerp p0 p1 t0 t1 s
        have c0 : t0 ≤ t0 + s * (t1 - t0) := convex_ge t0 t1 s t0 s0 s1 (le_refl _) a01
        have c1 : t0 + s * (t1 - t0) ≤ t1 := convex_le t0 t1 s t1 s0 s1 a01 (le_refl _)
        simp only [hl.1, hl.2] at ex ey kx ky f0 f1
        have hbound := clip_on_bound (PolygonKernels.csPick (w.encode (lerp p0 p1 t0).x (lerp p0 p1 t0).y)
          (w.encode (lerp p0 p1 t1).x (lerp p0 p1 t1).y)) x y (lerp p0 p1 t0).x (lerp p0 p1 t0).y (lerp p0 p1 t1).x
          (lerp p0 p1 t1).y w.xmin w.xmax w.ymin w.ymax
        rw [ex, ey] at hbound
        rw [ex, ey]
        split
        · rename_i hp
          have hf := f0 hp
          have hs' := sat_step0 d0 d1 hd0 hd1 _ _ _ _ _ _ _ hsat kx ky hf
          have hbet' : Between w p0 p1 (t0 + s * (t1 - t0)) t1 := by
            intro t k0 k1 hc
            obtain ⟨m0, m1⟩ := hbet t k0 k1 hc
            refine ⟨?_, m1⟩
            have aff := lerp_aff p0 p1 t0 (t0 + s * (t1 - t0)) t
            simp only [Win.contains] at hc
            rcases hf with ⟨hb, _, hE, _⟩ | ⟨hb, _, hE, _⟩ | ⟨hb, _, hE, _⟩ | ⟨hb, _, hE, _⟩
            · have := hbound.1 hb
              exact cut_left_hi _ _ _ _ _ _ aff.2 (by have := clsOf_hi_gt hE; linarith) (by linarith) c0
            · have := hbound.2.1 hb
              exact cut_left_lo _ _ _ _ _ _ aff.2 (by have := clsOf_lo.mp hE; linarith) (by linarith) c0
            · have := hbound.2.2.1 hb
              exact cut_left_hi _ _ _ _ _ _ aff.1 (by have := clsOf_hi_gt hE; linarith) (by linarith) c0
            · have := hbound.2.2.2 hb
              exact cut_left_lo _ _ _ _ _ _ aff.1 (by have := clsOf_lo.mp hE; linarith) (by linarith) c0
          exact ih (t0 + s * (t1 - t0)) t1 (lerp p0 p1 (t0 + s * (t1 - t0))).x (lerp p0 p1 (t0 + s * (t1 - t0))).y
            (PolygonKernels.csDone d0 _) d1 (le_trans a0 c0) c1 b1 ⟨hs'.1, hd1, hs'.2⟩ hbet'
        · rename_i hp
          have hf := f1 hp
          have hs' := sat_step1 d0 d1 hd0 hd1 _ _ _ _ _ _ _ hsat kx ky hf
          have hbet' : Between w p0 p1 t0 (t0 + s * (t1 - t0)) := by
            intro t k0 k1 hc
            obtain ⟨m0, m1⟩ := hbet t k0 k1 hc
            refine ⟨m0, ?_⟩
            have aff := lerp_aff p0 p1 t1 (t0 + s * (t1 - t0)) t
            simp only [Win.contains] at hc
            rcases hf with ⟨hb, _, hE, _⟩ | ⟨hb, _, hE, _⟩ | ⟨hb, _, hE, _⟩ | ⟨hb, _, hE, _⟩
            · have := hbound.1 hb
              exact cut_right_hi _ _ _ _ _ _ aff.2 (by have := clsOf_hi_gt hE; linarith) (by linarith) c1
            · have := hbound.2.1 hb
              exact cut_right_lo _ _ _ _ _ _ aff.2 (by have := clsOf_lo.mp hE; linarith) (by linarith) c1
            · have := hbound.2.2.1 hb
              exact cut_right_hi _ _ _ _ _ _ aff.1 (by have := clsOf_hi_gt hE; linarith) (by linarith) c1
            · have := hbound.2.2.2 hb
              exact cut_right_lo _ _ _ _ _ _ aff.1 (by have := clsOf_lo.mp hE; linarith) (by linarith) c1
          exact ih t0 (t0 + s * (t1 - t0)) (lerp p0 p1 (t0 + s * (t1 - t0))).x (lerp p0 p1 (t0 + s * (t1 - t0))).y
            d0 (PolygonKernels.csDone d1 _) a0 c0 (le_trans c1 b1) ⟨hd0, hs'.1, hs'.2⟩ hbet'

private theorem aff_le (a d t0 t1 t b : Rat) (h0 : a + t0 * d ≤ b) (h1 : a + t1 * d ≤ b) (k0 : t0 ≤ t) (k1 : t ≤ t1) :
    a + t * d ≤ b := by
  rcases le_or_gt 0 d with hd | hd
  · have := mul_nonneg (sub_nonneg.mpr k1) hd
    nlinarith
  · have := mul_nonneg_of_nonpos_of_nonpos (sub_nonpos.mpr k0) hd.le
    nlinarith
private theorem aff_ge (a d t0 t1 t b : Rat) (h0 : b ≤ a + t0 * d) (h1 : b ≤ a + t1 * d) (k0 : t0 ≤ t) (k1 : t ≤ t1) :
    b ≤ a + t * d := by
  have := aff_le (-a) (-d) t0 t1 t (-b) (by linarith) (by linarith) k0 k1
  linarith

private theorem cs_master2_start (w : Win) (hx : w.xmin ≤ w.xmax) (hy : w.ymin ≤ w.ymax) (p0 p1 : Pt) (fuel : Nat) :
    (∀ q0 q1, csClipLine w fuel p0 p1 = .accept q0 q1 →
      ∃ u0 u1 : Rat, 0 ≤ u0 ∧ u0 ≤ u1 ∧ u1 ≤ 1 ∧ q0 = lerp p0 p1 u0 ∧ q1 = lerp p0 p1 u1 ∧ Between w p0 p1 u0 u1) ∧
    (csClipLine w fuel p0 p1 = .reject → ∀ t : Rat, 0 ≤ t → t ≤ 1 → ¬ w.contains (lerp p0 p1 t)) := by
  have e0 : p0 = lerp p0 p1 0 := by simp [lerp]
  have e1 : p1 = lerp p0 p1 1 := by simp [lerp]
  have := cs_master2 w hx hy p0 p1 fuel 0 1 p0.x p0.y 0 0 (le_refl _) (by norm_num) (le_refl _)
    ⟨by norm_num, by norm_num, by simp [Sat, SatAx]⟩ (fun t k0 k1 _ => ⟨k0, k1⟩)
  rw [← e0, ← e1] at this
  exact this

/-- `cs_sound` / `cs_complete` at full strength: for every proper window and every segment, an accepted result
`(q0, q1)` is EXACTLY the part of the segment inside the window: `q0 = P(u0)`, `q1 = P(u1)` with `0 ≤ u0 ≤ u1 ≤ 1` and a
point `P(t)` of the segment lies in the (closed) window if and only if `u0 ≤ t ≤ u1` (both containments). -/
theorem cs_accept_exact (w : Win) (hx : w.xmin ≤ w.xmax) (hy : w.ymin ≤ w.ymax) (fuel : Nat) (p0 p1 q0 q1 : Pt)
    (h : csClipLine w fuel p0 p1 = .accept q0 q1) :
    ∃ u0 u1 : Rat, 0 ≤ u0 ∧ u0 ≤ u1 ∧ u1 ≤ 1 ∧ q0 = lerp p0 p1 u0 ∧ q1 = lerp p0 p1 u1 ∧
      ∀ t : Rat, 0 ≤ t → t ≤ 1 → (w.contains (lerp p0 p1 t) ↔ u0 ≤ t ∧ t ≤ u1) := by
  obtain ⟨u0, u1, a0, a01, a1, e0, e1, hb⟩ := (cs_master2_start w hx hy p0 p1 fuel).1 q0 q1 h
  obtain ⟨c0, c1⟩ := cs_accept_inside w hx hy fuel p0 p1 q0 q1 h
  refine ⟨u0, u1, a0, a01, a1, e0, e1, fun t k0 k1 => ⟨hb t k0 k1, fun ⟨m0, m1⟩ => ?_⟩⟩
  rw [e0] at c0
  rw [e1] at c1
  simp only [Win.contains, lerp] at c0 c1 ⊢
  exact ⟨aff_ge _ _ u0 u1 t _ c0.1 c1.1 m0 m1, aff_le _ _ u0 u1 t _ c0.2.1 c1.2.1 m0 m1,
    aff_ge _ _ u0 u1 t _ c0.2.2.1 c1.2.2.1 m0 m1, aff_le _ _ u0 u1 t _ c0.2.2.2 c1.2.2.2 m0 m1⟩

/-- `cs_reject_sound` at full strength: a reject in ANY iteration means that no point of the segment lies in the window -/
theorem cs_reject_sound (w : Win) (hx : w.xmin ≤ w.xmax) (hy : w.ymin ≤ w.ymax) (fuel : Nat) (p0 p1 : Pt)
    (h : csClipLine w fuel p0 p1 = .reject) : ∀ t : Rat, 0 ≤ t → t ≤ 1 → ¬ w.contains (lerp p0 p1 t) :=
  (cs_master2_start w hx hy p0 p1 fuel).2 h

/-- the code (fuel 5 is never exhausted) accepts exactly the segments that meet the window -/
theorem cs_accept_iff_meets (w : Win) (hx : w.xmin ≤ w.xmax) (hy : w.ymin ≤ w.ymax) (p0 p1 : Pt) :
    (∃ q0 q1, csClipLine w 5 p0 p1 = .accept q0 q1) ↔ ∃ t : Rat, 0 ≤ t ∧ t ≤ 1 ∧ w.contains (lerp p0 p1 t) := by
  constructor
  · rintro ⟨q0, q1, h⟩
    obtain ⟨u0, u1, a0, a01, a1, _, _, hb⟩ := cs_accept_exact w hx hy 5 p0 p1 q0 q1 h
    exact ⟨u0, a0, le_trans a01 a1, (hb u0 a0 (le_trans a01 a1)).mpr ⟨le_refl _, a01⟩⟩
  · rintro ⟨t, k0, k1, hc⟩
    match hr : csClipLine w 5 p0 p1 with
    | .accept q0 q1 => exact ⟨q0, q1, rfl⟩
    | .reject => exact absurd hc (cs_reject_sound w hx hy 5 p0 p1 hr t k0 k1)
    | .fuel => exact absurd hr (cs_terminates_proper_window w hx hy p0 p1)

/-! ### E3. `ConvexClippingPolygon2d.clip_line` (session 3): with `abs_tol = 0` the returned segment is exactly the part of the
input segment in the intersection of the closed left half-planes of all clipping edges (for a convex counter-clockwise
clipping polygon: exactly the part inside it); an empty result means an empty intersection -/

private theorem shInsideLine_iff (cs ce p : Pt) : shInsideLine cs ce p = true ↔ 0 ≤ sideOf cs ce p := by
  simp [shInsideLine, PolygonKernels.shInsideLine, sideOf]

/-- the cut computed by `edge_intersection` for an edge whose end points have different side values (tolerance 0) -/
private theorem lineCut_zero (cs ce es ee : Pt) (h : sideOf cs ce es ≠ sideOf cs ce ee) :
    ∃ ip, lineLine true 0 es ee cs ce = some ip ∧
      ip = lerp es ee (sideOf cs ce es / (sideOf cs ce es - sideOf cs ce ee)) ∧ sideOf cs ce ip = 0 := by
  have hd : sideOf cs ce es - sideOf cs ce ee
      = (ce.y - cs.y) * (ee.x - es.x) - (ce.x - cs.x) * (ee.y - es.y) := by simp only [sideOf]; ring
  have hne : sideOf cs ce es - sideOf cs ce ee ≠ 0 := sub_ne_zero.mpr h
  have hsome : ∃ ip, lineLine true 0 es ee cs ce = some ip := by
    simp only [lineLine, PolygonKernels.lineLine]
    split
    · rename_i hden
      exfalso
      simp only [decide_eq_true_eq] at hden
      rw [← hd] at hden
      simp only [PolygonKernels.rabs] at hden
      split_ifs at hden with hneg
      · apply hne; linarith
      · apply hne; linarith [not_lt.mp hneg]
    · simp
  obtain ⟨ip, hip⟩ := hsome
  obtain ⟨_, hl⟩ := lineLine_virtual 0 (le_refl _) es ee cs ce ip hip
  refine ⟨ip, hip, hl, ?_⟩
  rw [hl, sideOf_lerp]
  field_simp
  ring

private theorem sideOf_aff (c d s e : Pt) (t : Rat) :
    sideOf c d (lerp s e t) = sideOf c d s + t * (sideOf c d e - sideOf c d s) := by
  simp only [sideOf, lerp]; ring

private theorem lerp_lerp_pt (p0 p1 : Pt) (t0 t1 σ : Rat) :
    lerp (lerp p0 p1 t0) (lerp p0 p1 t1) σ = lerp p0 p1 (t0 + σ * (t1 - t0)) := by
  simp only [lerp, Pt.mk.injEq]; constructor <;> ring

private theorem aff_cut_upper (G D t0 t1 tq : Rat) (h0 : 0 ≤ G + t0 * D) (h1 : G + t1 * D < 0) (hq : G + tq * D = 0)
    (c01 : t0 ≤ t1) : ∀ t : Rat, (0 ≤ G + t * D ↔ t ≤ tq) := by
  have hD : D < 0 := by
    by_contra hc
    have := mul_nonneg (sub_nonneg.mpr c01) (not_lt.mp hc)
    nlinarith
  intro t
  constructor
  · intro h
    by_contra hc
    have := mul_pos_of_neg_of_neg (by linarith : tq - t < 0) hD
    nlinarith
  · intro h
    have := mul_nonneg_of_nonpos_of_nonpos (by linarith : t - tq ≤ 0) hD.le
    nlinarith

private theorem aff_cut_lower (G D t0 t1 tq : Rat) (h0 : G + t0 * D < 0) (h1 : 0 ≤ G + t1 * D) (hq : G + tq * D = 0)
    (c01 : t0 ≤ t1) : ∀ t : Rat, (0 ≤ G + t * D ↔ tq ≤ t) := by
  have hD : 0 < D := by
    by_contra hc
    have := mul_nonneg_of_nonpos_of_nonpos (by linarith : t0 - t1 ≤ 0) (not_lt.mp hc)
    nlinarith
  intro t
  constructor
  · intro h
    by_contra hc
    have := mul_pos (by linarith : 0 < tq - t) hD
    nlinarith
  · intro h
    have := mul_nonneg (by linarith : 0 ≤ t - tq) hD.le
    nlinarith

private theorem cut_range_in_out (A B : Rat) (hA : 0 ≤ A) (hB : B < 0) : 0 ≤ A / (A - B) ∧ A / (A - B) ≤ 1 := by
  have hd : 0 < A - B := by linarith
  exact ⟨div_nonneg hA hd.le, (div_le_one hd).mpr (by linarith)⟩

private theorem cut_range_out_in (A B : Rat) (hA : A < 0) (hB : 0 ≤ B) : 0 ≤ A / (A - B) ∧ A / (A - B) ≤ 1 := by
  have hd : 0 < B - A := by linarith
  have e : A / (A - B) = (-A) / (B - A) := by rw [← neg_div_neg_eq]; ring_nf
  rw [e]
  exact ⟨div_nonneg (by linarith) hd.le, (div_le_one hd).mpr (by linarith)⟩

/-- the points of the segment `s e` with parameter in `[0, 1]` that satisfy all constraints in `done` are those with
parameter in `[t0, t1]` -/
private def Exact (s e : Pt) (done : List (Pt × Pt)) (t0 t1 : Rat) : Prop :=
  ∀ t : Rat, 0 ≤ t → t ≤ 1 → ((∀ E ∈ done, 0 ≤ sideOf E.1 E.2 (lerp s e t)) ↔ t0 ≤ t ∧ t ≤ t1)

private theorem exact_extend (s e cs ce : Pt) (done : List (Pt × Pt)) (t0 t1 u0 u1 : Rat) (hex : Exact s e done t0 t1)
    (hk : ∀ t : Rat, t0 ≤ t → t ≤ t1 → (0 ≤ sideOf cs ce (lerp s e t) ↔ u0 ≤ t ∧ t ≤ u1)) (hu0 : t0 ≤ u0) (hu1 : u1 ≤ t1) :
    Exact s e (done ++ [(cs, ce)]) u0 u1 := by
  intro t k0 k1
  constructor
  · intro hall
    have hd := (hex t k0 k1).mp (fun E hE => hall E (List.mem_append_left _ hE))
    exact (hk t hd.1 hd.2).mp (hall (cs, ce) (by simp))
  · rintro ⟨m0, m1⟩ E hE
    have hd := (hex t k0 k1).mpr ⟨le_trans hu0 m0, le_trans m1 hu1⟩
    rcases List.mem_append.mp hE with hE | hE
    · exact hd E hE
    · simp only [List.mem_singleton] at hE
      subst hE
      exact (hk t (le_trans hu0 m0) (le_trans m1 hu1)).mpr ⟨m0, m1⟩

private theorem clipLine_master (s e : Pt) : ∀ (edges : List Pt) (cs : Pt) (t0 t1 : Rat) (done : List (Pt × Pt)),
    0 ≤ t0 → t0 ≤ t1 → t1 ≤ 1 → Exact s e done t0 t1 →
    (∀ q0 q1, clipLineGo 0 cs edges (lerp s e t0) (lerp s e t1) = some (q0, q1) →
      ∃ u0 u1 : Rat, 0 ≤ u0 ∧ u0 ≤ u1 ∧ u1 ≤ 1 ∧ q0 = lerp s e u0 ∧ q1 = lerp s e u1 ∧
        Exact s e (done ++ clipEdges cs edges) u0 u1) ∧
    (clipLineGo 0 cs edges (lerp s e t0) (lerp s e t1) = none →
      ∀ t : Rat, 0 ≤ t → t ≤ 1 → ¬ (∀ E ∈ done ++ clipEdges cs edges, 0 ≤ sideOf E.1 E.2 (lerp s e t)))
  | [], cs, t0, t1, done, a0, a01, a1, hex => by
    simp only [clipLineGo, clipEdges, List.append_nil]
    refine ⟨fun q0 q1 h => ?_, fun h => by simp at h⟩
    simp only [Option.some.injEq, Prod.mk.injEq] at h
    exact ⟨t0, t1, a0, a01, a1, h.1.symm, h.2.symm, hex⟩
  | ce :: rest, cs, t0, t1, done, a0, a01, a1, hex => by
    have g := fun t => sideOf_aff cs ce s e t
    have hassoc : done ++ clipEdges cs (ce :: rest) = (done ++ [(cs, ce)]) ++ clipEdges ce rest := by
      simp [clipEdges]
    rw [hassoc]
    simp only [clipLineGo]
    by_cases hs : shInsideLine cs ce (lerp s e t0) = true
    · rw [if_pos hs]
      have gs : 0 ≤ sideOf cs ce (lerp s e t0) := (shInsideLine_iff _ _ _).mp hs
      by_cases he : shInsideLine cs ce (lerp s e t1) = true
      · -- both end points inside: nothing changes
        simp only [he, Bool.not_true, Bool.false_eq_true, if_false]
        have ge : 0 ≤ sideOf cs ce (lerp s e t1) := (shInsideLine_iff _ _ _).mp he
        apply clipLine_master s e rest ce t0 t1 (done ++ [(cs, ce)]) a0 a01 a1
        apply exact_extend s e cs ce done t0 t1 t0 t1 hex _ (le_refl _) (le_refl _)
        intro t m0 m1
        refine ⟨fun _ => ⟨m0, m1⟩, fun _ => ?_⟩
        rw [g] at gs ge ⊢
        exact aff_ge _ _ t0 t1 t 0 gs ge m0 m1
      · -- the end point is cut off
        have ge : sideOf cs ce (lerp s e t1) < 0 := by
          have : ¬ 0 ≤ sideOf cs ce (lerp s e t1) := fun h => he ((shInsideLine_iff _ _ _).mpr h)
          exact not_le.mp this
        simp only [he, Bool.not_false, if_true]
        obtain ⟨ip, hip, hl, hz⟩ := lineCut_zero cs ce (lerp s e t0) (lerp s e t1) (by linarith)
        have hr := cut_range_in_out _ _ gs ge
        rw [lerp_lerp_pt] at hl
        rw [hip, Option.getD_some, hl]
        rw [hl] at hz
        generalize sideOf cs ce (lerp s e t0) / (sideOf cs ce (lerp s e t0) - sideOf cs ce (lerp s e t1)) = σ at hr hz hl
        have c0 : t0 ≤ t0 + σ * (t1 - t0) := convex_ge t0 t1 σ t0 hr.1 hr.2 (le_refl _) a01
        have c1 : t0 + σ * (t1 - t0) ≤ t1 := convex_le t0 t1 σ t1 hr.1 hr.2 a01 (le_refl _)
        apply clipLine_master s e rest ce t0 (t0 + σ * (t1 - t0)) (done ++ [(cs, ce)]) a0 c0 (le_trans c1 a1)
        apply exact_extend s e cs ce done t0 t1 t0 _ hex _ (le_refl _) c1
        intro t m0 m1
        rw [g] at gs ge hz ⊢
        have := aff_cut_upper _ _ t0 t1 _ gs ge hz a01 t
        rw [this]
        exact ⟨fun h => ⟨m0, h⟩, fun h => h.2⟩
    · rw [if_neg hs]
      have gs : sideOf cs ce (lerp s e t0) < 0 := by
        have : ¬ 0 ≤ sideOf cs ce (lerp s e t0) := fun h => hs ((shInsideLine_iff _ _ _).mpr h)
        exact not_le.mp this
      by_cases he : shInsideLine cs ce (lerp s e t1) = true
      · -- the start point is cut off
        rw [if_pos he]
        have ge : 0 ≤ sideOf cs ce (lerp s e t1) := (shInsideLine_iff _ _ _).mp he
        obtain ⟨ip, hip, hl, hz⟩ := lineCut_zero cs ce (lerp s e t0) (lerp s e t1) (by linarith)
        have hr := cut_range_out_in _ _ gs ge
        rw [lerp_lerp_pt] at hl
        rw [hip, Option.getD_some, hl]
        rw [hl] at hz
        generalize sideOf cs ce (lerp s e t0) / (sideOf cs ce (lerp s e t0) - sideOf cs ce (lerp s e t1)) = σ at hr hz hl
        have c0 : t0 ≤ t0 + σ * (t1 - t0) := convex_ge t0 t1 σ t0 hr.1 hr.2 (le_refl _) a01
        have c1 : t0 + σ * (t1 - t0) ≤ t1 := convex_le t0 t1 σ t1 hr.1 hr.2 a01 (le_refl _)
        apply clipLine_master s e rest ce (t0 + σ * (t1 - t0)) t1 (done ++ [(cs, ce)]) (le_trans a0 c0) c1 a1
        apply exact_extend s e cs ce done t0 t1 _ t1 hex _ c0 (le_refl _)
        intro t m0 m1
        rw [g] at gs ge hz ⊢
        have := aff_cut_lower _ _ t0 t1 _ gs ge hz a01 t
        rw [this]
        exact ⟨fun h => ⟨h, m1⟩, fun h => h.1⟩
      · -- both end points outside this half-plane: nothing of the segment is left
        rw [if_neg he]
        have ge : sideOf cs ce (lerp s e t1) < 0 := by
          have : ¬ 0 ≤ sideOf cs ce (lerp s e t1) := fun h => he ((shInsideLine_iff _ _ _).mpr h)
          exact not_le.mp this
        refine ⟨fun q0 q1 h => by simp at h, fun _ t k0 k1 hall => ?_⟩
        have hd := (hex t k0 k1).mp (fun E hE => hall E (List.mem_append_left _ (List.mem_append_left _ hE)))
        have hc := hall (cs, ce) (List.mem_append_left _ (by simp))
        rw [g] at gs ge hc
        have := aff_lt _ _ t0 t1 t 0 gs ge hd.1 hd.2
        linarith

/-- `ConvexClippingPolygon2d.clip_line` with tolerance 0, for ANY clipping polygon and ANY segment: a returned segment
`(q0, q1) = (P(u0), P(u1))`, `0 ≤ u0 ≤ u1 ≤ 1`, is EXACTLY the set of points `P(t)` of the input segment that lie in the closed left
half-plane of every clipping edge (both containments) -/
theorem clipLineConvex_exact (clip : List Pt) (s e q0 q1 : Pt) (h : clipLineConvex clip 0 s e = some (q0, q1)) :
    ∃ u0 u1 : Rat, 0 ≤ u0 ∧ u0 ≤ u1 ∧ u1 ≤ 1 ∧ q0 = lerp s e u0 ∧ q1 = lerp s e u1 ∧
      ∀ t : Rat, 0 ≤ t → t ≤ 1 → ((∀ E ∈ polygonEdges clip, 0 ≤ sideOf E.1 E.2 (lerp s e t)) ↔ u0 ≤ t ∧ t ≤ u1) := by
  have e0 : s = lerp s e 0 := by simp [lerp]
  have e1 : e = lerp s e 1 := by simp [lerp]
  cases clip with
  | nil =>
    simp only [clipLineConvex, Option.some.injEq, Prod.mk.injEq] at h
    refine ⟨0, 1, le_refl _, by norm_num, le_refl _, h.1 ▸ e0, h.2 ▸ e1, fun t k0 k1 => ?_⟩
    simp [polygonEdges, k0, k1]
  | cons c cs =>
    simp only [clipLineConvex] at h
    have hm := (clipLine_master s e (c :: cs) (lastPt c cs) 0 1 [] (le_refl _) (by norm_num) (le_refl _)
      (fun t k0 k1 => by simp [k0, k1])).1 q0 q1 (by rw [← e0, ← e1]; exact h)
    obtain ⟨u0, u1, a0, a01, a1, f0, f1, hex⟩ := hm
    exact ⟨u0, u1, a0, a01, a1, f0, f1, fun t k0 k1 => by simpa [polygonEdges] using hex t k0 k1⟩

/-- an empty result means that no point of the segment lies in all half-planes -/
theorem clipLineConvex_none (clip : List Pt) (s e : Pt) (h : clipLineConvex clip 0 s e = none) :
    ∀ t : Rat, 0 ≤ t → t ≤ 1 → ¬ (∀ E ∈ polygonEdges clip, 0 ≤ sideOf E.1 E.2 (lerp s e t)) := by
  have e0 : s = lerp s e 0 := by simp [lerp]
  have e1 : e = lerp s e 1 := by simp [lerp]
  cases clip with
  | nil => simp [clipLineConvex] at h
  | cons c cs =>
    simp only [clipLineConvex] at h
    have hm := (clipLine_master s e (c :: cs) (lastPt c cs) 0 1 [] (le_refl _) (by norm_num) (le_refl _)
      (fun t k0 k1 => by simp [k0, k1])).2 (by rw [← e0, ← e1]; exact h)
    simpa [polygonEdges] using hm

private theorem clipLine_seg_master (tol : Rat) (htol : 0 ≤ tol) (s e : Pt) : ∀ (edges : List Pt) (cs : Pt) (t0 t1 : Rat),
    0 ≤ t0 → t0 ≤ t1 → t1 ≤ 1 →
    ∀ q0 q1, clipLineGo tol cs edges (lerp s e t0) (lerp s e t1) = some (q0, q1) →
      ∃ u0 u1 : Rat, 0 ≤ u0 ∧ u0 ≤ u1 ∧ u1 ≤ 1 ∧ q0 = lerp s e u0 ∧ q1 = lerp s e u1
  | [], cs, t0, t1, a0, a01, a1, q0, q1, h => by
    simp only [clipLineGo, Option.some.injEq, Prod.mk.injEq] at h
    exact ⟨t0, t1, a0, a01, a1, h.1.symm, h.2.symm⟩
  | ce :: rest, cs, t0, t1, a0, a01, a1, q0, q1, h => by
    simp only [clipLineGo] at h
    by_cases hs : shInsideLine cs ce (lerp s e t0) = true
    · rw [if_pos hs] at h
      have gs : 0 ≤ sideOf cs ce (lerp s e t0) := (shInsideLine_iff _ _ _).mp hs
      by_cases he : shInsideLine cs ce (lerp s e t1) = true
      · simp only [he, Bool.not_true, Bool.false_eq_true, if_false] at h
        exact clipLine_seg_master tol htol s e rest ce t0 t1 a0 a01 a1 q0 q1 h
      · have ge : sideOf cs ce (lerp s e t1) < 0 := by
          have : ¬ 0 ≤ sideOf cs ce (lerp s e t1) := fun hh => he ((shInsideLine_iff _ _ _).mpr hh)
          exact not_le.mp this
        simp only [he, Bool.not_false, if_true] at h
        match hll : lineLine true tol (lerp s e t0) (lerp s e t1) cs ce with
        | none =>
          rw [hll, Option.getD_none] at h
          exact clipLine_seg_master tol htol s e rest ce t0 t1 a0 a01 a1 q0 q1 h
        | some ip =>
          rw [hll, Option.getD_some] at h
          obtain ⟨_, hl⟩ := lineLine_virtual tol htol _ _ cs ce ip hll
          have hr := cut_range_in_out _ _ gs ge
          rw [lerp_lerp_pt] at hl
          rw [hl] at h
          exact clipLine_seg_master tol htol s e rest ce t0 _ a0
            (convex_ge t0 t1 _ t0 hr.1 hr.2 (le_refl _) a01)
            (le_trans (convex_le t0 t1 _ t1 hr.1 hr.2 a01 (le_refl _)) a1) q0 q1 h
    · rw [if_neg hs] at h
      have gs : sideOf cs ce (lerp s e t0) < 0 := by
        have : ¬ 0 ≤ sideOf cs ce (lerp s e t0) := fun hh => hs ((shInsideLine_iff _ _ _).mpr hh)
        exact not_le.mp this
      by_cases he : shInsideLine cs ce (lerp s e t1) = true
      · rw [if_pos he] at h
        have ge : 0 ≤ sideOf cs ce (lerp s e t1) := (shInsideLine_iff _ _ _).mp he
        match hll : lineLine true tol (lerp s e t0) (lerp s e t1) cs ce with
        | none =>
          rw [hll, Option.getD_none] at h
          exact clipLine_seg_master tol htol s e rest ce t0 t1 a0 a01 a1 q0 q1 h
        | some ip =>
          rw [hll, Option.getD_some] at h
          obtain ⟨_, hl⟩ := lineLine_virtual tol htol _ _ cs ce ip hll
          have hr := cut_range_out_in _ _ gs ge
          rw [lerp_lerp_pt] at hl
          rw [hl] at h
          exact clipLine_seg_master tol htol s e rest ce _ t1
            (le_trans a0 (convex_ge t0 t1 _ t0 hr.1 hr.2 (le_refl _) a01))
            (convex_le t0 t1 _ t1 hr.1 hr.2 a01 (le_refl _)) a1 q0 q1 h
      · rw [if_neg he] at h
        simp at h

/-- `ConvexClippingPolygon2d.clip_line` for EVERY tolerance `abs_tol ≥ 0`: the returned end points are points
`P(u0)`, `P(u1)` of the input segment with `0 ≤ u0 ≤ u1 ≤ 1` (the direction of the line is kept, nothing outside the segment is returned) -/
theorem clipLineConvex_on_segment (clip : List Pt) (tol : Rat) (htol : 0 ≤ tol) (s e q0 q1 : Pt)
    (h : clipLineConvex clip tol s e = some (q0, q1)) :
    ∃ u0 u1 : Rat, 0 ≤ u0 ∧ u0 ≤ u1 ∧ u1 ≤ 1 ∧ q0 = lerp s e u0 ∧ q1 = lerp s e u1 := by
  have e0 : s = lerp s e 0 := by simp [lerp]
  have e1 : e = lerp s e 1 := by simp [lerp]
  cases clip with
  | nil =>
    simp only [clipLineConvex, Option.some.injEq, Prod.mk.injEq] at h
    exact ⟨0, 1, le_refl _, by norm_num, le_refl _, h.1 ▸ e0, h.2 ▸ e1⟩
  | cons c cs =>
    simp only [clipLineConvex] at h
    exact clipLine_seg_master tol htol s e (c :: cs) (lastPt c cs) 0 1 (le_refl _) (by norm_num) (le_refl _) q0 q1
      (by rw [← e0, ← e1]; exact h)

/-! ### E3b. `clip_line` for every tolerance `abs_tol ≥ 0` as a band statement (growth round 2): nothing inside is cut away, and
everything returned violates a clipping edge by at most `abs_tol` (in the units of the side determinant) -/

private theorem lineLine_none (tol : Rat) (es ee cs ce : Pt) (h : lineLine true tol es ee cs ce = none) :
    PolygonKernels.rabs (sideOf cs ce es - sideOf cs ce ee) ≤ tol := by
  have hd : sideOf cs ce es - sideOf cs ce ee
      = (ce.y - cs.y) * (ee.x - es.x) - (ce.x - cs.x) * (ee.y - es.y) := by simp only [sideOf]; ring
  rw [hd]
  simp only [lineLine, PolygonKernels.lineLine] at h
  split at h
  · rename_i hden
    simpa using hden
  · simp at h

private theorem lineLine_cut (tol : Rat) (htol : 0 ≤ tol) (es ee cs ce ip : Pt) (h : lineLine true tol es ee cs ce = some ip) :
    ip = lerp es ee (sideOf cs ce es / (sideOf cs ce es - sideOf cs ce ee)) ∧ sideOf cs ce ip = 0 := by
  obtain ⟨hne, hl⟩ := lineLine_virtual tol htol es ee cs ce ip h
  refine ⟨hl, ?_⟩
  rw [hl, sideOf_lerp]
  field_simp
  ring

private theorem rabs_le {x tol : Rat} (h : PolygonKernels.rabs x ≤ tol) : x ≤ tol ∧ -x ≤ tol := by
  unfold PolygonKernels.rabs at h
  split_ifs at h with hn
  · exact ⟨by linarith, h⟩
  · exact ⟨h, by linarith [not_lt.mp hn]⟩

/-- (A) every point of the segment that satisfies all constraints in `done` has its parameter in `[t0, t1]`;
(B) every point with parameter in `[t0, t1]` violates a constraint in `done` by at most `tol` -/
private def Band (s e : Pt) (tol : Rat) (done : List (Pt × Pt)) (t0 t1 : Rat) : Prop :=
  (∀ t : Rat, 0 ≤ t → t ≤ 1 → (∀ E ∈ done, 0 ≤ sideOf E.1 E.2 (lerp s e t)) → t0 ≤ t ∧ t ≤ t1) ∧
  (∀ t : Rat, t0 ≤ t → t ≤ t1 → ∀ E ∈ done, -tol ≤ sideOf E.1 E.2 (lerp s e t))

private theorem band_extend (s e cs ce : Pt) (tol : Rat) (done : List (Pt × Pt)) (t0 t1 u0 u1 : Rat)
    (hb : Band s e tol done t0 t1) (hu0 : t0 ≤ u0) (hu1 : u1 ≤ t1)
    (hk1 : ∀ t : Rat, t0 ≤ t → t ≤ t1 → 0 ≤ sideOf cs ce (lerp s e t) → u0 ≤ t ∧ t ≤ u1)
    (hk2 : ∀ t : Rat, u0 ≤ t → t ≤ u1 → -tol ≤ sideOf cs ce (lerp s e t)) :
    Band s e tol (done ++ [(cs, ce)]) u0 u1 := by
  constructor
  · intro t k0 k1 hall
    have hd := hb.1 t k0 k1 (fun E hE => hall E (List.mem_append_left _ hE))
    exact hk1 t hd.1 hd.2 (hall (cs, ce) (by simp))
  · intro t m0 m1 E hE
    rcases List.mem_append.mp hE with hE | hE
    · exact hb.2 t (le_trans hu0 m0) (le_trans m1 hu1) E hE
    · simp only [List.mem_singleton] at hE
      subst hE
      exact hk2 t m0 m1

private theorem clipLine_band_master (tol : Rat) (htol : 0 ≤ tol) (s e : Pt) :
    ∀ (edges : List Pt) (cs : Pt) (t0 t1 : Rat) (done : List (Pt × Pt)),
    0 ≤ t0 → t0 ≤ t1 → t1 ≤ 1 → Band s e tol done t0 t1 →
    (∀ q0 q1, clipLineGo tol cs edges (lerp s e t0) (lerp s e t1) = some (q0, q1) →
      ∃ u0 u1 : Rat, 0 ≤ u0 ∧ u0 ≤ u1 ∧ u1 ≤ 1 ∧ q0 = lerp s e u0 ∧ q1 = lerp s e u1 ∧
        Band s e tol (done ++ clipEdges cs edges) u0 u1) ∧
    (clipLineGo tol cs edges (lerp s e t0) (lerp s e t1) = none →
      ∀ t : Rat, 0 ≤ t → t ≤ 1 → ¬ (∀ E ∈ done ++ clipEdges cs edges, 0 ≤ sideOf E.1 E.2 (lerp s e t)))
  | [], cs, t0, t1, done, a0, a01, a1, hb => by
    simp only [clipLineGo, clipEdges, List.append_nil]
    refine ⟨fun q0 q1 h => ?_, fun h => by simp at h⟩
    simp only [Option.some.injEq, Prod.mk.injEq] at h
    exact ⟨t0, t1, a0, a01, a1, h.1.symm, h.2.symm, hb⟩
  | ce :: rest, cs, t0, t1, done, a0, a01, a1, hb => by
    have g := fun t => sideOf_aff cs ce s e t
    have hassoc : done ++ clipEdges cs (ce :: rest) = (done ++ [(cs, ce)]) ++ clipEdges ce rest := by
      simp [clipEdges]
    rw [hassoc]
    simp only [clipLineGo]
    have hmt : -tol ≤ 0 := by linarith
    by_cases hs : shInsideLine cs ce (lerp s e t0) = true
    · rw [if_pos hs]
      have gs : 0 ≤ sideOf cs ce (lerp s e t0) := (shInsideLine_iff _ _ _).mp hs
      by_cases he : shInsideLine cs ce (lerp s e t1) = true
      · simp only [he, Bool.not_true, Bool.false_eq_true, if_false]
        have ge : 0 ≤ sideOf cs ce (lerp s e t1) := (shInsideLine_iff _ _ _).mp he
        apply clipLine_band_master tol htol s e rest ce t0 t1 (done ++ [(cs, ce)]) a0 a01 a1
        apply band_extend s e cs ce tol done t0 t1 t0 t1 hb (le_refl _) (le_refl _)
        · intro t m0 m1 _; exact ⟨m0, m1⟩
        · intro t m0 m1
          rw [g] at gs ge ⊢
          have := aff_ge _ _ t0 t1 t 0 gs ge m0 m1
          linarith
      · have ge : sideOf cs ce (lerp s e t1) < 0 := by
          have : ¬ 0 ≤ sideOf cs ce (lerp s e t1) := fun h => he ((shInsideLine_iff _ _ _).mpr h)
          exact not_le.mp this
        simp only [he, Bool.not_false, if_true]
        match hll : lineLine true tol (lerp s e t0) (lerp s e t1) cs ce with
        | none =>
          rw [Option.getD_none]
          have hdn := (rabs_le (lineLine_none tol _ _ cs ce hll)).1
          apply clipLine_band_master tol htol s e rest ce t0 t1 (done ++ [(cs, ce)]) a0 a01 a1
          apply band_extend s e cs ce tol done t0 t1 t0 t1 hb (le_refl _) (le_refl _)
          · intro t m0 m1 _; exact ⟨m0, m1⟩
          · intro t m0 m1
            simp only [g] at gs ge hdn ⊢
            exact aff_ge _ _ t0 t1 t (-tol) (by linarith) (by linarith) m0 m1
        | some ip =>
          rw [Option.getD_some]
          obtain ⟨hl, hz⟩ := lineLine_cut tol htol _ _ cs ce ip hll
          have hr := cut_range_in_out _ _ gs ge
          rw [lerp_lerp_pt] at hl
          rw [hl]
          rw [hl] at hz
          generalize sideOf cs ce (lerp s e t0) / (sideOf cs ce (lerp s e t0) - sideOf cs ce (lerp s e t1)) = σ at hr hz hl
          have c0 : t0 ≤ t0 + σ * (t1 - t0) := convex_ge t0 t1 σ t0 hr.1 hr.2 (le_refl _) a01
          have c1 : t0 + σ * (t1 - t0) ≤ t1 := convex_le t0 t1 σ t1 hr.1 hr.2 a01 (le_refl _)
          apply clipLine_band_master tol htol s e rest ce t0 (t0 + σ * (t1 - t0)) (done ++ [(cs, ce)]) a0 c0 (le_trans c1 a1)
          apply band_extend s e cs ce tol done t0 t1 t0 _ hb (le_refl _) c1
          · intro t m0 m1 hge
            rw [g] at gs ge hz hge
            exact ⟨m0, (aff_cut_upper _ _ t0 t1 _ gs ge hz a01 t).mp hge⟩
          · intro t m0 m1
            rw [g] at gs ge hz ⊢
            have := (aff_cut_upper _ _ t0 t1 _ gs ge hz a01 t).mpr m1
            linarith
    · rw [if_neg hs]
      have gs : sideOf cs ce (lerp s e t0) < 0 := by
        have : ¬ 0 ≤ sideOf cs ce (lerp s e t0) := fun h => hs ((shInsideLine_iff _ _ _).mpr h)
        exact not_le.mp this
      by_cases he : shInsideLine cs ce (lerp s e t1) = true
      · rw [if_pos he]
        have ge : 0 ≤ sideOf cs ce (lerp s e t1) := (shInsideLine_iff _ _ _).mp he
        match hll : lineLine true tol (lerp s e t0) (lerp s e t1) cs ce with
        | none =>
          rw [Option.getD_none]
          have hdn := (rabs_le (lineLine_none tol _ _ cs ce hll)).2
          apply clipLine_band_master tol htol s e rest ce t0 t1 (done ++ [(cs, ce)]) a0 a01 a1
          apply band_extend s e cs ce tol done t0 t1 t0 t1 hb (le_refl _) (le_refl _)
          · intro t m0 m1 _; exact ⟨m0, m1⟩
          · intro t m0 m1
            simp only [g] at gs ge hdn ⊢
            exact aff_ge _ _ t0 t1 t (-tol) (by linarith) (by linarith) m0 m1
        | some ip =>
          rw [Option.getD_some]
          obtain ⟨hl, hz⟩ := lineLine_cut tol htol _ _ cs ce ip hll
          have hr := cut_range_out_in _ _ gs ge
          rw [lerp_lerp_pt] at hl
          rw [hl]
          rw [hl] at hz
          generalize sideOf cs ce (lerp s e t0) / (sideOf cs ce (lerp s e t0) - sideOf cs ce (lerp s e t1)) = σ at hr hz hl
          have c0 : t0 ≤ t0 + σ * (t1 - t0) := convex_ge t0 t1 σ t0 hr.1 hr.2 (le_refl _) a01
          have c1 : t0 + σ * (t1 - t0) ≤ t1 := convex_le t0 t1 σ t1 hr.1 hr.2 a01 (le_refl _)
          apply clipLine_band_master tol htol s e rest ce (t0 + σ * (t1 - t0)) t1 (done ++ [(cs, ce)]) (le_trans a0 c0) c1 a1
          apply band_extend s e cs ce tol done t0 t1 _ t1 hb c0 (le_refl _)
          · intro t m0 m1 hge
            rw [g] at gs ge hz hge
            exact ⟨(aff_cut_lower _ _ t0 t1 _ gs ge hz a01 t).mp hge, m1⟩
          · intro t m0 m1
            rw [g] at gs ge hz ⊢
            have := (aff_cut_lower _ _ t0 t1 _ gs ge hz a01 t).mpr m0
            linarith
      · rw [if_neg he]
        have ge : sideOf cs ce (lerp s e t1) < 0 := by
          have : ¬ 0 ≤ sideOf cs ce (lerp s e t1) := fun h => he ((shInsideLine_iff _ _ _).mpr h)
          exact not_le.mp this
        refine ⟨fun q0 q1 h => by simp at h, fun _ t k0 k1 hall => ?_⟩
        have hd := hb.1 t k0 k1 (fun E hE => hall E (List.mem_append_left _ (List.mem_append_left _ hE)))
        have hc := hall (cs, ce) (List.mem_append_left _ (by simp))
        rw [g] at gs ge hc
        have := aff_lt _ _ t0 t1 t 0 gs ge hd.1 hd.2
        linarith

/-- `ConvexClippingPolygon2d.clip_line` for EVERY tolerance `abs_tol ≥ 0` and every clipping polygon: a returned segment
`(P(u0), P(u1))`, `0 ≤ u0 ≤ u1 ≤ 1`, (A) contains every point of the input segment that lies in all closed clip half-planes
(nothing inside is cut away) and (B) consists of points that violate a clipping edge by at most `abs_tol`, measured by the side
determinant `(ce - cs) × (p - cs)`.  For `abs_tol = 0` this is `clipLineConvex_exact`. -/
theorem clipLineConvex_band (clip : List Pt) (tol : Rat) (htol : 0 ≤ tol) (s e q0 q1 : Pt)
    (h : clipLineConvex clip tol s e = some (q0, q1)) :
    ∃ u0 u1 : Rat, 0 ≤ u0 ∧ u0 ≤ u1 ∧ u1 ≤ 1 ∧ q0 = lerp s e u0 ∧ q1 = lerp s e u1 ∧
      (∀ t : Rat, 0 ≤ t → t ≤ 1 → (∀ E ∈ polygonEdges clip, 0 ≤ sideOf E.1 E.2 (lerp s e t)) → u0 ≤ t ∧ t ≤ u1) ∧
      (∀ t : Rat, u0 ≤ t → t ≤ u1 → ∀ E ∈ polygonEdges clip, -tol ≤ sideOf E.1 E.2 (lerp s e t)) := by
  have e0 : s = lerp s e 0 := by simp [lerp]
  have e1 : e = lerp s e 1 := by simp [lerp]
  cases clip with
  | nil =>
    simp only [clipLineConvex, Option.some.injEq, Prod.mk.injEq] at h
    refine ⟨0, 1, le_refl _, by norm_num, le_refl _, h.1 ▸ e0, h.2 ▸ e1, fun t k0 k1 _ => ⟨k0, k1⟩, fun t _ _ E hE => ?_⟩
    simp [polygonEdges] at hE
  | cons c cs =>
    simp only [clipLineConvex] at h
    have hm := (clipLine_band_master tol htol s e (c :: cs) (lastPt c cs) 0 1 [] (le_refl _) (by norm_num) (le_refl _)
      ⟨fun t k0 k1 _ => ⟨k0, k1⟩, fun t _ _ E hE => by simp at hE⟩).1 q0 q1 (by rw [← e0, ← e1]; exact h)
    obtain ⟨u0, u1, a0, a01, a1, f0, f1, hb⟩ := hm
    simp only [List.nil_append] at hb
    exact ⟨u0, u1, a0, a01, a1, f0, f1, hb.1, hb.2⟩

/-- for every tolerance an empty result means that no point of the segment lies in all closed clip half-planes -/
theorem clipLineConvex_band_none (clip : List Pt) (tol : Rat) (htol : 0 ≤ tol) (s e : Pt) (h : clipLineConvex clip tol s e = none) :
    ∀ t : Rat, 0 ≤ t → t ≤ 1 → ¬ (∀ E ∈ polygonEdges clip, 0 ≤ sideOf E.1 E.2 (lerp s e t)) := by
  have e0 : s = lerp s e 0 := by simp [lerp]
  have e1 : e = lerp s e 1 := by simp [lerp]
  cases clip with
  | nil => simp [clipLineConvex] at h
  | cons c cs =>
    simp only [clipLineConvex] at h
    have hm := (clipLine_band_master tol htol s e (c :: cs) (lastPt c cs) 0 1 [] (le_refl _) (by norm_num) (le_refl _)
      ⟨fun t k0 k1 _ => ⟨k0, k1⟩, fun t _ _ E hE => by simp at hE⟩).2 (by rw [← e0, ← e1]; exact h)
    simpa [polygonEdges] using hm

/-! ### E4. Sutherland-Hodgman conserves the signed area across a cut (session 3, tolerance 0): clipping a polygon against an edge
and against the reversed edge yields two polygons whose signed areas add up to the signed area of the polygon.
Idea: measure the area as a fan around a point of the clipping line; then the bridging edges along the line contribute nothing
and every polygon edge contributes its part on either side. -/

private theorem fanGo_append (o : Pt) (prev : Pt) (l1 l2 : List Pt) :
    fanGo o prev (l1 ++ l2) = fanGo o prev l1 + fanGo o (lastPt prev l1) l2 := by
  induction l1 generalizing prev with
  | nil => simp [fanGo, lastPt]
  | cons q qs ih => simp only [List.cons_append, fanGo, lastPt, ih]; ring

private theorem lastPt_append (prev : Pt) (l1 l2 : List Pt) : lastPt prev (l1 ++ l2) = lastPt (lastPt prev l1) l2 := by
  induction l1 generalizing prev with
  | nil => rfl
  | cons q qs ih => simp only [List.cons_append, lastPt, ih]

/-- three points on the line `c d`: the fan term vanishes -/
private theorem sideOf_on_line (c d o p q : Pt) (hne : c ≠ d) (ho : sideOf c d o = 0) (hp : sideOf c d p = 0)
    (hq : sideOf c d q = 0) : sideOf o p q = 0 := by
  simp only [sideOf] at *
  have g1 : (d.x - c.x) * ((p.x - o.x) * (q.y - o.y) - (p.y - o.y) * (q.x - o.x)) = 0 := by
    linear_combination (p.x - o.x) * hq - (p.x - o.x) * ho - (q.x - o.x) * hp + (q.x - o.x) * ho
  have g2 : (d.y - c.y) * ((p.x - o.x) * (q.y - o.y) - (p.y - o.y) * (q.x - o.x)) = 0 := by
    linear_combination (p.y - o.y) * hq - (p.y - o.y) * ho - (q.y - o.y) * hp + (q.y - o.y) * ho
  by_cases hdx : d.x - c.x = 0
  · by_cases hdy : d.y - c.y = 0
    · exfalso
      apply hne
      cases c; cases d
      simp only [Pt.mk.injEq]
      constructor <;> linarith
    · exact (mul_eq_zero.mp g2).resolve_left hdy
  · exact (mul_eq_zero.mp g1).resolve_left hdx

private theorem sideOf_split (o a b : Pt) (σ : Rat) :
    sideOf o a (lerp a b σ) + sideOf o (lerp a b σ) b = sideOf o a b := by
  simp only [sideOf, lerp]; ring

/-- the cut point of the edge `es ee` with the line `c d` -/
private def cutPt (c d es ee : Pt) : Pt := lerp es ee (sideOf c d es / (sideOf c d es - sideOf c d ee))

private theorem cutPt_swap (c d es ee : Pt) : cutPt d c es ee = cutPt c d es ee := by
  unfold cutPt
  rw [sideOf_swap c d es, sideOf_swap c d ee]
  congr 1
  rw [← neg_div_neg_eq]
  ring_nf

private theorem shCut_zero (c d es ee : Pt) (h : sideOf c d es ≠ sideOf c d ee) :
    shCut c d 0 es ee = [cutPt c d es ee] ∧ sideOf c d (cutPt c d es ee) = 0 := by
  obtain ⟨ip, hip, hl, hz⟩ := lineCut_zero c d es ee h
  unfold shCut
  rw [hip]
  simp only
  rw [hl] at hz ⊢
  exact ⟨rfl, hz⟩

/-- what one polygon edge emits in `clip_polygon` (the body of the inner loop) -/
private def emit (c d es ee : Pt) : List Pt :=
  if shInside c d ee then (if !shInside c d es then shCut c d 0 es ee else []) ++ [ee]
  else if shInside c d es then shCut c d 0 es ee else []

private theorem clipEdgeGo_cons (c d es ee : Pt) (rest : List Pt) :
    clipEdgeGo c d 0 es (ee :: rest) = emit c d es ee ++ clipEdgeGo c d 0 ee rest := rfl

/-- the fan contribution of the part of the edge `es ee` on the inner side of the line -/
private def part (c d o es ee : Pt) : Rat :=
  if shInside c d ee then (if shInside c d es then sideOf o es ee else sideOf o (cutPt c d es ee) ee)
  else (if shInside c d es then sideOf o es (cutPt c d es ee) else 0)

/-- the vertex emitted last (or carried along) is the current vertex when that is inside, a point of the line otherwise -/
private def Carry (c d v prev : Pt) : Prop := if shInside c d v = true then prev = v else sideOf c d prev = 0

private theorem side_step (c d o es ee prev : Pt) (hne : c ≠ d) (ho : sideOf c d o = 0) (hprev : Carry c d es prev) :
    fanGo o prev (emit c d es ee) = part c d o es ee ∧ Carry c d ee (lastPt prev (emit c d es ee)) := by
  unfold emit part Carry at *
  by_cases he : shInside c d ee = true
  · rw [if_pos he, if_pos he, if_pos he]
    by_cases hs : shInside c d es = true
    · rw [if_pos hs] at hprev
      simp only [hs, Bool.not_true, Bool.false_eq_true, if_false, List.nil_append, if_true, fanGo, lastPt, add_zero, hprev,
        and_self]
    · rw [if_neg hs] at hprev
      have hne2 : sideOf c d es ≠ sideOf c d ee := by
        have h1 := (shInside_iff c d ee).mp he
        have h2 : ¬ 0 < sideOf c d es := fun h => hs ((shInside_iff c d es).mpr h)
        intro h; linarith
      obtain ⟨hc, hz⟩ := shCut_zero c d es ee hne2
      simp only [hs, Bool.not_false, if_true, hc, Bool.false_eq_true, if_false, List.singleton_append, fanGo, lastPt, add_zero]
      rw [sideOf_on_line c d o prev _ hne ho hprev hz]
      simp
  · rw [if_neg he, if_neg he, if_neg he]
    by_cases hs : shInside c d es = true
    · rw [if_pos hs] at hprev
      have hne2 : sideOf c d es ≠ sideOf c d ee := by
        have h1 := (shInside_iff c d es).mp hs
        have h2 : ¬ 0 < sideOf c d ee := fun h => he ((shInside_iff c d ee).mpr h)
        intro h; linarith
      obtain ⟨hc, hz⟩ := shCut_zero c d es ee hne2
      simp only [hs, if_true, hc, fanGo, lastPt, add_zero, hprev, hz, and_self]
    · rw [if_neg hs] at hprev
      simp only [hs, Bool.false_eq_true, if_false, fanGo, lastPt, hprev, and_self]

/-- both sides together account for the whole edge -/
private theorem part_add (c d es ee : Pt) (hne : c ≠ d) :
    part c d c es ee + part d c c es ee = sideOf c es ee := by
  have hcc : sideOf c d c = 0 := by simp only [sideOf]; ring
  have in_p : ∀ v, shInside c d v = true ↔ 0 < sideOf c d v := fun v => shInside_iff c d v
  have in_m : ∀ v, shInside d c v = true ↔ sideOf c d v < 0 := by
    intro v; rw [shInside_iff, sideOf_swap]; constructor <;> intro h <;> linarith
  have hcut : ∀ (h : sideOf c d es ≠ sideOf c d ee), sideOf c d (cutPt c d es ee) = 0 := fun h => (shCut_zero c d es ee h).2
  have hsplit := sideOf_split c es ee (sideOf c d es / (sideOf c d es - sideOf c d ee))
  have online : ∀ p q, sideOf c d p = 0 → sideOf c d q = 0 → sideOf c p q = 0 :=
    fun p q hp hq => sideOf_on_line c d c p q hne hcc hp hq
  unfold part
  rw [cutPt_swap c d es ee]
  change sideOf c es (cutPt c d es ee) + sideOf c (cutPt c d es ee) ee = sideOf c es ee at hsplit
  rcases lt_trichotomy (sideOf c d es) 0 with hA | hA | hA <;> rcases lt_trichotomy (sideOf c d ee) 0 with hB | hB | hB
  · -- (-,-)
    have a1 : ¬ shInside c d ee = true := fun h => by have := (in_p ee).mp h; linarith
    have a2 : ¬ shInside c d es = true := fun h => by have := (in_p es).mp h; linarith
    simp only [a1, a2, (in_m ee).mpr hB, (in_m es).mpr hA, if_true, if_false, zero_add, Bool.false_eq_true]
  · -- (-,0)
    have a1 : ¬ shInside c d ee = true := fun h => by have := (in_p ee).mp h; linarith
    have a2 : ¬ shInside c d es = true := fun h => by have := (in_p es).mp h; linarith
    have a3 : ¬ shInside d c ee = true := fun h => by have := (in_m ee).mp h; linarith
    simp only [a1, a2, a3, (in_m es).mpr hA, if_true, if_false, zero_add, Bool.false_eq_true]
    have := online (cutPt c d es ee) ee (hcut (by linarith)) hB
    linarith
  · -- (-,+)
    have a2 : ¬ shInside c d es = true := fun h => by have := (in_p es).mp h; linarith
    have a3 : ¬ shInside d c ee = true := fun h => by have := (in_m ee).mp h; linarith
    simp only [a2, a3, (in_p ee).mpr hB, (in_m es).mpr hA, if_true, if_false, Bool.false_eq_true]
    linarith
  · -- (0,-)
    have a1 : ¬ shInside c d ee = true := fun h => by have := (in_p ee).mp h; linarith
    have a2 : ¬ shInside c d es = true := fun h => by have := (in_p es).mp h; linarith
    have a4 : ¬ shInside d c es = true := fun h => by have := (in_m es).mp h; linarith
    simp only [a1, a2, a4, (in_m ee).mpr hB, if_true, if_false, zero_add, Bool.false_eq_true]
    have := online es (cutPt c d es ee) hA (hcut (by linarith))
    linarith
  · -- (0,0)
    have a1 : ¬ shInside c d ee = true := fun h => by have := (in_p ee).mp h; linarith
    have a2 : ¬ shInside c d es = true := fun h => by have := (in_p es).mp h; linarith
    have a3 : ¬ shInside d c ee = true := fun h => by have := (in_m ee).mp h; linarith
    have a4 : ¬ shInside d c es = true := fun h => by have := (in_m es).mp h; linarith
    simp only [a1, a2, a3, a4, if_false, add_zero, Bool.false_eq_true]
    exact (online es ee hA hB).symm
  · -- (0,+)
    have a2 : ¬ shInside c d es = true := fun h => by have := (in_p es).mp h; linarith
    have a3 : ¬ shInside d c ee = true := fun h => by have := (in_m ee).mp h; linarith
    have a4 : ¬ shInside d c es = true := fun h => by have := (in_m es).mp h; linarith
    simp only [a2, a3, a4, (in_p ee).mpr hB, if_true, if_false, add_zero, Bool.false_eq_true]
    have := online es (cutPt c d es ee) hA (hcut (by linarith))
    linarith
  · -- (+,-)
    have a1 : ¬ shInside c d ee = true := fun h => by have := (in_p ee).mp h; linarith
    have a4 : ¬ shInside d c es = true := fun h => by have := (in_m es).mp h; linarith
    simp only [a1, a4, (in_p es).mpr hA, (in_m ee).mpr hB, if_true, if_false, Bool.false_eq_true]
    linarith
  · -- (+,0)
    have a1 : ¬ shInside c d ee = true := fun h => by have := (in_p ee).mp h; linarith
    have a3 : ¬ shInside d c ee = true := fun h => by have := (in_m ee).mp h; linarith
    have a4 : ¬ shInside d c es = true := fun h => by have := (in_m es).mp h; linarith
    simp only [a1, a3, a4, (in_p es).mpr hA, if_true, if_false, add_zero, Bool.false_eq_true]
    have := online (cutPt c d es ee) ee (hcut (by linarith)) hB
    linarith
  · -- (+,+)
    have a3 : ¬ shInside d c ee = true := fun h => by have := (in_m ee).mp h; linarith
    have a4 : ¬ shInside d c es = true := fun h => by have := (in_m es).mp h; linarith
    simp only [a3, a4, (in_p es).mpr hA, (in_p ee).mpr hB, if_true, if_false, add_zero, Bool.false_eq_true]

private def partSum (c d o : Pt) (es : Pt) : List Pt → Rat
  | [] => 0
  | ee :: rest => part c d o es ee + partSum c d o ee rest

private theorem go_sum (c d o : Pt) (hne : c ≠ d) (ho : sideOf c d o = 0) : ∀ (l : List Pt) (es prev : Pt), Carry c d es prev →
    fanGo o prev (clipEdgeGo c d 0 es l) = partSum c d o es l ∧
      Carry c d (lastPt es l) (lastPt prev (clipEdgeGo c d 0 es l))
  | [], es, prev, h => by simpa [clipEdgeGo, fanGo, partSum, lastPt] using h
  | ee :: rest, es, prev, h => by
    obtain ⟨h1, h2⟩ := side_step c d o es ee prev hne ho h
    obtain ⟨h3, h4⟩ := go_sum c d o hne ho rest ee _ h2
    rw [clipEdgeGo_cons, fanGo_append, lastPt_append, h1, h3]
    exact ⟨rfl, h4⟩

private theorem partSum_add (c d : Pt) (hne : c ≠ d) : ∀ (l : List Pt) (es : Pt),
    partSum c d c es l + partSum d c c es l = fanGo c es l
  | [], _ => by simp [partSum, fanGo]
  | ee :: rest, es => by
    simp only [partSum, fanGo]
    have := part_add c d es ee hne
    have := partSum_add c d hne rest ee
    linarith

/-- one side of the cut, as a closed polygon: its fan area around a point of the line is the sum of the parts -/
private theorem clipEdge_fan (c d o : Pt) (hne : c ≠ d) (ho : sideOf c d o = 0) (v : Pt) (vs : List Pt) :
    fanArea o (clipEdgeGo c d 0 (lastPt v vs) (v :: vs)) = partSum c d o (lastPt v vs) (v :: vs) := by
  have hcarry0 : Carry c d (lastPt v vs) (if shInside c d (lastPt v vs) = true then lastPt v vs else o) := by
    unfold Carry
    split_ifs <;> simp_all
  obtain ⟨h1, h2⟩ := go_sum c d o hne ho (v :: vs) (lastPt v vs) _ hcarry0
  match hO : clipEdgeGo c d 0 (lastPt v vs) (v :: vs) with
  | [] =>
    rw [hO] at h1
    simp only [fanGo] at h1
    simp only [fanArea]
    exact h1
  | o1 :: os =>
    rw [hO] at h2
    have hl : lastPt (lastPt v vs) (v :: vs) = lastPt v vs := rfl
    rw [hl] at h2
    simp only [lastPt] at h2
    obtain ⟨h3, _⟩ := go_sum c d o hne ho (v :: vs) (lastPt v vs) (lastPt o1 os) h2
    rw [hO] at h3
    simp only [fanArea]
    exact h3

private theorem fanGo_origin (o o' : Pt) : ∀ (l : List Pt) (prev : Pt),
    fanGo o prev l = fanGo o' prev l +
      (((o.x - o'.x) * prev.y - (o.y - o'.y) * prev.x) - ((o.x - o'.x) * (lastPt prev l).y - (o.y - o'.y) * (lastPt prev l).x))
  | [], prev => by simp [fanGo, lastPt]
  | q :: qs, prev => by
    simp only [fanGo, lastPt]
    rw [fanGo_origin o o' qs q]
    simp only [sideOf]
    ring

/-- the fan area of a closed polygon does not depend on the origin: it is twice the signed area -/
theorem fanArea_origin (o o' : Pt) (l : List Pt) : fanArea o l = fanArea o' l := by
  match l with
  | [] => rfl
  | v :: vs =>
    simp only [fanArea]
    rw [fanGo_origin o o' (v :: vs) (lastPt v vs)]
    have : lastPt (lastPt v vs) (v :: vs) = lastPt v vs := rfl
    rw [this]
    ring

/-- `clipEdge_area_split` (Sutherland-Hodgman conserves the signed area across a cut, tolerance 0): for every polygon without a
repeated closing vertex (simple or not, convex or not) and every proper clipping edge, the polygon clipped against the edge and the
polygon clipped against the reversed edge have signed areas that add up to the signed area of the polygon -/
theorem clipEdge_area_split (c d : Pt) (hne : c ≠ d) (poly : List Pt) (hopen : popClosing poly 0 = poly) (o : Pt) :
    fanArea o (clipEdge c d 0 poly) + fanArea o (clipEdge d c 0 poly) = fanArea o poly := by
  rw [fanArea_origin o c (clipEdge c d 0 poly), fanArea_origin o c (clipEdge d c 0 poly), fanArea_origin o c poly]
  unfold clipEdge
  rw [hopen]
  match poly with
  | [] => simp [fanArea]
  | v :: vs =>
    have hcc : sideOf c d c = 0 := by simp only [sideOf]; ring
    have hdc : sideOf d c c = 0 := by simp only [sideOf]; ring
    dsimp only
    rw [clipEdge_fan c d c hne hcc v vs, clipEdge_fan d c c (Ne.symm hne) hdc v vs, partSum_add c d hne]
    rfl

/-! ### E5. the whole of `clip_polygon` (growth round 2): area account over all clipping edges, and where the cut-away parts lie -/

/-- the parts cut away by the successive clipping edges: the current polygon clipped against the REVERSED edge -/
def cutOffs (tol : Rat) (cs : Pt) : List Pt → List Pt → List (List Pt)
  | [], _ => []
  | ce :: rest, poly => clipEdge ce cs tol poly :: cutOffs tol ce rest (clipEdge cs ce tol poly)

/-- every clipping edge is proper and no intermediate polygon has a repeated closing vertex (`popClosing` leaves it unchanged) -/
def StagesOpen (cs : Pt) : List Pt → List Pt → Prop
  | [], _ => True
  | ce :: rest, poly => cs ≠ ce ∧ popClosing poly 0 = poly ∧ StagesOpen ce rest (clipEdge cs ce 0 poly)

def sumFan (o : Pt) (ps : List (List Pt)) : Rat := (ps.map (fanArea o)).sum

private theorem clipPolygonGo_area (o : Pt) : ∀ (es : List Pt) (cs : Pt) (poly : List Pt), StagesOpen cs es poly →
    fanArea o poly = fanArea o (clipPolygonGo 0 cs es poly) + sumFan o (cutOffs 0 cs es poly)
  | [], cs, poly, _ => by simp [clipPolygonGo, cutOffs, sumFan]
  | ce :: rest, cs, poly, h => by
    obtain ⟨hne, hopen, hrest⟩ := h
    have h1 := clipEdge_area_split cs ce hne poly hopen o
    have h2 := clipPolygonGo_area o rest ce (clipEdge cs ce 0 poly) hrest
    simp only [clipPolygonGo, cutOffs, sumFan, List.map_cons, List.sum_cons] at h2 ⊢
    linarith

/-- `clipPolygon_area_balance` (tolerance 0, any subject and any clipping polygon): the signed area of the subject is the signed
area of the result plus the signed areas of the parts cut away by the individual clipping edges -/
theorem clipPolygon_area_balance (c : Pt) (cs : List Pt) (poly : List Pt) (o : Pt)
    (h : StagesOpen (lastPt c cs) (c :: cs) poly) :
    fanArea o poly = fanArea o (clipPolygon (c :: cs) 0 poly) + sumFan o (cutOffs 0 (lastPt c cs) (c :: cs) poly) :=
  clipPolygonGo_area o (c :: cs) (lastPt c cs) poly h

private theorem cutOffs_spec (tol : Rat) (htol : 0 ≤ tol) (hull : List (Pt × Pt)) :
    ∀ (es : List Pt) (cs : Pt) (poly : List Pt), (∀ G ∈ hull, ∀ v ∈ poly, 0 ≤ sideOf G.1 G.2 v) →
    ∀ part ∈ cutOffs tol cs es poly, (∀ G ∈ hull, ∀ v ∈ part, 0 ≤ sideOf G.1 G.2 v) ∧
      ∃ E ∈ clipEdges cs es, ∀ v ∈ part, sideOf E.1 E.2 v ≤ 0
  | [], _, _, _, part, hp => by simp [cutOffs] at hp
  | ce :: rest, cs, poly, hh, part, hp => by
    simp only [cutOffs, List.mem_cons] at hp
    rcases hp with rfl | hp
    · refine ⟨fun G hG v hv => clipEdge_preserves_halfplane ce cs tol htol G.1 G.2 poly (hh G hG) v hv,
        (cs, ce), by simp [clipEdges], fun v hv => ?_⟩
      have := clipEdge_in_halfplane ce cs tol htol poly v hv
      rw [sideOf_swap] at this
      linarith
    · obtain ⟨k1, E, hE, k2⟩ := cutOffs_spec tol htol hull rest ce (clipEdge cs ce tol poly)
        (fun G hG v hv => clipEdge_preserves_halfplane cs ce tol htol G.1 G.2 poly (hh G hG) v hv) part hp
      exact ⟨k1, E, by simp only [clipEdges, List.mem_cons]; exact Or.inr hE, k2⟩

/-- where the cut-away parts lie: every part lies in the closed OUTER half-plane of one clipping edge and in every closed
half-plane that contains the subject (i.e. in the convex hull of the subject).  Together with `clipPolygon_inside`,
`clipPolygon_in_subject_hull` and `clipPolygon_area_balance`: for a convex subject `P` and a convex clipping polygon `C` the result
lies in `P ∩ C`, the parts lie in `P \ interior(C)`, and the signed areas add up to the area of `P`. -/
theorem cutOffs_outside (clip : List Pt) (tol : Rat) (htol : 0 ≤ tol) (poly : List Pt) (hull : List (Pt × Pt))
    (hh : ∀ G ∈ hull, ∀ v ∈ poly, 0 ≤ sideOf G.1 G.2 v) (c : Pt) (cs : List Pt) (hc : clip = c :: cs) :
    ∀ part ∈ cutOffs tol (lastPt c cs) clip poly, (∀ G ∈ hull, ∀ v ∈ part, 0 ≤ sideOf G.1 G.2 v) ∧
      ∃ E ∈ polygonEdges clip, ∀ v ∈ part, sideOf E.1 E.2 v ≤ 0 := by
  subst hc
  intro part hp
  obtain ⟨k1, E, hE, k2⟩ := cutOffs_spec tol htol hull (c :: cs) (lastPt c cs) poly hh part hp
  exact ⟨k1, E, by simpa [polygonEdges] using hE, k2⟩

/-! ## G. convex hull (`convex_hull_2d`, Andrew's monotone chain as coded) -/

private theorem hullPush_subset (floor : Nat) (stack : List Pt) (v : Pt) :
    ∀ p ∈ hullPush floor stack v, p = v ∨ p ∈ stack := by
  fun_induction hullPush floor stack v with
  | case1 a o rest h ih =>
    intro p hp
    rcases ih p hp with h | h
    · exact Or.inl h
    · exact Or.inr (List.mem_cons_of_mem _ h)
  | case2 a o rest h => intro p hp; simpa using hp
  | case3 stack h => intro p hp; simpa using hp

private theorem foldl_hullPush_subset (floor : Nat) (vs init : List Pt) :
    ∀ p ∈ vs.foldl (hullPush floor) init, p ∈ init ∨ p ∈ vs := by
  induction vs generalizing init with
  | nil => intro p hp; exact Or.inl hp
  | cons v vs ih =>
    intro p hp
    rcases ih _ p hp with h | h
    · rcases hullPush_subset floor init v p h with rfl | h
      · exact Or.inr (by simp)
      · exact Or.inl h
    · exact Or.inr (List.mem_cons_of_mem _ h)

private theorem insertPt_subset (p : Pt) (l : List Pt) : ∀ q ∈ insertPt p l, q = p ∨ q ∈ l := by
  induction l with
  | nil => intro q hq; simpa [insertPt] using hq
  | cons a as ih =>
    intro q hq
    unfold insertPt at hq
    split_ifs at hq
    · exact Or.inr hq
    · simpa using hq
    · simp only [List.mem_cons] at hq ⊢
      rcases hq with rfl | hq
      · exact Or.inr (Or.inl rfl)
      · rcases ih q hq with h | h
        · exact Or.inl h
        · exact Or.inr (Or.inr h)

private theorem sortDedup_subset (pts : List Pt) : ∀ q ∈ sortDedup pts, q ∈ pts := by
  have : ∀ (pts acc : List Pt), ∀ q ∈ pts.foldl (fun acc p => insertPt p acc) acc, q ∈ acc ∨ q ∈ pts := by
    intro pts
    induction pts with
    | nil => intro acc q hq; exact Or.inl hq
    | cons p ps ih =>
      intro acc q hq
      rcases ih _ q hq with h | h
      · rcases insertPt_subset p acc q h with rfl | h
        · exact Or.inr (by simp)
        · exact Or.inl h
      · exact Or.inr (List.mem_cons_of_mem _ h)
  intro q hq
  rcases this pts [] q hq with h | h
  · simp at h
  · exact h

/-- `hull_subset_input`: every vertex of the returned hull is one of the given points -/
theorem hull_subset_input (pts h : List Pt) (hh : convexHull pts = some h) : ∀ v ∈ h, v ∈ pts := by
  unfold convexHull at hh
  dsimp only at hh
  split_ifs at hh
  simp only [Option.some.injEq] at hh
  subst hh
  intro v hv
  rw [List.mem_reverse] at hv
  apply sortDedup_subset
  rcases foldl_hullPush_subset _ _ _ v hv with h | h
  · rcases foldl_hullPush_subset _ _ _ v h with h | h
    · simp at h
    · exact h
  · exact List.mem_reverse.mp (List.mem_of_mem_drop h)

private theorem turnsOkFrom_tail {floor : Nat} {b : Pt} {l : List Pt} (h : turnsOkFrom floor (b :: l)) :
    turnsOkFrom floor l := by
  match l, h with
  | [], _ => trivial
  | [_], _ => trivial
  | _ :: _ :: _, h => exact h.2

/-- the loop `while k >= floor and cross(hull[k-2], hull[k-1], v) <= 0: k -= 1; hull[k] = v` keeps the invariant that all
turns at or above the floor are strict left turns -/
theorem hullPush_turns (floor : Nat) (stack : List Pt) (v : Pt) (h : turnsOkFrom floor stack) :
    turnsOkFrom floor (hullPush floor stack v) := by
  fun_induction hullPush floor stack v with
  | case1 a o rest hc ih => exact ih (turnsOkFrom_tail h)
  | case2 a o rest hc =>
    refine ⟨?_, h⟩
    intro hf
    simp only [not_and, Bool.not_eq_true] at hc
    have := hc hf
    simp only [hullPopTest, PolygonKernels.hullPop, Bool.true_and, decide_eq_false_iff_not, not_le] at this
    exact this
  | case3 stack hs =>
    match stack, hs with
    | [], _ => trivial
    | [_], _ => trivial
    | a :: o :: rest, hs => exact absurd rfl (hs a o rest)

/-- `hull_convex` for the lower chain: all consecutive turns of the lower hull are strict left turns, for any input order -/
theorem lower_hull_left_turns (vs : List Pt) : turnsOkFrom 2 (lowerHull vs) := by
  have : ∀ (vs init : List Pt), turnsOkFrom 2 init → turnsOkFrom 2 (vs.foldl (hullPush 2) init) := by
    intro vs
    induction vs with
    | nil => intro init h; exact h
    | cons v vs ih => intro init h; exact ih _ (hullPush_turns 2 init v h)
  exact this vs [] trivial

private theorem turnsOkFrom_high (floor : Nat) (l : List Pt) (h : l.length < floor) : turnsOkFrom floor l := by
  induction l with
  | nil => trivial
  | cons b t ih =>
    match t, ih, h with
    | [], _, _ => trivial
    | [_], _, _ => trivial
    | a :: o :: t', ih, h =>
      refine ⟨?_, ih (by simp only [List.length_cons] at h ⊢; omega)⟩
      intro hf; simp only [List.length_cons] at h; omega

/-- `hull_convex`, the part that is proved for the complete result: every turn whose middle vertex was pushed by the second
(upper) pass is a strict left turn.
Not proved for the final list: the turn at the junction vertex of the two passes (the code pushes `vertices[n-2]` without a
test), that the lower chain survives the second pass unchanged, the closing turn, and `hull_contains_all` (these need the
lexicographic order of the input, not only the stack discipline). -/
theorem hull_upper_left_turns_partial (pts h : List Pt) (hh : convexHull pts = some h) :
    turnsOkFrom ((lowerHull (sortDedup pts)).length + 1) h.reverse := by
  unfold convexHull at hh
  dsimp only at hh
  split_ifs at hh
  simp only [Option.some.injEq] at hh
  subst hh
  rw [List.reverse_reverse]
  have : ∀ (vs init : List Pt) (fl : Nat), turnsOkFrom fl init → turnsOkFrom fl (vs.foldl (hullPush fl) init) := by
    intro vs
    induction vs with
    | nil => intro init fl h; exact h
    | cons v vs ih => intro init fl h; exact ih _ fl (hullPush_turns fl init v h)
  exact this _ _ _ (turnsOkFrom_high _ _ (by omega))

/-! ### G2. the complete statements about `convex_hull_2d` (session 3; proofs in `Lemmas/PolygonHull.lean`)

The loop invariant (`Lemmas.Hull.hullPush_inv`): after pushing `v`, the stack is a strictly monotone chain of strict left
turns and every point processed so far lies on or left of every chain edge.  The only geometry is the transitivity of the
cross-product order on a half plane (`Lemmas.Hull.half_trans`), applied to differences of lexicographically ordered points. -/

private theorem llt_iff (a b : Pt) : Lemmas.Hull.llt a b ↔ lexLt a b := by
  simp only [Lemmas.Hull.llt, Lemmas.Hull.lpos, lexLt]
  constructor
  · rintro (h | ⟨h1, h2⟩)
    · left; linarith
    · right; exact ⟨by linarith, by linarith⟩
  · rintro (h | ⟨h1, h2⟩)
    · left; linarith
    · right; exact ⟨by linarith, by linarith⟩

/-- `set(points)` + `sort()`: the sorted list has no duplicates and the same members, so its length is the number of
distinct input points -/
theorem sortDedup_distinct (pts : List Pt) : (sortDedup pts).Nodup ∧ ∀ q, q ∈ sortDedup pts ↔ q ∈ pts :=
  ⟨Lemmas.Hull.pairwise_nodup (Lemmas.Hull.sortDedup_spec pts).1, (Lemmas.Hull.sortDedup_spec pts).2⟩

/-- `convex_hull_2d` raises `ValueError` exactly for fewer than three distinct points -/
theorem hull_error_iff (pts : List Pt) : convexHull pts = none ↔ (sortDedup pts).length < 3 :=
  Lemmas.Hull.hull_none_iff pts

/-- the second loop uses the same test as the first one (the model uses one `hullPush` for both passes) -/
theorem hull_pop_tests_agree : PolygonKernels.hullPopUpper = PolygonKernels.hullPop := rfl

/-- persistence of the lower chain: with the floor `t = k + 1` of the second loop a push never removes anything below the
top of the first chain: the push acts on the upper part of the stack alone -/
theorem hull_lower_chain_kept (T U : List Pt) (v : Pt) : hullPush (T.length + 2) (U ++ T) v = hullPush 2 U v ++ T :=
  Lemmas.Hull.hullPush_shift T v U

/-- `hull_contains_all`: every input point lies on or left of every directed edge of the returned closed polyline
(all point lists: duplicates, collinear runs, any order) -/
theorem hull_contains_all (pts h : List Pt) (hh : convexHull pts = some h) :
    ∀ p ∈ pts, ∀ e ∈ pairsOf h, 0 ≤ hcross e.1 e.2 p :=
  Lemmas.Hull.hull_contains_all pts h hh

/-- the result is a closed polyline that starts and ends in the smallest input point -/
theorem hull_closed (pts h : List Pt) (hh : convexHull pts = some h) :
    ∃ v0, h.head? = some v0 ∧ h.getLast? = some v0 ∧ v0 ∈ pts ∧ ∀ p ∈ pts, lexLe v0 p := by
  obtain ⟨v0, h1, h2, h3, h4⟩ := Lemmas.Hull.hull_closed pts h hh
  refine ⟨v0, h1, h2, h3, fun p hp => ?_⟩
  rcases h4 p hp with h | h
  · exact Or.inl ((llt_iff _ _).mp h)
  · exact Or.inr h.symm

/-- `hull_convex`: unless all input points lie on one line, EVERY corner of the returned closed polyline is a strict left
turn: the corners inside both chains, the junction of the two passes, and the closing corner at the first vertex
(`h ++ [h[1]]` lists the corners cyclically because `h` is closed) -/
theorem hull_convex (pts h : List Pt) (hh : convexHull pts = some h) (hnc : ¬ allCollinear pts) :
    ∀ t ∈ triplesOf (h ++ (h.drop 1).take 1), 0 < hcross t.1 t.2.1 t.2.2 :=
  Lemmas.Hull.hull_convex pts h hh hnc

/-- at least three distinct points, all on one line: the code returns `[smallest, largest, smallest]` -/
theorem hull_collinear (pts h : List Pt) (hh : convexHull pts = some h) (hc : allCollinear pts) :
    ∃ a b, h = [a, b, a] ∧ a ∈ pts ∧ b ∈ pts ∧ ∀ p ∈ pts, lexLe a p ∧ lexLe p b := by
  obtain ⟨a, b, h1, h2, h3, h4⟩ := Lemmas.Hull.hull_collinear pts h hh hc
  refine ⟨a, b, h1, h2, h3, fun p hp => ?_⟩
  obtain ⟨k1, k2⟩ := h4 p hp
  constructor
  · rcases k1 with h | h
    · exact Or.inl ((llt_iff _ _).mp h)
    · exact Or.inr h.symm
  · rcases k2 with h | h
    · exact Or.inl ((llt_iff _ _).mp h)
    · exact Or.inr h

/-! ## H. the Cython twins and `intersection_line_line_2d` -/

/-- the arithmetic kernels of `acc/mapbox_earcut.pyx` and `acc/construct.pyx` are the same functions as those of the
pure Python modules (both translated from the current source) -/
theorem cython_twin_kernels_agree :
    PolygonKernels.signedAreaTerm_pyx = PolygonKernels.signedAreaTerm ∧
    PolygonKernels.area_pyx = PolygonKernels.area ∧
    PolygonKernels.sign_pyx = PolygonKernels.sign ∧
    PolygonKernels.onSegment_pyx = PolygonKernels.onSegment ∧
    PolygonKernels.intersects_pyx = PolygonKernels.intersects ∧
    PolygonKernels.pointInTriangle_pyx = PolygonKernels.pointInTriangle ∧
    PolygonKernels.locallyInside_pyx = PolygonKernels.locallyInside ∧
    PolygonKernels.sectorContainsSector_pyx = PolygonKernels.sectorContainsSector ∧
    PolygonKernels.lineLine_pyx = PolygonKernels.lineLine ∧
    PolygonKernels.cwTerm_pyx = PolygonKernels.cwTerm ∧
    PolygonKernels.pipOnEdge_pyx = PolygonKernels.pipOnEdge ∧
    PolygonKernels.pipToggle_pyx = PolygonKernels.pipToggle := by
  refine ⟨rfl, rfl, rfl, rfl, rfl, rfl, rfl, rfl, rfl, rfl, rfl, rfl⟩

/-- `intersection_line_line_2d`: a returned point lies on both lines; with `virtual=False` it lies on both segments -/
theorem lineLine_sound (virtual : Bool) (tol : Rat) (htol : 0 ≤ tol) (s1 s2 c1 c2 ip : Pt)
    (h : lineLine virtual tol s1 s2 c1 c2 = some ip) :
    sideOf c1 c2 ip = 0 ∧ sideOf s1 s2 ip = 0 ∧
    (virtual = false → (∃ us : Rat, 0 ≤ us ∧ us ≤ 1 ∧ ip = lerp s1 s2 us) ∧ (∃ uc : Rat, 0 ≤ uc ∧ uc ≤ 1 ∧ ip = lerp c1 c2 uc)) := by
  simp only [lineLine, PolygonKernels.lineLine] at h
  split at h
  · simp at h
  · rename_i hden
    simp only [decide_eq_true_eq, not_le] at hden
    have hd : (c2.y - c1.y) * (s2.x - s1.x) - (c2.x - c1.x) * (s2.y - s1.y) ≠ 0 := by
      intro h0
      rw [h0] at hden
      simp only [PolygonKernels.rabs] at hden
      norm_num at hden
      linarith
    have key : ∀ q : Pt, q = ⟨s1.x + ((c2.x - c1.x) * (s1.y - c1.y) - (c2.y - c1.y) * (s1.x - c1.x)) /
          ((c2.y - c1.y) * (s2.x - s1.x) - (c2.x - c1.x) * (s2.y - s1.y)) * (s2.x - s1.x),
        s1.y + ((c2.x - c1.x) * (s1.y - c1.y) - (c2.y - c1.y) * (s1.x - c1.x)) /
          ((c2.y - c1.y) * (s2.x - s1.x) - (c2.x - c1.x) * (s2.y - s1.y)) * (s2.y - s1.y)⟩ →
        sideOf c1 c2 q = 0 ∧ sideOf s1 s2 q = 0 ∧
        q = lerp s1 s2 (((c2.x - c1.x) * (s1.y - c1.y) - (c2.y - c1.y) * (s1.x - c1.x)) /
          ((c2.y - c1.y) * (s2.x - s1.x) - (c2.x - c1.x) * (s2.y - s1.y))) ∧
        q = lerp c1 c2 (((s2.x - s1.x) * (s1.y - c1.y) - (s2.y - s1.y) * (s1.x - c1.x)) /
          ((c2.y - c1.y) * (s2.x - s1.x) - (c2.x - c1.x) * (s2.y - s1.y))) := by
      intro q hq
      subst hq
      refine ⟨?_, ?_, ?_, ?_⟩
      · simp only [sideOf]; field_simp; ring
      · simp only [sideOf]; field_simp; ring
      · simp only [lerp]
      · simp only [lerp, Pt.mk.injEq]
        constructor <;> (field_simp; ring)
    cases virtual with
    | true =>
      simp only [if_true, Option.map_some, Option.some.injEq] at h
      obtain ⟨k1, k2, _, _⟩ := key ip h.symm
      exact ⟨k1, k2, by simp⟩
    | false =>
      simp only [Bool.false_eq_true, if_false] at h
      split at h
      · rename_i hus
        split at h
        · rename_i huc
          simp only [Option.map_some, Option.some.injEq] at h
          obtain ⟨k1, k2, k3, k4⟩ := key ip h.symm
          simp only [Bool.and_eq_true, decide_eq_true_eq] at hus huc
          exact ⟨k1, k2, fun _ => ⟨⟨_, hus.1, hus.2, k3⟩, ⟨_, huc.1, huc.2, k4⟩⟩⟩
        · simp at h
      · simp at h


/-! ## I. `is_point_in_polygon_2d` against the exact winding number (session 3; proofs in `Lemmas/PolygonPip.lean`) -/

/-- the crossing test of the ray casting loop (it divides by `y2 - y1`) is exactly the division-free crossing rule of the
winding number: upward edge with the point strictly left of it, or downward edge with the point strictly right of it -/
theorem pip_toggle_exact (p a b : Pt) :
    PolygonKernels.pipToggle p.x p.y a.x a.y b.x b.y = true ↔ wnStep p a b ≠ 0 :=
  Lemmas.Pip.pipToggle_iff p a b

/-- the boundary test with `abs_tol = 0` is the exact test "point on the closed segment" -/
theorem pip_band_zero_exact (p a b : Pt) :
    PolygonKernels.pipOnEdge p.x p.y a.x a.y b.x b.y 0 = true ↔ onSegment a b p :=
  Lemmas.Pip.pipOnEdge_zero_iff p a b

/-- `pip_agrees_exact`: for every polygon (any orientation, self-intersecting or not) and every point,
* the answer 0 (boundary) is given only when the point passes the band test of some edge,
* away from the band (no edge passes the band test) the answer is +1 exactly when the exact winding number is odd and
  -1 exactly when it is even.
(For simple polygons the winding number is 0 or ±1, so odd = inside; that geometric fact is not proved here.) -/
theorem pip_agrees_exact (pt : Pt) (polygon : List Pt) (tol : Rat) (h3 : 3 ≤ polygon.length) (hr : 3 ≤ (pipRing polygon).length) :
    (pointInPolygon pt polygon tol = 0 ↔
      ∃ e ∈ polygonEdges (pipRing polygon), PolygonKernels.pipOnEdge pt.x pt.y e.1.x e.1.y e.2.x e.2.y tol = true) ∧
    (pointInPolygon pt polygon tol = 1 → windingNumber pt (pipRing polygon) % 2 ≠ 0) ∧
    (pointInPolygon pt polygon tol = -1 → windingNumber pt (pipRing polygon) % 2 = 0) := by
  unfold pointInPolygon
  rw [if_neg (by omega)]
  dsimp only
  match hring : pipRing polygon, hr with
  | p :: q :: r :: t, _ =>
    have hl : lastPt r t = lastPt p (q :: r :: t) := rfl
    simp only [polygonEdges, windingNumber]
    rw [hl]
    match hloop : pipLoop pt.x pt.y tol (lastPt p (q :: r :: t)) (p :: q :: r :: t) false with
    | none =>
      refine ⟨⟨fun _ => Lemmas.Pip.pipLoop_none pt tol _ _ _ hloop, fun _ => rfl⟩, fun h => by simp at h, fun h => by simp at h⟩
    | some true =>
      have hp := (Lemmas.Pip.pipLoop_parity pt tol _ _ _ _ hloop).mp rfl
      have hs := Lemmas.Pip.pipLoop_some pt tol _ _ _ _ hloop
      refine ⟨⟨fun h => by simp at h, fun ⟨e, he, h2⟩ => by rw [hs e he] at h2; simp at h2⟩, fun _ => ?_, fun h => by simp at h⟩
      intro h0
      exact Bool.false_ne_true (hp.mpr h0)
    | some false =>
      have hp := Lemmas.Pip.pipLoop_parity pt tol _ _ _ _ hloop
      have hs := Lemmas.Pip.pipLoop_some pt tol _ _ _ _ hloop
      refine ⟨⟨fun h => by simp at h, fun ⟨e, he, h2⟩ => by rw [hs e he] at h2; simp at h2⟩, fun h => by simp at h, fun _ => ?_⟩
      by_contra h0
      have : (false = true ↔ windingGo pt (lastPt p (q :: r :: t)) (p :: q :: r :: t) % 2 = 0) := by
        constructor
        · intro hh; exact absurd hh Bool.false_ne_true
        · intro hh; exact absurd hh h0
      exact Bool.false_ne_true (hp.mpr this)

/-! ## J. `is_convex_polygon_2d` (session 3; the code after fix 4fe7d128a; proofs in `Lemmas/PolygonConvex.lean`) -/

/-- the corners evaluated by `is_convex_polygon_2d(polygon)`: seeded with the last vertex and the last vertex that is not
coincident with it, coincident vertices skipped -/
def convexCornersOf (polygon : List Pt) : List (Pt × Pt × Pt) :=
  match polygon.reverse with
  | last :: before => convexCorners (convexSeed last before) last polygon
  | [] => []

/-- `is_convex_polygon_2d` returns `True` exactly when there are at least three vertices, some evaluated corner has a
significant determinant (`abs(det) >= epsilon`), all significant determinants have one common sign and, in strict mode, every
evaluated corner is significant -/
theorem isConvex_iff (strict : Bool) (eps : Rat) (polygon : List Pt) :
    isConvexPolygon strict eps polygon = true ↔
      3 ≤ polygon.length ∧ ∃ s : Rat, (s = 1 ∨ s = -1) ∧
        (∃ c ∈ convexCornersOf polygon, PolygonKernels.convexSignificant (cornerDet c) eps = true) ∧
        ∀ c ∈ convexCornersOf polygon,
          (PolygonKernels.convexSignificant (cornerDet c) eps = true → PolygonKernels.convexSign (cornerDet c) = s) ∧
          (strict = true → PolygonKernels.convexSignificant (cornerDet c) eps = true) := by
  unfold isConvexPolygon convexCornersOf
  by_cases hlen : polygon.length < 3
  · rw [if_pos hlen]
    constructor
    · intro h; exact absurd h Bool.false_ne_true
    · rintro ⟨h, _⟩; omega
  · rw [if_neg hlen]
    match hrev : polygon.reverse with
    | [] =>
      have : polygon = [] := by simpa using hrev
      subst this; simp at hlen
    | last :: before =>
      dsimp only
      rw [Lemmas.Convex.convexLoop_spec strict eps polygon _ last 0 (Or.inl rfl)]
      constructor
      · rintro ⟨s, h1, _, h3, h4⟩
        exact ⟨by omega, s, h1, h3 rfl, h4⟩
      · rintro ⟨_, s, h1, h3, h4⟩
        exact ⟨s, h1, fun h => absurd rfl h, fun _ => h3, h4⟩

/-- without coincident neighbours (cyclically) the evaluated corners are ALL corners of the closed polygon, the one at the
last vertex included: `(p[-2], p[-1], p[0]), (p[-1], p[0], p[1]), …, (p[-3], p[-2], p[-1])` -/
theorem isConvex_corners_all (pre : List Pt) (q last : Pt) (h1 : closeDefault q last = false)
    (h2 : ∀ e ∈ pairsOf (last :: (pre ++ [q, last])), closeDefault e.2 e.1 = false) :
    convexCornersOf (pre ++ [q, last]) = triplesOf (q :: last :: (pre ++ [q, last])) := by
  unfold convexCornersOf
  have hrev : (pre ++ [q, last]).reverse = last :: q :: pre.reverse := by simp
  rw [hrev]
  dsimp only
  have hseed : convexSeed last (q :: pre.reverse) = q := by
    match pre.reverse with
    | [] => rfl
    | r :: rest => simp only [convexSeed, h1, Bool.false_eq_true, if_false]
  rw [hseed]
  exact Lemmas.Convex.convexCorners_all _ q last h2

/-! ## K. `ConcaveClippingPolygon2d.clip_polygon`, the branch without Greiner-Hormann parts (session 3) -/

/-- the fall-back of the concave clipping polygon (after fix c773d3f04) returns the whole subject only if NO subject vertex is
strictly outside the clipping polygon (code -1) and, when all vertices lie on the clipping path, no edge mid point is strictly
outside; it returns nothing as soon as one vertex is strictly outside — independent of the start vertex of the subject (the kernel
`concaveFallbackOutside` is regenerated from the source) -/
theorem concave_fallback_sound (clip : List Pt) (tol : Rat) (subject v : List Pt) :
    (concaveNoPart clip tol subject = some v →
      v = popClosing subject tol ∧ (∀ p ∈ v, 0 ≤ pointInPolygon p clip tol) ∧
      ((∀ p ∈ v, pointInPolygon p clip tol = 0) → ∀ q ∈ edgeMids v, 0 ≤ pointInPolygon q clip tol)) ∧
    ((∃ p ∈ popClosing subject tol, pointInPolygon p clip tol < 0) → concaveNoPart clip tol subject = none) := by
  unfold concaveNoPart
  dsimp only
  by_cases hlen : (popClosing subject tol).length < 3
  · rw [if_pos hlen]
    exact ⟨fun h => by simp at h, fun _ => rfl⟩
  · rw [if_neg hlen]
    generalize hcodes : (popClosing subject tol).map (fun v => pointInPolygon v clip tol) = codes
    generalize hmids : (edgeMids (popClosing subject tol)).map (fun v => pointInPolygon v clip tol) = mids
    have hneg : ∀ (l : List Int), (l.any (fun c => decide (c < (0 : Int)))) = true ↔ ∃ c ∈ l, c < 0 := by
      intro l; simp [List.any_eq_true]
    by_cases hout : PolygonKernels.concaveFallbackOutside codes mids = true
    · rw [if_pos hout]
      exact ⟨fun h => by simp at h, fun _ => rfl⟩
    · rw [if_neg hout]
      simp only [PolygonKernels.concaveFallbackOutside] at hout
      have hno : ¬ ∃ c ∈ codes, c < 0 := by
        intro hc
        apply hout
        rw [(hneg codes).mpr hc]
        simp
      refine ⟨fun h => ?_, fun ⟨p, hp, hlt⟩ => ?_⟩
      · simp only [Option.some.injEq] at h
        subst h
        refine ⟨rfl, ?_, ?_⟩
        · intro p hp
          by_contra hc
          exact hno ⟨_, by rw [← hcodes]; exact List.mem_map_of_mem hp, not_le.mp hc⟩
        · intro hall q hq
          by_contra hc
          apply hout
          have h1 : (codes.any (fun c => decide (c < (0 : Int)))) = false := by
            by_contra hx
            exact hno ((hneg codes).mp (by simpa using hx))
          have h2 : (codes.any (fun c => decide (c ≠ 0))) = false := by
            rw [List.any_eq_false]
            intro c hcm
            rw [← hcodes] at hcm
            obtain ⟨p, hp, rfl⟩ := List.mem_map.mp hcm
            simp [hall p hp]
          simp only [h1, h2, Bool.not_false, Bool.and_self, if_true]
          exact (hneg mids).mpr ⟨_, by rw [← hmids]; exact List.mem_map_of_mem hq, not_le.mp hc⟩
      · exact absurd ⟨_, by rw [← hcodes]; exact List.mem_map_of_mem hp, hlt⟩ hno

/-- rotating the subject (another start vertex) never changes the fall-back decision -/
theorem concave_fallback_rotation (codes mids : List Int) (k : Nat) :
    PolygonKernels.concaveFallbackOutside (codes.drop k ++ codes.take k) (mids.drop k ++ mids.take k) =
      PolygonKernels.concaveFallbackOutside codes mids := by
  have rot : ∀ (l : List Int) (f : Int → Bool), (l.drop k ++ l.take k).any f = l.any f := by
    intro l f
    conv_rhs => rw [← List.take_append_drop k l]
    rw [List.any_append, List.any_append, Bool.or_comm]
  simp only [PolygonKernels.concaveFallbackOutside, rot]

/-! ## L. what the ear test guarantees (session 3; proofs in `Lemmas/PolygonEar.lean`) -/

/-- `point_in_triangle` for a counter-clockwise triangle (the only case `is_ear` uses it in) is exact membership in the closed
triangle: the point is a convex combination of the three corners, and conversely -/
theorem pointInTriangle_exact (a b c p : Node) (hccw : area a b c < 0) :
    PolygonKernels.pointInTriangle a.x a.y b.x b.y c.x c.y p.x p.y = true ↔
      ∃ α β γ : Rat, 0 ≤ α ∧ 0 ≤ β ∧ 0 ≤ γ ∧ α + β + γ = 1 ∧
        p.x = α * a.x + β * b.x + γ * c.x ∧ p.y = α * a.y + β * b.y + γ * c.y :=
  Lemmas.Ear.pointInTriangle_iff_convex a b c p hccw

/-- the bounding-box pre-test of `is_ear` is redundant: it never changes the answer -/
theorem isEar_bbox_redundant (a b c pp p pn : Node) (hccw : area a b c < 0) :
    PolygonKernels.isEarBlocked a.x a.y b.x b.y c.x c.y pp.x pp.y p.x p.y pn.x pn.y = true ↔
      PolygonKernels.pointInTriangle a.x a.y b.x b.y c.x c.y p.x p.y = true ∧ 0 ≤ area pp p pn :=
  Lemmas.Ear.isEarBlocked_iff a b c pp p pn hccw

/-- `is_ear(b)` holds exactly when the corner `a, b, c` is strictly convex (counter-clockwise) and no vertex `p` of the rest of
the ring (from `c.next` to `a.prev`) that is reflex or flat (`area(p.prev, p, p.next) >= 0`) lies in the closed triangle `a b c`.
(Convex vertices inside the triangle are NOT excluded by the test; that a simple polygon with a vertex inside the triangle also
has a reflex one inside is the geometric fact behind the optimisation and is not proved here.) -/
theorem isEar_iff (b c : Node) (r : List Node) :
    isEar (b :: c :: r) = true ↔
      area (lastOr c r) b c < 0 ∧
      ∀ w ∈ windows3 (c :: r),
        ¬ (PolygonKernels.pointInTriangle (lastOr c r).x (lastOr c r).y b.x b.y c.x c.y w.2.1.x w.2.1.y = true ∧
          0 ≤ area w.1 w.2.1 w.2.2) := by
  simp only [isEar]
  by_cases hre : PolygonKernels.isEarReflex (lastOr c r).x (lastOr c r).y b.x b.y c.x c.y = true
  · rw [if_pos hre]
    have : 0 ≤ area (lastOr c r) b c := by
      simpa [PolygonKernels.isEarReflex, area] using hre
    constructor
    · intro h; exact absurd h Bool.false_ne_true
    · rintro ⟨h, _⟩; linarith
  · rw [if_neg hre]
    have hccw : area (lastOr c r) b c < 0 := by
      have : ¬ (0 ≤ area (lastOr c r) b c) := by
        simpa [PolygonKernels.isEarReflex, area] using hre
      exact not_le.mp this
    simp only [Bool.not_eq_true', List.any_eq_false, Bool.not_eq_true]
    constructor
    · intro h
      refine ⟨hccw, fun w hw hb => ?_⟩
      have := h w hw
      rw [(Lemmas.Ear.isEarBlocked_iff _ _ _ _ _ _ hccw).mpr hb] at this
      exact Bool.noConfusion this
    · rintro ⟨_, h⟩ w hw
      by_contra hb
      exact h w hw ((Lemmas.Ear.isEarBlocked_iff _ _ _ _ _ _ hccw).mp (by simpa using hb))

/-! ## M. Greiner-Hormann: the classification of the intersection nodes (session 3; proofs in `Lemmas/PolygonGH.lean`)

`ghMark` models phase 2 of `GHPolygon.clip` (entry/exit marks), `ghUsed` the pieces of the polygon boundary walked by phase 3;
both are compared with the real node lists for union, intersection and difference (correspondence X5). -/

/-- `alternates`: along each polygon the marks of the intersection nodes alternate, starting with `op_entry xor inside(first)` -/
theorem gh_marks_alternate (opEntry inside : Bool) (isect : List Bool) :
    Lemmas.GH.AltFrom (opEntry != inside) ((ghPhase2 opEntry inside isect).filterMap id) :=
  Lemmas.GH.marks_alternate isect _

/-- for an even number of intersection nodes (every closed curve in general position) the alternation is consistent around the
ring: the last mark is the opposite of the first one; for an odd number it is not -/
theorem gh_marks_cyclic (opEntry inside : Bool) (isect : List Bool) (h : isect.count true ≠ 0) :
    ghLastSome (ghPhase2 opEntry inside isect) =
      some (if isect.count true % 2 = 0 then !(opEntry != inside) else (opEntry != inside)) := by
  unfold ghPhase2
  rw [Lemmas.GH.lastSome_mark, if_neg h]

/-- union and intersection mark every intersection node of either polygon with opposite flags -/
theorem gh_union_intersection_marks (inside : Bool) (isect : List Bool) :
    ghPhase2 PolygonKernels.ghUnion.1 inside isect = (ghPhase2 PolygonKernels.ghIntersection.1 inside isect).map (Option.map not) ∧
    ghPhase2 PolygonKernels.ghUnion.2 inside isect = (ghPhase2 PolygonKernels.ghIntersection.2 inside isect).map (Option.map not) := by
  have e1 : (PolygonKernels.ghUnion.1 != inside) = !(PolygonKernels.ghIntersection.1 != inside) := by cases inside <;> rfl
  have e2 : (PolygonKernels.ghUnion.2 != inside) = !(PolygonKernels.ghIntersection.2 != inside) := by cases inside <;> rfl
  unfold ghPhase2
  rw [e1, e2]
  exact ⟨Lemmas.GH.marks_complementary isect _, Lemmas.GH.marks_complementary isect _⟩

/-- inclusion-exclusion at the level of the classification: when the polygons intersect, every original vertex (every boundary
piece between two intersection nodes) of a polygon is walked by exactly one of the two operations union and intersection — this
is the combinatorial content of `area(A) + area(B) = area(A|B) + area(A&B)`; the areas themselves are checked by the oracle -/
theorem gh_union_intersection_partition (inside : Bool) (isect : List Bool) (h : isect.count true ≠ 0) :
    ghUsed (ghPhase2 PolygonKernels.ghUnion.1 inside isect) =
      (ghUsed (ghPhase2 PolygonKernels.ghIntersection.1 inside isect)).map not := by
  rw [(gh_union_intersection_marks inside isect).1]
  apply Lemmas.GH.used_complementary
  rw [gh_marks_cyclic _ _ _ h]
  simp

/-- difference `A - B`: `A` is marked like in the union (its pieces outside `B` are walked), `B` like in the intersection -/
theorem gh_difference_marks :
    PolygonKernels.ghDifference.1 = PolygonKernels.ghUnion.1 ∧ PolygonKernels.ghDifference.2 = PolygonKernels.ghIntersection.2 :=
  ⟨rfl, rfl⟩

/-! ## N. `has_clockwise_orientation` and completeness of `intersection_line_line_2d` (session 3) -/

private theorem cwSum_eq (prev : Pt) (l : List Pt) :
    cwSum prev l = ((lastPt prev l).x * (lastPt prev l).y - prev.x * prev.y) - fanGo ⟨0, 0⟩ prev l := by
  induction l generalizing prev with
  | nil => simp [cwSum, fanGo, lastPt]
  | cons q qs ih =>
    simp only [cwSum, fanGo, lastPt, ih, PolygonKernels.cwTerm, sideOf]
    ring

/-- `has_clockwise_orientation` of an open ring (first and last vertex not coincident) is the sign of the exact signed area:
`True` exactly when twice the counter-clockwise signed area is negative -/
theorem cw_iff_negative_area (p q r : Pt) (t : List Pt)
    (hopen : ptClose p (lastPt q (r :: t)) PolygonKernels.iscloseAbsTol = false) :
    hasClockwiseOrientation (p :: q :: r :: t) = some (decide (fanArea ⟨0, 0⟩ (p :: q :: r :: t) < 0)) := by
  simp only [hasClockwiseOrientation, hopen, Bool.false_eq_true, if_false, List.cons_append, Option.some.injEq,
    PolygonKernels.cwPositive]
  rw [cwSum_eq]
  have hl : lastPt p (q :: r :: (t ++ [p])) = p := by
    have : ∀ (a : Pt) (l : List Pt), lastPt a (l ++ [p]) = p := by
      intro a l
      induction l generalizing a with
      | nil => rfl
      | cons b bs ih => exact ih b
    exact this q (r :: t)
  rw [hl]
  have hf : fanGo ⟨0, 0⟩ p (q :: r :: (t ++ [p])) = fanArea ⟨0, 0⟩ (p :: q :: r :: t) := by
    have happ : q :: r :: (t ++ [p]) = (q :: r :: t) ++ [p] := rfl
    rw [happ, fanGo_append]
    simp only [fanArea, fanGo, lastPt, add_zero]
    ring
  rw [hf]
  congr 1
  apply propext
  constructor <;> intro h <;> linarith

/-- completeness of `intersection_line_line_2d` with tolerance 0: two segments that are not parallel and have a common point
`P = s1 + us (s2 - s1) = c1 + uc (c2 - c1)`, `0 ≤ us, uc ≤ 1`, always get this point as the answer (also with `virtual=False`) -/
theorem lineLine_complete (virtual : Bool) (s1 s2 c1 c2 : Pt) (us uc : Rat) (hus : 0 ≤ us ∧ us ≤ 1) (huc : 0 ≤ uc ∧ uc ≤ 1)
    (hp : lerp s1 s2 us = lerp c1 c2 uc)
    (hnp : (c2.y - c1.y) * (s2.x - s1.x) - (c2.x - c1.x) * (s2.y - s1.y) ≠ 0) :
    lineLine virtual 0 s1 s2 c1 c2 = some (lerp s1 s2 us) := by
  simp only [lerp, Pt.mk.injEq] at hp
  obtain ⟨hx, hy⟩ := hp
  have e_us : ((c2.x - c1.x) * (s1.y - c1.y) - (c2.y - c1.y) * (s1.x - c1.x)) /
      ((c2.y - c1.y) * (s2.x - s1.x) - (c2.x - c1.x) * (s2.y - s1.y)) = us := by
    rw [div_eq_iff hnp]
    linear_combination (c2.x - c1.x) * hy - (c2.y - c1.y) * hx
  have e_uc : ((s2.x - s1.x) * (s1.y - c1.y) - (s2.y - s1.y) * (s1.x - c1.x)) /
      ((c2.y - c1.y) * (s2.x - s1.x) - (c2.x - c1.x) * (s2.y - s1.y)) = uc := by
    rw [div_eq_iff hnp]
    linear_combination (s2.x - s1.x) * hy - (s2.y - s1.y) * hx
  have hden : ¬ (PolygonKernels.rabs ((c2.y - c1.y) * (s2.x - s1.x) - (c2.x - c1.x) * (s2.y - s1.y)) ≤ 0) := by
    intro h
    simp only [PolygonKernels.rabs] at h
    split_ifs at h with hneg
    · apply hnp; linarith
    · apply hnp; linarith [not_lt.mp hneg]
  simp only [lineLine, PolygonKernels.lineLine, decide_eq_true_eq, hden, if_false, e_us, e_uc]
  cases virtual with
  | true => simp [lerp]
  | false => simp [lerp, hus.1, hus.2, huc.1, huc.2]

/-! ## O. completion of earcut for strictly convex rings (session 3; proofs in `Lemmas/PolygonEarConvex.lean`) -/

/-- `earcut_completes` for the class of strictly convex rings of ANY size (`ConvexRing`: any three nodes in ring order make a
strict counter-clockwise turn): with fuel ≥ n the main loop of `earcut_linked` cuts the ear at the cursor in every step, never
enters the second or third pass, emits exactly `n - 2` triangles, and their signed areas add up to the signed area of the ring -/
theorem earcut_completes_convex (l : List Node) (hc : Lemmas.EarConvex.ConvexRing l) (fuel pass : Nat) (hlen : l.length ≤ fuel)
    (hf : 0 < fuel) :
    (earcutLinked fuel l 0 pass).complete ∧ (earcutLinked fuel l 0 pass).tris.length = l.length - 2 ∧
      sumTri (earcutLinked fuel l 0 pass).tris = signedArea l := by
  obtain ⟨h1, h2⟩ := Lemmas.EarConvex.earcutLinked_convex fuel l pass hc hlen hf
  exact ⟨h1, h2, earcut_conserves fuel l 0 pass h1⟩

/-- `earcut_no_overlap` for strictly convex rings of any size: every triangle vertex is a ring node, and every emitted triangle is
separated from every LATER triangle by a proper line (the line of its cut edge `c → a`): the two triangles lie in opposite closed
half-planes of that line, so their interiors are disjoint -/
theorem earcut_convex_no_overlap (l : List Node) (hc : Lemmas.EarConvex.ConvexRing l) (fuel pass : Nat) (hlen : l.length ≤ fuel)
    (hf : 0 < fuel) :
    (∀ t ∈ (earcutLinked fuel l 0 pass).tris, ∀ v ∈ Lemmas.EarConvex.triVerts t, v ∈ l) ∧
    List.Pairwise Lemmas.EarConvex.Separated (earcutLinked fuel l 0 pass).tris :=
  Lemmas.EarConvex.earcutLinked_convex_sep fuel l pass hc hlen hf

/-! ## P. `earcut_uses_input_vertices` for the top-level function with holes (growth round 2) -/

/-- the node carries the index and the coordinates of one of the given points -/
def IsPoint (pts : List Pt) (v : Node) : Prop := ∃ p, pts[v.pt]? = some p ∧ v.x = p.x ∧ v.y = p.y

/-- same source point and coordinates (what `IsPoint` looks at) -/
private def Like (v u : Node) : Prop := v.pt = u.pt ∧ v.x = u.x ∧ v.y = u.y

private theorem isPoint_like {pts : List Pt} {v u : Node} (h : Like v u) (hu : IsPoint pts u) : IsPoint pts v := by
  obtain ⟨p, h1, h2, h3⟩ := hu
  exact ⟨p, by rw [h.1]; exact h1, by rw [h.2.1]; exact h2, by rw [h.2.2]; exact h3⟩

private theorem mkNodes_spec : ∀ (ps : List Pt) (off : Nat) (v : Node), v ∈ mkNodes ps off →
    ∃ j p, ps[j]? = some p ∧ v.pt = off + j ∧ v.x = p.x ∧ v.y = p.y
  | [], _, v, h => by simp [mkNodes] at h
  | q :: qs, off, v, h => by
    simp only [mkNodes, List.mem_cons] at h
    rcases h with rfl | h
    · exact ⟨0, q, rfl, rfl, rfl, rfl⟩
    · obtain ⟨j, p, h1, h2, h3, h4⟩ := mkNodes_spec qs (off + 1) v h
      exact ⟨j + 1, p, by simpa using h1, by omega, h3, h4⟩

private theorem setIndex_like : ∀ (ns : List Node) (st : Nat) (v : Node), v ∈ setIndex ns st → ∃ u ∈ ns, Like v u
  | [], _, v, h => by simp [setIndex] at h
  | n :: ns, st, v, h => by
    simp only [setIndex, List.mem_cons] at h
    rcases h with rfl | h
    · exact ⟨n, by simp, rfl, rfl, rfl⟩
    · obtain ⟨u, hu, hl⟩ := setIndex_like ns (st + 1) v h
      exact ⟨u, List.mem_cons_of_mem _ hu, hl⟩

private theorem dropDuplicateLast_mem (l : List Node) : ∀ v ∈ dropDuplicateLast l, v ∈ l := by
  intro v hv
  unfold dropDuplicateLast at hv
  split at hv
  · split at hv
    · exact List.mem_cons_of_mem _ hv
    · exact hv
  · exact hv

private theorem linkedList_spec (ps : List Pt) (start off : Nat) (ccw : Bool) :
    ∀ v ∈ linkedList ps start off ccw, ∃ j p, ps[j]? = some p ∧ v.pt = off + j ∧ v.x = p.x ∧ v.y = p.y := by
  intro v hv
  unfold linkedList at hv
  have hv1 := mem_rotr.mp (dropDuplicateLast_mem _ v hv)
  have hv2 : v ∈ setIndex (mkNodes ps off) start := by
    split at hv1
    · exact hv1
    · exact List.mem_reverse.mp hv1
  obtain ⟨u, hu, hl⟩ := setIndex_like _ _ v hv2
  obtain ⟨j, p, h1, h2, h3, h4⟩ := mkNodes_spec ps off u hu
  exact ⟨j, p, h1, by rw [hl.1]; exact h2, by rw [hl.2.1]; exact h3, by rw [hl.2.2]; exact h4⟩

private theorem holeRings_spec : ∀ (hs : List (List Pt)) (start off : Nat) (ring : List Node), ring ∈ holeRings hs start off →
    ∀ v ∈ ring, ∃ j p, hs.flatten[j]? = some p ∧ v.pt = off + j ∧ v.x = p.x ∧ v.y = p.y
  | [], _, _, ring, h => by simp [holeRings] at h
  | h :: hs, start, off, ring, hr => by
    unfold holeRings at hr
    split at hr
    · rename_i hlen
      have : h = [] := by
        match h, hlen with
        | [], _ => rfl
      subst this
      simpa using holeRings_spec hs start off ring hr
    · simp only [List.mem_cons] at hr
      rcases hr with rfl | hr
      · intro v hv
        rw [mem_rotBy] at hv
        have hv' : ∃ u ∈ linkedList h start off false, Like v u := by
          split at hv
          · rename_i p hp
            simp only [List.mem_singleton] at hv
            subst hv
            exact ⟨p, by rw [hp]; simp, rfl, rfl, rfl⟩
          · exact ⟨v, hv, rfl, rfl, rfl⟩
        obtain ⟨u, hu, hl⟩ := hv'
        obtain ⟨j, p, h1, h2, h3, h4⟩ := linkedList_spec h start off false u hu
        refine ⟨j, p, ?_, by rw [hl.1]; exact h2, by rw [hl.2.1]; exact h3, by rw [hl.2.2]; exact h4⟩
        rw [List.flatten_cons, List.getElem?_append_left (by
          have := List.getElem?_eq_some_iff.mp h1
          exact this.1)]
        exact h1
      · intro v hv
        obtain ⟨j, p, h1, h2, h3, h4⟩ := holeRings_spec hs (start + h.length) (off + h.length) ring hr v hv
        refine ⟨h.length + j, p, ?_, by omega, h3, h4⟩
        rw [List.flatten_cons, List.getElem?_append_right (by omega)]
        simpa using h1

private theorem insertHole_mem (h : List Node) : ∀ (gs : List (List Node)) (r : List Node), r ∈ insertHole h gs → r = h ∨ r ∈ gs
  | [], r, hr => by simpa [insertHole] using hr
  | g :: gs, r, hr => by
    unfold insertHole at hr
    split at hr
    · simp only [List.mem_cons] at hr ⊢
      rcases hr with rfl | hr
      · exact Or.inr (Or.inl rfl)
      · rcases insertHole_mem h gs r hr with h1 | h1
        · exact Or.inl h1
        · exact Or.inr (Or.inr h1)
    · simpa using hr

private theorem sortHoles_mem (hs : List (List Node)) : ∀ r ∈ sortHoles hs, r ∈ hs := by
  have : ∀ (hs acc : List (List Node)), ∀ r ∈ hs.foldl (fun acc h => insertHole h acc) acc, r ∈ acc ∨ r ∈ hs := by
    intro hs
    induction hs with
    | nil => intro acc r hr; exact Or.inl hr
    | cons h hs ih =>
      intro acc r hr
      rcases ih _ r hr with h1 | h1
      · rcases insertHole_mem h acc r h1 with rfl | h2
        · exact Or.inr (by simp)
        · exact Or.inl h2
      · exact Or.inr (List.mem_cons_of_mem _ h1)
  intro r hr
  rcases this hs [] r hr with h1 | h1
  · simp at h1
  · exact h1

private theorem eliminateHole_like (hole outer : List Node) :
    ∀ v ∈ (eliminateHole hole outer).1, ∃ u, (u ∈ outer ∨ u ∈ hole) ∧ Like v u := by
  intro v hv
  have refl : ∀ u, Like u u := fun u => ⟨rfl, rfl, rfl⟩
  unfold eliminateHole at hv
  split at hv
  · exact ⟨v, Or.inl hv, refl v⟩
  · rename_i h hrest
    split at hv
    · exact ⟨v, Or.inl hv, refl v⟩
    · rename_i idx hidx
      -- all nodes of the merged ring come from the two rings
      have hmerge : ∀ w ∈ (mergeHole (rotBy idx outer) (h :: hrest)).1, ∃ u, (u ∈ outer ∨ u ∈ h :: hrest) ∧ Like w u := by
        intro w hw
        match hro : rotBy idx outer with
        | [] =>
          rw [hro] at hw
          simp [mergeHole] at hw
        | a :: as =>
          rw [hro] at hw
          have hao : ∀ x ∈ a :: as, x ∈ outer := fun x hx => mem_rotBy.mp (hro ▸ hx)
          simp only [mergeHole, List.cons_append, List.mem_cons, List.mem_append] at hw
          rcases hw with rfl | rfl | hw | rfl | rfl | hw
          · exact ⟨h, Or.inr (by simp), rfl, rfl, rfl⟩
          · exact ⟨a, Or.inl (hao a (by simp)), rfl, rfl, rfl⟩
          · exact ⟨w, Or.inl (hao w (List.mem_cons_of_mem _ hw)), refl w⟩
          · exact ⟨w, Or.inl (hao w (by simp)), refl w⟩
          · exact ⟨w, Or.inr (by simp), refl w⟩
          · exact ⟨w, Or.inr (List.mem_cons_of_mem _ hw), refl w⟩
      have hf1 : ∀ w ∈ (filterPointsM (mergeHole (rotBy idx outer) (h :: hrest)).1 1
          { pos := some (mergeHole (rotBy idx outer) (h :: hrest)).2 }).1, ∃ u, (u ∈ outer ∨ u ∈ h :: hrest) ∧ Like w u :=
        fun w hw => hmerge w (filterPoints_subset _ _ _ w hw)
      dsimp only at hv
      split at hv
      · exact hf1 v (mem_rotBy.mp (filterPoints_subset _ _ _ v hv))
      · split at hv
        · split at hv
          · exact hf1 v hv
          · exact hf1 v (mem_rotBy.mp (filterPoints_subset _ _ _ v hv))
        · exact hf1 v hv
      · exact hf1 v hv

private theorem eliminateHoles_like (rings : List (List Node)) (outer : List Node) :
    ∀ v ∈ (rings.foldl (fun (acc : List Node × Bool) h => ((eliminateHole h acc.1).1, acc.2 || (eliminateHole h acc.1).2))
      (outer, false)).1, ∃ u, (u ∈ outer ∨ ∃ r ∈ rings, u ∈ r) ∧ Like v u := by
  have gen : ∀ (rings : List (List Node)) (acc : List Node × Bool),
      ∀ v ∈ (rings.foldl (fun (acc : List Node × Bool) h => ((eliminateHole h acc.1).1, acc.2 || (eliminateHole h acc.1).2)) acc).1,
        ∃ u, (u ∈ acc.1 ∨ ∃ r ∈ rings, u ∈ r) ∧ Like v u := by
    intro rings
    induction rings with
    | nil => intro acc v hv; exact ⟨v, Or.inl hv, rfl, rfl, rfl⟩
    | cons h hs ih =>
      intro acc v hv
      obtain ⟨u, hu, hl⟩ := ih _ v hv
      rcases hu with hu | ⟨r, hr, hur⟩
      · obtain ⟨u2, hu2, hl2⟩ := eliminateHole_like h acc.1 u hu
        refine ⟨u2, ?_, ⟨hl.1.trans hl2.1, hl.2.1.trans hl2.2.1, hl.2.2.trans hl2.2.2⟩⟩
        rcases hu2 with h1 | h1
        · exact Or.inl h1
        · exact Or.inr ⟨h, by simp, h1⟩
      · exact ⟨u, Or.inr ⟨r, List.mem_cons_of_mem _ hr, hur⟩, hl⟩
  exact gen rings (outer, false)

/-- `earcut_uses_input_vertices`: every vertex of every triangle returned by `earcut(exterior, holes)` (any input, valid or not,
with holes and Steiner points) carries the index and the coordinates of one of the points of `exterior ++ holes` -/
theorem earcut_uses_input_vertices (fuel : Nat) (exterior : List Pt) (holes : List (List Pt)) (o : Out) (d : Bool)
    (h : earcut fuel exterior holes = .ok o d) :
    ∀ t ∈ o.tris, ∀ v ∈ [t.1, t.2.1, t.2.2], IsPoint (exterior ++ holes.flatten) v := by
  unfold earcut at h
  split at h
  · simp at h
  · dsimp only at h
    split at h
    · simp only [EarcutResult.ok.injEq] at h
      obtain ⟨rfl, _⟩ := h
      intro t ht; simp at ht
    · have houter : ∀ u ∈ linkedList exterior 0 0 true, IsPoint (exterior ++ holes.flatten) u := by
        intro u hu
        obtain ⟨j, p, h1, h2, h3, h4⟩ := linkedList_spec exterior 0 0 true u hu
        refine ⟨p, ?_, h3, h4⟩
        rw [h2, Nat.zero_add, List.getElem?_append_left (List.getElem?_eq_some_iff.mp h1).1]
        exact h1
      have hring : ∀ u ∈ (if holes.length > 0 then eliminateHoles holes exterior.length (linkedList exterior 0 0 true)
          else (linkedList exterior 0 0 true, false)).1, IsPoint (exterior ++ holes.flatten) u := by
        intro u hu
        split at hu
        · unfold eliminateHoles at hu
          obtain ⟨w, hw, hl⟩ := eliminateHoles_like _ _ u hu
          apply isPoint_like hl
          rcases hw with hw | ⟨r, hr, hwr⟩
          · exact houter w hw
          · obtain ⟨j, p, h1, h2, h3, h4⟩ := holeRings_spec holes exterior.length exterior.length r (sortHoles_mem _ r hr) w hwr
            refine ⟨p, ?_, h3, h4⟩
            rw [h2, List.getElem?_append_right (by omega)]
            simpa using h1
        · exact houter u hu
      simp only [EarcutResult.ok.injEq] at h
      obtain ⟨rfl, _⟩ := h
      intro t ht v hv
      obtain ⟨u, hu, hs⟩ := earcut_triangle_vertices _ _ _ _ t ht v hv
      exact isPoint_like ⟨hs.1, hs.2.1, hs.2.2.1⟩ (hring u hu)

/-! ## Q. non-overlap of the earcut triangles for ARBITRARY rings via winding numbers (growth round 2; proofs in
`Lemmas/PolygonWinding.lean`)

`Lemmas.Winding.wnRing x l` is the exact winding number of the ring `l` around the point `x` (the crossing rule of
`pip_agrees_exact`; `wnRing_eq_windingNumber`).  The winding number is additive under ear removal exactly like the shoelace area,
a counter-clockwise triangle has winding number 0 or 1 everywhere and 1 strictly inside, so the triangles of a complete run can
cover a point only as often as the ring winds around it.  The ONE geometric hypothesis (Jordan curve theorem for the input) is
explicit: `wnRing x l ≤ 1`. -/

/-- removing the cursor node changes the winding number around any point by that of the cut triangle -/
theorem ear_removal_winding (x : Pt) (b c : Node) (r : List Node) :
    Lemmas.Winding.wnRing x (b :: c :: r) = Lemmas.Winding.wnRing x (c :: r) + Lemmas.Winding.wnRing x [lastOr c r, b, c] :=
  Lemmas.Winding.ear_removal_winding x b c r

/-- a counter-clockwise triangle (`area < 0` in the convention of the code) has winding number 0 or 1 at EVERY point, including
its boundary (half-open crossing rule), and 1 at every point strictly inside -/
theorem triangle_winding_ccw (x : Pt) (a b c : Node) (hccw : area a b c < 0) :
    0 ≤ Lemmas.Winding.wnTri x (a, b, c) ∧ Lemmas.Winding.wnTri x (a, b, c) ≤ 1 ∧
    (Lemmas.Winding.StrictlyInside x (a, b, c) → Lemmas.Winding.wnTri x (a, b, c) = 1) := by
  have h := Lemmas.Winding.wnTri_ccw x a b c ((Lemmas.Winding.triCcw_iff (a, b, c)).mpr hccw)
  exact ⟨h.1, h.2.1, fun hin => h.2.2 hin.1 hin.2.1 hin.2.2⟩

/-- a degenerate triangle (three collinear or coincident nodes: what `filter_points` removes) has winding number 0 everywhere -/
theorem triangle_winding_degenerate (x : Pt) (a b c : Node) (h : area a b c = 0) : Lemmas.Winding.wnTri x (a, b, c) = 0 := by
  apply Lemmas.Winding.wnTri_degenerate
  simp only [area, PolygonKernels.area] at h
  simp only [sideOf, Lemmas.Winding.toPt]
  linarith

/-- winding balance of the whole model of `earcut_linked` (all passes, `filter_points`, `cure_local_intersections`,
`split_ear_cut`), for every ring, fuel and point: the exact analogue of `earcutLinked_area` -/
theorem earcutLinked_winding (x : Pt) (fuel : Nat) (l : List Node) (k pass : Nat) :
    Lemmas.Winding.wnRing x l = Lemmas.Winding.outWn x (earcutLinked fuel l k pass) :=
  Lemmas.Winding.earcutLinked_winding x fuel l k pass

/-- any sequence of ear removals (`cutEars`): non-overlap and containment from the winding bound -/
theorem cutEars_no_overlap (x : Pt) (l : List Node) (ks : List Nat)
    (hccw : ∀ t ∈ (cutEars l ks).1, triArea t < 0) (hdone : (cutEars l ks).2.length < 3) :
    (Lemmas.Winding.wnRing x l ≤ 1 →
      List.Pairwise (fun t1 t2 => ¬ (Lemmas.Winding.StrictlyInside x t1 ∧ Lemmas.Winding.StrictlyInside x t2)) (cutEars l ks).1) ∧
    (∀ t ∈ (cutEars l ks).1, Lemmas.Winding.StrictlyInside x t → 1 ≤ Lemmas.Winding.wnRing x l) :=
  let r := Lemmas.Winding.cutEars_no_overlap x l ks (fun t ht => (Lemmas.Winding.triCcw_iff t).mpr (hccw t ht)) hdone
  ⟨r.1, r.2.1⟩

/-- `earcut_no_overlap` for the real loop and ANY ring (non-convex, with bridged holes): in a complete run no point `x` around
which the ring winds at most once lies strictly inside two triangles, and every triangle that contains `x` strictly lies inside
the polygon (the ring winds around `x`).  For a simple counter-clockwise polygon `wnRing x l ≤ 1` holds for every `x`
(Jordan curve theorem — the explicit hypothesis), so the triangles are pairwise interior-disjoint and inside the polygon. -/
theorem earcut_no_overlap (x : Pt) (fuel : Nat) (l : List Node) (k pass : Nat)
    (hcomplete : (earcutLinked fuel l k pass).complete) :
    (Lemmas.Winding.wnRing x l ≤ 1 →
      List.Pairwise (fun t1 t2 => ¬ (Lemmas.Winding.StrictlyInside x t1 ∧ Lemmas.Winding.StrictlyInside x t2))
        (earcutLinked fuel l k pass).tris) ∧
    (∀ t ∈ (earcutLinked fuel l k pass).tris, Lemmas.Winding.StrictlyInside x t → 1 ≤ Lemmas.Winding.wnRing x l) ∧
    0 ≤ Lemmas.Winding.wnRing x l := by
  have hccw := earcut_triangles_ccw fuel l k pass hcomplete.2.1
  exact Lemmas.Winding.earcutLinked_no_overlap x fuel l k pass hcomplete
    (fun t ht => (Lemmas.Winding.triCcw_iff t).mpr (hccw t ht))

/-- headline for `earcut(exterior, [])` (at most 80 vertices): a complete run on ANY exterior ring — at a point `x` around which the
ring built by `linked_list` winds at most once, at most one triangle contains `x` strictly, and a triangle that contains `x`
strictly lies inside the polygon -/
theorem earcut_no_holes_no_overlap (x : Pt) (fuel : Nat) (exterior : List Pt) (o : Out) (d : Bool)
    (h : earcut fuel exterior [] = .ok o d) (hc : o.complete) :
    (Lemmas.Winding.wnRing x (linkedList exterior 0 0 true) ≤ 1 →
      List.Pairwise (fun t1 t2 => ¬ (Lemmas.Winding.StrictlyInside x t1 ∧ Lemmas.Winding.StrictlyInside x t2)) o.tris) ∧
    (∀ t ∈ o.tris, Lemmas.Winding.StrictlyInside x t → 1 ≤ Lemmas.Winding.wnRing x (linkedList exterior 0 0 true)) := by
  unfold earcut at h
  split at h
  · simp at h
  · dsimp only at h
    split at h
    · simp only [EarcutResult.ok.injEq] at h
      obtain ⟨rfl, _⟩ := h
      exact ⟨fun _ => List.Pairwise.nil, fun t ht => by simp at ht⟩
    · simp only [List.length_nil, Nat.lt_irrefl, if_false, EarcutResult.ok.injEq] at h
      obtain ⟨rfl, _⟩ := h
      have := earcut_no_overlap x fuel (linkedList exterior 0 0 true) 0 0 hc
      exact ⟨this.1, this.2.1⟩

/-- headline for `earcut(exterior, holes)` with holes (modelled situations: flag `detached = false`): the ring that is sliced
winds around `x` like the outer ring plus the bridged hole rings (`used`, a sublist of the hole rings; holes are clockwise, so they
subtract).  In a complete run, at a point where this total is at most 1, at most one triangle contains `x` strictly, and a triangle
that contains `x` strictly lies where the total is at least 1 (inside the exterior and in no bridged hole, for valid input). -/
theorem earcut_with_holes_no_overlap (x : Pt) (fuel : Nat) (exterior : List Pt) (holes : List (List Pt)) (o : Out)
    (h : earcut fuel exterior holes = .ok o false) (hc : o.complete) (hh : holes.length > 0) :
    ∃ used : List (List Node), used.Sublist (sortHoles (holeRings holes exterior.length exterior.length)) ∧
      (Lemmas.Winding.wnRing x (linkedList exterior 0 0 true) + Lemmas.Winding.sumWnRings x used ≤ 1 →
        List.Pairwise (fun t1 t2 => ¬ (Lemmas.Winding.StrictlyInside x t1 ∧ Lemmas.Winding.StrictlyInside x t2)) o.tris) ∧
      (∀ t ∈ o.tris, Lemmas.Winding.StrictlyInside x t →
        1 ≤ Lemmas.Winding.wnRing x (linkedList exterior 0 0 true) + Lemmas.Winding.sumWnRings x used) := by
  unfold earcut at h
  split at h
  · simp at h
  · dsimp only at h
    split at h
    · simp only [EarcutResult.ok.injEq] at h
      obtain ⟨rfl, _⟩ := h
      exact ⟨[], List.nil_sublist _, fun _ => List.Pairwise.nil, fun t ht => by simp at ht⟩
    · simp only [hh, if_true, EarcutResult.ok.injEq] at h
      obtain ⟨rfl, hflag⟩ := h
      unfold eliminateHoles at hflag hc ⊢
      obtain ⟨used, hsub, hw⟩ := Lemmas.Winding.eliminateHoles_winding x _ (linkedList exterior 0 0 true, false) hflag
      have := earcut_no_overlap x fuel _ 0 0 hc
      rw [hw] at this
      exact ⟨used, hsub, this.1, this.2.1⟩

/-- outside a counter-clockwise triangle (strictly outside one of its edges) the winding number is 0: together with
`triangle_winding_ccw` the winding number of a ccw triangle is 1 strictly inside, 0 strictly outside, 0 or 1 on the boundary -/
theorem triangle_winding_outside (x : Pt) (a b c : Node) (hccw : area a b c < 0) (hout : ¬ Lemmas.Winding.InClosed x (a, b, c)) :
    Lemmas.Winding.wnTri x (a, b, c) = 0 := by
  apply Lemmas.Winding.wnTri_outside x a b c ((Lemmas.Winding.triCcw_iff (a, b, c)).mpr hccw)
  unfold Lemmas.Winding.InClosed at hout
  by_contra hc
  simp only [not_or, not_lt] at hc
  exact hout ⟨hc.1, hc.2.1, hc.2.2⟩

/-- `earcut_covers`: in a complete run every point around which the ring winds (`0 < wnRing x l`: the points inside the polygon)
lies in the closed triangle of some emitted triangle: the triangulation leaves nothing of the polygon uncovered.  With
`earcut_no_overlap`: for `wnRing x l = 1` the point is covered, and strictly inside at most one triangle. -/
theorem earcut_covers (x : Pt) (fuel : Nat) (l : List Node) (k pass : Nat)
    (hcomplete : (earcutLinked fuel l k pass).complete) (hx : 0 < Lemmas.Winding.wnRing x l) :
    ∃ t ∈ (earcutLinked fuel l k pass).tris, Lemmas.Winding.InClosed x t := by
  have hccw := earcut_triangles_ccw fuel l k pass hcomplete.2.1
  exact Lemmas.Winding.earcutLinked_covers x fuel l k pass hcomplete
    (fun t ht => (Lemmas.Winding.triCcw_iff t).mpr (hccw t ht)) hx

/-- a polygon whose vertices all lie in a closed half-plane does not wind around any point strictly outside that half-plane
(any polygon: self-intersecting, any orientation) -/
theorem winding_outside_halfplane (x g h : Pt) (poly : List Pt) (hv : ∀ v ∈ poly, 0 ≤ sideOf g h v) (hx : sideOf g h x < 0) :
    windingNumber x poly = 0 :=
  Lemmas.Winding.windingNumber_halfplane x g h poly hv hx

/-- Sutherland-Hodgman, containment of REGIONS (not only of vertices), every tolerance, every subject and clipping polygon: the
result of `clip_polygon` does not wind around any point that lies strictly outside one clipping edge — the clipped region is
contained in the intersection of the clip half-planes (in the sense of the exact winding number, i.e. of `pip_agrees_exact`) -/
theorem clipPolygon_region_inside (clip : List Pt) (tol : Rat) (htol : 0 ≤ tol) (poly : List Pt) (hclip : clip ≠ [])
    (x : Pt) (E : Pt × Pt) (hE : E ∈ polygonEdges clip) (hx : sideOf E.1 E.2 x < 0) :
    windingNumber x (clipPolygon clip tol poly) = 0 :=
  Lemmas.Winding.windingNumber_halfplane x E.1 E.2 _ (fun v hv => clipPolygon_inside clip tol htol poly hclip v hv E hE) hx

/-- … and in the convex hull of the subject: the result does not wind around a point strictly outside a closed half-plane that
contains all subject vertices -/
theorem clipPolygon_region_in_subject_hull (clip : List Pt) (tol : Rat) (htol : 0 ≤ tol) (poly : List Pt) (g h x : Pt)
    (hv : ∀ v ∈ poly, 0 ≤ sideOf g h v) (hx : sideOf g h x < 0) :
    windingNumber x (clipPolygon clip tol poly) = 0 :=
  Lemmas.Winding.windingNumber_halfplane x g h _ (clipPolygon_in_subject_hull clip tol htol poly g h hv) hx

/-- the ring winding number is the winding number that `pip_agrees_exact` relates to `is_point_in_polygon_2d` -/
theorem wnRing_eq_windingNumber (x : Pt) (l : List Node) :
    Lemmas.Winding.wnRing x l = windingNumber x (l.map Lemmas.Winding.toPt) :=
  Lemmas.Winding.wnRing_eq_windingNumber x l

/-! ## statements of C19 that are NOT proved (kept visible; covered by correspondence and the exact oracle only)

```
-- completion (two-ears theorem and adequacy of `is_ear`): every simple polygon is triangulated completely
-- theorem earcut_completes (exterior : List Pt) (hsimple : SimplePolygon exterior) :
--     ∃ fuel o, earcut fuel exterior [] = .ok o false ∧ o.complete
-- reason: needs the Jordan-curve style two-ears argument for the ear test as coded (bounding box + point_in_triangle +
-- reflex test).  Proved for the class of strictly convex rings of any size: `earcut_completes_convex` (section O).

-- non-overlap: proved for every ring in section Q (`earcut_no_overlap`, `earcut_no_holes_no_overlap`,
-- `earcut_with_holes_no_overlap`) from ONE explicit hypothesis, `wnRing x l ≤ 1` (the ring winds at most once around the point);
-- that a simple counter-clockwise polygon satisfies it at every point (Jordan curve theorem) is NOT proved, and completeness of
-- the run is assumed (`o.complete`).

-- Sutherland-Hodgman exactness: `clipPolygon clip tol poly` = poly ∩ convex clip as point sets
-- theorem sh_exact ...
-- proved: containment in every clip half-plane and in the hull of the subject, `clip_outside_empty`, `clip_inside_identity`,
-- conservation of the signed area across one cut (`clipEdge_area_split`) and over all clipping edges
-- (`clipPolygon_area_balance`), the cut-away parts lie in the closed outer half-plane of their edge and in the hull of the
-- subject (`cutOffs_outside`).  Not proved: the converse containment (every point of subject ∩ clip is in the result), also not
-- for convex subjects; route: the winding number of the clipped polygon equals that of the subject strictly inside the half-plane
-- and 0 strictly outside (needs the winding analogue of `clipEdge_area_split`).  clip_idempotent: not proved.

-- Greiner-Hormann: area(A) + area(B) = area(A|B) + area(A&B) as a statement about areas
-- proved (section M): the entry/exit classification and the complementary pieces (`gh_union_intersection_partition`);
-- not modelled: phase 1 (intersection search) and the assembly of the result polygons in phase 3.

-- pip / winding: "the winding number of a simple polygon is 0 or ±1, and odd = inside" (Jordan curve theorem) is not proved;
-- `pip_agrees_exact` identifies the answer with the parity of the exact winding number.
```
-/

/-! ## non-vacuity: the hypotheses of the theorems are met by ordinary inputs, the bounds are tight -/

private def square : List Node := linkedList [⟨0, 0⟩, ⟨4, 0⟩, ⟨4, 4⟩, ⟨0, 4⟩] 0 0 true
private def outBool (o : Out) : Bool := o.left.all (fun r => decide (r.length < 3)) && o.cured.isEmpty && !o.fuelOut

-- a complete run (hypothesis of `earcut_conserves`): two triangles, nothing left, nothing cured
#guard outBool (earcutLinked 1000 square 0 0)
#guard (earcutLinked 1000 square 0 0).tris.map (fun t => (t.1.pt, t.2.1.pt, t.2.2.pt)) = [(2, 3, 0), (0, 1, 2)]
#guard sumTri (earcutLinked 1000 square 0 0).tris = -32 ∧ signedArea square = -32
-- hypothesis of `earcut_no_holes_conserves`: the top-level model completes on a concave polygon given clockwise
#guard (match earcut 1000 [⟨0, 0⟩, ⟨0, 4⟩, ⟨2, 1⟩, ⟨4, 4⟩, ⟨4, 0⟩] [] with
  | .ok o d => outBool o && !d && o.tris.length == 3 | .hashed => false)
-- a clockwise input is turned counter-clockwise by `linked_list` (`linkedList_area`)
#guard signedArea (linkedList [⟨0, 0⟩, ⟨0, 4⟩, ⟨4, 4⟩, ⟨4, 0⟩] 0 0 true) = -32
#guard signedArea (linkedList [⟨0, 0⟩, ⟨4, 0⟩, ⟨4, 4⟩, ⟨0, 4⟩] 0 0 false) = 32
-- `linked_list` numbers a reversed ring start .. start+n-1 like a ring that keeps its order (after fix 774525a2f)
#guard (linkedList [⟨0, 0⟩, ⟨0, 4⟩, ⟨4, 4⟩, ⟨4, 0⟩] 0 0 true).map (·.i) = [0, 3, 2, 1]
-- a self-touching ring on which `cure_local_intersections` fires: the `cured` term of `earcutLinked_area` is not vacuous
private def twisted : List Node := linkedList [⟨1, 1⟩, ⟨3, 4⟩, ⟨3, 2⟩, ⟨4, 1⟩, ⟨3, 4⟩, ⟨4, 0⟩] 0 0 true
#guard (earcutLinked 2000 twisted 0 0).cured.length = 1
#guard sumCure (earcutLinked 2000 twisted 0 0).cured ≠ 0
-- a square with a square hole: the bridge is found, the merged ring has the area of both (`eliminateHole_area`)
#guard (eliminateHoles [[⟨1, 1⟩, ⟨2, 1⟩, ⟨2, 2⟩, ⟨1, 2⟩]] 4 square).2 = false
#guard signedArea (eliminateHoles [[⟨1, 1⟩, ⟨2, 1⟩, ⟨2, 2⟩, ⟨1, 2⟩]] 4 square).1 = -32 + 2
-- Sutherland-Hodgman and the tolerance hypothesis `0 ≤ tol`
example : (0 : Rat) ≤ PolygonKernels.tolerance := by simp only [PolygonKernels.tolerance]; norm_num
#guard clipPolygon [⟨0, 0⟩, ⟨2, 0⟩, ⟨2, 2⟩, ⟨0, 2⟩] PolygonKernels.tolerance [⟨1, 1⟩, ⟨3, 1⟩, ⟨3, 3⟩, ⟨1, 3⟩]
  = [⟨1, 2⟩, ⟨1, 1⟩, ⟨2, 1⟩, ⟨2, 2⟩]
-- `clip_inside_identity` / `clip_outside_empty`: a triangle strictly inside the square, a triangle touching it from outside
#guard clipPolygon [⟨0, 0⟩, ⟨4, 0⟩, ⟨4, 4⟩, ⟨0, 4⟩] PolygonKernels.tolerance [⟨1, 1⟩, ⟨3, 1⟩, ⟨2, 3⟩] = [⟨1, 1⟩, ⟨3, 1⟩, ⟨2, 3⟩]
#guard popClosing [⟨1, 1⟩, ⟨3, 1⟩, (⟨2, 3⟩ : Pt)] PolygonKernels.tolerance = [⟨1, 1⟩, ⟨3, 1⟩, ⟨2, 3⟩]
#guard clipPolygon [⟨0, 0⟩, ⟨4, 0⟩, ⟨4, 4⟩, ⟨0, 4⟩] PolygonKernels.tolerance [⟨4, 1⟩, ⟨6, 1⟩, ⟨4, 3⟩] = []
-- `clipEdge_area_split`: a concave polygon cut by the line x = 2: the two parts have areas 2*5 and 2*7 (fan area = twice the area)
#guard fanArea ⟨0, 0⟩ [⟨0, 0⟩, ⟨4, 0⟩, ⟨4, 4⟩, ⟨2, 1⟩, ⟨0, 4⟩] = 20
#guard fanArea ⟨0, 0⟩ (clipEdge ⟨2, 0⟩ ⟨2, 1⟩ 0 [⟨0, 0⟩, ⟨4, 0⟩, ⟨4, 4⟩, ⟨2, 1⟩, ⟨0, 4⟩]) = 10
#guard fanArea ⟨0, 0⟩ (clipEdge ⟨2, 1⟩ ⟨2, 0⟩ 0 [⟨0, 0⟩, ⟨4, 0⟩, ⟨4, 4⟩, ⟨2, 1⟩, ⟨0, 4⟩]) = 10
#guard popClosing [⟨0, 0⟩, ⟨4, 0⟩, ⟨4, 4⟩, ⟨2, 1⟩, (⟨0, 4⟩ : Pt)] 0 = [⟨0, 0⟩, ⟨4, 0⟩, ⟨4, 4⟩, ⟨2, 1⟩, ⟨0, 4⟩]
-- `clipPolygon_area_balance`: the unit square shifted by (1, 1) against the square [0,2]^2: area 4 = 1 (result) + 2 + 1 + 0 + 0 (parts)
#guard fanArea ⟨0, 0⟩ (clipPolygon [⟨0, 0⟩, ⟨2, 0⟩, ⟨2, 2⟩, ⟨0, 2⟩] 0 [⟨1, 1⟩, ⟨3, 1⟩, ⟨3, 3⟩, ⟨1, 3⟩]) = 2
#guard (cutOffs 0 ⟨0, 2⟩ [⟨0, 0⟩, ⟨2, 0⟩, ⟨2, 2⟩, ⟨0, 2⟩] [⟨1, 1⟩, ⟨3, 1⟩, ⟨3, 3⟩, ⟨1, 3⟩]).map (fanArea ⟨0, 0⟩) = [0, 0, 4, 2]
#guard popClosing (clipEdge ⟨0, 2⟩ ⟨0, 0⟩ 0 [⟨1, 1⟩, ⟨3, 1⟩, ⟨3, 3⟩, (⟨1, 3⟩ : Pt)]) 0 = clipEdge ⟨0, 2⟩ ⟨0, 0⟩ 0 [⟨1, 1⟩, ⟨3, 1⟩, ⟨3, 3⟩, ⟨1, 3⟩]
-- `clipLineConvex_exact` / `clipLineConvex_none`: a line through a triangle, a line that misses it
#guard clipLineConvex [⟨0, 0⟩, ⟨4, 0⟩, ⟨0, 4⟩] 0 ⟨-1, 1⟩ ⟨5, 1⟩ = some (⟨0, 1⟩, ⟨3, 1⟩)
#guard clipLineConvex [⟨0, 0⟩, ⟨4, 0⟩, ⟨0, 4⟩] 0 ⟨3, 3⟩ ⟨5, 1⟩ = none
-- Cohen-Sutherland: accept, reject, and a segment that needs all four clipping steps (fuel 4 is not enough, 5 is)
private def win : Win := ⟨0, 2, 0, 2⟩
example : win.xmin ≤ win.xmax ∧ win.ymin ≤ win.ymax := by simp only [win]; norm_num
#guard csClipLine win 5 ⟨-2, -1⟩ ⟨4, 3⟩ = .accept ⟨0, 1 / 3⟩ ⟨2, 5 / 3⟩
#guard csClipLine win 4 ⟨-2, -1⟩ ⟨4, 3⟩ = .fuel   -- four clipping steps are needed here
#guard csClipLine win 5 ⟨-5, 0⟩ ⟨1, 10⟩ = .reject
#guard PolygonKernels.csReject (win.encode 3 0) (win.encode 5 7) = true
-- `cs_reject_sound`: a reject that happens in the SECOND iteration (the outcodes of the input end points share no bit)
#guard PolygonKernels.csReject (win.encode (-1) 1) (win.encode 1 4) = false ∧ csClipLine win 5 ⟨-1, 1⟩ ⟨1, 4⟩ = .reject
-- `cs_accept_exact`: the segment touches the window in the corner (2, 2) only: u0 = u1
#guard csClipLine win 5 ⟨1, 3⟩ ⟨3, 1⟩ = .accept ⟨2, 2⟩ ⟨2, 2⟩
-- convex hull of points with collinear and interior points
#guard convexHull [⟨0, 0⟩, ⟨1, 0⟩, ⟨2, 0⟩, ⟨1, 1⟩, ⟨0, 2⟩, ⟨1 / 2, 1 / 2⟩, ⟨2, 2⟩]
  = some [⟨0, 0⟩, ⟨2, 0⟩, ⟨2, 2⟩, ⟨0, 2⟩, ⟨0, 0⟩]
#guard lineLine false PolygonKernels.tolerance ⟨0, 0⟩ ⟨2, 2⟩ ⟨0, 2⟩ ⟨2, 0⟩ = some ⟨1, 1⟩
-- `isConvex_iff`: a square, a dart whose reflex corner is the LAST vertex (the corner the seeded change C19-m1 skipped),
-- the same dart with the reflex vertex repeated (the input of the defect fixed by 4fe7d128a), strict mode with a collinear vertex
#guard isConvexPolygon false (1 / 1000000) [⟨0, 0⟩, ⟨4, 0⟩, ⟨4, 4⟩, ⟨0, 4⟩] = true
#guard isConvexPolygon false (1 / 1000000) [⟨0, 0⟩, ⟨8, 4⟩, ⟨0, 8⟩, ⟨3, 4⟩] = false
#guard isConvexPolygon false (1 / 1000000) [⟨0, 0⟩, ⟨8, 4⟩, ⟨0, 8⟩, ⟨3, 4⟩, ⟨3, 4⟩] = false
#guard isConvexPolygon true (1 / 1000000) [⟨0, 0⟩, ⟨2, 0⟩, ⟨4, 0⟩, ⟨4, 4⟩] = false ∧
  isConvexPolygon false (1 / 1000000) [⟨0, 0⟩, ⟨2, 0⟩, ⟨4, 0⟩, ⟨4, 4⟩] = true
#guard (convexCornersOf [⟨0, 0⟩, ⟨8, 4⟩, ⟨0, 8⟩, ⟨3, 4⟩]).length = 4
-- `concave_fallback_sound`: an L-shaped clipping polygon; a square in the notch touching it with its FIRST vertex is dropped,
-- a square inside that touches the boundary is kept, a triangle that fills the corner of the notch (all vertices on the path) is dropped
#guard concaveNoPart [⟨0, 0⟩, ⟨8, 0⟩, ⟨8, 4⟩, ⟨4, 4⟩, ⟨4, 8⟩, ⟨0, 8⟩] PolygonKernels.tolerance [⟨4, 4⟩, ⟨6, 4⟩, ⟨4, 6⟩] = none
#guard concaveNoPart [⟨0, 0⟩, ⟨8, 0⟩, ⟨8, 4⟩, ⟨4, 4⟩, ⟨4, 8⟩, ⟨0, 8⟩] PolygonKernels.tolerance [⟨4, 4⟩, ⟨6, 4⟩, ⟨6, 6⟩, ⟨4, 6⟩] = none
#guard concaveNoPart [⟨0, 0⟩, ⟨8, 0⟩, ⟨8, 4⟩, ⟨4, 4⟩, ⟨4, 8⟩, ⟨0, 8⟩] PolygonKernels.tolerance [⟨2, 2⟩, ⟨4, 2⟩, ⟨4, 4⟩, ⟨2, 4⟩]
  = some [⟨2, 2⟩, ⟨4, 2⟩, ⟨4, 4⟩, ⟨2, 4⟩]
-- Greiner-Hormann marks: four intersection nodes, first vertex outside, intersection (entry = true): marks alternate and
-- the two ordinary vertices between an entry and an exit node are walked
#guard ghPhase2 true false [false, true, false, false, true, true, false, true] = [none, some true, none, none, some false, some true, none, some false]
#guard ghUsed (ghPhase2 true false [false, true, false, false, true, true, false, true]) = [false, true, true, true]
#guard ghUsed (ghPhase2 false false [false, true, false, false, true, true, false, true]) = [true, false, false, false]
-- `cw_iff_negative_area`: an open clockwise ring
#guard hasClockwiseOrientation [⟨0, 0⟩, ⟨0, 4⟩, ⟨4, 4⟩, ⟨4, 0⟩] = some true ∧ fanArea ⟨0, 0⟩ [⟨0, 0⟩, ⟨0, 4⟩, ⟨4, 4⟩, (⟨4, 0⟩ : Pt)] = -32
-- `earcut_completes_convex`: a triangle is a `ConvexRing`; a convex octagon is triangulated into 6 triangles
example : Lemmas.EarConvex.ConvexRing [⟨0, 0, 0, 0, false⟩, ⟨1, 1, 4, 0, false⟩, ⟨2, 2, 0, 4, false⟩] := by
  intro x y z h
  have := List.Sublist.eq_of_length h (by simp)
  simp only [List.cons.injEq, and_true] at this
  obtain ⟨rfl, rfl, rfl⟩ := this
  simp [area, PolygonKernels.area]
#guard (earcutLinked 9 (linkedList [⟨2, 0⟩, ⟨4, 0⟩, ⟨6, 2⟩, ⟨6, 4⟩, ⟨4, 6⟩, ⟨2, 6⟩, ⟨0, 4⟩, ⟨0, 2⟩] 0 0 true) 0 0).tris.length = 6
-- `clipPolygon_region_inside`: the clipped square [1,2]^2 does not wind around (3, 3/2), it winds once around (3/2, 3/2)
#guard windingNumber ⟨3, 3 / 2⟩ (clipPolygon [⟨0, 0⟩, ⟨2, 0⟩, ⟨2, 2⟩, ⟨0, 2⟩] PolygonKernels.tolerance [⟨1, 1⟩, ⟨3, 1⟩, ⟨3, 3⟩, ⟨1, 3⟩]) = 0
#guard windingNumber ⟨3 / 2, 3 / 2⟩ (clipPolygon [⟨0, 0⟩, ⟨2, 0⟩, ⟨2, 2⟩, ⟨0, 2⟩] PolygonKernels.tolerance [⟨1, 1⟩, ⟨3, 1⟩, ⟨3, 3⟩, ⟨1, 3⟩]) = 1
-- `earcut_no_overlap`: the hypothesis `wnRing x l ≤ 1` for a concave ring and points inside / in the notch / outside
#guard Lemmas.Winding.wnRing ⟨1, 1⟩ (linkedList [⟨0, 0⟩, ⟨0, 4⟩, ⟨2, 1⟩, ⟨4, 4⟩, ⟨4, 0⟩] 0 0 true) = 1
#guard Lemmas.Winding.wnRing ⟨2, 3⟩ (linkedList [⟨0, 0⟩, ⟨0, 4⟩, ⟨2, 1⟩, ⟨4, 4⟩, ⟨4, 0⟩] 0 0 true) = 0
#guard Lemmas.Winding.wnRing ⟨5, 1⟩ (linkedList [⟨0, 0⟩, ⟨0, 4⟩, ⟨2, 1⟩, ⟨4, 4⟩, ⟨4, 0⟩] 0 0 true) = 0
-- `pip_agrees_exact`: inside, outside, boundary; a closed input ring loses its closing vertex
#guard pointInPolygon ⟨1, 1⟩ [⟨0, 0⟩, ⟨4, 0⟩, ⟨4, 4⟩, ⟨0, 4⟩] PolygonKernels.tolerance = 1
#guard windingNumber ⟨1, 1⟩ [⟨0, 0⟩, ⟨4, 0⟩, ⟨4, 4⟩, ⟨0, 4⟩] = 1 ∧ windingNumber ⟨1, 1⟩ [⟨0, 4⟩, ⟨4, 4⟩, ⟨4, 0⟩, ⟨0, 0⟩] = -1
#guard pointInPolygon ⟨5, 1⟩ [⟨0, 0⟩, ⟨4, 0⟩, ⟨4, 4⟩, ⟨0, 4⟩] PolygonKernels.tolerance = -1
#guard pointInPolygon ⟨4, 1⟩ [⟨0, 0⟩, ⟨4, 0⟩, ⟨4, 4⟩, ⟨0, 4⟩] PolygonKernels.tolerance = 0
#guard (pipRing [⟨0, 0⟩, ⟨4, 0⟩, ⟨4, 4⟩, ⟨0, 4⟩, ⟨0, 0⟩]).length = 4
-- `hull_convex`: a point set that is not collinear; the corners listed by `triplesOf (h ++ [h[1]])` for the square above
example : ¬ allCollinear [⟨0, 0⟩, ⟨1, 0⟩, ⟨0, 1⟩] := by
  intro h
  have := h ⟨0, 0⟩ (by simp) ⟨1, 0⟩ (by simp) ⟨0, 1⟩ (by simp)
  simp [hcross, PolygonKernels.hullCross] at this
#guard (triplesOf ([⟨0, 0⟩, ⟨2, 0⟩, ⟨2, 2⟩, ⟨0, 2⟩, ⟨0, 0⟩] ++ [⟨2, 0⟩])).length = 4
#guard (triplesOf ([⟨0, 0⟩, ⟨2, 0⟩, ⟨2, 2⟩, ⟨0, 2⟩, (⟨0, 0⟩ : Pt)] ++ [⟨2, 0⟩])).all (fun t => decide (0 < hcross t.1 t.2.1 t.2.2))
-- `hull_collinear`: collinear input with duplicates, and `hull_error_iff`: two distinct points only
#guard convexHull [⟨2, 2⟩, ⟨0, 0⟩, ⟨1, 1⟩, ⟨3, 3⟩, ⟨1, 1⟩] = some [⟨0, 0⟩, ⟨3, 3⟩, ⟨0, 0⟩]
#guard convexHull [⟨2, 2⟩, ⟨0, 0⟩, ⟨2, 2⟩, ⟨0, 0⟩] = none

end EzdxfVerif.Props.C19

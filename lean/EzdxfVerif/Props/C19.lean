/-
C19  Polygon algorithms conserve area and respect containment.
Only property theorems, private helper lemmas and non-vacuity examples live here; every `theorem` is an obligation counted
by ./check C19.  The arithmetic kernels are the definitions of Gen/PolygonKernels.lean regenerated from the source.
-/
import EzdxfVerif.Model.Polygon
import Mathlib.Tactic.Ring
import Mathlib.Tactic.Linarith
import Mathlib.Tactic.FieldSimp
import Mathlib.Algebra.Order.Field.Basic
import Mathlib.Tactic.Tauto
import Mathlib.Tactic.IntervalCases

namespace EzdxfVerif.Props.C19
open EzdxfVerif.Polygon EzdxfVerif.Gen

/-! ## A. shoelace facts -/

private theorem term_swap (p q : Node) : term q p = - term p q := by
  simp only [term, PolygonKernels.signedAreaTerm]; ring

private theorem area_eq_terms (a b c : Node) : area a b c = term a b + term b c + term c a := by
  simp only [area, term, PolygonKernels.area, PolygonKernels.signedAreaTerm]; ring

private theorem lastOr_append (p : Node) (l m : List Node) : lastOr p (l ++ m) = lastOr (lastOr p l) m := by
  induction l generalizing p with
  | nil => rfl
  | cons q qs ih => simp [lastOr, ih]

private theorem pathSum_append (p : Node) (l m : List Node) :
    pathSum p (l ++ m) = pathSum p l + pathSum (lastOr p l) m := by
  induction l generalizing p with
  | nil => simp [pathSum, lastOr]
  | cons q qs ih => simp [pathSum, lastOr, ih]; ring

/-- the signed area of a triangle given as a ring is the code's `area(a, b, c)` -/
theorem tri_signedArea (a b c : Node) : signedArea [a, b, c] = area a b c := by
  simp only [signedArea, pathSum, lastOr, area_eq_terms]; ring

/-- removing the cursor node `b` (between `a` = last and `c` = next) changes the signed area by the triangle a b c -/
theorem ear_removal_area (b c : Node) (r : List Node) :
    signedArea (b :: c :: r) = signedArea (c :: r) + area (lastOr c r) b c := by
  simp only [signedArea, pathSum, lastOr, area_eq_terms, term_swap c (lastOr c r)]; ring

/-- the signed area does not depend on where the ring is opened -/
theorem signedArea_append_comm (l m : List Node) : signedArea (l ++ m) = signedArea (m ++ l) := by
  cases l with
  | nil => simp
  | cons p ps =>
    cases m with
    | nil => simp
    | cons q qs =>
      simp only [signedArea, List.cons_append, pathSum, pathSum_append, lastOr, lastOr_append]
      ring

private theorem signedArea_rotl (l : List Node) : signedArea (rotl l) = signedArea l := by
  cases l with
  | nil => rfl
  | cons p ps => simpa [rotl] using signedArea_append_comm ps [p]

private theorem signedArea_rotBy (k : Nat) (l : List Node) : signedArea (rotBy k l) = signedArea l := by
  rw [rotBy, signedArea_append_comm, List.take_append_drop]


private theorem dropLast_append_lastOr (p : Node) (ps : List Node) : (p :: ps).dropLast ++ [lastOr p ps] = p :: ps := by
  induction ps generalizing p with
  | nil => rfl
  | cons q qs ih => simpa [lastOr, List.dropLast] using ih q

private theorem signedArea_rotr (l : List Node) : signedArea (rotr l) = signedArea l := by
  cases l with
  | nil => rfl
  | cons p ps =>
    have h := signedArea_append_comm [lastOr p ps] (p :: ps).dropLast
    rw [dropLast_append_lastOr] at h
    simpa [rotr] using h

private theorem mem_rotl {v : Node} {l : List Node} : v ∈ rotl l ↔ v ∈ l := by
  cases l with
  | nil => simp [rotl]
  | cons p ps => simp [rotl, or_comm]

private theorem mem_rotr {v : Node} {l : List Node} : v ∈ rotr l ↔ v ∈ l := by
  cases l with
  | nil => simp [rotr]
  | cons p ps =>
    have h : v ∈ (p :: ps).dropLast ++ [lastOr p ps] ↔ v ∈ p :: ps := by rw [dropLast_append_lastOr]
    rw [← h]
    simp only [rotr, List.mem_cons, List.mem_append, List.not_mem_nil, or_false]
    exact or_comm

private theorem mem_rotBy {v : Node} {k : Nat} {l : List Node} : v ∈ rotBy k l ↔ v ∈ l := by
  rw [rotBy, List.mem_append, or_comm, ← List.mem_append, List.take_append_drop]

/-! ## B. any sequence of ear removals conserves the signed area and only uses ring vertices -/

theorem cutEars_area (l : List Node) (ks : List Nat) :
    signedArea l = sumTri (cutEars l ks).1 + signedArea (cutEars l ks).2 := by
  induction ks generalizing l with
  | nil => simp [cutEars, sumTri]
  | cons k ks ih =>
    have hr := signedArea_rotBy (k % (l.length + 1)) l
    unfold cutEars
    split
    · rename_i b c r heq
      rw [heq] at hr
      have := ih (c :: r)
      simp only [sumTri, List.map_cons, List.sum_cons, triArea] at this ⊢
      rw [← hr, ear_removal_area]
      linarith
    · rename_i short _
      simp [sumTri]
      exact hr.symm

theorem cutEars_vertices (l : List Node) (ks : List Nat) :
    ∀ t ∈ (cutEars l ks).1, t.1 ∈ l ∧ t.2.1 ∈ l ∧ t.2.2 ∈ l := by
  induction ks generalizing l with
  | nil => simp [cutEars]
  | cons k ks ih =>
    unfold cutEars
    split
    · rename_i b c r heq
      have hm : ∀ v, v ∈ b :: c :: r → v ∈ l := by
        intro v hv; rw [← heq] at hv; exact mem_rotBy.mp hv
      have hlast : lastOr c r ∈ c :: r := by
        have := dropLast_append_lastOr c r
        rw [← this]; simp
      intro t ht
      simp only [List.mem_cons] at ht
      rcases ht with rfl | ht
      · exact ⟨hm _ (List.mem_cons_of_mem _ hlast), hm _ (by simp), hm _ (by simp)⟩
      · have := ih (c :: r) t ht
        exact ⟨hm _ (List.mem_cons_of_mem _ this.1), hm _ (List.mem_cons_of_mem _ this.2.1),
          hm _ (List.mem_cons_of_mem _ this.2.2)⟩
    · simp


/-! ## C. the earcut model: area balance of `filter_points`, `cure_local_intersections`, `split_polygon`, `earcut_linked` -/

private theorem removable_area_zero (p q : Node) (t : List Node) (h : removable (p :: q :: t) = true) :
    area (lastOr q t) p q = 0 := by
  simp only [removable, PolygonKernels.filterRemovable, Bool.and_eq_true, Bool.or_eq_true, Bool.not_eq_true',
    decide_eq_true_eq] at h
  rcases h.2 with ⟨hx, hy⟩ | h0
  · simp only [area, PolygonKernels.area, hx, hy]; ring
  · exact h0

/-- `filter_points` never changes the signed area: it only removes vertices whose triangle with their neighbours is
degenerate -/
theorem filterPoints_area (l : List Node) (r : Nat) (m : Mark) :
    signedArea (filterPointsM l r m).1 = signedArea l := by
  fun_induction filterPointsM l r m with
  | case1 => rfl
  | case2 => rfl
  | case3 m r p q t hrem l' m' hempty =>
    rw [signedArea_rotr, ear_removal_area, removable_area_zero p q t hrem]; ring
  | case4 m r p q t hrem l' m' hempty ih =>
    rw [ih, signedArea_rotr, ear_removal_area, removable_area_zero p q t hrem]; ring
  | case5 m r p q t hrem m' hr => rw [signedArea_rotl]
  | case6 m r p q t hrem m' hr ih => rw [ih, signedArea_rotl]

private theorem filterPoints_subset (l : List Node) (r : Nat) (m : Mark) :
    ∀ v ∈ (filterPointsM l r m).1, v ∈ l := by
  fun_induction filterPointsM l r m with
  | case1 => simp
  | case2 => simp
  | case3 m r p q t hrem l' m' hempty =>
    intro v hv; exact List.mem_cons_of_mem _ (mem_rotr.mp hv)
  | case4 m r p q t hrem l' m' hempty ih =>
    intro v hv; exact List.mem_cons_of_mem _ (mem_rotr.mp (ih v hv))
  | case5 m r p q t hrem m' hr => intro v hv; exact mem_rotl.mp hv
  | case6 m r p q t hrem m' hr ih => intro v hv; exact mem_rotl.mp (ih v hv)


private theorem quad_identity (a p q b : Node) : area a p q + area a q b = area a p b + area p q b := by
  simp only [area, PolygonKernels.area]; ring

/-- `cure_local_intersections`: removing p and p.next and emitting (a, p, b) misses exactly the triangle p, p.next, b -/
theorem cureLoop_area (l : List Node) (r : Nat) :
    signedArea l = signedArea (cureLoop l r).1 + sumTri (cureLoop l r).2.1 + sumCure (cureLoop l r).2.2 := by
  fun_induction cureLoop l r with
  | case1 r p q b c t htest a rest ih =>
    have e1 := ear_removal_area p q (b :: c :: t)
    have e2 := ear_removal_area q b (c :: t)
    have hq := quad_identity a p q b
    simp only [lastOr] at e1 e2
    rw [signedArea_rotl] at ih
    simp only [sumTri, sumCure, List.map_cons, List.sum_cons, triArea, cureDefect] at ih ⊢
    rw [e1, e2]
    linarith
  | case2 r p q b c t htest hr => simp [sumTri, sumCure, signedArea_rotl]
  | case3 r p q b c t htest hr ih => rw [signedArea_rotl] at ih; exact ih
  | case4 l r hl => simp [sumTri, sumCure, signedArea_rotBy]

private theorem cureLoop_subset (l : List Node) (r : Nat) : ∀ v ∈ (cureLoop l r).1, v ∈ l := by
  fun_induction cureLoop l r with
  | case1 r p q b c t htest a rest ih =>
    intro v hv
    have := mem_rotl.mp (ih v hv)
    exact List.mem_cons_of_mem _ (List.mem_cons_of_mem _ this)
  | case2 r p q b c t htest hr => intro v hv; exact mem_rotl.mp hv
  | case3 r p q b c t htest hr ih => intro v hv; exact mem_rotl.mp (ih v hv)
  | case4 l r hl => intro v hv; exact mem_rotBy.mp hv


private theorem term_congr {p p' q q' : Node} (h1 : p'.x = p.x) (h2 : p'.y = p.y) (h3 : q'.x = q.x) (h4 : q'.y = q.y) :
    term p' q' = term p q := by
  simp only [term, h1, h2, h3, h4]

private theorem pathSum_congr_head {p p' : Node} (h1 : p'.x = p.x) (h2 : p'.y = p.y) (l : List Node) :
    pathSum p' l = pathSum p l := by
  cases l with
  | nil => rfl
  | cons q qs => simp only [pathSum, term_congr h1 h2 rfl rfl]

/-- `split_polygon` inside one ring: the two rings together have the signed area of the original ring -/
theorem splitAt_area (la : List Node) (j : Nat) :
    signedArea la = signedArea (splitAt la j).1 + signedArea (splitAt la j).2 := by
  unfold splitAt
  split
  · rename_i a xs b ys h1 h2
    have hla : la = (a :: xs) ++ (b :: ys) := by rw [← h1, ← h2, List.take_append_drop]
    rw [hla]
    simp only [signedArea, List.cons_append, pathSum, pathSum_append, lastOr, lastOr_append]
    have t1 : term ({ b with steiner := false } : Node) ({ a with steiner := false } : Node) = - term a b := by
      rw [← term_swap]
      exact term_congr (p := b) (p' := { b with steiner := false }) (q := a) (q' := { a with steiner := false }) rfl rfl rfl rfl
    have t2 : pathSum ({ a with steiner := false } : Node) xs = pathSum a xs :=
      pathSum_congr_head (p := a) (p' := { a with steiner := false }) rfl rfl xs
    have t3 : term (lastOr ({ a with steiner := false } : Node) xs) ({ b with steiner := false } : Node)
        = term (lastOr a xs) b := by
      cases xs with
      | nil =>
        exact term_congr (p := a) (p' := { a with steiner := false }) (q := b) (q' := { b with steiner := false })
          rfl rfl rfl rfl
      | cons x xs' =>
        exact term_congr (p := lastOr x xs') (p' := lastOr x xs') (q := b) (q' := { b with steiner := false })
          rfl rfl rfl rfl
    rw [t1, t2, t3]; ring
  · simp [signedArea]


/-- `v` is (a copy of) a node of the ring `l`: same source point, coordinates and index -/
private def FromRing (l : List Node) (v : Node) : Prop := ∃ u ∈ l, Node.same v u
private def Sub (l' l : List Node) : Prop := ∀ v ∈ l', FromRing l v

private theorem same_refl (v : Node) : Node.same v v := ⟨rfl, rfl, rfl, rfl⟩
private theorem same_trans {a b c : Node} (h1 : Node.same a b) (h2 : Node.same b c) : Node.same a c :=
  ⟨h1.1.trans h2.1, h1.2.1.trans h2.2.1, h1.2.2.1.trans h2.2.2.1, h1.2.2.2.trans h2.2.2.2⟩
private theorem sub_of_mem {l' l : List Node} (h : ∀ v ∈ l', v ∈ l) : Sub l' l :=
  fun v hv => ⟨v, h v hv, same_refl v⟩
private theorem fromRing_trans {l' l : List Node} (h : Sub l' l) {v : Node} (hv : FromRing l' v) : FromRing l v := by
  obtain ⟨u, hu, hs⟩ := hv
  obtain ⟨w, hw, hs'⟩ := h u hu
  exact ⟨w, hw, same_trans hs hs'⟩
private theorem sub_trans {a b c : List Node} (h1 : Sub a b) (h2 : Sub b c) : Sub a c :=
  fun v hv => fromRing_trans h2 (h1 v hv)

private theorem splitAt_sub (la : List Node) (j : Nat) : Sub (splitAt la j).1 la ∧ Sub (splitAt la j).2 la := by
  unfold splitAt
  split
  · rename_i a xs b ys h1 h2
    have hla : la = (a :: xs) ++ (b :: ys) := by rw [← h1, ← h2, List.take_append_drop]
    constructor
    · apply sub_of_mem
      intro v hv
      rw [hla]
      simp only [List.mem_cons, List.mem_append] at hv ⊢
      rcases hv with rfl | rfl | hv <;> simp_all
    · intro v hv
      simp only [List.mem_cons] at hv
      rcases hv with rfl | rfl | hv
      · exact ⟨b, by rw [hla]; simp, rfl, rfl, rfl, rfl⟩
      · exact ⟨a, by rw [hla]; simp, rfl, rfl, rfl, rfl⟩
      · exact ⟨v, by rw [hla]; simp [hv], same_refl v⟩
  · exact ⟨sub_of_mem (fun v hv => hv), by intro v hv; simp at hv⟩

private theorem findSplit_spec (l r1 r2 : List Node) (h : findSplit l = some (r1, r2)) :
    signedArea l = signedArea r1 + signedArea r2 ∧ Sub r1 l ∧ Sub r2 l := by
  unfold findSplit at h
  obtain ⟨s, _, hs⟩ := List.exists_of_findSome?_eq_some h
  obtain ⟨d, _, hd⟩ := List.exists_of_findSome?_eq_some hs
  simp only at hd
  split at hd
  · simp only [Option.some.injEq, Prod.mk.injEq] at hd
    obtain ⟨rfl, rfl⟩ := hd
    have ha := splitAt_area (rotBy s l) (d + 2)
    have hsub := splitAt_sub (rotBy s l) (d + 2)
    have hrot : Sub (rotBy s l) l := sub_of_mem (fun v hv => mem_rotBy.mp hv)
    refine ⟨?_, ?_, ?_⟩
    · simp only [filterPoints, filterPoints_area]
      rw [← ha, signedArea_rotBy]
    · exact sub_trans (sub_trans (sub_of_mem (filterPoints_subset _ _ _)) hsub.1) hrot
    · exact sub_trans (sub_trans (sub_of_mem (filterPoints_subset _ _ _)) hsub.2) hrot
  · simp at hd


private theorem sumTri_append (a b : List Tri) : sumTri (a ++ b) = sumTri a + sumTri b := by simp [sumTri]
private theorem sumRings_append (a b : List (List Node)) : sumRings (a ++ b) = sumRings a + sumRings b := by
  simp [sumRings]
private theorem sumCure_append (a b : List Cure) : sumCure (a ++ b) = sumCure a + sumCure b := by simp [sumCure]

/-- Area balance of the whole ear slicing loop, for every ring, every pass and every amount of fuel:
signed area of the ring = emitted triangles + rings the run stopped on + triangles lost by `cure_local_intersections`. -/
theorem earcutLinked_area (fuel : Nat) (l : List Node) (k pass : Nat) :
    signedArea l = (earcutLinked fuel l k pass).area := by
  induction fuel generalizing l k pass with
  | zero => simp [earcutLinked, Out.area, sumTri, sumRings, sumCure]
  | succ fuel ih =>
    unfold earcutLinked
    split
    · simp [Out.area, sumTri, sumRings, sumCure]
    · split
      · split
        · rename_i b c r _ _
          have h := ih (rotl (c :: r)) 0 pass
          rw [signedArea_rotl] at h
          simp only [Out.area, sumTri, List.map_cons, List.sum_cons, triArea] at h ⊢
          rw [ear_removal_area]; linarith
        · simp [Out.area, sumTri, sumRings, sumCure]
      · split
        · rw [← ih, signedArea_rotl]
        · split
          · rw [← ih]; simp only [filterPoints, filterPoints_area, signedArea_rotl]
          · split
            · have hc := cureLoop_area (filterPoints (rotl l) (rotl l).length) (filterPoints (rotl l) (rotl l).length).length
              have h := ih (filterPoints (cureLoop (filterPoints (rotl l) (rotl l).length)
                (filterPoints (rotl l) (rotl l).length).length).1 (cureLoop (filterPoints (rotl l) (rotl l).length)
                (filterPoints (rotl l) (rotl l).length).length).1.length) 0 2
              simp only [filterPoints, filterPoints_area, signedArea_rotl] at hc h
              simp only [Out.area, sumTri_append, sumCure_append, filterPoints] at h ⊢
              linarith
            · dsimp only
              split
              · simp [Out.area, sumTri, sumRings, sumCure, signedArea_rotl]
              · rename_i r1 r2 hsp
                have hs := (findSplit_spec _ _ _ hsp).1
                rw [signedArea_rotl] at hs
                have h1 := ih r1 0 0
                have h2 := ih r2 0 0
                simp only [Out.area, Out.append, sumTri_append, sumRings_append, sumCure_append] at h1 h2 ⊢
                linarith


private theorem signedArea_short (l : List Node) (h : l.length < 3) : signedArea l = 0 := by
  match l, h with
  | [], _ => rfl
  | [a], _ => simp [signedArea, pathSum, lastOr, term, PolygonKernels.signedAreaTerm]
  | [a, b], _ => simp only [signedArea, pathSum, lastOr, term_swap a b]; ring

private theorem sumRings_short (rs : List (List Node)) (h : ∀ r ∈ rs, r.length < 3) : sumRings rs = 0 := by
  induction rs with
  | nil => rfl
  | cons r rs ih =>
    simp only [sumRings, List.map_cons, List.sum_cons] at ih ⊢
    rw [signedArea_short r (h r (by simp)), ih (fun r' hr' => h r' (by simp [hr']))]; ring

/-- `earcut_conserves`: when the run is complete (every ring was reduced to fewer than three nodes, nothing was cured, fuel
did not run out) the signed areas of the emitted triangles sum exactly to the signed area of the ring. -/
theorem earcut_conserves (fuel : Nat) (l : List Node) (k pass : Nat)
    (h : (earcutLinked fuel l k pass).complete) :
    sumTri (earcutLinked fuel l k pass).tris = signedArea l := by
  have := earcutLinked_area fuel l k pass
  obtain ⟨h1, h2, _⟩ := h
  simp only [Out.area, sumRings_short _ h1, h2, sumCure] at this
  simp at this
  exact this.symm

private theorem cureLoop_nil (l : List Node) (r : Nat) (h : (cureLoop l r).2.2 = []) : (cureLoop l r).2.1 = [] := by
  fun_induction cureLoop l r with
  | case1 r p q b c t htest a rest ih => simp at h
  | case2 r p q b c t htest hr => rfl
  | case3 r p q b c t htest hr ih => exact ih h
  | case4 l r hl => rfl

private theorem lastOr_mem (c : Node) (r : List Node) : lastOr c r ∈ c :: r := by
  have := dropLast_append_lastOr c r
  rw [← this]; simp

private theorem cureLoop_tris_mem (l : List Node) (r : Nat) :
    ∀ t ∈ (cureLoop l r).2.1, t.1 ∈ l ∧ t.2.1 ∈ l ∧ t.2.2 ∈ l := by
  fun_induction cureLoop l r with
  | case1 r p q b c t htest a rest ih =>
    intro tr htr
    simp only [List.mem_cons] at htr
    rcases htr with rfl | htr
    · refine ⟨?_, by simp, by simp⟩
      have := lastOr_mem c t
      simp only [List.mem_cons] at this ⊢
      rcases this with h | h <;> simp [a, h]
    · have := ih tr htr
      simp only [mem_rotl] at this
      exact ⟨by simp [this.1], by simp [this.2.1], by simp [this.2.2]⟩
  | case2 r p q b c t htest hr => simp
  | case3 r p q b c t htest hr ih =>
    intro tr htr
    have := ih tr htr
    simp only [mem_rotl] at this
    exact this
  | case4 l r hl => simp

private theorem isEar_area_neg (b c : Node) (r : List Node) (h : isEar (b :: c :: r) = true) :
    area (lastOr c r) b c < 0 := by
  simp only [isEar, PolygonKernels.isEarReflex] at h
  by_cases hr : PolygonKernels.area (lastOr c r).x (lastOr c r).y b.x b.y c.x c.y ≥ 0
  · simp [hr] at h
  · simpa [area] using hr

/-- every triangle cut off by the ear test is strictly counter-clockwise (`area < 0`), so together with `earcut_conserves`
the absolute triangle areas of a complete run sum to the absolute area of the ring -/
theorem earcut_triangles_ccw (fuel : Nat) (l : List Node) (k pass : Nat)
    (h : (earcutLinked fuel l k pass).cured = []) :
    ∀ t ∈ (earcutLinked fuel l k pass).tris, triArea t < 0 := by
  induction fuel generalizing l k pass with
  | zero => simp [earcutLinked]
  | succ fuel ih =>
    unfold earcutLinked at h ⊢
    split at h
    · split
      · simp
      · contradiction
    · rename_i hlen
      rw [if_neg hlen]
      split at h
      · rename_i hear
        rw [if_pos hear]
        split at h
        · rename_i b c r
          intro t ht
          simp only [List.mem_cons] at ht
          rcases ht with rfl | ht
          · exact isEar_area_neg b c r hear
          · exact ih _ _ _ h t ht
        · simp
      · rename_i hear
        rw [if_neg hear]
        split at h
        · rename_i hk; rw [if_pos hk]; exact ih _ _ _ h
        · rename_i hk
          rw [if_neg hk]
          split at h
          · rename_i hp; rw [if_pos hp]; exact ih _ _ _ h
          · rename_i hp
            rw [if_neg hp]
            split at h
            · rename_i hp1
              rw [if_pos hp1]
              simp only [List.append_eq_nil_iff] at h
              intro t ht
              simp only [cureLoop_nil _ _ h.1, List.nil_append] at ht
              exact ih _ _ _ h.2 t ht
            · rename_i hp1
              rw [if_neg hp1]
              dsimp only at h ⊢
              split at h
              · simp
              · rename_i r1 r2 hs
                simp only [Out.append, List.append_eq_nil_iff] at h ⊢
                intro t ht
                rcases List.mem_append.mp ht with ht | ht
                · exact ih _ _ _ h.1 t ht
                · exact ih _ _ _ h.2 t ht


private def TriFrom (l : List Node) (t : Tri) : Prop := FromRing l t.1 ∧ FromRing l t.2.1 ∧ FromRing l t.2.2

private theorem triFrom_trans {l' l : List Node} (h : Sub l' l) {t : Tri} (ht : TriFrom l' t) : TriFrom l t :=
  ⟨fromRing_trans h ht.1, fromRing_trans h ht.2.1, fromRing_trans h ht.2.2⟩

private theorem earcut_vertices_aux (fuel : Nat) (l : List Node) (k pass : Nat) :
    ∀ t ∈ (earcutLinked fuel l k pass).tris, TriFrom l t := by
  induction fuel generalizing l k pass with
  | zero => simp [earcutLinked]
  | succ fuel ih =>
    unfold earcutLinked
    split
    · simp
    · split
      · split
        · rename_i b c r _ _
          have hsub : Sub (rotl (c :: r)) (b :: c :: r) :=
            sub_of_mem (fun v hv => List.mem_cons_of_mem _ (mem_rotl.mp hv))
          intro t ht
          simp only [List.mem_cons] at ht
          rcases ht with rfl | ht
          · exact ⟨⟨_, List.mem_cons_of_mem _ (lastOr_mem c r), same_refl _⟩, ⟨b, by simp, same_refl _⟩,
              ⟨c, by simp, same_refl _⟩⟩
          · exact triFrom_trans hsub (ih _ _ _ t ht)
        · simp
      · have hrot : Sub (rotl l) l := sub_of_mem (fun v hv => mem_rotl.mp hv)
        split
        · intro t ht; exact triFrom_trans hrot (ih _ _ _ t ht)
        · split
          · intro t ht
            exact triFrom_trans (sub_trans (sub_of_mem (filterPoints_subset _ _ _)) hrot) (ih _ _ _ t ht)
          · split
            · have hf : Sub (filterPoints (rotl l) (rotl l).length) l :=
                sub_trans (sub_of_mem (filterPoints_subset _ _ _)) hrot
              intro t ht
              rcases List.mem_append.mp ht with ht | ht
              · have := cureLoop_tris_mem _ _ t ht
                exact triFrom_trans hf ⟨⟨_, this.1, same_refl _⟩, ⟨_, this.2.1, same_refl _⟩, ⟨_, this.2.2, same_refl _⟩⟩
              · refine triFrom_trans (sub_trans ?_ hf) (ih _ _ _ t ht)
                exact sub_trans (sub_of_mem (filterPoints_subset _ _ _)) (sub_of_mem (cureLoop_subset _ _))
            · dsimp only
              split
              · simp
              · rename_i r1 r2 hsp
                have hs := findSplit_spec _ _ _ hsp
                intro t ht
                simp only [Out.append] at ht
                rcases List.mem_append.mp ht with ht | ht
                · exact triFrom_trans (sub_trans hs.2.1 hrot) (ih _ _ _ t ht)
                · exact triFrom_trans (sub_trans hs.2.2 hrot) (ih _ _ _ t ht)

/-- every vertex of every emitted triangle is a node of the input ring (same source point, same coordinates) -/
theorem earcut_triangle_vertices (fuel : Nat) (l : List Node) (k pass : Nat) :
    ∀ t ∈ (earcutLinked fuel l k pass).tris, ∀ v ∈ [t.1, t.2.1, t.2.2], ∃ u ∈ l, Node.same v u := by
  intro t ht v hv
  have := earcut_vertices_aux fuel l k pass t ht
  simp only [List.mem_cons, List.not_mem_nil, or_false] at hv
  rcases hv with rfl | rfl | rfl
  · exact this.1
  · exact this.2.1
  · exact this.2.2


/-! ## D. `linked_list` and `eliminate_hole` -/

private theorem pathSum_reverse (a b : Node) (l : List Node) :
    pathSum b (l.reverse ++ [a]) = - pathSum a (l ++ [b]) := by
  induction l generalizing a with
  | nil => simp [pathSum, term_swap a b]
  | cons q qs ih =>
    simp only [List.reverse_cons, List.cons_append, pathSum, pathSum_append, lastOr_append, lastOr, ih q]
    rw [term_swap a q]; ring

private theorem signedArea_closed (p : Node) (ps : List Node) : signedArea (p :: ps) = pathSum p (ps ++ [p]) := by
  simp only [signedArea, pathSum, pathSum_append]; ring

/-- reversing the vertex order negates the signed area -/
theorem signedArea_reverse (l : List Node) : signedArea l.reverse = - signedArea l := by
  cases l with
  | nil => simp [signedArea]
  | cons p ps =>
    rw [List.reverse_cons, signedArea_append_comm, List.singleton_append, signedArea_closed, signedArea_closed,
      pathSum_reverse]

private theorem pathSum_setIndex (p : Node) (l : List Node) (s : Nat) : pathSum p (setIndex l s) = pathSum p l := by
  induction l generalizing p s with
  | nil => rfl
  | cons q qs ih =>
    simp only [setIndex, pathSum]
    rw [pathSum_congr_head (p := q) (p' := { q with i := s }) rfl rfl, ih]
    rw [term_congr (p := p) (p' := p) (q := q) (q' := { q with i := s }) rfl rfl rfl rfl]

private theorem lastOr_setIndex_xy (p p' : Node) (hx : p'.x = p.x) (hy : p'.y = p.y) (l : List Node) (s : Nat) :
    (lastOr p' (setIndex l s)).x = (lastOr p l).x ∧ (lastOr p' (setIndex l s)).y = (lastOr p l).y := by
  induction l generalizing p p' s with
  | nil => exact ⟨hx, hy⟩
  | cons q qs ih => exact ih q { q with i := s } rfl rfl (s + 1)

private theorem signedArea_setIndex (l : List Node) (s : Nat) : signedArea (setIndex l s) = signedArea l := by
  cases l with
  | nil => rfl
  | cons p ps =>
    simp only [setIndex, signedArea, pathSum]
    have h := lastOr_setIndex_xy p { p with i := s } rfl rfl ps (s + 1)
    rw [pathSum_congr_head (p := p) (p' := { p with i := s }) rfl rfl, pathSum_setIndex]
    rw [term_congr (p := lastOr p ps) (q := p) (q' := { p with i := s }) h.1 h.2 rfl rfl]

private theorem nodeEq_area_zero (a p q : Node) (h : nodeEq p q = true) : area a p q = 0 := by
  simp only [nodeEq, PolygonKernels.nodeEq, Bool.and_eq_true, decide_eq_true_eq] at h
  simp only [area, PolygonKernels.area, h.1, h.2]; ring

private theorem dropDuplicateLast_area (l : List Node) : signedArea (dropDuplicateLast l) = signedArea l := by
  unfold dropDuplicateLast
  split
  · rename_i last nxt t
    split
    · rename_i he
      rw [ear_removal_area last nxt t, nodeEq_area_zero _ _ _ he]; ring
    · rfl
  · rfl

/-- `linked_list(points, start, ccw=True)` yields a ring of non-positive signed area (counter-clockwise in the code's sign
convention), `ccw=False` a ring of non-negative signed area, and in both cases the magnitude is that of the input points. -/
theorem linkedList_area (pts : List Pt) (start ptOff : Nat) (ccw : Bool) :
    signedArea (linkedList pts start ptOff ccw) =
      if (signedArea (mkNodes pts ptOff) < 0) = (ccw = true) then signedArea (mkNodes pts ptOff)
      else - signedArea (mkNodes pts ptOff) := by
  unfold linkedList
  simp only [dropDuplicateLast_area, signedArea_rotr, PolygonKernels.sameWinding]
  by_cases hneg : signedArea (mkNodes pts ptOff) < 0 <;> cases ccw <;>
    simp [hneg, signedArea_setIndex, signedArea_reverse]

/-- `split_polygon(bridge, hole)` across two rings: the merged ring has the sum of the two signed areas (the two bridge
edges cancel) -/
theorem mergeHole_area (a : Node) (as : List Node) (b : Node) (bs : List Node) :
    signedArea (mergeHole (a :: as) (b :: bs)).1 = signedArea (a :: as) + signedArea (b :: bs) := by
  simp only [mergeHole, signedArea, pathSum, pathSum_append, lastOr, lastOr_append, List.cons_append]
  have t1 : term ({ b with steiner := false } : Node) ({ a with steiner := false } : Node) = - term a b := by
    rw [← term_swap]
    exact term_congr (p := b) (p' := { b with steiner := false }) (q := a) (q' := { a with steiner := false }) rfl rfl rfl rfl
  have t2 : pathSum ({ a with steiner := false } : Node) as = pathSum a as :=
    pathSum_congr_head (p := a) (p' := { a with steiner := false }) rfl rfl as
  have t3 : term (lastOr ({ a with steiner := false } : Node) as) a = term (lastOr a as) a := by
    cases as with
    | nil => exact term_congr (p := a) (p' := { a with steiner := false }) (q := a) (q' := a) rfl rfl rfl rfl
    | cons x xs => rfl
  have t4 : term (lastOr b bs) ({ b with steiner := false } : Node) = term (lastOr b bs) b :=
    term_congr (p := lastOr b bs) (p' := lastOr b bs) (q := b) (q' := { b with steiner := false }) rfl rfl rfl rfl
  rw [t1, t2, t3, t4]; ring

/-- `eliminate_hole`: whenever the model covers the situation (flag false), the outer ring is returned unchanged in area
(no bridge found) or with exactly the hole's signed area added; `filter_points` around the cut changes nothing -/
theorem eliminateHole_area (hole outer : List Node) (h : (eliminateHole hole outer).2 = false) :
    signedArea (eliminateHole hole outer).1 = signedArea outer ∨
    signedArea (eliminateHole hole outer).1 = signedArea outer + signedArea hole := by
  unfold eliminateHole at h ⊢
  split
  · exact Or.inl rfl
  · rename_i hd tl
    split
    · exact Or.inl rfl
    · rename_i idx hb
      simp only [hb] at h
      have hm : signedArea (mergeHole (rotBy idx outer) (hd :: tl)).1 = signedArea outer ∨
          signedArea (mergeHole (rotBy idx outer) (hd :: tl)).1 = signedArea outer + signedArea (hd :: tl) := by
        cases hro : rotBy idx outer with
        | nil =>
          left
          have := signedArea_rotBy idx outer
          rw [hro] at this
          simp [mergeHole, ← this]
        | cons a as =>
          right
          rw [mergeHole_area, ← hro, signedArea_rotBy]
      dsimp only at h ⊢
      split
      · simp only [filterPoints, filterPoints_area, signedArea_rotBy]; exact hm
      · split
        · split <;> simp only [filterPoints, filterPoints_area, signedArea_rotBy] <;> exact hm
        · rename_i hk
          simp_all
      · simp_all


/-- The headline for a polygon without holes: if the model of `earcut(exterior, [])` completes, the signed areas of the
triangles sum to minus the absolute value of the shoelace sum of the input (the ring is made counter-clockwise first), and
every triangle is counter-clockwise; so the absolute triangle areas sum exactly to the polygon area. -/
theorem earcut_no_holes_conserves (fuel : Nat) (exterior : List Pt) (o : Out) (d : Bool)
    (h : earcut fuel exterior [] = .ok o d) (hc : o.complete) :
    sumTri o.tris = (if signedArea (mkNodes exterior 0) < 0 then signedArea (mkNodes exterior 0)
      else - signedArea (mkNodes exterior 0)) ∧ ∀ t ∈ o.tris, triArea t < 0 := by
  unfold earcut at h
  split at h
  · simp at h
  · dsimp only at h
    split at h
    · simp only [EarcutResult.ok.injEq] at h
      obtain ⟨rfl, _⟩ := h
      have hl := linkedList_area exterior 0 0 true
      have hs := signedArea_short _ (by assumption)
      rw [hs] at hl
      simp only [eq_iff_iff, iff_true] at hl
      refine ⟨?_, by simp⟩
      simp only [sumTri, List.map_nil, List.sum_nil]
      split_ifs at hl ⊢ <;> linarith
    · simp only [List.length_nil, Nat.lt_irrefl, if_false, EarcutResult.ok.injEq] at h
      obtain ⟨rfl, _⟩ := h
      refine ⟨?_, earcut_triangles_ccw _ _ _ _ hc.2.1⟩
      rw [earcut_conserves _ _ _ _ hc, linkedList_area]
      simp

/-! ## E. Sutherland-Hodgman (`ConvexClippingPolygon2d.clip_polygon`) -/

private theorem shInside_iff (cs ce p : Pt) : shInside cs ce p = true ↔ 0 < sideOf cs ce p := by
  simp [shInside, PolygonKernels.shInside, sideOf]

private theorem sideOf_lerp (c d a b : Pt) (t : Rat) :
    sideOf c d (lerp a b t) = (1 - t) * sideOf c d a + t * sideOf c d b := by
  simp only [sideOf, lerp]; ring

/-- `intersection_line_line_2d(..., virtual=True)`: a returned point is the point of the subject line with parameter
`side(s1) / (side(s1) - side(s2))`, and the denominator is not zero -/
private theorem lineLine_virtual (tol : Rat) (htol : 0 ≤ tol) (s1 s2 c1 c2 ip : Pt)
    (h : lineLine true tol s1 s2 c1 c2 = some ip) :
    sideOf c1 c2 s1 - sideOf c1 c2 s2 ≠ 0 ∧
    ip = lerp s1 s2 (sideOf c1 c2 s1 / (sideOf c1 c2 s1 - sideOf c1 c2 s2)) := by
  simp only [lineLine, PolygonKernels.lineLine] at h
  split at h
  · simp at h
  · rename_i hden
    simp only [decide_eq_true_eq, not_le] at hden
    have hd : sideOf c1 c2 s1 - sideOf c1 c2 s2
        = (c2.y - c1.y) * (s2.x - s1.x) - (c2.x - c1.x) * (s2.y - s1.y) := by simp only [sideOf]; ring
    constructor
    · rw [hd]
      intro h0
      rw [h0] at hden
      simp only [PolygonKernels.rabs] at hden
      norm_num at hden
      linarith
    · simp only [if_true, Option.map_some, Option.some.injEq] at h
      rw [← h, hd]
      simp only [lerp, sideOf]

private theorem cut_param_range (A B : Rat) (h : (A ≤ 0 ∧ 0 < B) ∨ (0 < A ∧ B ≤ 0)) :
    0 ≤ A / (A - B) ∧ A / (A - B) ≤ 1 := by
  rcases h with ⟨hA, hB⟩ | ⟨hA, hB⟩
  · have hd : 0 < B - A := by linarith
    have e : A / (A - B) = (-A) / (B - A) := by rw [← neg_div_neg_eq]; ring_nf
    rw [e]
    exact ⟨div_nonneg (by linarith) hd.le, (div_le_one hd).mpr (by linarith)⟩
  · have hd : 0 < A - B := by linarith
    exact ⟨div_nonneg hA.le hd.le, (div_le_one hd).mpr (by linarith)⟩

/-- the two cases in which `clip_polygon` calls `edge_intersection()` -/
private def Opposite (cs ce es ee : Pt) : Prop :=
  (shInside cs ce ee = true ∧ shInside cs ce es = false) ∨ (shInside cs ce ee = false ∧ shInside cs ce es = true)

private theorem shCut_spec (cs ce : Pt) (tol : Rat) (htol : 0 ≤ tol) (es ee ip : Pt) (hop : Opposite cs ce es ee)
    (hip : ip ∈ shCut cs ce tol es ee) :
    sideOf cs ce ip = 0 ∧ ∃ t : Rat, 0 ≤ t ∧ t ≤ 1 ∧ ip = lerp es ee t := by
  unfold shCut at hip
  split at hip
  · rename_i ip' hll
    simp only [List.mem_singleton] at hip
    subst hip
    obtain ⟨hne, hlerp⟩ := lineLine_virtual tol htol es ee cs ce ip hll
    have hr : 0 ≤ sideOf cs ce es / (sideOf cs ce es - sideOf cs ce ee) ∧
        sideOf cs ce es / (sideOf cs ce es - sideOf cs ce ee) ≤ 1 := by
      apply cut_param_range
      rcases hop with ⟨h1, h2⟩ | ⟨h1, h2⟩
      · left
        rw [shInside_iff] at h1
        have : ¬ 0 < sideOf cs ce es := by rw [← shInside_iff]; simp [h2]
        exact ⟨by linarith, h1⟩
      · right
        rw [shInside_iff] at h2
        have : ¬ 0 < sideOf cs ce ee := by rw [← shInside_iff]; simp [h1]
        exact ⟨h2, by linarith⟩
    refine ⟨?_, _, hr.1, hr.2, hlerp⟩
    rw [hlerp, sideOf_lerp]
    field_simp
    ring
  · simp at hip

private theorem clipEdgeGo_forall (cs ce : Pt) (tol : Rat) (P : Pt → Prop) (es0 : Pt) (l : List Pt)
    (hin : ∀ ee ∈ l, shInside cs ce ee = true → P ee)
    (hcut : ∀ es ∈ es0 :: l, ∀ ee ∈ l, ∀ ip, Opposite cs ce es ee → ip ∈ shCut cs ce tol es ee → P ip) :
    ∀ v ∈ clipEdgeGo cs ce tol es0 l, P v := by
  induction l generalizing es0 with
  | nil => simp [clipEdgeGo]
  | cons ee rest ih =>
    intro v hv
    simp only [clipEdgeGo, List.mem_append] at hv
    rcases hv with hv | hv
    · by_cases hee : shInside cs ce ee = true
      · simp only [hee, if_true, List.mem_append, List.mem_singleton] at hv
        rcases hv with hv | rfl
        · by_cases hes : shInside cs ce es0 = true
          · simp [hes] at hv
          · simp only [hes, Bool.not_false, if_true] at hv
            exact hcut es0 (by simp) ee (by simp) v (Or.inl ⟨hee, by simpa using hes⟩) hv
        · exact hin _ (by simp) hee
      · simp only [hee] at hv
        by_cases hes : shInside cs ce es0 = true
        · simp only [hes, if_true] at hv
          exact hcut es0 (by simp) ee (by simp) v (Or.inr ⟨by simpa using hee, hes⟩) (by simpa using hv)
        · simp [hes] at hv
    · refine ih ee (fun e he => hin e (List.mem_cons_of_mem _ he)) ?_ v hv
      intro es hes e he ip hop hip
      exact hcut es (List.mem_cons_of_mem _ hes) e (List.mem_cons_of_mem _ he) ip hop hip

private theorem lastPt_mem (p : Pt) (l : List Pt) : lastPt p l ∈ p :: l := by
  induction l generalizing p with
  | nil => simp [lastPt]
  | cons q qs ih => simp only [lastPt]; exact List.mem_cons_of_mem _ (ih q)

private theorem popClosing_subset (v : List Pt) (tol : Rat) : ∀ p ∈ popClosing v tol, p ∈ v := by
  unfold popClosing
  split
  · split
    · intro p hp; exact List.dropLast_subset _ hp
    · intro p hp; exact hp
  · intro p hp; exact hp

private theorem clipEdge_forall (cs ce : Pt) (tol : Rat) (P : Pt → Prop) (poly : List Pt)
    (hin : ∀ ee ∈ poly, shInside cs ce ee = true → P ee)
    (hcut : ∀ es ∈ poly, ∀ ee ∈ poly, ∀ ip, Opposite cs ce es ee → ip ∈ shCut cs ce tol es ee → P ip) :
    ∀ v ∈ clipEdge cs ce tol poly, P v := by
  unfold clipEdge
  split
  · simp
  · rename_i v vs hpc
    have hsub : ∀ p ∈ v :: vs, p ∈ poly := by
      intro p hp; rw [← hpc] at hp; exact popClosing_subset _ _ p hp
    apply clipEdgeGo_forall
    · intro ee hee; exact hin ee (hsub ee hee)
    · intro es hes ee hee ip hop hip
      refine hcut es ?_ ee (hsub ee hee) ip hop hip
      simp only [List.mem_cons] at hes
      rcases hes with rfl | hes
      · exact hsub _ (lastPt_mem v vs)
      · exact hsub es (by simpa using hes)

/-- `sh_edge_inside`: after clipping against the edge `cs -> ce` every vertex lies in the closed half-plane left of it -/
theorem clipEdge_in_halfplane (cs ce : Pt) (tol : Rat) (htol : 0 ≤ tol) (poly : List Pt) :
    ∀ v ∈ clipEdge cs ce tol poly, 0 ≤ sideOf cs ce v := by
  apply clipEdge_forall
  · intro ee _ h; exact le_of_lt ((shInside_iff _ _ _).mp h)
  · intro es _ ee _ ip hop hip
    exact le_of_eq (shCut_spec cs ce tol htol es ee ip hop hip).1.symm

/-- every new vertex lies on the segment between two consecutive old vertices, so any closed half-plane that contains the
polygon before the step contains it afterwards -/
theorem clipEdge_preserves_halfplane (cs ce : Pt) (tol : Rat) (htol : 0 ≤ tol) (c d : Pt) (poly : List Pt)
    (h : ∀ v ∈ poly, 0 ≤ sideOf c d v) : ∀ v ∈ clipEdge cs ce tol poly, 0 ≤ sideOf c d v := by
  apply clipEdge_forall
  · intro ee hee _; exact h ee hee
  · intro es hes ee hee ip hop hip
    obtain ⟨_, t, ht0, ht1, rfl⟩ := shCut_spec cs ce tol htol es ee ip hop hip
    rw [sideOf_lerp]
    have := h es hes
    have := h ee hee
    have h1 : 0 ≤ 1 - t := by linarith
    positivity


/-- `sh_edge_on_input`: every vertex produced by one clipping step is an old vertex or a point `es + t (ee - es)`,
`0 ≤ t ≤ 1`, between two old vertices (which are consecutive: `edge_start`, `edge_end`) -/
theorem clipEdge_on_input (cs ce : Pt) (tol : Rat) (htol : 0 ≤ tol) (poly : List Pt) :
    ∀ v ∈ clipEdge cs ce tol poly,
      v ∈ poly ∨ ∃ es ∈ poly, ∃ ee ∈ poly, ∃ t : Rat, 0 ≤ t ∧ t ≤ 1 ∧ v = lerp es ee t := by
  apply clipEdge_forall
  · intro ee hee _; exact Or.inl hee
  · intro es hes ee hee ip hop hip
    obtain ⟨_, t, ht0, ht1, h⟩ := shCut_spec cs ce tol htol es ee ip hop hip
    exact Or.inr ⟨es, hes, ee, hee, t, ht0, ht1, h⟩

private theorem clipEdgeGo_keeps (cs ce : Pt) (tol : Rat) (es0 : Pt) (l : List Pt) :
    ∀ v ∈ l, shInside cs ce v = true → v ∈ clipEdgeGo cs ce tol es0 l := by
  induction l generalizing es0 with
  | nil => simp
  | cons ee rest ih =>
    intro v hv hin
    simp only [clipEdgeGo, List.mem_append]
    simp only [List.mem_cons] at hv
    rcases hv with rfl | hv
    · left; simp [hin]
    · right; exact ih ee v hv hin

/-- `sh_keeps_inside_vertices`: a vertex strictly left of the clipping edge survives the step -/
theorem clipEdge_keeps_inside (cs ce : Pt) (tol : Rat) (poly : List Pt) :
    ∀ v ∈ popClosing poly tol, shInside cs ce v = true → v ∈ clipEdge cs ce tol poly := by
  intro v hv hin
  unfold clipEdge
  split
  · rename_i h; rw [h] at hv; simp at hv
  · rename_i w ws h
    rw [h] at hv
    exact clipEdgeGo_keeps cs ce tol _ _ v hv hin

private theorem clipPolygonGo_inside (tol : Rat) (htol : 0 ≤ tol) (es : List Pt) (cs : Pt) (poly : List Pt)
    (done : List (Pt × Pt)) (hdone : ∀ e ∈ done, ∀ v ∈ poly, 0 ≤ sideOf e.1 e.2 v) :
    ∀ v ∈ clipPolygonGo tol cs es poly, ∀ e ∈ done ++ clipEdges cs es, 0 ≤ sideOf e.1 e.2 v := by
  induction es generalizing cs poly done with
  | nil =>
    intro v hv e he
    simp only [clipEdges, List.append_nil] at he
    exact hdone e he v hv
  | cons ce rest ih =>
    intro v hv e he
    simp only [clipPolygonGo] at hv
    have := ih ce (clipEdge cs ce tol poly) ((cs, ce) :: done) (by
      intro e' he' w hw
      simp only [List.mem_cons] at he'
      rcases he' with rfl | he'
      · exact clipEdge_in_halfplane cs ce tol htol poly w hw
      · exact clipEdge_preserves_halfplane cs ce tol htol e'.1 e'.2 poly (hdone e' he') w hw) v hv e
    apply this
    simp only [clipEdges, List.mem_append, List.mem_cons] at he ⊢
    tauto

/-- Sutherland-Hodgman as coded, for any clipping polygon and any subject polygon: every vertex of the result lies in the
closed left half-plane of every clipping edge, i.e. inside the clipping polygon when that is convex and counter-clockwise. -/
theorem clipPolygon_inside (clip : List Pt) (tol : Rat) (htol : 0 ≤ tol) (poly : List Pt) (hclip : clip ≠ []) :
    ∀ v ∈ clipPolygon clip tol poly, ∀ e ∈ polygonEdges clip, 0 ≤ sideOf e.1 e.2 v := by
  cases clip with
  | nil => contradiction
  | cons c cs =>
    intro v hv e he
    exact clipPolygonGo_inside tol htol (c :: cs) (lastPt c cs) poly [] (by simp) v hv e (by simpa [polygonEdges] using he)


/-! ## F. Cohen-Sutherland (`CohenSutherlandLineClipping2d`) -/

/-- position of a coordinate relative to the window interval -/
private inductive Cls | lo | mid | hi
  deriving DecidableEq

private def clsOf (a lo hi : Rat) : Cls := if a < lo then .lo else if a > hi then .hi else .mid

private def codeOf : Cls → Cls → Nat
  | .lo, .lo => 5 | .lo, .mid => 1 | .lo, .hi => 9
  | .mid, .lo => 4 | .mid, .mid => 0 | .mid, .hi => 8
  | .hi, .lo => 6 | .hi, .mid => 2 | .hi, .hi => 10

private theorem encode_eq (w : Win) (x y : Rat) :
    w.encode x y = codeOf (clsOf x w.xmin w.xmax) (clsOf y w.ymin w.ymax) := by
  simp only [Win.encode, PolygonKernels.csEncode, clsOf]
  by_cases h1 : y < w.ymin <;> by_cases h2 : y > w.ymax <;> by_cases h3 : x < w.xmin <;> by_cases h4 : x > w.xmax <;>
    simp [h1, h2, h3, h4, codeOf]

private theorem clsOf_lo {a lo hi : Rat} : clsOf a lo hi = .lo ↔ a < lo := by
  unfold clsOf; split_ifs <;> simp_all
private theorem clsOf_hi {a lo hi : Rat} (h : lo ≤ hi) : clsOf a lo hi = .hi ↔ a > hi := by
  unfold clsOf
  split_ifs with h1 h2
  · simp only [false_iff, not_lt]; linarith
  · simp [h2]
  · simp [h2]
private theorem clsOf_mid {a lo hi : Rat} : clsOf a lo hi = .mid ↔ lo ≤ a ∧ a ≤ hi := by
  unfold clsOf
  split_ifs with h1 h2
  · simp only [false_iff, not_and, not_le]; intro h; linarith
  · simp only [false_iff, not_and, not_le]; intro _; exact h2
  · simp only [true_iff]; exact ⟨not_lt.mp h1, not_lt.mp h2⟩

/-- `encode(x, y) == 0` exactly for the points of the closed window -/
theorem encode_zero_iff (w : Win) (p : Pt) : w.encode p.x p.y = 0 ↔ w.contains p := by
  rw [encode_eq, Win.contains]
  have hx := @clsOf_mid p.x w.xmin w.xmax
  have hy := @clsOf_mid p.y w.ymin w.ymax
  constructor
  · intro h
    have : clsOf p.x w.xmin w.xmax = .mid ∧ clsOf p.y w.ymin w.ymax = .mid := by
      revert h; cases clsOf p.x w.xmin w.xmax <;> cases clsOf p.y w.ymin w.ymax <;> simp [codeOf]
    exact ⟨(hx.mp this.1).1, (hx.mp this.1).2, (hy.mp this.2).1, (hy.mp this.2).2⟩
  · intro h
    rw [hx.mpr ⟨h.1, h.2.1⟩, hy.mpr ⟨h.2.2.1, h.2.2.2⟩]; rfl

/-- number of window constraints violated by at least one of two coordinates on one axis -/
private def f (a b : Cls) : Nat := (if a = .hi ∨ b = .hi then 1 else 0) + (if a = .lo ∨ b = .lo then 1 else 0)

private theorem f_comm (a b : Cls) : f a b = f b a := by cases a <;> cases b <;> rfl
private theorem f_le_two (a b : Cls) : f a b ≤ 2 := by cases a <;> cases b <;> decide
/-- the clipped axis: the violated constraint disappears -/
private theorem f_dec (aE aO : Cls) (h : (aE = .hi ∧ aO ≠ .hi) ∨ (aE = .lo ∧ aO ≠ .lo)) : f .mid aO < f aE aO := by
  cases aE <;> cases aO <;> simp_all [f]
/-- the other axis: a convex combination violates nothing new -/
private theorem f_mono (bQ bE bO : Cls) (h1 : bQ = .hi → bE = .hi ∨ bO = .hi) (h2 : bQ = .lo → bE = .lo ∨ bO = .lo) :
    f bQ bO ≤ f bE bO := by
  cases bQ <;> cases bE <;> cases bO <;> simp_all [f]

private def V (w : Win) (x0 y0 x1 y1 : Rat) : Nat :=
  f (clsOf x0 w.xmin w.xmax) (clsOf x1 w.xmin w.xmax) + f (clsOf y0 w.ymin w.ymax) (clsOf y1 w.ymin w.ymax)

/-- the control decisions of one loop iteration as a function of the four position classes -/
private theorem step_table (cx0 cy0 cx1 cy1 : Cls)
    (hacc : PolygonKernels.csAccept (codeOf cx0 cy0) (codeOf cx1 cy1) = false)
    (hrej : PolygonKernels.csReject (codeOf cx0 cy0) (codeOf cx1 cy1) = false) :
    (PolygonKernels.csPick (codeOf cx0 cy0) (codeOf cx1 cy1) = codeOf cx0 cy0 →
      (codeOf cx0 cy0 &&& 8 ≠ 0 ∧ cy0 = .hi ∧ cy1 ≠ .hi) ∨
      (codeOf cx0 cy0 &&& 8 = 0 ∧ codeOf cx0 cy0 &&& 4 ≠ 0 ∧ cy0 = .lo ∧ cy1 ≠ .lo) ∨
      (codeOf cx0 cy0 &&& 8 = 0 ∧ codeOf cx0 cy0 &&& 4 = 0 ∧ codeOf cx0 cy0 &&& 2 ≠ 0 ∧ cx0 = .hi ∧ cx1 ≠ .hi) ∨
      (codeOf cx0 cy0 &&& 8 = 0 ∧ codeOf cx0 cy0 &&& 4 = 0 ∧ codeOf cx0 cy0 &&& 2 = 0 ∧ codeOf cx0 cy0 &&& 1 ≠ 0 ∧
        cx0 = .lo ∧ cx1 ≠ .lo)) ∧
    (PolygonKernels.csPick (codeOf cx0 cy0) (codeOf cx1 cy1) ≠ codeOf cx0 cy0 →
      PolygonKernels.csPick (codeOf cx0 cy0) (codeOf cx1 cy1) = codeOf cx1 cy1 ∧
      ((codeOf cx1 cy1 &&& 8 ≠ 0 ∧ cy1 = .hi ∧ cy0 ≠ .hi) ∨
      (codeOf cx1 cy1 &&& 8 = 0 ∧ codeOf cx1 cy1 &&& 4 ≠ 0 ∧ cy1 = .lo ∧ cy0 ≠ .lo) ∨
      (codeOf cx1 cy1 &&& 8 = 0 ∧ codeOf cx1 cy1 &&& 4 = 0 ∧ codeOf cx1 cy1 &&& 2 ≠ 0 ∧ cx1 = .hi ∧ cx0 ≠ .hi) ∨
      (codeOf cx1 cy1 &&& 8 = 0 ∧ codeOf cx1 cy1 &&& 4 = 0 ∧ codeOf cx1 cy1 &&& 2 = 0 ∧ codeOf cx1 cy1 &&& 1 ≠ 0 ∧
        cx1 = .lo ∧ cx0 ≠ .lo))) := by
  revert hacc hrej
  cases cx0 <;> cases cy0 <;> cases cx1 <;> cases cy1 <;>
    simp [codeOf, PolygonKernels.csAccept, PolygonKernels.csReject, PolygonKernels.csPick]

private theorem clip_param (u0 u1 b : Rat) (hne : u0 ≠ u1) (hb : (u0 ≤ b ∧ b ≤ u1) ∨ (u1 ≤ b ∧ b ≤ u0)) :
    0 ≤ (b - u0) / (u1 - u0) ∧ (b - u0) / (u1 - u0) ≤ 1 := by
  rcases hb with ⟨h1, h2⟩ | ⟨h1, h2⟩
  · have hd : 0 < u1 - u0 := by
      rcases lt_or_eq_of_le (le_trans h1 h2) with h | h
      · linarith
      · exact absurd h hne
    exact ⟨div_nonneg (by linarith) hd.le, (div_le_one hd).mpr (by linarith)⟩
  · have hd : 0 < u0 - u1 := by
      rcases lt_or_eq_of_le (le_trans h1 h2) with h | h
      · linarith
      · exact absurd h.symm hne
    have e : (b - u0) / (u1 - u0) = (u0 - b) / (u0 - u1) := by rw [← neg_div_neg_eq]; ring_nf
    rw [e]
    exact ⟨div_nonneg (by linarith) hd.le, (div_le_one hd).mpr (by linarith)⟩

private theorem convex_le (a0 a1 s hi : Rat) (hs0 : 0 ≤ s) (hs1 : s ≤ 1) (h0 : a0 ≤ hi) (h1 : a1 ≤ hi) :
    a0 + s * (a1 - a0) ≤ hi := by
  have e : a0 + s * (a1 - a0) = (1 - s) * a0 + s * a1 := by ring
  rw [e]
  have : (1 - s) * a0 ≤ (1 - s) * hi := mul_le_mul_of_nonneg_left h0 (by linarith)
  have : s * a1 ≤ s * hi := mul_le_mul_of_nonneg_left h1 hs0
  linarith

private theorem convex_ge (a0 a1 s lo : Rat) (hs0 : 0 ≤ s) (hs1 : s ≤ 1) (h0 : lo ≤ a0) (h1 : lo ≤ a1) :
    lo ≤ a0 + s * (a1 - a0) := by
  have e : a0 + s * (a1 - a0) = (1 - s) * a0 + s * a1 := by ring
  rw [e]
  have : (1 - s) * lo ≤ (1 - s) * a0 := mul_le_mul_of_nonneg_left h0 (by linarith)
  have : s * lo ≤ s * a1 := mul_le_mul_of_nonneg_left h1 hs0
  linarith

private theorem cls_convex (a0 a1 s lo hi : Rat) (hlh : lo ≤ hi) (hs0 : 0 ≤ s) (hs1 : s ≤ 1) :
    (clsOf (a0 + s * (a1 - a0)) lo hi = .hi → clsOf a0 lo hi = .hi ∨ clsOf a1 lo hi = .hi) ∧
    (clsOf (a0 + s * (a1 - a0)) lo hi = .lo → clsOf a0 lo hi = .lo ∨ clsOf a1 lo hi = .lo) := by
  simp only [clsOf_hi hlh, clsOf_lo]
  constructor
  · intro h
    by_contra hc
    simp only [not_or, not_lt] at hc
    have := convex_le a0 a1 s hi hs0 hs1 hc.1 hc.2
    linarith
  · intro h
    by_contra hc
    simp only [not_or, not_lt] at hc
    have := convex_ge a0 a1 s lo hs0 hs1 hc.1 hc.2
    linarith

private theorem cls_bound_mid_hi {lo hi : Rat} (h : lo ≤ hi) : clsOf hi lo hi = .mid := clsOf_mid.mpr ⟨h, le_refl _⟩
private theorem cls_bound_mid_lo {lo hi : Rat} (h : lo ≤ hi) : clsOf lo lo hi = .mid := clsOf_mid.mpr ⟨le_refl _, h⟩

private theorem ne_hi {a lo hi : Rat} (hlh : lo ≤ hi) (h : clsOf a lo hi ≠ .hi) : a ≤ hi := by
  by_contra hc; exact h ((clsOf_hi hlh).mpr (not_le.mp hc))
private theorem ne_lo {a lo hi : Rat} (h : clsOf a lo hi ≠ .lo) : lo ≤ a := by
  by_contra hc; exact h (clsOf_lo.mpr (not_le.mp hc))

/-- position classes after one clipping iteration: `bit` is the handled outcode bit, E the replaced end point, O the other
one, Q the new point -/
private def StepFacts (bit : Nat) (cxE cyE cxO cyO cxQ cyQ : Cls) : Prop :=
  (bit = 8 ∧ cyQ = .mid ∧ cyE = .hi ∧ cyO ≠ .hi) ∨ (bit = 4 ∧ cyQ = .mid ∧ cyE = .lo ∧ cyO ≠ .lo) ∨
  (bit = 2 ∧ cxQ = .mid ∧ cxE = .hi ∧ cxO ≠ .hi) ∨ (bit = 1 ∧ cxQ = .mid ∧ cxE = .lo ∧ cxO ≠ .lo)

/-- a point between two points violates no window constraint that neither of them violates -/
private def Conv (aQ a0 a1 : Cls) : Prop := (aQ = .hi → a0 = .hi ∨ a1 = .hi) ∧ (aQ = .lo → a0 = .lo ∨ a1 = .lo)

/-- One iteration that neither accepts nor rejects, for outcodes that are not masked: the new point is `P0 + s (P1 - P0)`
with `0 ≤ s ≤ 1`; it lies on the window edge that was clipped; the other end point does not violate that edge. -/
private theorem cs_step (w : Win) (hx : w.xmin ≤ w.xmax) (hy : w.ymin ≤ w.ymax) (x0 y0 x1 y1 x y : Rat)
    (hacc : PolygonKernels.csAccept (w.encode x0 y0) (w.encode x1 y1) = false)
    (hrej : PolygonKernels.csReject (w.encode x0 y0) (w.encode x1 y1) = false) :
    ∃ s : Rat, 0 ≤ s ∧ s ≤ 1 ∧
      PolygonKernels.csClipX (PolygonKernels.csPick (w.encode x0 y0) (w.encode x1 y1)) x y x0 y0 x1 y1
        w.xmin w.xmax w.ymin w.ymax = x0 + s * (x1 - x0) ∧
      PolygonKernels.csClipY (PolygonKernels.csPick (w.encode x0 y0) (w.encode x1 y1)) x y x0 y0 x1 y1
        w.xmin w.xmax w.ymin w.ymax = y0 + s * (y1 - y0) ∧
      Conv (clsOf (x0 + s * (x1 - x0)) w.xmin w.xmax) (clsOf x0 w.xmin w.xmax) (clsOf x1 w.xmin w.xmax) ∧
      Conv (clsOf (y0 + s * (y1 - y0)) w.ymin w.ymax) (clsOf y0 w.ymin w.ymax) (clsOf y1 w.ymin w.ymax) ∧
      (PolygonKernels.csPick (w.encode x0 y0) (w.encode x1 y1) = w.encode x0 y0 →
        StepFacts (PolygonKernels.csClipBit (PolygonKernels.csPick (w.encode x0 y0) (w.encode x1 y1)))
          (clsOf x0 w.xmin w.xmax) (clsOf y0 w.ymin w.ymax) (clsOf x1 w.xmin w.xmax) (clsOf y1 w.ymin w.ymax)
          (clsOf (x0 + s * (x1 - x0)) w.xmin w.xmax) (clsOf (y0 + s * (y1 - y0)) w.ymin w.ymax)) ∧
      (PolygonKernels.csPick (w.encode x0 y0) (w.encode x1 y1) ≠ w.encode x0 y0 →
        StepFacts (PolygonKernels.csClipBit (PolygonKernels.csPick (w.encode x0 y0) (w.encode x1 y1)))
          (clsOf x1 w.xmin w.xmax) (clsOf y1 w.ymin w.ymax) (clsOf x0 w.xmin w.xmax) (clsOf y0 w.ymin w.ymax)
          (clsOf (x0 + s * (x1 - x0)) w.xmin w.xmax) (clsOf (y0 + s * (y1 - y0)) w.ymin w.ymax)) := by
  rw [encode_eq, encode_eq] at hacc hrej ⊢
  obtain ⟨t0, t1⟩ := step_table _ _ _ _ hacc hrej
  have vertical : ∀ b : Rat, (b = w.ymax ∨ b = w.ymin) → y0 ≠ y1 → ((y0 ≤ b ∧ b ≤ y1) ∨ (y1 ≤ b ∧ b ≤ y0)) →
      ∃ s : Rat, 0 ≤ s ∧ s ≤ 1 ∧ x0 + (x1 - x0) * (b - y0) / (y1 - y0) = x0 + s * (x1 - x0) ∧
        b = y0 + s * (y1 - y0) ∧ clsOf (y0 + s * (y1 - y0)) w.ymin w.ymax = .mid := by
    intro b hb hne hbt
    have hr := clip_param y0 y1 b hne hbt
    have hd : y1 - y0 ≠ 0 := sub_ne_zero.mpr (Ne.symm hne)
    have hbe : b = y0 + (b - y0) / (y1 - y0) * (y1 - y0) := by field_simp; ring
    refine ⟨(b - y0) / (y1 - y0), hr.1, hr.2, by ring, hbe, ?_⟩
    rw [← hbe]
    rcases hb with rfl | rfl
    · exact cls_bound_mid_hi hy
    · exact cls_bound_mid_lo hy
  have horizontal : ∀ b : Rat, (b = w.xmax ∨ b = w.xmin) → x0 ≠ x1 → ((x0 ≤ b ∧ b ≤ x1) ∨ (x1 ≤ b ∧ b ≤ x0)) →
      ∃ s : Rat, 0 ≤ s ∧ s ≤ 1 ∧ b = x0 + s * (x1 - x0) ∧
        y0 + (y1 - y0) * (b - x0) / (x1 - x0) = y0 + s * (y1 - y0) ∧ clsOf (x0 + s * (x1 - x0)) w.xmin w.xmax = .mid := by
    intro b hb hne hbt
    have hr := clip_param x0 x1 b hne hbt
    have hd : x1 - x0 ≠ 0 := sub_ne_zero.mpr (Ne.symm hne)
    have hbe : b = x0 + (b - x0) / (x1 - x0) * (x1 - x0) := by field_simp; ring
    refine ⟨(b - x0) / (x1 - x0), hr.1, hr.2, hbe, by ring, ?_⟩
    rw [← hbe]
    rcases hb with rfl | rfl
    · exact cls_bound_mid_hi hx
    · exact cls_bound_mid_lo hx
  have conv : ∀ s : Rat, 0 ≤ s → s ≤ 1 →
      Conv (clsOf (x0 + s * (x1 - x0)) w.xmin w.xmax) (clsOf x0 w.xmin w.xmax) (clsOf x1 w.xmin w.xmax) ∧
      Conv (clsOf (y0 + s * (y1 - y0)) w.ymin w.ymax) (clsOf y0 w.ymin w.ymax) (clsOf y1 w.ymin w.ymax) :=
    fun s h0 h1 => ⟨cls_convex x0 x1 s w.xmin w.xmax hx h0 h1, cls_convex y0 y1 s w.ymin w.ymax hy h0 h1⟩
  by_cases hpick : PolygonKernels.csPick (codeOf (clsOf x0 w.xmin w.xmax) (clsOf y0 w.ymin w.ymax))
      (codeOf (clsOf x1 w.xmin w.xmax) (clsOf y1 w.ymin w.ymax)) = codeOf (clsOf x0 w.xmin w.xmax) (clsOf y0 w.ymin w.ymax)
  · rw [hpick]
    rcases t0 hpick with ⟨b8, c0, c1⟩ | ⟨b8, b4, c0, c1⟩ | ⟨b8, b4, b2, c0, c1⟩ | ⟨b8, b4, b2, b1, c0, c1⟩
    · have g0 := (clsOf_hi hy).mp c0
      have g1 := ne_hi hy c1
      obtain ⟨s, h0, h1, ex, ey, hm⟩ := vertical w.ymax (Or.inl rfl) (by intro h; linarith) (Or.inr ⟨g1, g0.le⟩)
      refine ⟨s, h0, h1, ?_, ?_, (conv s h0 h1).1, (conv s h0 h1).2, fun _ => Or.inl ⟨?_, hm, c0, c1⟩, fun h => absurd rfl h⟩
      · simp only [PolygonKernels.csClipX, b8, ne_eq, not_false_eq_true, decide_true, if_true]; exact ex
      · simp only [PolygonKernels.csClipY, b8, ne_eq, not_false_eq_true, decide_true, if_true]; exact ey
      · simp only [PolygonKernels.csClipBit, b8, ne_eq, not_false_eq_true, decide_true, if_true]
    · have g0 := clsOf_lo.mp c0
      have g1 := ne_lo c1
      obtain ⟨s, h0, h1, ex, ey, hm⟩ := vertical w.ymin (Or.inr rfl) (by intro h; linarith) (Or.inl ⟨g0.le, g1⟩)
      refine ⟨s, h0, h1, ?_, ?_, (conv s h0 h1).1, (conv s h0 h1).2, fun _ => Or.inr (Or.inl ⟨?_, hm, c0, c1⟩),
        fun h => absurd rfl h⟩
      · simp only [PolygonKernels.csClipX, b8, b4, ne_eq, not_true_eq_false, not_false_eq_true, decide_true, decide_false,
          if_true, Bool.false_eq_true, if_false]; exact ex
      · simp only [PolygonKernels.csClipY, b8, b4, ne_eq, not_true_eq_false, not_false_eq_true, decide_true, decide_false,
          if_true, Bool.false_eq_true, if_false]; exact ey
      · simp only [PolygonKernels.csClipBit, b8, b4, ne_eq, not_true_eq_false, not_false_eq_true, decide_true, decide_false,
          if_true, Bool.false_eq_true, if_false]
    · have g0 := (clsOf_hi hx).mp c0
      have g1 := ne_hi hx c1
      obtain ⟨s, h0, h1, ex, ey, hm⟩ := horizontal w.xmax (Or.inl rfl) (by intro h; linarith) (Or.inr ⟨g1, g0.le⟩)
      refine ⟨s, h0, h1, ?_, ?_, (conv s h0 h1).1, (conv s h0 h1).2, fun _ => Or.inr (Or.inr (Or.inl ⟨?_, hm, c0, c1⟩)),
        fun h => absurd rfl h⟩
      · simp only [PolygonKernels.csClipX, b8, b4, b2, ne_eq, not_true_eq_false, not_false_eq_true, decide_true,
          decide_false, if_true, Bool.false_eq_true, if_false]; exact ex
      · simp only [PolygonKernels.csClipY, b8, b4, b2, ne_eq, not_true_eq_false, not_false_eq_true, decide_true,
          decide_false, if_true, Bool.false_eq_true, if_false]; exact ey
      · simp only [PolygonKernels.csClipBit, b8, b4, b2, ne_eq, not_true_eq_false, not_false_eq_true, decide_true,
          decide_false, if_true, Bool.false_eq_true, if_false]
    · have g0 := clsOf_lo.mp c0
      have g1 := ne_lo c1
      obtain ⟨s, h0, h1, ex, ey, hm⟩ := horizontal w.xmin (Or.inr rfl) (by intro h; linarith) (Or.inl ⟨g0.le, g1⟩)
      refine ⟨s, h0, h1, ?_, ?_, (conv s h0 h1).1, (conv s h0 h1).2, fun _ => Or.inr (Or.inr (Or.inr ⟨?_, hm, c0, c1⟩)),
        fun h => absurd rfl h⟩
      · simp only [PolygonKernels.csClipX, b8, b4, b2, b1, ne_eq, not_true_eq_false, not_false_eq_true, decide_true,
          decide_false, if_true, Bool.false_eq_true, if_false]; exact ex
      · simp only [PolygonKernels.csClipY, b8, b4, b2, b1, ne_eq, not_true_eq_false, not_false_eq_true, decide_true,
          decide_false, if_true, Bool.false_eq_true, if_false]; exact ey
      · simp only [PolygonKernels.csClipBit, b8, b4, b2, b1, ne_eq, not_true_eq_false, not_false_eq_true, decide_true,
          decide_false, if_true, Bool.false_eq_true, if_false]
  · obtain ⟨hp1, hcases⟩ := t1 hpick
    rw [hp1]
    rw [hp1] at hpick
    rcases hcases with ⟨b8, c0, c1⟩ | ⟨b8, b4, c0, c1⟩ | ⟨b8, b4, b2, c0, c1⟩ | ⟨b8, b4, b2, b1, c0, c1⟩
    · have g0 := (clsOf_hi hy).mp c0
      have g1 := ne_hi hy c1
      obtain ⟨s, h0, h1, ex, ey, hm⟩ := vertical w.ymax (Or.inl rfl) (by intro h; linarith) (Or.inl ⟨g1, g0.le⟩)
      refine ⟨s, h0, h1, ?_, ?_, (conv s h0 h1).1, (conv s h0 h1).2, fun h => absurd h hpick, fun _ => Or.inl ⟨?_, hm, c0, c1⟩⟩
      · simp only [PolygonKernels.csClipX, b8, ne_eq, not_false_eq_true, decide_true, if_true]; exact ex
      · simp only [PolygonKernels.csClipY, b8, ne_eq, not_false_eq_true, decide_true, if_true]; exact ey
      · simp only [PolygonKernels.csClipBit, b8, ne_eq, not_false_eq_true, decide_true, if_true]
    · have g0 := clsOf_lo.mp c0
      have g1 := ne_lo c1
      obtain ⟨s, h0, h1, ex, ey, hm⟩ := vertical w.ymin (Or.inr rfl) (by intro h; linarith) (Or.inr ⟨g0.le, g1⟩)
      refine ⟨s, h0, h1, ?_, ?_, (conv s h0 h1).1, (conv s h0 h1).2, fun h => absurd h hpick,
        fun _ => Or.inr (Or.inl ⟨?_, hm, c0, c1⟩)⟩
      · simp only [PolygonKernels.csClipX, b8, b4, ne_eq, not_true_eq_false, not_false_eq_true, decide_true, decide_false,
          if_true, Bool.false_eq_true, if_false]; exact ex
      · simp only [PolygonKernels.csClipY, b8, b4, ne_eq, not_true_eq_false, not_false_eq_true, decide_true, decide_false,
          if_true, Bool.false_eq_true, if_false]; exact ey
      · simp only [PolygonKernels.csClipBit, b8, b4, ne_eq, not_true_eq_false, not_false_eq_true, decide_true, decide_false,
          if_true, Bool.false_eq_true, if_false]
    · have g0 := (clsOf_hi hx).mp c0
      have g1 := ne_hi hx c1
      obtain ⟨s, h0, h1, ex, ey, hm⟩ := horizontal w.xmax (Or.inl rfl) (by intro h; linarith) (Or.inl ⟨g1, g0.le⟩)
      refine ⟨s, h0, h1, ?_, ?_, (conv s h0 h1).1, (conv s h0 h1).2, fun h => absurd h hpick,
        fun _ => Or.inr (Or.inr (Or.inl ⟨?_, hm, c0, c1⟩))⟩
      · simp only [PolygonKernels.csClipX, b8, b4, b2, ne_eq, not_true_eq_false, not_false_eq_true, decide_true,
          decide_false, if_true, Bool.false_eq_true, if_false]; exact ex
      · simp only [PolygonKernels.csClipY, b8, b4, b2, ne_eq, not_true_eq_false, not_false_eq_true, decide_true,
          decide_false, if_true, Bool.false_eq_true, if_false]; exact ey
      · simp only [PolygonKernels.csClipBit, b8, b4, b2, ne_eq, not_true_eq_false, not_false_eq_true, decide_true,
          decide_false, if_true, Bool.false_eq_true, if_false]
    · have g0 := clsOf_lo.mp c0
      have g1 := ne_lo c1
      obtain ⟨s, h0, h1, ex, ey, hm⟩ := horizontal w.xmin (Or.inr rfl) (by intro h; linarith) (Or.inr ⟨g0.le, g1⟩)
      refine ⟨s, h0, h1, ?_, ?_, (conv s h0 h1).1, (conv s h0 h1).2, fun h => absurd h hpick,
        fun _ => Or.inr (Or.inr (Or.inr ⟨?_, hm, c0, c1⟩))⟩
      · simp only [PolygonKernels.csClipX, b8, b4, b2, b1, ne_eq, not_true_eq_false, not_false_eq_true, decide_true,
          decide_false, if_true, Bool.false_eq_true, if_false]; exact ex
      · simp only [PolygonKernels.csClipY, b8, b4, b2, b1, ne_eq, not_true_eq_false, not_false_eq_true, decide_true,
          decide_false, if_true, Bool.false_eq_true, if_false]; exact ey
      · simp only [PolygonKernels.csClipBit, b8, b4, b2, b1, ne_eq, not_true_eq_false, not_false_eq_true, decide_true,
          decide_false, if_true, Bool.false_eq_true, if_false]

/-! ### termination for every window and every segment: each iteration handles an outcode bit that is new for its end point -/

private def pc (d : Nat) : Nat :=
  (if d &&& 8 ≠ 0 then 1 else 0) + (if d &&& 4 ≠ 0 then 1 else 0) + (if d &&& 2 ≠ 0 then 1 else 0) + (if d &&& 1 ≠ 0 then 1 else 0)

private theorem pc_le (d : Nat) : pc d ≤ 4 := by
  unfold pc; split_ifs <;> omega

private theorem mask_bit_facts : ∀ e < 16, ∀ d < 16, PolygonKernels.csMask e d ≠ 0 →
    d ||| PolygonKernels.csClipBit (PolygonKernels.csMask e d) < 16 ∧
    pc (d ||| PolygonKernels.csClipBit (PolygonKernels.csMask e d)) = pc d + 1 := by decide +kernel

private theorem encode_lt (w : Win) (x y : Rat) : w.encode x y < 16 := by
  rw [encode_eq]; cases clsOf x w.xmin w.xmax <;> cases clsOf y w.ymin w.ymax <;> decide

private theorem pick_facts (m0 m1 : Nat) (hacc : PolygonKernels.csAccept m0 m1 = false) :
    (PolygonKernels.csPick m0 m1 = m0 → m0 ≠ 0) ∧
    (PolygonKernels.csPick m0 m1 ≠ m0 → PolygonKernels.csPick m0 m1 = m1 ∧ m1 ≠ 0) := by
  simp only [PolygonKernels.csAccept, Bool.not_eq_false', decide_eq_true_eq, ne_eq, Nat.or_eq_zero_iff, not_and] at hacc
  simp only [PolygonKernels.csPick, decide_eq_true_eq]
  split_ifs with h
  · exact ⟨fun e => by omega, fun _ => ⟨rfl, by omega⟩⟩
  · refine ⟨fun _ h0 => ?_, fun e => absurd rfl e⟩
    exact hacc h0 (by omega)

private theorem csLoop_terminates_all (w : Win) (fuel : Nat) :
    ∀ x0 y0 x1 y1 x y d0 d1, d0 < 16 → d1 < 16 → 8 - (pc d0 + pc d1) < fuel →
      csLoop w fuel x0 y0 x1 y1 x y d0 d1 ≠ .fuel := by
  induction fuel with
  | zero => intro _ _ _ _ _ _ _ _ _ _ h; omega
  | succ n ih =>
    intro x0 y0 x1 y1 x y d0 d1 h0 h1 hM
    simp only [csLoop]
    split
    · simp
    · rename_i hacc
      split
      · simp
      · have pf := pick_facts _ _ (by simpa using hacc)
        split
        · rename_i hp
          have hm := pf.1 hp
          obtain ⟨hlt, hpc⟩ := mask_bit_facts _ (encode_lt w x0 y0) d0 h0 hm
          rw [hp]
          have := pc_le (d0 ||| PolygonKernels.csClipBit (PolygonKernels.csMask (w.encode x0 y0) d0))
          have := pc_le d1
          exact ih _ _ _ _ _ _ _ _ hlt h1 (by simp only [PolygonKernels.csDone, hpc] at *; omega)
        · rename_i hp
          obtain ⟨he, hm⟩ := pf.2 hp
          obtain ⟨hlt, hpc⟩ := mask_bit_facts _ (encode_lt w x1 y1) d1 h1 hm
          rw [he]
          have := pc_le (d1 ||| PolygonKernels.csClipBit (PolygonKernels.csMask (w.encode x1 y1) d1))
          have := pc_le d0
          exact ih _ _ _ _ _ _ _ _ h0 hlt (by simp only [PolygonKernels.csDone, hpc] at *; omega)

/-- `cs_terminates` at full strength, for the code as it is now (already clipped outcode bits are masked per end point):
for EVERY window (also an improper one) and EVERY segment the loop of `clip_line` ends after at most 8 clipping steps, because
every step handles an outcode bit that is new for its end point; fuel 9 is never exhausted.  The bound does not depend on the
arithmetic being exact: it only uses the bookkeeping of `done0`/`done1`. -/
theorem cs_terminates (w : Win) (p0 p1 : Pt) : csClipLine w 9 p0 p1 ≠ .fuel :=
  csLoop_terminates_all w 9 _ _ _ _ _ _ 0 0 (by norm_num) (by norm_num) (by decide)

/-! ### proper windows: the masks never change an outcode in exact arithmetic, at most four steps, sound results -/

private def SatAx (thi tlo : Prop) (a0 a1 : Cls) : Prop := (thi → a0 ≠ .hi ∧ a1 ≠ .hi) ∧ (tlo → a0 ≠ .lo ∧ a1 ≠ .lo)

/-- every window constraint whose bit is in `done0 ||| done1` is satisfied by both current end points -/
private def Sat (D : Nat) (cx0 cy0 cx1 cy1 : Cls) : Prop :=
  SatAx (D &&& 8 ≠ 0) (D &&& 4 ≠ 0) cy0 cy1 ∧ SatAx (D &&& 2 ≠ 0) (D &&& 1 ≠ 0) cx0 cx1

private theorem bits_sub : ∀ d0 < 16, ∀ d1 < 16, ∀ c ∈ [1, 2, 4, 8],
    (d0 &&& c ≠ 0 → (d0 ||| d1) &&& c ≠ 0) ∧ (d1 &&& c ≠ 0 → (d0 ||| d1) &&& c ≠ 0) := by decide +kernel

private theorem code_noop : ∀ cx cy : Cls, ∀ d < 16, (d &&& 8 ≠ 0 → cy ≠ .hi) → (d &&& 4 ≠ 0 → cy ≠ .lo) →
    (d &&& 2 ≠ 0 → cx ≠ .hi) → (d &&& 1 ≠ 0 → cx ≠ .lo) → codeOf cx cy &&& d = 0 := by
  intro cx cy d hd
  interval_cases d <;> cases cx <;> cases cy <;> simp [codeOf]

private theorem sat_noop (d0 d1 : Nat) (h0 : d0 < 16) (h1 : d1 < 16) (cx0 cy0 cx1 cy1 : Cls)
    (h : Sat (d0 ||| d1) cx0 cy0 cx1 cy1) :
    PolygonKernels.csMask (codeOf cx0 cy0) d0 = codeOf cx0 cy0 ∧ PolygonKernels.csMask (codeOf cx1 cy1) d1 = codeOf cx1 cy1 := by
  have b := bits_sub d0 h0 d1 h1
  obtain ⟨⟨y8, y4⟩, ⟨x2, x1⟩⟩ := h
  have e0 := code_noop cx0 cy0 d0 h0 (fun h => (y8 ((b 8 (by simp)).1 h)).1) (fun h => (y4 ((b 4 (by simp)).1 h)).1)
    (fun h => (x2 ((b 2 (by simp)).1 h)).1) (fun h => (x1 ((b 1 (by simp)).1 h)).1)
  have e1 := code_noop cx1 cy1 d1 h1 (fun h => (y8 ((b 8 (by simp)).2 h)).2) (fun h => (y4 ((b 4 (by simp)).2 h)).2)
    (fun h => (x2 ((b 2 (by simp)).2 h)).2) (fun h => (x1 ((b 1 (by simp)).2 h)).2)
  simp [PolygonKernels.csMask, e0, e1]

private theorem bits_step : ∀ d0 < 16, ∀ d1 < 16, ∀ b ∈ [1, 2, 4, 8], ∀ c ∈ [1, 2, 4, 8],
    ((((d0 ||| b) ||| d1) &&& c ≠ 0) ↔ ((d0 ||| d1) &&& c ≠ 0 ∨ c = b)) ∧
    (((d0 ||| (d1 ||| b)) &&& c ≠ 0) ↔ ((d0 ||| d1) &&& c ≠ 0 ∨ c = b)) ∧ d0 ||| b < 16 := by decide +kernel

private theorem conv_ne {aQ a0 a1 : Cls} (c : Conv aQ a0 a1) :
    (a0 ≠ .hi ∧ a1 ≠ .hi → aQ ≠ .hi) ∧ (a0 ≠ .lo ∧ a1 ≠ .lo → aQ ≠ .lo) :=
  ⟨fun h e => (c.1 e).elim h.1 h.2, fun h e => (c.2 e).elim h.1 h.2⟩

private theorem satAx_mono {thi tlo thi' tlo' : Prop} {a0 a1 : Cls} (h : SatAx thi tlo a0 a1) (f1 : thi' → thi)
    (f2 : tlo' → tlo) : SatAx thi' tlo' a0 a1 := ⟨fun t => h.1 (f1 t), fun t => h.2 (f2 t)⟩
private theorem satAx_swap {thi tlo : Prop} {a0 a1 : Cls} (h : SatAx thi tlo a0 a1) : SatAx thi tlo a1 a0 :=
  ⟨fun t => ⟨(h.1 t).2, (h.1 t).1⟩, fun t => ⟨(h.2 t).2, (h.2 t).1⟩⟩
private theorem conv_swap {aQ a0 a1 : Cls} (k : Conv aQ a0 a1) : Conv aQ a1 a0 :=
  ⟨fun h => (k.1 h).symm, fun h => (k.2 h).symm⟩
/-- the clipped axis: the new point sits on the window edge, the other end point does not violate that edge -/
private theorem ax_clip (thi tlo : Prop) (aE aO aQ : Cls) (hq : aQ = .mid) (h : SatAx thi tlo aE aO) :
    (aO ≠ .hi → SatAx True tlo aQ aO) ∧ (aO ≠ .lo → SatAx thi True aQ aO) := by
  subst hq
  exact ⟨fun hO => ⟨fun _ => ⟨by decide, hO⟩, fun t => ⟨by decide, (h.2 t).2⟩⟩,
    fun hO => ⟨fun t => ⟨by decide, (h.1 t).2⟩, fun _ => ⟨by decide, hO⟩⟩⟩
/-- the other axis: the new point lies between the old end points -/
private theorem ax_keep {thi tlo : Prop} {aE aO aQ : Cls} (k : Conv aQ aE aO) (h : SatAx thi tlo aE aO) :
    SatAx thi tlo aQ aO :=
  ⟨fun t => ⟨(conv_ne k).1 (h.1 t), (h.1 t).2⟩, fun t => ⟨(conv_ne k).2 (h.2 t), (h.2 t).2⟩⟩

/-- the invariant survives the replacement of end point 0 -/
private theorem sat_step0 (d0 d1 : Nat) (h0 : d0 < 16) (h1 : d1 < 16) (bit : Nat) (cx0 cy0 cx1 cy1 cxQ cyQ : Cls)
    (hs : Sat (d0 ||| d1) cx0 cy0 cx1 cy1) (kx : Conv cxQ cx0 cx1) (ky : Conv cyQ cy0 cy1)
    (hf : StepFacts bit cx0 cy0 cx1 cy1 cxQ cyQ) :
    d0 ||| bit < 16 ∧ Sat ((d0 ||| bit) ||| d1) cxQ cyQ cx1 cy1 := by
  have B := bits_step d0 h0 d1 h1
  rcases hf with ⟨rfl, hq, hE, hO⟩ | ⟨rfl, hq, hE, hO⟩ | ⟨rfl, hq, hE, hO⟩ | ⟨rfl, hq, hE, hO⟩
  · have Bb := B 8 (by simp)
    exact ⟨(Bb 8 (by simp)).2.2, satAx_mono ((ax_clip _ _ cy0 cy1 cyQ hq hs.1).1 hO)
        (fun t => by first | trivial | exact ((Bb 8 (by simp)).1.mp t).resolve_right (by decide))
        (fun t => by first | trivial | exact ((Bb 4 (by simp)).1.mp t).resolve_right (by decide)),
      satAx_mono (ax_keep kx hs.2)
        (fun t => by first | trivial | exact ((Bb 2 (by simp)).1.mp t).resolve_right (by decide))
        (fun t => by first | trivial | exact ((Bb 1 (by simp)).1.mp t).resolve_right (by decide))⟩
  · have Bb := B 4 (by simp)
    exact ⟨(Bb 8 (by simp)).2.2, satAx_mono ((ax_clip _ _ cy0 cy1 cyQ hq hs.1).2 hO)
        (fun t => by first | trivial | exact ((Bb 8 (by simp)).1.mp t).resolve_right (by decide))
        (fun t => by first | trivial | exact ((Bb 4 (by simp)).1.mp t).resolve_right (by decide)),
      satAx_mono (ax_keep kx hs.2)
        (fun t => by first | trivial | exact ((Bb 2 (by simp)).1.mp t).resolve_right (by decide))
        (fun t => by first | trivial | exact ((Bb 1 (by simp)).1.mp t).resolve_right (by decide))⟩
  · have Bb := B 2 (by simp)
    exact ⟨(Bb 8 (by simp)).2.2, satAx_mono (ax_keep ky hs.1)
        (fun t => by first | trivial | exact ((Bb 8 (by simp)).1.mp t).resolve_right (by decide))
        (fun t => by first | trivial | exact ((Bb 4 (by simp)).1.mp t).resolve_right (by decide)),
      satAx_mono ((ax_clip _ _ cx0 cx1 cxQ hq hs.2).1 hO)
        (fun t => by first | trivial | exact ((Bb 2 (by simp)).1.mp t).resolve_right (by decide))
        (fun t => by first | trivial | exact ((Bb 1 (by simp)).1.mp t).resolve_right (by decide))⟩
  · have Bb := B 1 (by simp)
    exact ⟨(Bb 8 (by simp)).2.2, satAx_mono (ax_keep ky hs.1)
        (fun t => by first | trivial | exact ((Bb 8 (by simp)).1.mp t).resolve_right (by decide))
        (fun t => by first | trivial | exact ((Bb 4 (by simp)).1.mp t).resolve_right (by decide)),
      satAx_mono ((ax_clip _ _ cx0 cx1 cxQ hq hs.2).2 hO)
        (fun t => by first | trivial | exact ((Bb 2 (by simp)).1.mp t).resolve_right (by decide))
        (fun t => by first | trivial | exact ((Bb 1 (by simp)).1.mp t).resolve_right (by decide))⟩

/-- the invariant survives the replacement of end point 1 -/
private theorem sat_step1 (d0 d1 : Nat) (h0 : d0 < 16) (h1 : d1 < 16) (bit : Nat) (cx0 cy0 cx1 cy1 cxQ cyQ : Cls)
    (hs : Sat (d0 ||| d1) cx0 cy0 cx1 cy1) (kx : Conv cxQ cx0 cx1) (ky : Conv cyQ cy0 cy1)
    (hf : StepFacts bit cx1 cy1 cx0 cy0 cxQ cyQ) :
    d1 ||| bit < 16 ∧ Sat (d0 ||| (d1 ||| bit)) cx0 cy0 cxQ cyQ := by
  have B := bits_step d0 h0 d1 h1
  have B' := bits_step d1 h1 d0 h0
  rcases hf with ⟨rfl, hq, hE, hO⟩ | ⟨rfl, hq, hE, hO⟩ | ⟨rfl, hq, hE, hO⟩ | ⟨rfl, hq, hE, hO⟩
  · have Bb := B 8 (by simp)
    exact ⟨(B' 8 (by simp) 8 (by simp)).2.2, satAx_swap (satAx_mono ((ax_clip _ _ cy1 cy0 cyQ hq (satAx_swap hs.1)).1 hO)
        (fun t => by first | trivial | exact ((Bb 8 (by simp)).2.1.mp t).resolve_right (by decide))
        (fun t => by first | trivial | exact ((Bb 4 (by simp)).2.1.mp t).resolve_right (by decide))),
      satAx_swap (satAx_mono (ax_keep (conv_swap kx) (satAx_swap hs.2))
        (fun t => by first | trivial | exact ((Bb 2 (by simp)).2.1.mp t).resolve_right (by decide))
        (fun t => by first | trivial | exact ((Bb 1 (by simp)).2.1.mp t).resolve_right (by decide)))⟩
  · have Bb := B 4 (by simp)
    exact ⟨(B' 4 (by simp) 8 (by simp)).2.2, satAx_swap (satAx_mono ((ax_clip _ _ cy1 cy0 cyQ hq (satAx_swap hs.1)).2 hO)
        (fun t => by first | trivial | exact ((Bb 8 (by simp)).2.1.mp t).resolve_right (by decide))
        (fun t => by first | trivial | exact ((Bb 4 (by simp)).2.1.mp t).resolve_right (by decide))),
      satAx_swap (satAx_mono (ax_keep (conv_swap kx) (satAx_swap hs.2))
        (fun t => by first | trivial | exact ((Bb 2 (by simp)).2.1.mp t).resolve_right (by decide))
        (fun t => by first | trivial | exact ((Bb 1 (by simp)).2.1.mp t).resolve_right (by decide)))⟩
  · have Bb := B 2 (by simp)
    exact ⟨(B' 2 (by simp) 8 (by simp)).2.2, satAx_swap (satAx_mono (ax_keep (conv_swap ky) (satAx_swap hs.1))
        (fun t => by first | trivial | exact ((Bb 8 (by simp)).2.1.mp t).resolve_right (by decide))
        (fun t => by first | trivial | exact ((Bb 4 (by simp)).2.1.mp t).resolve_right (by decide))),
      satAx_swap (satAx_mono ((ax_clip _ _ cx1 cx0 cxQ hq (satAx_swap hs.2)).1 hO)
        (fun t => by first | trivial | exact ((Bb 2 (by simp)).2.1.mp t).resolve_right (by decide))
        (fun t => by first | trivial | exact ((Bb 1 (by simp)).2.1.mp t).resolve_right (by decide)))⟩
  · have Bb := B 1 (by simp)
    exact ⟨(B' 1 (by simp) 8 (by simp)).2.2, satAx_swap (satAx_mono (ax_keep (conv_swap ky) (satAx_swap hs.1))
        (fun t => by first | trivial | exact ((Bb 8 (by simp)).2.1.mp t).resolve_right (by decide))
        (fun t => by first | trivial | exact ((Bb 4 (by simp)).2.1.mp t).resolve_right (by decide))),
      satAx_swap (satAx_mono ((ax_clip _ _ cx1 cx0 cxQ hq (satAx_swap hs.2)).2 hO)
        (fun t => by first | trivial | exact ((Bb 2 (by simp)).2.1.mp t).resolve_right (by decide))
        (fun t => by first | trivial | exact ((Bb 1 (by simp)).2.1.mp t).resolve_right (by decide)))⟩

private theorem vdec0 (cx0 cy0 cx1 cy1 cxQ cyQ : Cls) (bit : Nat) (kx : Conv cxQ cx0 cx1) (ky : Conv cyQ cy0 cy1)
    (hf : StepFacts bit cx0 cy0 cx1 cy1 cxQ cyQ) : f cxQ cx1 + f cyQ cy1 < f cx0 cx1 + f cy0 cy1 := by
  rcases hf with ⟨_, rfl, hE, hO⟩ | ⟨_, rfl, hE, hO⟩ | ⟨_, rfl, hE, hO⟩ | ⟨_, rfl, hE, hO⟩
  · have := f_dec cy0 cy1 (Or.inl ⟨hE, hO⟩); have := f_mono cxQ cx0 cx1 kx.1 kx.2; omega
  · have := f_dec cy0 cy1 (Or.inr ⟨hE, hO⟩); have := f_mono cxQ cx0 cx1 kx.1 kx.2; omega
  · have := f_dec cx0 cx1 (Or.inl ⟨hE, hO⟩); have := f_mono cyQ cy0 cy1 ky.1 ky.2; omega
  · have := f_dec cx0 cx1 (Or.inr ⟨hE, hO⟩); have := f_mono cyQ cy0 cy1 ky.1 ky.2; omega

private theorem vdec1 (cx0 cy0 cx1 cy1 cxQ cyQ : Cls) (bit : Nat) (kx : Conv cxQ cx0 cx1) (ky : Conv cyQ cy0 cy1)
    (hf : StepFacts bit cx1 cy1 cx0 cy0 cxQ cyQ) : f cx0 cxQ + f cy0 cyQ < f cx0 cx1 + f cy0 cy1 := by
  have sx : Conv cxQ cx1 cx0 := ⟨fun h => (kx.1 h).symm, fun h => (kx.2 h).symm⟩
  have sy : Conv cyQ cy1 cy0 := ⟨fun h => (ky.1 h).symm, fun h => (ky.2 h).symm⟩
  have := vdec0 cx1 cy1 cx0 cy0 cxQ cyQ bit sx sy hf
  rw [f_comm cx0 cxQ, f_comm cy0 cyQ, f_comm cx0 cx1, f_comm cy0 cy1]
  exact this

private theorem V_le_four (w : Win) (x0 y0 x1 y1 : Rat) : V w x0 y0 x1 y1 ≤ 4 := by
  have a := f_le_two (clsOf x0 w.xmin w.xmax) (clsOf x1 w.xmin w.xmax)
  have b := f_le_two (clsOf y0 w.ymin w.ymax) (clsOf y1 w.ymin w.ymax)
  simp only [V]; omega

private theorem lerp_lerp (p0 p1 : Pt) (t0 t1 s : Rat) :
    (lerp p0 p1 t0).x + s * ((lerp p0 p1 t1).x - (lerp p0 p1 t0).x) = (lerp p0 p1 (t0 + s * (t1 - t0))).x ∧
    (lerp p0 p1 t0).y + s * ((lerp p0 p1 t1).y - (lerp p0 p1 t0).y) = (lerp p0 p1 (t0 + s * (t1 - t0))).y := by
  simp only [lerp]; constructor <;> ring

private def Inv (w : Win) (x0 y0 x1 y1 : Rat) (d0 d1 : Nat) : Prop :=
  d0 < 16 ∧ d1 < 16 ∧
  Sat (d0 ||| d1) (clsOf x0 w.xmin w.xmax) (clsOf y0 w.ymin w.ymax) (clsOf x1 w.xmin w.xmax) (clsOf y1 w.ymin w.ymax)

/-- the loop for a proper window, started anywhere on the segment with the invariant: termination within the number of violated
window constraints, accepted end points inside the window and on the segment -/
private theorem cs_master (w : Win) (hx : w.xmin ≤ w.xmax) (hy : w.ymin ≤ w.ymax) (p0 p1 : Pt) (fuel : Nat) :
    ∀ (t0 t1 x y : Rat) (d0 d1 : Nat), 0 ≤ t0 → t0 ≤ 1 → 0 ≤ t1 → t1 ≤ 1 →
      Inv w (lerp p0 p1 t0).x (lerp p0 p1 t0).y (lerp p0 p1 t1).x (lerp p0 p1 t1).y d0 d1 →
      (V w (lerp p0 p1 t0).x (lerp p0 p1 t0).y (lerp p0 p1 t1).x (lerp p0 p1 t1).y < fuel →
        csLoop w fuel (lerp p0 p1 t0).x (lerp p0 p1 t0).y (lerp p0 p1 t1).x (lerp p0 p1 t1).y x y d0 d1 ≠ .fuel) ∧
      (∀ q0 q1, csLoop w fuel (lerp p0 p1 t0).x (lerp p0 p1 t0).y (lerp p0 p1 t1).x (lerp p0 p1 t1).y x y d0 d1
          = .accept q0 q1 →
        w.contains q0 ∧ w.contains q1 ∧
        ∃ u0 u1 : Rat, 0 ≤ u0 ∧ u0 ≤ 1 ∧ 0 ≤ u1 ∧ u1 ≤ 1 ∧ q0 = lerp p0 p1 u0 ∧ q1 = lerp p0 p1 u1) := by
  induction fuel with
  | zero =>
    intro t0 t1 x y d0 d1 _ _ _ _ _
    exact ⟨fun h => by omega, fun q0 q1 h => by simp [csLoop] at h⟩
  | succ n ih =>
    intro t0 t1 x y d0 d1 a0 a1 b0 b1 hinv
    obtain ⟨hd0, hd1, hsat⟩ := hinv
    have hno := sat_noop d0 d1 hd0 hd1 _ _ _ _ hsat
    simp only [csLoop, encode_eq, hno.1, hno.2]
    simp only [← encode_eq]
    split
    · rename_i hacc
      refine ⟨fun _ => by simp, fun q0 q1 h => ?_⟩
      simp only [CsResult.accept.injEq] at h
      simp only [PolygonKernels.csAccept, Bool.not_eq_true', decide_eq_false_iff_not, ne_eq, not_not,
        Nat.or_eq_zero_iff] at hacc
      obtain ⟨rfl, rfl⟩ := h
      exact ⟨(encode_zero_iff w _).mp hacc.1, (encode_zero_iff w _).mp hacc.2, t0, t1, a0, a1, b0, b1, rfl, rfl⟩
    · rename_i hacc
      split
      · exact ⟨fun _ => by simp, fun q0 q1 h => by simp at h⟩
      · rename_i hrej
        obtain ⟨s, s0, s1, ex, ey, kx, ky, f0, f1⟩ :=
          cs_step w hx hy _ _ _ _ x y (by simpa using hacc) (by simpa using hrej)
        have hl := lerp_lerp p0 p1 t0 t1 s
        have c0 : 0 ≤ t0 + s * (t1 - t0) := convex_ge t0 t1 s 0 s0 s1 a0 b0
        have c1 : t0 + s * (t1 - t0) ≤ 1 := convex_le t0 t1 s 1 s0 s1 a1 b1
        simp only [hl.1, hl.2] at ex ey kx ky f0 f1
        rw [ex, ey]
        split
        · rename_i hp
          have hf := f0 hp
          have hs' := sat_step0 d0 d1 hd0 hd1 _ _ _ _ _ _ _ hsat kx ky hf
          have hv := vdec0 _ _ _ _ _ _ _ kx ky hf
          have := ih (t0 + s * (t1 - t0)) t1 (lerp p0 p1 (t0 + s * (t1 - t0))).x (lerp p0 p1 (t0 + s * (t1 - t0))).y
            (PolygonKernels.csDone d0 _) d1 c0 c1 b0 b1 ⟨hs'.1, hd1, hs'.2⟩
          exact ⟨fun hV => this.1 (by simp only [V] at hV ⊢; omega), this.2⟩
        · rename_i hp
          have hf := f1 hp
          have hs' := sat_step1 d0 d1 hd0 hd1 _ _ _ _ _ _ _ hsat kx ky hf
          have hv := vdec1 _ _ _ _ _ _ _ kx ky hf
          have := ih t0 (t0 + s * (t1 - t0)) (lerp p0 p1 (t0 + s * (t1 - t0))).x (lerp p0 p1 (t0 + s * (t1 - t0))).y
            d0 (PolygonKernels.csDone d1 _) a0 a1 c0 c1 ⟨hd0, hs'.1, hs'.2⟩
          exact ⟨fun hV => this.1 (by simp only [V] at hV ⊢; omega), this.2⟩

private theorem cs_master_start (w : Win) (hx : w.xmin ≤ w.xmax) (hy : w.ymin ≤ w.ymax) (p0 p1 : Pt) (fuel : Nat) :
    (V w p0.x p0.y p1.x p1.y < fuel → csClipLine w fuel p0 p1 ≠ .fuel) ∧
    (∀ q0 q1, csClipLine w fuel p0 p1 = .accept q0 q1 → w.contains q0 ∧ w.contains q1 ∧
      ∃ u0 u1 : Rat, 0 ≤ u0 ∧ u0 ≤ 1 ∧ 0 ≤ u1 ∧ u1 ≤ 1 ∧ q0 = lerp p0 p1 u0 ∧ q1 = lerp p0 p1 u1) := by
  have e0 : p0 = lerp p0 p1 0 := by simp [lerp]
  have e1 : p1 = lerp p0 p1 1 := by simp [lerp]
  have := cs_master w hx hy p0 p1 fuel 0 1 p0.x p0.y 0 0 (le_refl _) (by norm_num) (by norm_num) (le_refl _)
    ⟨by norm_num, by norm_num, by simp [Sat, SatAx]⟩
  rw [← e0, ← e1] at this
  exact this

/-- for a proper window (`x_min ≤ x_max`, `y_min ≤ y_max`) four clipping steps are enough in exact arithmetic: fuel 5 is never
exhausted (and 4 can be, see the `#guard` below) -/
theorem cs_terminates_proper_window (w : Win) (hx : w.xmin ≤ w.xmax) (hy : w.ymin ≤ w.ymax) (p0 p1 : Pt) :
    csClipLine w 5 p0 p1 ≠ .fuel :=
  (cs_master_start w hx hy p0 p1 5).1 (by have := V_le_four w p0.x p0.y p1.x p1.y; omega)

/-- `cs_sound`, accept part: for a proper window the returned end points lie inside the window (the masked outcode bits are
never raised again in exact arithmetic, so an accept means both real outcodes are 0) -/
theorem cs_accept_inside (w : Win) (hx : w.xmin ≤ w.xmax) (hy : w.ymin ≤ w.ymax) (fuel : Nat) (p0 p1 q0 q1 : Pt)
    (h : csClipLine w fuel p0 p1 = .accept q0 q1) : w.contains q0 ∧ w.contains q1 :=
  let r := (cs_master_start w hx hy p0 p1 fuel).2 q0 q1 h
  ⟨r.1, r.2.1⟩

/-- `cs_sound`, second part: the returned end points are points `p0 + t (p1 - p0)`, `0 ≤ t ≤ 1`, of the input segment -/
theorem cs_accept_on_segment (w : Win) (hx : w.xmin ≤ w.xmax) (hy : w.ymin ≤ w.ymax) (fuel : Nat) (p0 p1 q0 q1 : Pt)
    (h : csClipLine w fuel p0 p1 = .accept q0 q1) :
    ∃ t0 t1 : Rat, 0 ≤ t0 ∧ t0 ≤ 1 ∧ 0 ≤ t1 ∧ t1 ≤ 1 ∧ q0 = lerp p0 p1 t0 ∧ q1 = lerp p0 p1 t1 :=
  ((cs_master_start w hx hy p0 p1 fuel).2 q0 q1 h).2.2

private theorem clsOf_hi_gt {a lo hi : Rat} (h : clsOf a lo hi = .hi) : a > hi := by
  unfold clsOf at h; split_ifs at h with h1 h2; exact h2
private theorem convex_gt (a0 a1 s b : Rat) (hs0 : 0 ≤ s) (hs1 : s ≤ 1) (h0 : b < a0) (h1 : b < a1) :
    b < a0 + s * (a1 - a0) := by
  have := convex_ge a0 a1 s (min a0 a1) hs0 hs1 (min_le_left _ _) (min_le_right _ _)
  have : b < min a0 a1 := lt_min h0 h1
  linarith
private theorem convex_lt (a0 a1 s b : Rat) (hs0 : 0 ≤ s) (hs1 : s ≤ 1) (h0 : a0 < b) (h1 : a1 < b) :
    a0 + s * (a1 - a0) < b := by
  have := convex_le a0 a1 s (max a0 a1) hs0 hs1 (le_max_left _ _) (le_max_right _ _)
  have : max a0 a1 < b := max_lt h0 h1
  linarith

/-- `cs_reject_sound` for the test on the input end points (the trivial reject of the first iteration): when the two
outcodes share a bit, no point of the segment lies in the window.
Not proved: the same for a reject in a later iteration (needs the invariant that every discarded piece is outside). -/
theorem cs_reject_sound_partial (w : Win) (p0 p1 : Pt)
    (h : PolygonKernels.csReject (w.encode p0.x p0.y) (w.encode p1.x p1.y) = true) :
    ∀ t : Rat, 0 ≤ t → t ≤ 1 → ¬ w.contains (lerp p0 p1 t) := by
  rw [encode_eq, encode_eq] at h
  have hc : (clsOf p0.y w.ymin w.ymax = .hi ∧ clsOf p1.y w.ymin w.ymax = .hi) ∨
      (clsOf p0.y w.ymin w.ymax = .lo ∧ clsOf p1.y w.ymin w.ymax = .lo) ∨
      (clsOf p0.x w.xmin w.xmax = .hi ∧ clsOf p1.x w.xmin w.xmax = .hi) ∨
      (clsOf p0.x w.xmin w.xmax = .lo ∧ clsOf p1.x w.xmin w.xmax = .lo) := by
    revert h
    cases clsOf p0.x w.xmin w.xmax <;> cases clsOf p0.y w.ymin w.ymax <;> cases clsOf p1.x w.xmin w.xmax <;>
      cases clsOf p1.y w.ymin w.ymax <;> simp [codeOf, PolygonKernels.csReject]
  intro t t0 t1 hcon
  simp only [Win.contains, lerp] at hcon
  rcases hc with ⟨a, b⟩ | ⟨a, b⟩ | ⟨a, b⟩ | ⟨a, b⟩
  · have := convex_gt p0.y p1.y t w.ymax t0 t1 (clsOf_hi_gt a) (clsOf_hi_gt b); linarith
  · have := convex_lt p0.y p1.y t w.ymin t0 t1 (clsOf_lo.mp a) (clsOf_lo.mp b); linarith
  · have := convex_gt p0.x p1.x t w.xmax t0 t1 (clsOf_hi_gt a) (clsOf_hi_gt b); linarith
  · have := convex_lt p0.x p1.x t w.xmin t0 t1 (clsOf_lo.mp a) (clsOf_lo.mp b); linarith


/-! ## G. convex hull (`convex_hull_2d`, Andrew's monotone chain as coded) -/

private theorem hullPush_subset (floor : Nat) (stack : List Pt) (v : Pt) :
    ∀ p ∈ hullPush floor stack v, p = v ∨ p ∈ stack := by
  fun_induction hullPush floor stack v with
  | case1 a o rest h ih =>
    intro p hp
    rcases ih p hp with h | h
    · exact Or.inl h
    · exact Or.inr (List.mem_cons_of_mem _ h)
  | case2 a o rest h => intro p hp; simpa using hp
  | case3 stack h => intro p hp; simpa using hp

private theorem foldl_hullPush_subset (floor : Nat) (vs init : List Pt) :
    ∀ p ∈ vs.foldl (hullPush floor) init, p ∈ init ∨ p ∈ vs := by
  induction vs generalizing init with
  | nil => intro p hp; exact Or.inl hp
  | cons v vs ih =>
    intro p hp
    rcases ih _ p hp with h | h
    · rcases hullPush_subset floor init v p h with rfl | h
      · exact Or.inr (by simp)
      · exact Or.inl h
    · exact Or.inr (List.mem_cons_of_mem _ h)

private theorem insertPt_subset (p : Pt) (l : List Pt) : ∀ q ∈ insertPt p l, q = p ∨ q ∈ l := by
  induction l with
  | nil => intro q hq; simpa [insertPt] using hq
  | cons a as ih =>
    intro q hq
    unfold insertPt at hq
    split_ifs at hq
    · exact Or.inr hq
    · simpa using hq
    · simp only [List.mem_cons] at hq ⊢
      rcases hq with rfl | hq
      · exact Or.inr (Or.inl rfl)
      · rcases ih q hq with h | h
        · exact Or.inl h
        · exact Or.inr (Or.inr h)

private theorem sortDedup_subset (pts : List Pt) : ∀ q ∈ sortDedup pts, q ∈ pts := by
  have : ∀ (pts acc : List Pt), ∀ q ∈ pts.foldl (fun acc p => insertPt p acc) acc, q ∈ acc ∨ q ∈ pts := by
    intro pts
    induction pts with
    | nil => intro acc q hq; exact Or.inl hq
    | cons p ps ih =>
      intro acc q hq
      rcases ih _ q hq with h | h
      · rcases insertPt_subset p acc q h with rfl | h
        · exact Or.inr (by simp)
        · exact Or.inl h
      · exact Or.inr (List.mem_cons_of_mem _ h)
  intro q hq
  rcases this pts [] q hq with h | h
  · simp at h
  · exact h

/-- `hull_subset_input`: every vertex of the returned hull is one of the given points -/
theorem hull_subset_input (pts h : List Pt) (hh : convexHull pts = some h) : ∀ v ∈ h, v ∈ pts := by
  unfold convexHull at hh
  dsimp only at hh
  split_ifs at hh
  simp only [Option.some.injEq] at hh
  subst hh
  intro v hv
  rw [List.mem_reverse] at hv
  apply sortDedup_subset
  rcases foldl_hullPush_subset _ _ _ v hv with h | h
  · rcases foldl_hullPush_subset _ _ _ v h with h | h
    · simp at h
    · exact h
  · exact List.mem_reverse.mp (List.mem_of_mem_drop h)

private theorem turnsOkFrom_tail {floor : Nat} {b : Pt} {l : List Pt} (h : turnsOkFrom floor (b :: l)) :
    turnsOkFrom floor l := by
  match l, h with
  | [], _ => trivial
  | [_], _ => trivial
  | _ :: _ :: _, h => exact h.2

/-- the loop `while k >= floor and cross(hull[k-2], hull[k-1], v) <= 0: k -= 1; hull[k] = v` keeps the invariant that all
turns at or above the floor are strict left turns -/
theorem hullPush_turns (floor : Nat) (stack : List Pt) (v : Pt) (h : turnsOkFrom floor stack) :
    turnsOkFrom floor (hullPush floor stack v) := by
  fun_induction hullPush floor stack v with
  | case1 a o rest hc ih => exact ih (turnsOkFrom_tail h)
  | case2 a o rest hc =>
    refine ⟨?_, h⟩
    intro hf
    simp only [not_and, Bool.not_eq_true] at hc
    have := hc hf
    simp only [hullPopTest, PolygonKernels.hullPop, Bool.true_and, decide_eq_false_iff_not, not_le] at this
    exact this
  | case3 stack hs =>
    match stack, hs with
    | [], _ => trivial
    | [_], _ => trivial
    | a :: o :: rest, hs => exact absurd rfl (hs a o rest)

/-- `hull_convex` for the lower chain: all consecutive turns of the lower hull are strict left turns, for any input order -/
theorem lower_hull_left_turns (vs : List Pt) : turnsOkFrom 2 (lowerHull vs) := by
  have : ∀ (vs init : List Pt), turnsOkFrom 2 init → turnsOkFrom 2 (vs.foldl (hullPush 2) init) := by
    intro vs
    induction vs with
    | nil => intro init h; exact h
    | cons v vs ih => intro init h; exact ih _ (hullPush_turns 2 init v h)
  exact this vs [] trivial

private theorem turnsOkFrom_high (floor : Nat) (l : List Pt) (h : l.length < floor) : turnsOkFrom floor l := by
  induction l with
  | nil => trivial
  | cons b t ih =>
    match t, ih, h with
    | [], _, _ => trivial
    | [_], _, _ => trivial
    | a :: o :: t', ih, h =>
      refine ⟨?_, ih (by simp only [List.length_cons] at h ⊢; omega)⟩
      intro hf; simp only [List.length_cons] at h; omega

/-- `hull_convex`, the part that is proved for the complete result: every turn whose middle vertex was pushed by the second
(upper) pass is a strict left turn.
Not proved for the final list: the turn at the junction vertex of the two passes (the code pushes `vertices[n-2]` without a
test), that the lower chain survives the second pass unchanged, the closing turn, and `hull_contains_all` (these need the
lexicographic order of the input, not only the stack discipline). -/
theorem hull_upper_left_turns_partial (pts h : List Pt) (hh : convexHull pts = some h) :
    turnsOkFrom ((lowerHull (sortDedup pts)).length + 1) h.reverse := by
  unfold convexHull at hh
  dsimp only at hh
  split_ifs at hh
  simp only [Option.some.injEq] at hh
  subst hh
  rw [List.reverse_reverse]
  have : ∀ (vs init : List Pt) (fl : Nat), turnsOkFrom fl init → turnsOkFrom fl (vs.foldl (hullPush fl) init) := by
    intro vs
    induction vs with
    | nil => intro init fl h; exact h
    | cons v vs ih => intro init fl h; exact ih _ fl (hullPush_turns fl init v h)
  exact this _ _ _ (turnsOkFrom_high _ _ (by omega))

/-! ## H. the Cython twins and `intersection_line_line_2d` -/

/-- the arithmetic kernels of `acc/mapbox_earcut.pyx` and `acc/construct.pyx` are the same functions as those of the
pure Python modules (both translated from the current source) -/
theorem cython_twin_kernels_agree :
    PolygonKernels.signedAreaTerm_pyx = PolygonKernels.signedAreaTerm ∧
    PolygonKernels.area_pyx = PolygonKernels.area ∧
    PolygonKernels.sign_pyx = PolygonKernels.sign ∧
    PolygonKernels.onSegment_pyx = PolygonKernels.onSegment ∧
    PolygonKernels.intersects_pyx = PolygonKernels.intersects ∧
    PolygonKernels.pointInTriangle_pyx = PolygonKernels.pointInTriangle ∧
    PolygonKernels.locallyInside_pyx = PolygonKernels.locallyInside ∧
    PolygonKernels.sectorContainsSector_pyx = PolygonKernels.sectorContainsSector ∧
    PolygonKernels.lineLine_pyx = PolygonKernels.lineLine ∧
    PolygonKernels.cwTerm_pyx = PolygonKernels.cwTerm ∧
    PolygonKernels.pipOnEdge_pyx = PolygonKernels.pipOnEdge ∧
    PolygonKernels.pipToggle_pyx = PolygonKernels.pipToggle := by
  refine ⟨rfl, rfl, rfl, rfl, rfl, rfl, rfl, rfl, rfl, rfl, rfl, rfl⟩

/-- `intersection_line_line_2d`: a returned point lies on both lines; with `virtual=False` it lies on both segments -/
theorem lineLine_sound (virtual : Bool) (tol : Rat) (htol : 0 ≤ tol) (s1 s2 c1 c2 ip : Pt)
    (h : lineLine virtual tol s1 s2 c1 c2 = some ip) :
    sideOf c1 c2 ip = 0 ∧ sideOf s1 s2 ip = 0 ∧
    (virtual = false → (∃ us : Rat, 0 ≤ us ∧ us ≤ 1 ∧ ip = lerp s1 s2 us) ∧ (∃ uc : Rat, 0 ≤ uc ∧ uc ≤ 1 ∧ ip = lerp c1 c2 uc)) := by
  simp only [lineLine, PolygonKernels.lineLine] at h
  split at h
  · simp at h
  · rename_i hden
    simp only [decide_eq_true_eq, not_le] at hden
    have hd : (c2.y - c1.y) * (s2.x - s1.x) - (c2.x - c1.x) * (s2.y - s1.y) ≠ 0 := by
      intro h0
      rw [h0] at hden
      simp only [PolygonKernels.rabs] at hden
      norm_num at hden
      linarith
    have key : ∀ q : Pt, q = ⟨s1.x + ((c2.x - c1.x) * (s1.y - c1.y) - (c2.y - c1.y) * (s1.x - c1.x)) /
          ((c2.y - c1.y) * (s2.x - s1.x) - (c2.x - c1.x) * (s2.y - s1.y)) * (s2.x - s1.x),
        s1.y + ((c2.x - c1.x) * (s1.y - c1.y) - (c2.y - c1.y) * (s1.x - c1.x)) /
          ((c2.y - c1.y) * (s2.x - s1.x) - (c2.x - c1.x) * (s2.y - s1.y)) * (s2.y - s1.y)⟩ →
        sideOf c1 c2 q = 0 ∧ sideOf s1 s2 q = 0 ∧
        q = lerp s1 s2 (((c2.x - c1.x) * (s1.y - c1.y) - (c2.y - c1.y) * (s1.x - c1.x)) /
          ((c2.y - c1.y) * (s2.x - s1.x) - (c2.x - c1.x) * (s2.y - s1.y))) ∧
        q = lerp c1 c2 (((s2.x - s1.x) * (s1.y - c1.y) - (s2.y - s1.y) * (s1.x - c1.x)) /
          ((c2.y - c1.y) * (s2.x - s1.x) - (c2.x - c1.x) * (s2.y - s1.y))) := by
      intro q hq
      subst hq
      refine ⟨?_, ?_, ?_, ?_⟩
      · simp only [sideOf]; field_simp; ring
      · simp only [sideOf]; field_simp; ring
      · simp only [lerp]
      · simp only [lerp, Pt.mk.injEq]
        constructor <;> (field_simp; ring)
    cases virtual with
    | true =>
      simp only [if_true, Option.map_some, Option.some.injEq] at h
      obtain ⟨k1, k2, _, _⟩ := key ip h.symm
      exact ⟨k1, k2, by simp⟩
    | false =>
      simp only [Bool.false_eq_true, if_false] at h
      split at h
      · rename_i hus
        split at h
        · rename_i huc
          simp only [Option.map_some, Option.some.injEq] at h
          obtain ⟨k1, k2, k3, k4⟩ := key ip h.symm
          simp only [Bool.and_eq_true, decide_eq_true_eq] at hus huc
          exact ⟨k1, k2, fun _ => ⟨⟨_, hus.1, hus.2, k3⟩, ⟨_, huc.1, huc.2, k4⟩⟩⟩
        · simp at h
      · simp at h


/-! ## statements of C19 that are NOT proved (kept visible; covered by correspondence and the exact oracle only)

```
-- completion (two-ears theorem and adequacy of `is_ear`): every simple polygon is triangulated completely
-- theorem earcut_completes (exterior : List Pt) (hsimple : SimplePolygon exterior) :
--     ∃ fuel o, earcut fuel exterior [] = .ok o false ∧ o.complete
-- reason: needs the Jordan-curve style two-ears argument for the ear test as coded (bounding box + point_in_triangle +
-- reflex test).

-- non-overlap: the open triangles of a complete run on a simple polygon are pairwise disjoint and lie inside it
-- theorem earcut_no_overlap ...          -- reason: needs the geometric meaning of `isEarBlocked`, not only the area algebra

-- Sutherland-Hodgman exactness: shoelace area of `clipPolygon clip tol poly` = area of (poly ∩ convex clip)
-- theorem sh_exact_area ...              -- reason: containment is proved (`clipPolygon_inside`), equality of the point sets is not

-- cs_reject_sound at full strength: `csClipLine w fuel p0 p1 = .reject → ∀ t ∈ [0,1], ¬ w.contains (lerp p0 p1 t)`
-- reason: needs the loop invariant "every discarded piece lies outside"; proved for the first iteration (`…_partial`).
-- cs_complete: an accepted result is exactly the intersection of the segment with the window: same invariant.

-- hull_convex / hull_contains_all for the final list (junction turn, closing turn, all input points left of every edge)
-- reason: needs the lexicographic order produced by `sort()`; proved: `lower_hull_left_turns`, `hull_upper_left_turns_partial`.
```
-/

/-! ## non-vacuity: the hypotheses of the theorems are met by ordinary inputs, the bounds are tight -/

private def square : List Node := linkedList [⟨0, 0⟩, ⟨4, 0⟩, ⟨4, 4⟩, ⟨0, 4⟩] 0 0 true
private def outBool (o : Out) : Bool := o.left.all (fun r => decide (r.length < 3)) && o.cured.isEmpty && !o.fuelOut

-- a complete run (hypothesis of `earcut_conserves`): two triangles, nothing left, nothing cured
#guard outBool (earcutLinked 1000 square 0 0)
#guard (earcutLinked 1000 square 0 0).tris.map (fun t => (t.1.pt, t.2.1.pt, t.2.2.pt)) = [(2, 3, 0), (0, 1, 2)]
#guard sumTri (earcutLinked 1000 square 0 0).tris = -32 ∧ signedArea square = -32
-- hypothesis of `earcut_no_holes_conserves`: the top-level model completes on a concave polygon given clockwise
#guard (match earcut 1000 [⟨0, 0⟩, ⟨0, 4⟩, ⟨2, 1⟩, ⟨4, 4⟩, ⟨4, 0⟩] [] with
  | .ok o d => outBool o && !d && o.tris.length == 3 | .hashed => false)
-- a clockwise input is turned counter-clockwise by `linked_list` (`linkedList_area`)
#guard signedArea (linkedList [⟨0, 0⟩, ⟨0, 4⟩, ⟨4, 4⟩, ⟨4, 0⟩] 0 0 true) = -32
#guard signedArea (linkedList [⟨0, 0⟩, ⟨4, 0⟩, ⟨4, 4⟩, ⟨0, 4⟩] 0 0 false) = 32
-- `linked_list` numbers a reversed ring start .. start+n-1 like a ring that keeps its order (after fix 774525a2f)
#guard (linkedList [⟨0, 0⟩, ⟨0, 4⟩, ⟨4, 4⟩, ⟨4, 0⟩] 0 0 true).map (·.i) = [0, 3, 2, 1]
-- a self-touching ring on which `cure_local_intersections` fires: the `cured` term of `earcutLinked_area` is not vacuous
private def twisted : List Node := linkedList [⟨1, 1⟩, ⟨3, 4⟩, ⟨3, 2⟩, ⟨4, 1⟩, ⟨3, 4⟩, ⟨4, 0⟩] 0 0 true
#guard (earcutLinked 2000 twisted 0 0).cured.length = 1
#guard sumCure (earcutLinked 2000 twisted 0 0).cured ≠ 0
-- a square with a square hole: the bridge is found, the merged ring has the area of both (`eliminateHole_area`)
#guard (eliminateHoles [[⟨1, 1⟩, ⟨2, 1⟩, ⟨2, 2⟩, ⟨1, 2⟩]] 4 square).2 = false
#guard signedArea (eliminateHoles [[⟨1, 1⟩, ⟨2, 1⟩, ⟨2, 2⟩, ⟨1, 2⟩]] 4 square).1 = -32 + 2
-- Sutherland-Hodgman and the tolerance hypothesis `0 ≤ tol`
example : (0 : Rat) ≤ PolygonKernels.tolerance := by simp only [PolygonKernels.tolerance]; norm_num
#guard clipPolygon [⟨0, 0⟩, ⟨2, 0⟩, ⟨2, 2⟩, ⟨0, 2⟩] PolygonKernels.tolerance [⟨1, 1⟩, ⟨3, 1⟩, ⟨3, 3⟩, ⟨1, 3⟩]
  = [⟨1, 2⟩, ⟨1, 1⟩, ⟨2, 1⟩, ⟨2, 2⟩]
-- Cohen-Sutherland: accept, reject, and a segment that needs all four clipping steps (fuel 4 is not enough, 5 is)
private def win : Win := ⟨0, 2, 0, 2⟩
example : win.xmin ≤ win.xmax ∧ win.ymin ≤ win.ymax := by simp only [win]; norm_num
#guard csClipLine win 5 ⟨-2, -1⟩ ⟨4, 3⟩ = .accept ⟨0, 1 / 3⟩ ⟨2, 5 / 3⟩
#guard csClipLine win 4 ⟨-2, -1⟩ ⟨4, 3⟩ = .fuel   -- four clipping steps are needed here
#guard csClipLine win 5 ⟨-5, 0⟩ ⟨1, 10⟩ = .reject
#guard PolygonKernels.csReject (win.encode 3 0) (win.encode 5 7) = true
-- convex hull of points with collinear and interior points
#guard convexHull [⟨0, 0⟩, ⟨1, 0⟩, ⟨2, 0⟩, ⟨1, 1⟩, ⟨0, 2⟩, ⟨1 / 2, 1 / 2⟩, ⟨2, 2⟩]
  = some [⟨0, 0⟩, ⟨2, 0⟩, ⟨2, 2⟩, ⟨0, 2⟩, ⟨0, 0⟩]
#guard lineLine false PolygonKernels.tolerance ⟨0, 0⟩ ⟨2, 2⟩ ⟨0, 2⟩ ⟨2, 0⟩ = some ⟨1, 1⟩

end EzdxfVerif.Props.C19

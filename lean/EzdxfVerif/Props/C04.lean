/-
C04  Every written file is well-formed and referentially closed.
Property theorems about what `Drawing.write` exports from ANY reachable state of the document state
machine (Model/Doc.lean `writeFile`; vocabulary Model/DocSpec.lean; proofs Lemmas/DocWrite.lean).
The byte-level file structure is checked on the real output by the harness-owned parser
(harness/dxfparse.py); these theorems cover the handle/ownership skeleton for all histories.
-/
import EzdxfVerif.Lemmas.DocWrite
import EzdxfVerif.Lemmas.DocOwner
import EzdxfVerif.Lemmas.DocLink
import EzdxfVerif.Lemmas.DocHandles
import EzdxfVerif.Lemmas.DocVersion
import EzdxfVerif.Lemmas.DocNames
import EzdxfVerif.Lemmas.DocFinal

namespace EzdxfVerif.Props.C04
open EzdxfVerif.Doc

/-- no deleted (destroyed, purged or not) entity appears in the output -/
theorem write_no_dead (s : State) : ∀ h ∈ written (writeFile s), isAlive s h = true :=
  Doc.write_no_dead s

/-- every live linked entity is written at most once over BLOCKS and ENTITIES together
    (at most one owner ⇒ exactly one place in the file) -/
theorem write_once (s : State) (hi : DocInv s) (hb : BInv s) : (written (writeFile s)).Nodup :=
  Doc.write_once s hi hb

/-- all written entity handles are smaller than `$HANDSEED` -/
theorem write_lt_handseed (s : State) (hi : DocInv s) :
    ∀ h ∈ written (writeFile s), h < (writeFile s).handseed := Doc.write_lt_handseed s hi

/-- the BLOCK_RECORD table and the entity spaces describe the same containers (each block record
    once, each with an entity space), after every operation -/
theorem step_binv (s : State) (op : Op) (hi : DocInv s) (h : BInv s) : BInv (step s op).1 :=
  Doc.step_BInv s op hi h

/-- every entity written between BLOCK and ENDBLK of a block record is owned by that block record
    (its owner tag resolves to the BLOCK_RECORD it is written under), in every reachable state -/
theorem written_under_owner (s : State) (ops : List Op) (h : DocInv s) (ho : OwnerInv s) (hok : HistOk s ops) :
    ∀ k x, x ∈ liveContent (run s ops) k → ownerOf (run s ops) x = some k :=
  fun k x hx => Doc.liveContent_owner _ (Doc.owner_inv_reachable s ops h ho hok) k x hx

/-- the three facts above hold for the file written after ANY history of API operations
    (histories may interleave save+reload: `reload` is one of the operations) -/
theorem written_file_sound (s : State) (ops : List Op) (h : DocInv s) (hb : BInv s) (hok : HistOk s ops) :
    let w := writeFile (run s ops)
    (written w).Nodup ∧ (∀ x ∈ written w, isAlive (run s ops) x = true) ∧ (∀ x ∈ written w, x < w.handseed) := by
  have hr := Doc.full_inv_reachable s ops h hb hok
  exact ⟨Doc.write_once _ hr.1 hr.2, Doc.write_no_dead _, Doc.write_lt_handseed _ hr.1⟩

/-- "linked ⇒ listed" is preserved by every operation (Session 3): a live entity with an owner is listed in the
    entity space of that owner, which exists -/
theorem step_linkinv (s : State) (op : Op) (hi : DocInv s) (hl : LinkInv s) : LinkInv (step s op).1 :=
  Doc.step_LinkInv s op hi hl

/-- EXACTLY once (Session 3; `write_once` is the "at most once" half): after ANY history of API operations every live
    entity that is linked (has an owner) is written, and no handle is written twice -/
theorem written_exactly_once (s : State) (ops : List Op) (h : DocInv s) (hb : BInv s) (hl : LinkInv s)
    (hok : HistOk s ops) :
    let w := writeFile (run s ops)
    (written w).Nodup ∧
    ∀ x k, isAlive (run s ops) x = true → ownerOf (run s ops) x = some k → x ∈ written w := by
  have hr := Doc.full_inv_reachable s ops h hb hok
  have hlr := Doc.link_inv_reachable s ops h hl hok
  exact ⟨Doc.write_once _ hr.1 hr.2, fun x k ha ho => Doc.linked_written _ hr.2 hlr x k ha ho⟩

/-- GROUP members resolve (Session 3): after ANY history (group edits, moves of members to other layouts or into
    blocks, unlink, destroy, explode, audit, save+reload ...) every member handle written into a GROUP object is the
    handle of an entity that is written into the same file -/
theorem written_groups_closed (s : State) (ops : List Op) (h : DocInv s) (hb : BInv s) (hl : LinkInv s)
    (hok : HistOk s ops) :
    ∀ g ∈ (writeFile (run s ops)).groups, ∀ m ∈ g.2, m ∈ written (writeFile (run s ops)) :=
  Doc.groups_closed _ (Doc.full_inv_reachable s ops h hb hok).2 (Doc.link_inv_reachable s ops h hl hok)

/-- (round 3) `$HANDSEED` of the file written after ANY history (save+reload steps included) is above ALL handles ever
    issued by the history - entities, sub-entities, block records, GROUP objects, deleted ones included - not only above
    the handles that are written -/
theorem handseed_above_all_issued (s : State) (ops : List Op) :
    ∀ h ∈ issuedAll s ops, h < (writeFile (run s ops)).handseed :=
  Doc.issuedAll_lt_next ops s

/-- (final round) the written file, EXACTLY: after ANY history the entity handles of the file are precisely the live
    entities that have an owner - nothing dead, nothing unlinked, nothing linked is missing (and each once:
    `written_exactly_once`) -/
theorem written_iff_live_linked (s : State) (ops : List Op) (h : DocInv s) (hb : BInv s) (ho : OwnerInv s)
    (hl : LinkInv s) (hok : HistOk s ops) (x : Nat) :
    x ∈ written (writeFile (run s ops)) ↔
      (isAlive (run s ops) x = true ∧ (ownerOf (run s ops) x).isSome = true) :=
  Doc.written_iff _ (Doc.full_inv_reachable s ops h hb hok).2 (Doc.owner_inv_reachable s ops h ho hok)
    (Doc.link_inv_reachable s ops h hl hok) x

/-! ### version gates and required entries (Session 3; tables regenerated from the live registry on every run) -/

open EzdxfVerif.DocVersion in
/-- no entity/object type newer than the target version: whatever the document contains, every type that passes
    `DXFEntity.export_dxf` has `MIN_DXF_VERSION_FOR_EXPORT ≤ v` (all 7 versions, any table) -/
theorem version_gate (tab : List (String × Nat)) (v : Nat) (types : List String) :
    ∀ t ∈ exportTypes tab v types, minVerOf tab t ≤ v := DocVersion.version_gate tab v types

open EzdxfVerif.DocVersion in
/-- with the table of the live registry: a type that is known independently to exist only since version `m`
    (LWPOLYLINE, MTEXT, SPLINE, HATCH, ELLIPSE, IMAGE, MESH, ACAD_TABLE ... ) is never written for a version below `m` -/
theorem no_newer_type (v : Nat) (types : List String) (t : String) (m : Nat)
    (ht : t ∈ exportTypes Gen.entityMinVer v types) (hm : (t, m) ∈ Gen.independentMin) : m ≤ v :=
  DocVersion.no_newer_type v types t m ht hm

open EzdxfVerif.DocVersion in
/-- exporting for a newer version never loses an entity type -/
theorem gate_monotone (tab : List (String × Nat)) (v v' : Nat) (h : v ≤ v') (types : List String) :
    (exportTypes tab v types).Sublist (exportTypes tab v' types) := DocVersion.gate_monotone tab v v' h types

open EzdxfVerif.DocVersion in
/-- no header variable outside its version range: every variable written is a known variable with
    `mindxf ≤ v ≤ maxdxf` (any set of stored variables, all versions) -/
theorem header_gate (tab : List HVar) (v : Nat) (vars : List String) :
    ∀ n ∈ exportHeader tab v vars, ∃ d, hvarOf tab n = some d ∧ d.min ≤ v ∧ v ≤ d.max :=
  DocVersion.header_gate tab v vars

open EzdxfVerif.DocVersion in
/-- the custom drawing properties (R2004+) are never written into R12 / R2000 files, with or without `$LASTSAVEDBY`
    (live header table; the guard of the fall-back branch is extracted from the source of `HeaderSection.export_dxf`) -/
theorem custom_props_gate (v : Nat) (vars : List String)
    (h : customWritten Gen.headerVars Gen.customFallback v vars = true) : 2 ≤ v :=
  DocVersion.custom_props_gate v vars h

open EzdxfVerif.DocVersion in
/-- required CLASS entries: above R12 every DXF type in use that has a class definition, every required class of the
    version and every class registered before is in the written CLASSES section -/
theorem classes_cover_entities (defs : List String) (req : Nat → List String) (co : List (String × List String))
    (v : Nat) (hv : v ≠ 0) (cls inUse : List String) :
    (∀ t ∈ inUse, defs.contains t = true → t ∈ exportClasses defs req co v cls inUse) ∧
    (∀ n ∈ req v, defs.contains n = true → n ∈ exportClasses defs req co v cls inUse) ∧
    (∀ c ∈ cls, c ∈ exportClasses defs req co v cls inUse) :=
  DocVersion.classes_cover_entities defs req co v hv cls inUse

open EzdxfVerif.DocVersion in
/-- the gates are in the source where the model puts them, and the regenerated tables respect the independent facts -/
theorem version_tables_ok :
    (Gen.entityGatePresent && Gen.headerGatePresent && Gen.classesGatePresent) = true ∧
    Gen.independentMin.all (fun p => decide (p.2 ≤ minVerOf Gen.entityMinVer p.1)) = true ∧
    Gen.independentHdrMin.all (fun p => match hvarOf Gen.headerVars p.1 with
      | some d => decide (p.2 ≤ d.min) | none => false) = true :=
  ⟨DocVersion.gates_present, DocVersion.independent_min_respected, DocVersion.independent_hdr_respected⟩

/-- required table entries present after save + reload, whatever the history removed before -/
theorem required_entries_after_reload (s : State) (seed : Nat) (hseed : s.next ≤ seed) :
    (∀ r ∈ requiredTabs, r ∈ (step s (.reload seed)).1.tabs) ∧
    (∀ x ∈ s.tabs, x ∈ (step s (.reload seed)).1.tabs) ∧
    [48] ∈ (step s (.reload seed)).1.layers := Doc.required_after_reload s seed hseed

/-- required table entries present in EVERY reachable state (Session 3): linetypes ByBlock / ByLayer / Continuous, text
    style and dimension style Standard, appids ACAD / HATCHBACKGROUNDCOLOR / EZDXF, when present at the start (new or
    loaded document), survive every history none of whose operations is the removal of one of them -/
theorem required_entries_kept (s : State) (ops : List Op) (h0 : ∀ r ∈ requiredTabs, r ∈ s.tabs)
    (hops : ∀ op ∈ ops, ∀ r ∈ requiredTabs, KeepsEntry r op) : ∀ r ∈ requiredTabs, r ∈ (run s ops).tabs :=
  Doc.required_entries_kept s ops h0 hops

/-! ### non-vacuity -/

def fresh : State :=
  { ents := [], spaces := [(23, []), (27, [])],
    blocks := [(lower modelSpaceName, modelSpaceName, 23), (lower paperSpaceName, paperSpaceName, 27)],
    layouts := [⟨modelKey, ofString "Model", 23, 0⟩, ⟨upper (ofString "Layout1"), ofString "Layout1", 27, 1⟩],
    layers := [[48], ofString "defpoints"], next := 47,
    tabs := [(1, ofString "byblock"), (1, ofString "bylayer"), (1, ofString "continuous"), (2, ofString "standard"),
             (3, ofString "standard"), (4, ofString "acad")] }

example : DocInv fresh ∧ BInv fresh := by
  simp [DocInv, HInv, SInv, BInv, brs, hs, keys, allH, fresh]

-- the state right after the first save+reload holds all required entries; a history that removes a user entry keeps them
def loaded : State := (step fresh (.reload 47)).1
#guard requiredTabs.all (fun r => loaded.tabs.contains r)
#guard requiredTabs.all (fun r => (run loaded [.addEntry 2 (ofString "Mine") 48, .delEntry 2 (ofString "MINE"), .add 23 48 49]).tabs.contains r)
example : ∀ r ∈ requiredTabs, KeepsEntry r (.delEntry 2 (ofString "MINE")) := by
  intro r hr; simp only [KeepsEntry]; revert r; decide

example : LinkInv fresh := by
  intro h ha; simp [isAlive, findEnt, fresh] at ha

-- a group whose member was moved to another layout is written empty; a group with a destroyed member without it
#guard (writeFile (run fresh [.add 23 47 48, .add 23 48 49, .newGroup (ofString "G") 49 50, .setGroup (ofString "G") [47, 48],
    .move 23 47 27])).groups == [(49, [])]
#guard (writeFile (run fresh [.add 23 47 48, .add 23 48 49, .newGroup (ofString "G") 49 50, .setGroup (ofString "G") [47, 48],
    .destroy 47])).groups == [(49, [48])]
-- explode: the copy of the block content gets a fresh handle, the TEXT replacing the ATTRIB keeps the ATTRIB's handle
#guard (writeFile (run fresh [.newBlock (ofString "B") 47 50, .add 47 50 51, .addL 23 (some (ofString "b")) 51 [52, 53] 54,
    .explode 51 [(54, [])] 55])).entities == [54, 52]

#guard (writeFile (run fresh [.add 23 47 48, .newBlock (ofString "B1") 48 51, .add 48 51 52, .add 27 52 53,
    .destroy 47, .add 23 53 54])) == ⟨[(23, []), (27, []), (48, [51])], [53, 52], 54, []⟩

end EzdxfVerif.Props.C04

/-
C04  Every written file is well-formed and referentially closed.
Property theorems about what `Drawing.write` exports from ANY reachable state of the document state
machine (Model/Doc.lean `writeFile`; vocabulary Model/DocSpec.lean; proofs Lemmas/DocWrite.lean).
The byte-level file structure is checked on the real output by the harness-owned parser
(harness/dxfparse.py); these theorems cover the handle/ownership skeleton for all histories.
-/
import EzdxfVerif.Lemmas.DocWrite
import EzdxfVerif.Lemmas.DocOwner

namespace EzdxfVerif.Props.C04
open EzdxfVerif.Doc

/-- no deleted (destroyed, purged or not) entity appears in the output -/
theorem write_no_dead (s : State) : ∀ h ∈ written (writeFile s), isAlive s h = true :=
  Doc.write_no_dead s

/-- every live linked entity is written at most once over BLOCKS and ENTITIES together
    (at most one owner ⇒ exactly one place in the file) -/
theorem write_once (s : State) (hi : DocInv s) (hb : BInv s) : (written (writeFile s)).Nodup :=
  Doc.write_once s hi hb

/-- all written entity handles are smaller than `$HANDSEED` -/
theorem write_lt_handseed (s : State) (hi : DocInv s) :
    ∀ h ∈ written (writeFile s), h < (writeFile s).handseed := Doc.write_lt_handseed s hi

/-- the BLOCK_RECORD table and the entity spaces describe the same containers (each block record
    once, each with an entity space), after every operation -/
theorem step_binv (s : State) (op : Op) (hi : DocInv s) (h : BInv s) : BInv (step s op).1 :=
  Doc.step_BInv s op hi h

/-- every entity written between BLOCK and ENDBLK of a block record is owned by that block record
    (its owner tag resolves to the BLOCK_RECORD it is written under), in every reachable state -/
theorem written_under_owner (s : State) (ops : List Op) (h : DocInv s) (ho : OwnerInv s) (hok : HistOk s ops) :
    ∀ k x, x ∈ liveContent (run s ops) k → ownerOf (run s ops) x = some k :=
  fun k x hx => Doc.liveContent_owner _ (Doc.owner_inv_reachable s ops h ho hok) k x hx

/-- the three facts above hold for the file written after ANY history of API operations
    (histories may interleave save+reload: `reload` is one of the operations) -/
theorem written_file_sound (s : State) (ops : List Op) (h : DocInv s) (hb : BInv s) (hok : HistOk s ops) :
    let w := writeFile (run s ops)
    (written w).Nodup ∧ (∀ x ∈ written w, isAlive (run s ops) x = true) ∧ (∀ x ∈ written w, x < w.handseed) := by
  have hr := Doc.full_inv_reachable s ops h hb hok
  exact ⟨Doc.write_once _ hr.1 hr.2, Doc.write_no_dead _, Doc.write_lt_handseed _ hr.1⟩

/-! ### non-vacuity -/

def fresh : State :=
  ⟨[], [(23, []), (27, [])], [(lower modelSpaceName, modelSpaceName, 23), (lower paperSpaceName, paperSpaceName, 27)],
   [⟨modelKey, ofString "Model", 23, 0⟩, ⟨upper (ofString "Layout1"), ofString "Layout1", 27, 1⟩],
   [[48], ofString "defpoints"], 47⟩

example : DocInv fresh ∧ BInv fresh := by
  simp [DocInv, HInv, SInv, BInv, brs, hs, keys, allH, fresh]

#guard (writeFile (run fresh [.add 23 47 48, .newBlock (ofString "B1") 48 51, .add 48 51 52, .add 27 52 53,
    .destroy 47, .add 23 53 54])) == ⟨[(23, []), (27, []), (48, [51])], [53, 52], 54⟩

end EzdxfVerif.Props.C04

import EzdxfVerif.Model.Heap
import EzdxfVerif.Model.HeapRecipe
import EzdxfVerif.Lemmas.HeapRecipe
import EzdxfVerif.Gen.HeapGraphs

/-!
C16  Copies, virtual entities and documents never share mutable state  (DESIGN.md section 7, C16).
-/
namespace EzdxfVerif.Props.C16
open EzdxfVerif.Heap

/-! ### reachability -/

private theorem reach_trans {h : Heap} {a y x : Nat} (r1 : Reach h a y) (r2 : Reach h y x) : Reach h a x := by
  induction r2 with
  | refl => exact r1
  | step _ e ih => exact Reach.step ih e

private theorem reach_head {h : Heap} {a c x : Nat} (e : Edge h a c) (r : Reach h c x) : Reach h a x :=
  reach_trans (Reach.step Reach.refl e) r

private theorem reach_lt {h : Heap} (wf : WF h) {a x : Nat} (ha : a < h.length) (r : Reach h a x) :
    x < h.length := by
  induction r with
  | refl => exact ha
  | step _ e _ => exact wf _ _ e

private theorem mem_of_mem_dropLast {α : Type} {l : List α} {x : α} (h : x ∈ l.dropLast) : x ∈ l := by
  rw [List.dropLast_eq_take] at h
  exact List.mem_of_mem_take h

private theorem resolve_reach {h : Heap} : ∀ (p : List Nat) (b t : Nat), resolve h b p = some t → Reach h b t := by
  intro p
  induction p with
  | nil => intro b t hr; simp [resolve] at hr; subst hr; exact Reach.refl
  | cons i p ih =>
    intro b t hr
    simp only [resolve] at hr
    split at hr
    · exact absurd hr (by simp)
    · rename_i o ho
      split at hr
      · rename_i c hc
        have hm : Ref.own c ∈ o.slots := List.mem_of_getElem? hc
        exact reach_head ⟨o, ho, hm⟩ (ih c t hr)
      · exact absurd hr (by simp)

/-! ### locality of observation and reachability -/

/-- the observation of `a` only depends on the objects reachable from `a` -/
private theorem observe_local {h h' : Heap} :
    ∀ (n a : Nat), (∀ x, Reach h a x → h'[x]? = h[x]?) → observe h' n (.own a) = observe h n (.own a) := by
  intro n
  induction n with
  | zero => intro a _; rfl
  | succ n ih =>
    intro a same
    simp only [observe]
    rw [same a Reach.refl]
    cases ho : h[a]? with
    | none => rfl
    | some o =>
      simp only
      congr 1
      apply List.map_congr_left
      intro s hs
      cases s with
      | val v => cases n <;> rfl
      | nav c => cases n <;> rfl
      | own c =>
        apply ih
        intro x rx
        exact same x (reach_head ⟨o, ho, hs⟩ rx)

private theorem reach_local {h h' : Heap} {a : Nat} (same : ∀ x, Reach h a x → h'[x]? = h[x]?) :
    ∀ x, Reach h' a x → Reach h a x := by
  intro x r
  induction r with
  | refl => exact Reach.refl
  | step _ e ih =>
    obtain ⟨o, ho, hm⟩ := e
    rw [same _ ih] at ho
    exact Reach.step ih ⟨o, ho, hm⟩

/-! ### one write -/

private theorem newSlots_refs {h : Heap} {b : Nat} {ss ss' : List Ref} {fr : Option Obj} {w : Write}
    (hn : newSlots h b ss w = some (ss', fr)) :
    (∀ c, Ref.own c ∈ ss' → Ref.own c ∈ ss ∨ (c = h.length ∧ fr.isSome) ∨ Reach h b c) ∧
    (∀ o, fr = some o → ∀ c, Ref.own c ∉ o.slots) := by
  have hset : ∀ (i : Nat) (r : Ref) (c : Nat), Ref.own c ∈ ss.set i r → Ref.own c ∈ ss ∨ Ref.own c = r := by
    intro i r c hm
    exact List.mem_or_eq_of_mem_set hm
  have hmk : ∀ k vs c, Ref.own c ∉ (mkObj k vs).slots := by
    intro k vs c hm
    simp [mkObj] at hm
  cases w with
  | setVal p i v =>
    simp only [newSlots] at hn
    split at hn
    · simp only [Option.some.injEq, Prod.mk.injEq] at hn
      obtain ⟨rfl, rfl⟩ := hn
      refine ⟨fun c hm => ?_, fun o ho => by simp at ho⟩
      rcases hset _ _ _ hm with h1 | h1
      · exact Or.inl h1
      · simp at h1
    · simp at hn
  | setNav p i a =>
    simp only [newSlots] at hn
    split at hn
    · simp only [Option.some.injEq, Prod.mk.injEq] at hn
      obtain ⟨rfl, rfl⟩ := hn
      refine ⟨fun c hm => ?_, fun o ho => by simp at ho⟩
      rcases hset _ _ _ hm with h1 | h1
      · exact Or.inl h1
      · simp at h1
    · simp at hn
  | push p v =>
    simp only [newSlots, Option.some.injEq, Prod.mk.injEq] at hn
    obtain ⟨rfl, rfl⟩ := hn
    refine ⟨fun c hm => ?_, fun o ho => by simp at ho⟩
    simp at hm
    exact Or.inl hm
  | pop p =>
    simp only [newSlots, Option.some.injEq, Prod.mk.injEq] at hn
    obtain ⟨rfl, rfl⟩ := hn
    refine ⟨fun c hm => Or.inl (mem_of_mem_dropLast hm), fun o ho => by simp at ho⟩
  | erase p i =>
    simp only [newSlots, Option.some.injEq, Prod.mk.injEq] at hn
    obtain ⟨rfl, rfl⟩ := hn
    refine ⟨fun c hm => Or.inl (List.mem_of_mem_eraseIdx hm), fun o ho => by simp at ho⟩
  | setNew p i k vs =>
    simp only [newSlots] at hn
    split at hn
    · simp only [Option.some.injEq, Prod.mk.injEq] at hn
      obtain ⟨rfl, rfl⟩ := hn
      refine ⟨fun c hm => ?_, fun o ho => ?_⟩
      · rcases hset _ _ _ hm with h1 | h1
        · exact Or.inl h1
        · simp at h1; exact Or.inr (Or.inl ⟨h1, rfl⟩)
      · simp at ho; subst ho; exact hmk k vs
    · simp at hn
  | pushNew p k vs =>
    simp only [newSlots, Option.some.injEq, Prod.mk.injEq] at hn
    obtain ⟨rfl, rfl⟩ := hn
    refine ⟨fun c hm => ?_, fun o ho => ?_⟩
    · simp at hm
      rcases hm with h1 | h1
      · exact Or.inl h1
      · exact Or.inr (Or.inl ⟨h1, rfl⟩)
    · simp at ho; subst ho; exact hmk k vs
  | link p i q =>
    simp only [newSlots] at hn
    split at hn
    · split at hn
      · rename_i c0 hc0
        simp only [Option.some.injEq, Prod.mk.injEq] at hn
        obtain ⟨rfl, rfl⟩ := hn
        refine ⟨fun c hm => ?_, fun o ho => by simp at ho⟩
        rcases hset _ _ _ hm with h1 | h1
        · exact Or.inl h1
        · simp at h1; subst h1; exact Or.inr (Or.inr (resolve_reach q b c hc0))
      · simp at hn
    · simp at hn
  | pushLink p q =>
    simp only [newSlots] at hn
    split at hn
    · rename_i c0 hc0
      simp only [Option.some.injEq, Prod.mk.injEq] at hn
      obtain ⟨rfl, rfl⟩ := hn
      refine ⟨fun c hm => ?_, fun o ho => by simp at ho⟩
      simp at hm
      rcases hm with h1 | h1
      · exact Or.inl h1
      · subst h1; exact Or.inr (Or.inr (resolve_reach q b c hc0))
    · simp at hn

/-- what one write does, abstractly: it rewrites the slots of one mutable, non-frozen object `t` reachable
    from `b` and possibly allocates one object at the end of the heap -/
private structure Step (frozen : List Nat) (b : Nat) (h h' : Heap) : Prop where
  unchanged_or :
    h' = h ∨ ∃ (t : Nat) (o : Obj) (ss : List Ref) (fr : Option Obj),
      h[t]? = some o ∧ Reach h b t ∧ o.kind ≠ .imm ∧ t ∉ frozen ∧
      h' = h.set t ⟨o.kind, ss⟩ ++ fr.toList ∧
      (∀ c, Ref.own c ∈ ss → Ref.own c ∈ o.slots ∨ (c = h.length ∧ fr.isSome) ∨ Reach h b c) ∧
      (∀ o', fr = some o' → ∀ c, Ref.own c ∉ o'.slots)

private theorem apply1_step (frozen : List Nat) (b : Nat) (h : Heap) (w : Write) :
    Step frozen b h (apply1 frozen b h w) := by
  constructor
  unfold apply1
  split
  · exact Or.inl rfl
  · rename_i t ht
    split
    · exact Or.inl rfl
    · rename_i o ho
      split
      · exact Or.inl rfl
      · rename_i hk
        split
        · exact Or.inl rfl
        · rename_i ss fr hn
          have ⟨h1, h2⟩ := newSlots_refs hn
          refine Or.inr ⟨t, o, ss, fr, ho, resolve_reach _ _ _ ht, ?_, ?_, rfl, h1, h2⟩
          · intro hk'; exact hk (Or.inl hk')
          · intro hf; exact hk (Or.inr hf)

private theorem getElem?_step {h : Heap} {t : Nat} {o' : Obj} {fr : Option Obj} {x : Nat}
    (hx : x < h.length) (hne : x ≠ t) : (h.set t o' ++ fr.toList)[x]? = h[x]? := by
  rw [List.getElem?_append_left (by simpa using hx)]
  rw [List.getElem?_set_ne (Ne.symm hne)]

private theorem isImm_of_getElem? {h h' : Heap} {x : Nat} (e : h'[x]? = h[x]?) : isImm h' x = isImm h x := by
  simp [isImm, e]

/-- the invariant of the frame theorem -/
private structure Inv (frozen : List Nat) (h : Heap) (a b : Nat) : Prop where
  wf : WF h
  ha : a < h.length
  hb : b < h.length
  sep : Sep frozen h a b

private theorem step_frame {frozen : List Nat} {h h' : Heap} {a b : Nat}
    (inv : Inv frozen h a b) (st : Step frozen b h h') :
    Inv frozen h' a b ∧ ∀ x, Reach h a x → h'[x]? = h[x]? := by
  rcases st.unchanged_or with rfl | ⟨t, o, ss, fr, ho, rt, hk, hf, rfl, hrefs, hfresh⟩
  · exact ⟨inv, fun _ _ => rfl⟩
  have htlt : t < h.length := reach_lt inv.wf inv.hb rt
  -- the target is not reachable from a
  have hta : ¬ Reach h a t := by
    intro ra
    rcases inv.sep t ra rt with h1 | h1
    · simp [isImm, ho] at h1; exact hk h1
    · exact hf h1
  have same : ∀ x, Reach h a x → (h.set t ⟨o.kind, ss⟩ ++ fr.toList)[x]? = h[x]? := by
    intro x rx
    have hx : x < h.length := reach_lt inv.wf inv.ha rx
    exact getElem?_step hx (fun e => hta (e ▸ rx))
  have hlen : h.length ≤ (h.set t ⟨o.kind, ss⟩ ++ fr.toList).length := by simp
  have hlen' : (h.set t ⟨o.kind, ss⟩ ++ fr.toList).length ≤ h.length + 1 := by
    cases fr <;> simp
  -- objects of the new heap
  have hobj : ∀ y o', (h.set t ⟨o.kind, ss⟩ ++ fr.toList)[y]? = some o' →
      (y < h.length ∧ y ≠ t ∧ h[y]? = some o') ∨ (y = t ∧ o' = ⟨o.kind, ss⟩) ∨ (y = h.length ∧ fr = some o') := by
    intro y o' hy
    by_cases hyl : y < h.length
    · by_cases hyt : y = t
      · subst hyt
        rw [List.getElem?_append_left (by simpa using hyl)] at hy
        rw [List.getElem?_set_self hyl] at hy
        simp at hy
        exact Or.inr (Or.inl ⟨rfl, hy.symm⟩)
      · rw [getElem?_step hyl hyt] at hy
        exact Or.inl ⟨hyl, hyt, hy⟩
    · have hge : (h.set t ⟨o.kind, ss⟩).length ≤ y := by simp; omega
      rw [List.getElem?_append_right hge] at hy
      cases fr with
      | none => simp at hy
      | some f =>
        simp at hy
        have : y - h.length = 0 := by
          rcases Nat.eq_zero_or_pos (y - h.length) with h0 | h0
          · exact h0
          · rw [List.getElem?_eq_none (by simp; omega)] at hy; simp at hy
        rw [this] at hy
        simp at hy
        exact Or.inr (Or.inr ⟨by omega, by rw [hy]⟩)
  -- everything b reaches afterwards was reachable before or is the fresh object
  have reachB : ∀ x, Reach (h.set t ⟨o.kind, ss⟩ ++ fr.toList) b x → Reach h b x ∨ (x = h.length ∧ fr.isSome) := by
    intro x r
    induction r with
    | refl => exact Or.inl Reach.refl
    | @step y x _ e ih =>
      obtain ⟨o', ho', hm⟩ := e
      rcases hobj y o' ho' with ⟨_, _, hy⟩ | ⟨hy, rfl⟩ | ⟨hy, hfr⟩
      · rcases ih with ih | ih
        · exact Or.inl (Reach.step ih ⟨o', hy, hm⟩)
        · omega
      · subst hy
        rcases hrefs x hm with h1 | h1 | h1
        · exact Or.inl (Reach.step rt ⟨o, ho, h1⟩)
        · exact Or.inr h1
        · exact Or.inl h1
      · exact absurd hm (hfresh o' hfr x)
  have ha := inv.ha
  have hb := inv.hb
  refine ⟨⟨?_, by omega, by omega, ?_⟩, same⟩
  · -- WF
    intro y x ⟨o', ho', hm⟩
    rcases hobj y o' ho' with ⟨_, _, hy⟩ | ⟨hy, rfl⟩ | ⟨hy, hfr⟩
    · have := inv.wf y x ⟨o', hy, hm⟩; omega
    · rcases hrefs x hm with h1 | h1 | h1
      · have := inv.wf t x ⟨o, ho, h1⟩; omega
      · obtain ⟨rfl, hs⟩ := h1
        cases fr with
        | none => simp at hs
        | some f => simp
      · have := reach_lt inv.wf inv.hb h1; omega
    · exact absurd hm (hfresh o' hfr x)
  · -- Sep
    intro x ra rb
    have ra' : Reach h a x := reach_local same x ra
    rcases reachB x rb with rb' | ⟨rfl, _⟩
    · rcases inv.sep x ra' rb' with h1 | h1
      · exact Or.inl (by rw [isImm_of_getElem? (same x ra')]; exact h1)
      · exact Or.inr h1
    · have := reach_lt inv.wf inv.ha ra'; omega

/-- **frame**: if everything reachable from both `a` and `b` is immutable or frozen, then no sequence of
    writes through `b` changes what an observer of `a` sees -- for every heap without dangling
    references, every pair of roots, every write sequence and every observation depth. -/
theorem frame (frozen : List Nat) (h : Heap) (a b : Nat) (ws : List Write)
    (wf : WF h) (ha : a < h.length) (hb : b < h.length) (sep : Sep frozen h a b) :
    ∀ n, observe (applyAll frozen b h ws) n (.own a) = observe h n (.own a) := by
  have inv : Inv frozen h a b := ⟨wf, ha, hb, sep⟩
  clear wf ha hb sep
  induction ws generalizing h with
  | nil => intro n; rfl
  | cons w ws ih =>
    intro n
    have ⟨inv', same⟩ := step_frame inv (apply1_step frozen b h w)
    simp only [applyAll]
    rw [ih _ inv' n]
    exact observe_local n a same

/-- the hypothesis of `frame` is an invariant of writing through `b` (so `frame` can be applied again
    afterwards, and with the roles of `a` and `b` exchanged) -/
theorem sep_preserved (frozen : List Nat) (h : Heap) (a b : Nat) (ws : List Write)
    (wf : WF h) (ha : a < h.length) (hb : b < h.length) (sep : Sep frozen h a b) :
    WF (applyAll frozen b h ws) ∧ Sep frozen (applyAll frozen b h ws) a b := by
  have inv : Inv frozen h a b := ⟨wf, ha, hb, sep⟩
  clear wf ha hb sep
  induction ws generalizing h with
  | nil => exact ⟨inv.wf, inv.sep⟩
  | cons w ws ih =>
    have ⟨inv', _⟩ := step_frame inv (apply1_step frozen b h w)
    exact ih _ inv'

private theorem sep_symm (frozen : List Nat) (h : Heap) (a b : Nat) (sep : Sep frozen h a b) : Sep frozen h b a :=
  fun x rb ra => sep x ra rb

/-! ### two roots, interleaved writes (two documents in one process) -/

/-- **interleaved_frame**: two separated roots (two documents) under ANY interleaving of writes through the one and
    through the other: every single write leaves the observation of the OTHER root unchanged (at every depth; stated
    for every prefix `pre` of the interleaving and the write that follows it), the roots stay separated and the heap
    well formed.  (That each root ends up observing what its own writes alone produce: `interleaved_solo`.) -/
theorem interleaved_frame (fro : List Nat) (h : Heap) (a b : Nat) (ws : List (Bool × Write))
    (wf : WF h) (ha : a < h.length) (hb : b < h.length) (sep : Sep fro h a b) :
    (∀ (pre : List (Bool × Write)) (t : Bool) (w : Write) (post : List (Bool × Write)), ws = pre ++ (t, w) :: post →
      ∀ n, observe (apply1 fro (if t then b else a) (applyTagged fro a b h pre) w) n (.own (if t then a else b))
         = observe (applyTagged fro a b h pre) n (.own (if t then a else b))) ∧
    WF (applyTagged fro a b h ws) ∧ Sep fro (applyTagged fro a b h ws) a b := by
  have inv : Inv fro h a b := ⟨wf, ha, hb, sep⟩
  clear wf ha hb sep
  induction ws generalizing h with
  | nil =>
    refine ⟨?_, inv.wf, inv.sep⟩
    intro pre t w post e
    cases pre <;> simp at e
  | cons tw ws ih =>
    obtain ⟨t0, w0⟩ := tw
    -- one step, through b or through a (with the roles exchanged)
    have stepb : ∀ (h : Heap), Inv fro h a b → ∀ w, Inv fro (apply1 fro b h w) a b ∧
        ∀ n, observe (apply1 fro b h w) n (.own a) = observe h n (.own a) := by
      intro h inv w
      have ⟨i', same⟩ := step_frame inv (apply1_step fro b h w)
      exact ⟨i', fun n => observe_local n a same⟩
    have stepa : ∀ (h : Heap), Inv fro h a b → ∀ w, Inv fro (apply1 fro a h w) a b ∧
        ∀ n, observe (apply1 fro a h w) n (.own b) = observe h n (.own b) := by
      intro h inv w
      have inv' : Inv fro h b a := ⟨inv.wf, inv.hb, inv.ha, sep_symm _ _ _ _ inv.sep⟩
      have ⟨i', same⟩ := step_frame inv' (apply1_step fro a h w)
      exact ⟨⟨i'.wf, i'.hb, i'.ha, sep_symm _ _ _ _ i'.sep⟩, fun n => observe_local n b same⟩
    have hstep : Inv fro (apply1 fro (if t0 then b else a) h w0) a b ∧
        ∀ n, observe (apply1 fro (if t0 then b else a) h w0) n (.own (if t0 then a else b))
           = observe h n (.own (if t0 then a else b)) := by
      cases t0
      · simpa using stepa h inv w0
      · simpa using stepb h inv w0
    have ⟨h1, h2, h3⟩ := ih _ hstep.1
    refine ⟨?_, by simpa [applyTagged] using h2, by simpa [applyTagged] using h3⟩
    intro pre t w post e
    cases pre with
    | nil =>
      simp only [List.nil_append, List.cons.injEq, Prod.mk.injEq] at e
      obtain ⟨⟨rfl, rfl⟩, _⟩ := e
      simpa [applyTagged] using hstep.2
    | cons p pre' =>
      simp only [List.cons_append, List.cons.injEq] at e
      obtain ⟨rfl, e'⟩ := e
      simpa [applyTagged] using h1 pre' t w post e'


/-! ### interleaved = solo, up to the addresses of fresh objects -/

private theorem RefRel.mono {φ φ' : List (Nat × Nat)} (hs : ∀ p ∈ φ, p ∈ φ') {r r' : Ref} (h : RefRel φ r r') :
    RefRel φ' r r' := by
  cases r <;> cases r' <;> simp only [RefRel] at h ⊢
  all_goals first | exact h | exact hs _ h

private theorem RelL.mono {φ φ' : List (Nat × Nat)} (hs : ∀ p ∈ φ, p ∈ φ') :
    ∀ {l l' : List Ref}, RelL φ l l' → RelL φ' l l' := by
  intro l
  induction l with
  | nil => intro l' h; cases l' <;> simp_all [RelL]
  | cons r rs ih =>
    intro l' h
    cases l' with
    | nil => simp [RelL] at h
    | cons r' rs' => exact ⟨RefRel.mono hs h.1, ih h.2⟩

private theorem RelL.length {φ : List (Nat × Nat)} : ∀ {l l' : List Ref}, RelL φ l l' → l.length = l'.length := by
  intro l
  induction l with
  | nil => intro l' h; cases l' <;> simp_all [RelL]
  | cons r rs ih =>
    intro l' h
    cases l' with
    | nil => simp [RelL] at h
    | cons r' rs' => simp [ih h.2]

private theorem RelL.get {φ : List (Nat × Nat)} : ∀ {l l' : List Ref}, RelL φ l l' → ∀ i : Nat, OptRel (RefRel φ) l[i]? l'[i]? := by
  intro l
  induction l with
  | nil => intro l' h i; cases l' <;> simp_all [RelL, OptRel]
  | cons r rs ih =>
    intro l' h i
    cases l' with
    | nil => simp [RelL] at h
    | cons r' rs' =>
      cases i with
      | zero => simpa [OptRel] using h.1
      | succ i => simpa using ih h.2 i

private theorem RelL.set {φ : List (Nat × Nat)} {r r' : Ref} (hr : RefRel φ r r') :
    ∀ {l l' : List Ref}, RelL φ l l' → ∀ i, RelL φ (l.set i r) (l'.set i r') := by
  intro l
  induction l with
  | nil => intro l' h i; cases l' <;> simp_all [RelL]
  | cons x xs ih =>
    intro l' h i
    cases l' with
    | nil => simp [RelL] at h
    | cons x' xs' =>
      cases i with
      | zero => exact ⟨hr, h.2⟩
      | succ i => exact ⟨h.1, ih h.2 i⟩

private theorem RelL.append {φ : List (Nat × Nat)} {m m' : List Ref} (hm : RelL φ m m') :
    ∀ {l l' : List Ref}, RelL φ l l' → RelL φ (l ++ m) (l' ++ m') := by
  intro l
  induction l with
  | nil => intro l' h; cases l' <;> simp_all [RelL]
  | cons x xs ih =>
    intro l' h
    cases l' with
    | nil => simp [RelL] at h
    | cons x' xs' => exact ⟨h.1, ih h.2⟩

private theorem RelL.dropLast {φ : List (Nat × Nat)} :
    ∀ {l l' : List Ref}, RelL φ l l' → RelL φ l.dropLast l'.dropLast := by
  intro l
  induction l with
  | nil => intro l' h; cases l' <;> simp_all [RelL]
  | cons x xs ih =>
    intro l' h
    cases l' with
    | nil => simp [RelL] at h
    | cons x' xs' =>
      cases xs with
      | nil =>
        cases xs' with
        | nil => simp [RelL]
        | cons y ys => simp [RelL] at h
      | cons z zs =>
        cases xs' with
        | nil => simp [RelL] at h
        | cons y ys =>
          simp only [List.dropLast_cons_cons]
          exact ⟨h.1, ih h.2⟩

private theorem RelL.eraseIdx {φ : List (Nat × Nat)} :
    ∀ {l l' : List Ref}, RelL φ l l' → ∀ i, RelL φ (l.eraseIdx i) (l'.eraseIdx i) := by
  intro l
  induction l with
  | nil => intro l' h i; cases l' <;> simp_all [RelL]
  | cons x xs ih =>
    intro l' h i
    cases l' with
    | nil => simp [RelL] at h
    | cons x' xs' =>
      cases i with
      | zero => simpa using h.2
      | succ i => exact ⟨h.1, ih h.2 i⟩

private theorem RelL.map_eq {φ : List (Nat × Nat)} {γ : Type} {f g : Ref → γ} (hfg : ∀ r r', RefRel φ r r' → f r = g r') :
    ∀ {l l' : List Ref}, RelL φ l l' → l.map f = l'.map g := by
  intro l
  induction l with
  | nil => intro l' h; cases l' <;> simp_all [RelL]
  | cons x xs ih =>
    intro l' h
    cases l' with
    | nil => simp [RelL] at h
    | cons x' xs' => simp [hfg _ _ h.1, ih h.2]

private theorem RelL.vals {φ : List (Nat × Nat)} (vs : List Int) : RelL φ (vs.map Ref.val) (vs.map Ref.val) := by
  induction vs with
  | nil => simp [RelL]
  | cons v vs ih => exact ⟨by simp [RefRel], ih⟩

private theorem RelL.map_eq_mem {φ : List (Nat × Nat)} {γ : Type} {f g : Ref → γ} :
    ∀ {l l' : List Ref}, RelL φ l l' → (∀ r ∈ l, ∀ r', RefRel φ r r' → f r = g r') → l.map f = l'.map g := by
  intro l
  induction l with
  | nil => intro l' h _; cases l' <;> simp_all [RelL]
  | cons x xs ih =>
    intro l' h hfg
    cases l' with
    | nil => simp [RelL] at h
    | cons x' xs' =>
      simp only [List.map_cons]
      rw [hfg x (by simp) x' h.1, ih h.2 (fun r hr r' => hfg r (by simp [hr]) r')]

private theorem iso_observe {φ : List (Nat × Nat)} {h1 h2 : Heap} {a : Nat} (iso : IsoA φ h1 h2 a) :
    ∀ (n x y : Nat), (x, y) ∈ φ → Reach h1 a x → observe h1 n (.own x) = observe h2 n (.own y) := by
  intro n
  induction n with
  | zero => intro x y _ _; rfl
  | succ n ih =>
    intro x y hxy rx
    obtain ⟨o1, o2, ho1, ho2, hk, hs⟩ := iso (x, y) hxy rx
    simp only [observe, ho1, ho2]
    rw [hk]
    congr 1
    apply RelL.map_eq_mem hs
    intro r hr r' hrr
    cases r with
    | val v =>
      cases r' with
      | val v' => simp only [RefRel] at hrr; subst hrr; cases n <;> rfl
      | nav _ => simp [RefRel] at hrr
      | own _ => simp [RefRel] at hrr
    | nav m =>
      cases r' with
      | nav m' => simp only [RefRel] at hrr; subst hrr; cases n <;> rfl
      | val _ => simp [RefRel] at hrr
      | own _ => simp [RefRel] at hrr
    | own c =>
      cases r' with
      | own c' =>
        simp only [RefRel] at hrr
        exact ih c c' hrr (Reach.step rx ⟨o1, ho1, hr⟩)
      | val _ => simp [RefRel] at hrr
      | nav _ => simp [RefRel] at hrr

private theorem iso_resolve {φ : List (Nat × Nat)} {h1 h2 : Heap} {a : Nat} (iso : IsoA φ h1 h2 a) :
    ∀ (p : List Nat) (x y : Nat), (x, y) ∈ φ → Reach h1 a x →
      OptRel (fun t1 t2 => (t1, t2) ∈ φ ∧ Reach h1 a t1) (resolve h1 x p) (resolve h2 y p) := by
  intro p
  induction p with
  | nil => intro x y hxy rx; simpa [resolve, OptRel] using ⟨hxy, rx⟩
  | cons i p ih =>
    intro x y hxy rx
    obtain ⟨o1, o2, ho1, ho2, _, hs⟩ := iso (x, y) hxy rx
    simp only [resolve, ho1, ho2]
    have hg := RelL.get hs i
    cases e1 : o1.slots[i]? with
    | none =>
      rw [e1] at hg
      cases e2 : o2.slots[i]? with
      | none => simp [OptRel]
      | some r2 => rw [e2] at hg; simp [OptRel] at hg
    | some r1 =>
      rw [e1] at hg
      cases e2 : o2.slots[i]? with
      | none => rw [e2] at hg; simp [OptRel] at hg
      | some r2 =>
        rw [e2] at hg
        simp only [OptRel] at hg
        cases r1 with
        | own c =>
          cases r2 with
          | own c' =>
            simp only [RefRel] at hg
            exact ih c c' hg (Reach.step rx ⟨o1, ho1, List.mem_of_getElem? e1⟩)
          | val _ => simp [RefRel] at hg
          | nav _ => simp [RefRel] at hg
        | val v =>
          cases r2 with
          | val _ => simp [OptRel]
          | own _ => simp [RefRel] at hg
          | nav _ => simp [RefRel] at hg
        | nav m =>
          cases r2 with
          | nav _ => simp [OptRel]
          | own _ => simp [RefRel] at hg
          | val _ => simp [RefRel] at hg

private theorem optrel_some {α β : Type} {R : α → β → Prop} {x : α} {y : β} (h : R x y) : OptRel R (some x) (some y) := by
  simpa [OptRel] using h

private theorem newSlots_rel {φ : List (Nat × Nat)} {h1 h2 : Heap} {a : Nat} (iso : IsoA φ h1 h2 a) (haa : (a, a) ∈ φ)
    {ss1 ss2 : List Ref} (hs : RelL φ ss1 ss2) (w : Write) :
    OptRel (fun r1 r2 => RelL (φ ++ [(h1.length, h2.length)]) r1.1 r2.1 ∧ r1.2 = r2.2 ∧ (r1.2 = none → RelL φ r1.1 r2.1))
      (newSlots h1 a ss1 w) (newSlots h2 a ss2 w) := by
  have hl := RelL.length hs
  have hsub : ∀ p ∈ φ, p ∈ φ ++ [(h1.length, h2.length)] := fun p hp => by simp [hp]
  have hfresh : RefRel (φ ++ [(h1.length, h2.length)]) (.own h1.length) (.own h2.length) := by simp [RefRel]
  cases w with
  | setVal p i v =>
    by_cases hi : i < ss1.length
    · have hi2 : i < ss2.length := hl ▸ hi
      have hr : RelL φ (ss1.set i (.val v)) (ss2.set i (.val v)) := RelL.set (by simp [RefRel]) hs i
      simp only [newSlots, hi, hi2, if_true]
      exact optrel_some ⟨RelL.mono hsub hr, rfl, fun _ => hr⟩
    · have hi2 : ¬ i < ss2.length := hl ▸ hi
      simp [newSlots, hi, hi2, OptRel]
  | setNav p i m =>
    by_cases hi : i < ss1.length
    · have hi2 : i < ss2.length := hl ▸ hi
      have hr : RelL φ (ss1.set i (.nav m)) (ss2.set i (.nav m)) := RelL.set (by simp [RefRel]) hs i
      simp only [newSlots, hi, hi2, if_true]
      exact optrel_some ⟨RelL.mono hsub hr, rfl, fun _ => hr⟩
    · have hi2 : ¬ i < ss2.length := hl ▸ hi
      simp [newSlots, hi, hi2, OptRel]
  | push p v =>
    have hr : RelL φ (ss1 ++ [.val v]) (ss2 ++ [.val v]) := RelL.append (by simp [RelL, RefRel]) hs
    simp only [newSlots]
    exact optrel_some ⟨RelL.mono hsub hr, rfl, fun _ => hr⟩
  | pop p =>
    have hr : RelL φ ss1.dropLast ss2.dropLast := RelL.dropLast hs
    simp only [newSlots]
    exact optrel_some ⟨RelL.mono hsub hr, rfl, fun _ => hr⟩
  | erase p i =>
    have hr : RelL φ (ss1.eraseIdx i) (ss2.eraseIdx i) := RelL.eraseIdx hs i
    simp only [newSlots]
    exact optrel_some ⟨RelL.mono hsub hr, rfl, fun _ => hr⟩
  | setNew p i k vs =>
    by_cases hi : i < ss1.length
    · have hi2 : i < ss2.length := hl ▸ hi
      simp only [newSlots, hi, hi2, if_true]
      exact optrel_some ⟨RelL.set hfresh (RelL.mono hsub hs) i, rfl, fun e => by simp at e⟩
    · have hi2 : ¬ i < ss2.length := hl ▸ hi
      simp [newSlots, hi, hi2, OptRel]
  | pushNew p k vs =>
    simp only [newSlots]
    exact optrel_some ⟨RelL.append (by simpa [RelL] using hfresh) (RelL.mono hsub hs), rfl, fun e => by simp at e⟩
  | link p i q =>
    have hres := iso_resolve iso q a a haa Reach.refl
    by_cases hi : i < ss1.length
    · have hi2 : i < ss2.length := hl ▸ hi
      simp only [newSlots, hi, hi2, if_true]
      cases e1 : resolve h1 a q with
      | none =>
        rw [e1] at hres
        cases e2 : resolve h2 a q with
        | none => simp [OptRel]
        | some c2 => rw [e2] at hres; simp [OptRel] at hres
      | some c1 =>
        rw [e1] at hres
        cases e2 : resolve h2 a q with
        | none => rw [e2] at hres; simp [OptRel] at hres
        | some c2 =>
          rw [e2] at hres
          simp only [OptRel] at hres
          have hr : RelL φ (ss1.set i (.own c1)) (ss2.set i (.own c2)) := RelL.set (by simpa [RefRel] using hres.1) hs i
          exact optrel_some ⟨RelL.mono hsub hr, rfl, fun _ => hr⟩
    · have hi2 : ¬ i < ss2.length := hl ▸ hi
      simp [newSlots, hi, hi2, OptRel]
  | pushLink p q =>
    have hres := iso_resolve iso q a a haa Reach.refl
    simp only [newSlots]
    cases e1 : resolve h1 a q with
    | none =>
      rw [e1] at hres
      cases e2 : resolve h2 a q with
      | none => simp [OptRel]
      | some c2 => rw [e2] at hres; simp [OptRel] at hres
    | some c1 =>
      rw [e1] at hres
      cases e2 : resolve h2 a q with
      | none => rw [e2] at hres; simp [OptRel] at hres
      | some c2 =>
        rw [e2] at hres
        simp only [OptRel] at hres
        have hr : RelL φ (ss1 ++ [.own c1]) (ss2 ++ [.own c2]) := RelL.append (by simpa [RelL, RefRel] using hres.1) hs
        exact optrel_some ⟨RelL.mono hsub hr, rfl, fun _ => hr⟩

private theorem relL_self_of_no_own {φ : List (Nat × Nat)} : ∀ (l : List Ref), (∀ c, Ref.own c ∉ l) → RelL φ l l := by
  intro l
  induction l with
  | nil => intro _; simp [RelL]
  | cons r rs ih =>
    intro h
    refine ⟨?_, ih (fun c hc => h c (by simp [hc]))⟩
    cases r with
    | val v => simp [RefRel]
    | nav n => simp [RefRel]
    | own c => exact absurd (by simp) (h c)

/-- what a root reaches after one of its own writes: what it reached before, or the fresh object -/
private theorem set_reach {h : Heap} {b t : Nat} {o : Obj} {ss : List Ref} {fr : Option Obj}
    (wf : WF h) (hb : b < h.length) (ho : h[t]? = some o) (rt : Reach h b t)
    (hrefs : ∀ c, Ref.own c ∈ ss → Ref.own c ∈ o.slots ∨ (c = h.length ∧ fr.isSome) ∨ Reach h b c)
    (hfresh : ∀ o', fr = some o' → ∀ c, Ref.own c ∉ o'.slots) :
    ∀ x, Reach (h.set t ⟨o.kind, ss⟩ ++ fr.toList) b x → Reach h b x ∨ (x = h.length ∧ fr.isSome) := by
  have htlt : t < h.length := reach_lt wf hb rt
  have hobj : ∀ y o', (h.set t ⟨o.kind, ss⟩ ++ fr.toList)[y]? = some o' →
      (y < h.length ∧ y ≠ t ∧ h[y]? = some o') ∨ (y = t ∧ o' = ⟨o.kind, ss⟩) ∨ (y = h.length ∧ fr = some o') := by
    intro y o' hy
    by_cases hyl : y < h.length
    · by_cases hyt : y = t
      · subst hyt
        rw [List.getElem?_append_left (by simpa using hyl)] at hy
        rw [List.getElem?_set_self hyl] at hy
        simp at hy
        exact Or.inr (Or.inl ⟨rfl, hy.symm⟩)
      · rw [getElem?_step hyl hyt] at hy
        exact Or.inl ⟨hyl, hyt, hy⟩
    · have hge : (h.set t ⟨o.kind, ss⟩).length ≤ y := by simp; omega
      rw [List.getElem?_append_right hge] at hy
      cases fr with
      | none => simp at hy
      | some f =>
        simp at hy
        have : y - h.length = 0 := by
          rcases Nat.eq_zero_or_pos (y - h.length) with h0 | h0
          · exact h0
          · rw [List.getElem?_eq_none (by simp; omega)] at hy; simp at hy
        rw [this] at hy
        simp at hy
        exact Or.inr (Or.inr ⟨by omega, by rw [hy]⟩)
  intro x r
  induction r with
  | refl => exact Or.inl Reach.refl
  | @step y x _ e ih =>
    obtain ⟨o', ho', hm⟩ := e
    rcases hobj y o' ho' with ⟨_, _, hy⟩ | ⟨hy, rfl⟩ | ⟨hy, hfr⟩
    · rcases ih with ih | ih
      · exact Or.inl (Reach.step ih ⟨o', hy, hm⟩)
      · omega
    · subst hy
      rcases hrefs x hm with h1 | h1 | h1
      · exact Or.inl (Reach.step rt ⟨o, ho, h1⟩)
      · exact Or.inr h1
      · exact Or.inl h1
    · exact absurd hm (hfresh o' hfr x)

/-- the invariant of the simulation between the interleaved heap `h1` and the solo heap `h2` -/
private structure SimInv (fro : List Nat) (φ : List (Nat × Nat)) (h1 h2 : Heap) (a : Nat) : Prop where
  iso : IsoA φ h1 h2 a
  haa : (a, a) ∈ φ
  inj : ∀ p ∈ φ, ∀ q ∈ φ, p.1 = q.1 ↔ p.2 = q.2
  bnd : ∀ p ∈ φ, p.1 < h1.length ∧ p.2 < h2.length
  fa : ∀ p ∈ φ, p.1 ∈ fro ↔ p.2 ∈ fro
  fb : ∀ x ∈ fro, x < h1.length ∧ x < h2.length

private theorem getElem?_step' {h : Heap} {t : Nat} {o' : Obj} {fr : Option Obj} {x : Nat}
    (hx : x < h.length) (hne : x ≠ t) : (h.set t o' ++ fr.toList)[x]? = h[x]? := getElem?_step hx hne

private theorem getElem?_self {h : Heap} {t : Nat} {o' : Obj} {fr : Option Obj}
    (ht : t < h.length) : (h.set t o' ++ fr.toList)[t]? = some o' := by
  rw [List.getElem?_append_left (by simpa using ht), List.getElem?_set_self ht]

/-- one write through `a`, performed on both heaps -/
private theorem sim_step_a {fro : List Nat} {φ : List (Nat × Nat)} {h1 h2 : Heap} {a : Nat}
    (S : SimInv fro φ h1 h2 a) (wf1 : WF h1) (ha1 : a < h1.length) (w : Write) :
    ∃ φ', (∀ p ∈ φ, p ∈ φ') ∧ SimInv fro φ' (apply1 fro a h1 w) (apply1 fro a h2 w) a := by
  have hres := iso_resolve S.iso w.path a a S.haa Reach.refl
  unfold apply1
  cases e1 : resolve h1 a w.path with
  | none =>
    rw [e1] at hres
    cases e2 : resolve h2 a w.path with
    | none => exact ⟨φ, fun _ hp => hp, S⟩
    | some t2 => rw [e2] at hres; simp [OptRel] at hres
  | some t1 =>
    rw [e1] at hres
    cases e2 : resolve h2 a w.path with
    | none => rw [e2] at hres; simp [OptRel] at hres
    | some t2 =>
      rw [e2] at hres
      simp only [OptRel] at hres
      obtain ⟨ht12, rt1⟩ := hres
      obtain ⟨o1, o2, ho1, ho2, hk, hs⟩ := S.iso (t1, t2) ht12 rt1
      simp only [ho1, ho2]
      have hguard : (o1.kind = .imm ∨ t1 ∈ fro) ↔ (o2.kind = .imm ∨ t2 ∈ fro) := by
        rw [hk]; exact or_congr Iff.rfl (S.fa (t1, t2) ht12)
      by_cases hg : o1.kind = .imm ∨ t1 ∈ fro
      · have hg2 := hguard.mp hg
        simp only [hg, hg2, if_true]
        exact ⟨φ, fun _ hp => hp, S⟩
      · have hg2 : ¬ (o2.kind = .imm ∨ t2 ∈ fro) := fun h => hg (hguard.mpr h)
        simp only [hg, hg2, if_false]
        have hns := newSlots_rel S.iso S.haa hs w
        cases n1 : newSlots h1 a o1.slots w with
        | none =>
          rw [n1] at hns
          cases n2 : newSlots h2 a o2.slots w with
          | none => exact ⟨φ, fun _ hp => hp, S⟩
          | some r2 => rw [n2] at hns; simp [OptRel] at hns
        | some r1 =>
          rw [n1] at hns
          cases n2 : newSlots h2 a o2.slots w with
          | none => rw [n2] at hns; simp [OptRel] at hns
          | some r2 =>
            rw [n2] at hns
            obtain ⟨ss1, fr1⟩ := r1
            obtain ⟨ss2, fr2⟩ := r2
            simp only [OptRel] at hns
            obtain ⟨hrel, hfr, hrel0⟩ := hns
            subst hfr
            have ⟨hrefs, hfresh⟩ := newSlots_refs n1
            have ht1 : t1 < h1.length := (S.bnd _ ht12).1
            have ht2 : t2 < h2.length := (S.bnd _ ht12).2
            have hreach := set_reach (fr := fr1) wf1 ha1 ho1 rt1 hrefs hfresh
            -- the new relation
            cases fr1 with
            | none =>
              have hrel' := hrel0 rfl
              refine ⟨φ, fun _ hp => hp, ⟨?_, S.haa, S.inj, ?_, S.fa, ?_⟩⟩
              · intro p hp rp
                have hp1 := (S.bnd p hp).1
                have hp2 := (S.bnd p hp).2
                by_cases hpt : p.1 = t1
                · have hpt2 : p.2 = t2 := (S.inj p hp (t1, t2) ht12).mp hpt
                  refine ⟨⟨o1.kind, ss1⟩, ⟨o2.kind, ss2⟩, ?_, ?_, hk, hrel'⟩
                  · rw [hpt]; exact getElem?_self ht1
                  · rw [hpt2]; exact getElem?_self ht2
                · have hpt2 : p.2 ≠ t2 := fun e => hpt ((S.inj p hp (t1, t2) ht12).mpr e)
                  have rp0 : Reach h1 a p.1 := by
                    rcases hreach p.1 rp with r | ⟨_, hs'⟩
                    · exact r
                    · simp at hs'
                  obtain ⟨q1, q2, hq1, hq2, hq⟩ := S.iso p hp rp0
                  exact ⟨q1, q2, by rw [getElem?_step' hp1 hpt]; exact hq1, by rw [getElem?_step' hp2 hpt2]; exact hq2, hq⟩
              · intro p hp; simpa using S.bnd p hp
              · intro x hx; simpa using S.fb x hx
            | some f =>
              have hsub : ∀ p ∈ φ, p ∈ φ ++ [(h1.length, h2.length)] := fun p hp => by simp [hp]
              refine ⟨φ ++ [(h1.length, h2.length)], hsub, ⟨?_, hsub _ S.haa, ?_, ?_, ?_, ?_⟩⟩
              · intro p hp rp
                rcases List.mem_append.mp hp with hp | hp
                · have hp1 := (S.bnd p hp).1
                  have hp2 := (S.bnd p hp).2
                  by_cases hpt : p.1 = t1
                  · have hpt2 : p.2 = t2 := (S.inj p hp (t1, t2) ht12).mp hpt
                    refine ⟨⟨o1.kind, ss1⟩, ⟨o2.kind, ss2⟩, ?_, ?_, hk, hrel⟩
                    · rw [hpt]; exact getElem?_self ht1
                    · rw [hpt2]; exact getElem?_self ht2
                  · have hpt2 : p.2 ≠ t2 := fun e => hpt ((S.inj p hp (t1, t2) ht12).mpr e)
                    have rp0 : Reach h1 a p.1 := by
                      rcases hreach p.1 rp with r | ⟨e, _⟩
                      · exact r
                      · omega
                    obtain ⟨q1, q2, hq1, hq2, hqk, hqs⟩ := S.iso p hp rp0
                    exact ⟨q1, q2, by rw [getElem?_step' hp1 hpt]; exact hq1, by rw [getElem?_step' hp2 hpt2]; exact hq2,
                      hqk, RelL.mono hsub hqs⟩
                · simp only [List.mem_singleton] at hp
                  subst hp
                  refine ⟨f, f, ?_, ?_, rfl, relL_self_of_no_own _ (hfresh f rfl)⟩
                  · simp
                  · simp
              · intro p hp q hq
                rcases List.mem_append.mp hp with hp | hp <;> rcases List.mem_append.mp hq with hq | hq
                · exact S.inj p hp q hq
                · simp only [List.mem_singleton] at hq; subst hq
                  have := S.bnd p hp
                  constructor <;> intro e <;> simp only at e <;> omega
                · simp only [List.mem_singleton] at hp; subst hp
                  have := S.bnd q hq
                  constructor <;> intro e <;> simp only at e <;> omega
                · simp only [List.mem_singleton] at hp hq; subst hp; subst hq; simp
              · intro p hp
                rcases List.mem_append.mp hp with hp | hp
                · have := S.bnd p hp; simp; omega
                · simp only [List.mem_singleton] at hp; subst hp; simp
              · intro p hp
                rcases List.mem_append.mp hp with hp | hp
                · exact S.fa p hp
                · simp only [List.mem_singleton] at hp; subst hp
                  constructor <;> intro e
                  · have := (S.fb _ e).1; simp only at this; omega
                  · have := (S.fb _ e).2; simp only at this; omega
              · intro x hx; have := S.fb x hx; simp; omega

private theorem apply1_length (fro : List Nat) (b : Nat) (h : Heap) (w : Write) : h.length ≤ (apply1 fro b h w).length := by
  rcases (apply1_step fro b h w).unchanged_or with e | ⟨t, o, ss, fr, _, _, _, _, e, _, _⟩
  · rw [e]; exact Nat.le_refl _
  · rw [e]; simp

/-- one write through `b` on the interleaved heap only -/
private theorem sim_step_b {fro : List Nat} {φ : List (Nat × Nat)} {h1 h2 : Heap} {a b : Nat}
    (S : SimInv fro φ h1 h2 a) (inv : Inv fro h1 a b) (w : Write) : SimInv fro φ (apply1 fro b h1 w) h2 a := by
  have ⟨_, same⟩ := step_frame inv (apply1_step fro b h1 w)
  have hl := apply1_length fro b h1 w
  refine ⟨?_, S.haa, S.inj, ?_, S.fa, ?_⟩
  · intro p hp rp
    have rp0 : Reach h1 a p.1 := reach_local same p.1 rp
    obtain ⟨o1, o2, ho1, ho2, hr⟩ := S.iso p hp rp0
    exact ⟨o1, o2, by rw [same p.1 rp0]; exact ho1, ho2, hr⟩
  · intro p hp; have := S.bnd p hp; exact ⟨by omega, this.2⟩
  · intro x hx; have := S.fb x hx; exact ⟨by omega, this.2⟩

private theorem relL_self {φ : List (Nat × Nat)} : ∀ (l : List Ref), (∀ c, Ref.own c ∈ l → (c, c) ∈ φ) → RelL φ l l := by
  intro l
  induction l with
  | nil => intro _; simp [RelL]
  | cons r rs ih =>
    intro h
    refine ⟨?_, ih (fun c hc => h c (by simp [hc]))⟩
    cases r with
    | val v => simp [RefRel]
    | nav n => simp [RefRel]
    | own c => simpa [RefRel] using h c (by simp)

private theorem sim_init (fro : List Nat) (h : Heap) (a : Nat) (wf : WF h) (ha : a < h.length)
    (hfro : ∀ x ∈ fro, x < h.length) : SimInv fro ((List.range h.length).map (fun i => (i, i))) h h a := by
  have hmem : ∀ i, i < h.length → (i, i) ∈ (List.range h.length).map (fun i => (i, i)) := by
    intro i hi; simp [hi]
  have hof : ∀ p ∈ (List.range h.length).map (fun i => (i, i)), p.1 = p.2 ∧ p.1 < h.length := by
    intro p hp
    simp only [List.mem_map, List.mem_range] at hp
    obtain ⟨i, hi, rfl⟩ := hp
    exact ⟨rfl, hi⟩
  refine ⟨?_, hmem a ha, ?_, ?_, ?_, ?_⟩
  · intro p hp _
    obtain ⟨e, hlt⟩ := hof p hp
    have ho : h[p.1]? = some h[p.1] := List.getElem?_eq_getElem hlt
    refine ⟨h[p.1], h[p.1], ho, by rw [← e]; exact ho, rfl, ?_⟩
    apply relL_self
    intro c hc
    exact hmem c (wf p.1 c ⟨_, ho, hc⟩)
  · intro p hp q hq
    have := (hof p hp).1; have := (hof q hq).1
    constructor <;> intro e <;> omega
  · intro p hp; have := hof p hp; exact ⟨this.2, by omega⟩
  · intro p hp; rw [(hof p hp).1]
  · intro x hx; exact ⟨hfro x hx, hfro x hx⟩

private theorem interleaved_solo_aux (fro : List Nat) (a b : Nat) (ws : List (Bool × Write)) :
    ∀ (h1 h2 : Heap) (φ : List (Nat × Nat)), Inv fro h1 a b → SimInv fro φ h1 h2 a →
      ∀ n, observe (applyTagged fro a b h1 ws) n (.own a) = observe (applyAll fro a h2 (writesOf false ws)) n (.own a) := by
  induction ws with
  | nil =>
    intro h1 h2 φ _ S n
    simpa [applyTagged, writesOf, applyAll] using iso_observe S.iso n a a S.haa Reach.refl
  | cons tw ws ih =>
    intro h1 h2 φ inv S n
    obtain ⟨t, w⟩ := tw
    cases t with
    | true =>
      have ⟨inv', _⟩ := step_frame inv (apply1_step fro b h1 w)
      have S' := sim_step_b S inv w
      simpa [applyTagged, writesOf] using ih _ h2 φ inv' S' n
    | false =>
      have invs : Inv fro h1 b a := ⟨inv.wf, inv.hb, inv.ha, sep_symm _ _ _ _ inv.sep⟩
      have ⟨i', _⟩ := step_frame invs (apply1_step fro a h1 w)
      have inv' : Inv fro (apply1 fro a h1 w) a b := ⟨i'.wf, i'.hb, i'.ha, sep_symm _ _ _ _ i'.sep⟩
      obtain ⟨φ', _, S'⟩ := sim_step_a S inv.wf inv.ha w
      simpa [applyTagged, writesOf, applyAll] using ih _ _ φ' inv' S' n

private theorem applyTagged_swap (fro : List Nat) (a b : Nat) : ∀ (ws : List (Bool × Write)) (h : Heap),
    applyTagged fro a b h ws = applyTagged fro b a h (ws.map (fun tw => (!tw.1, tw.2))) := by
  intro ws
  induction ws with
  | nil => intro h; rfl
  | cons tw ws ih =>
    intro h
    obtain ⟨t, w⟩ := tw
    cases t <;> simp [applyTagged, ih]

private theorem writesOf_swap (t : Bool) (ws : List (Bool × Write)) :
    writesOf t (ws.map (fun tw => (!tw.1, tw.2))) = writesOf (!t) ws := by
  induction ws with
  | nil => rfl
  | cons tw ws ih =>
    obtain ⟨t', w⟩ := tw
    simp only [writesOf, List.map_cons, List.filter_cons] at ih ⊢
    cases t <;> cases t' <;> simp_all

/-- **interleaved_solo**: two separated roots (two documents in one process) under ANY interleaving of writes through
    the one and through the other: at the end each root observes, at every depth, exactly what it observes after its
    OWN writes alone, applied to the initial heap (the two heaps differ by the addresses of the objects allocated on
    the way; the proof is a simulation up to a partial bijection of addresses that grows with every allocation). -/
theorem interleaved_solo (fro : List Nat) (h : Heap) (a b : Nat) (ws : List (Bool × Write))
    (wf : WF h) (ha : a < h.length) (hb : b < h.length) (sep : Sep fro h a b) (hfro : ∀ x ∈ fro, x < h.length) :
    (∀ n, observe (applyTagged fro a b h ws) n (.own a) = observe (applyAll fro a h (writesOf false ws)) n (.own a)) ∧
    (∀ n, observe (applyTagged fro a b h ws) n (.own b) = observe (applyAll fro b h (writesOf true ws)) n (.own b)) := by
  constructor
  · exact interleaved_solo_aux fro a b ws h h _ ⟨wf, ha, hb, sep⟩ (sim_init fro h a wf ha hfro)
  · intro n
    rw [applyTagged_swap]
    have := interleaved_solo_aux fro b a (ws.map (fun tw => (!tw.1, tw.2))) h h _
      ⟨wf, hb, ha, sep_symm _ _ _ _ sep⟩ (sim_init fro h b wf hb hfro) n
    rw [writesOf_swap] at this
    simpa using this

/-! ### the model of CopyStrategy.copy -/

/-- induction over value trees: children of `node` / `ent` satisfy the property -/
private theorem atree_induct (P : ATree → Prop)
    (hleaf : ∀ v, P (.leaf v)) (hnav : ∀ a, P (.navr a)) (hshare : ∀ a o, P (.share a o))
    (hnode : ∀ a k cs, (∀ t ∈ cs, P t) → P (.node a k cs))
    (hent : ∀ a c cs, (∀ t ∈ cs, P t) → P (.ent a c cs)) : ∀ t, P t := by
  have h := deepT.mutual_induct P (fun ts => ∀ t ∈ ts, P t) hleaf hnav hshare hnode hent
    (by intro t ht; simp at ht)
    (by
      intro t ts h1 h2 x hx
      rcases List.mem_cons.mp hx with rfl | hx
      · exact h1
      · exact h2 x hx)
  exact h.1

private theorem deep_content_aux :
    (∀ t, content (deepT t) = content t) ∧ (∀ ts, contents (deepTs ts) = contents ts) := by
  apply deepT.mutual_induct
  · intro v; simp [deepT, content]
  · intro a; simp [deepT, content]
  · intro a o; simp [deepT, content]
  · intro a k cs ih; simp [deepT, content, ih]
  · intro a c cs ih; simp [deepT, content, ih]
  · simp [deepTs, contents]
  · intro t ts h1 h2; simp [deepTs, contents, h1, h2]

private theorem contents_map_alias : ∀ cs, contents (cs.map aliasT) = contents cs := by
  intro cs
  induction cs with
  | nil => rfl
  | cons t ts ih =>
    simp only [List.map_cons, contents, ih]
    cases t <;> simp [aliasT, content]

private theorem alias_content (t : ATree) : content (aliasT t) = content t := by
  cases t <;> simp [aliasT, content]

private theorem shallow_content (t : ATree) : content (shallowT t) = content t := by
  cases t <;> simp [shallowT, content, contents_map_alias]

private theorem ns_content (a : Nat) (k : Kind) (h o : ATree) (attrs : List ATree) :
    content (nsT (.node a k (h :: o :: attrs))) = .node k (.leaf NONE :: .leaf NONE :: contents attrs) := by
  simp [nsT, content, contents, contents_map_alias]

/-! copy_no_handle -/

private theorem noHandle_parts (rc : Nat → List Policy) (bl : Nat → List ATree) (doc : Bool) (src : Nat) :
    ∀ (ps : List Policy) (parts blank : List ATree),
      (∀ t ∈ parts, shapeOK rc t = true → noHandle rc (entsT rc bl t) = true) →
      shapeParts rc ps parts = true →
      noHandleParts rc ps (kidsT rc bl doc src blank (ps.map Role.part) parts) = true := by
  intro ps
  induction ps with
  | nil => intro parts blank _ _; cases parts <;> simp [kidsT, noHandleParts]
  | cons p ps ih =>
    intro parts blank hP hs
    cases parts with
    | nil => simp [kidsT, noHandleParts]
    | cons t ts =>
      have hrest : ∀ x ∈ ts, shapeOK rc x = true → noHandle rc (entsT rc bl x) = true :=
        fun x hx => hP x (by simp [hx])
      cases p <;> simp only [List.map_cons, kidsT, noHandleParts, shapeParts, Bool.and_eq_true] at hs ⊢
      all_goals first
        | exact ih ts _ hrest hs
        | exact ⟨hP t (by simp) hs.1, ih ts _ hrest hs.2⟩

private theorem noHandle_ents (rc : Nat → List Policy) (bl : Nat → List ATree) :
    ∀ t, shapeOK rc t = true → noHandle rc (entsT rc bl t) = true := by
  apply atree_induct
  · intro v _; simp [entsT, noHandle]
  · intro a _; simp [entsT, noHandle]
  · intro a o _; simp [entsT, noHandle]
  · intro a k cs ih hs
    simp only [entsT, noHandle]
    simp only [shapeOK] at hs
    induction cs with
    | nil => simp [entsTs, noHandleL]
    | cons t ts ihl =>
      simp only [shapeOKL, Bool.and_eq_true] at hs
      simp only [entsTs, noHandleL, Bool.and_eq_true]
      exact ⟨ih t (by simp) hs.1, ihl (fun x hx => ih x (by simp [hx])) hs.2⟩
  · intro a c cs ih hs
    unfold shapeOK at hs
    split at hs
    · rename_i x a' c' d na nk h o attrs xd re px ad xt so parts heq
      cases heq
      simp only [Bool.and_eq_true] at hs
      have hxd : noHandle rc (entsT rc bl xd) = true := ih xd (by simp) hs.1
      have hparts := noHandle_parts rc bl (hasDoc (d :: .node na nk (h :: o :: attrs) :: xd :: re :: px :: ad :: xt :: so :: parts)) a
        (rc c) parts (bl c) (fun t ht => ih t (by simp [ht])) hs.2
      simp only [entsT, rolesOf, headerRoles, List.cons_append, List.nil_append, kidsT, nsT, Role.nextBlank]
      cases hd : hasDoc (d :: .node na nk (h :: o :: attrs) :: xd :: re :: px :: ad :: xt :: so :: parts)
      · rw [hd] at hparts
        simp [noHandle, hparts, NONE]
      · rw [hd] at hparts
        simp [noHandle, hparts, hxd, NONE]
    all_goals first
      | (simp at hs; done)
      | (rename_i heq; cases heq; done)
      | (rename_i hne _; exact (hne _ _ _ rfl).elim)

/-- **copy_no_handle**: for every recipe table, every table of default parts and every well formed entity tree:
    the top entity of the model copy and every entity that the strategy produces below it (extension dictionary
    and its entries, sub-entities of `ents` parts, recursively) have handle = owner = reactors = None -/
theorem copy_no_handle (rc : Nat → List Policy) (bl : Nat → List ATree) (a c : Nat) (cs : List ATree)
    (hs : shapeOK rc (.ent a c cs) = true) : noHandle rc (copyT rc bl (.ent a c cs)) = true := by
  have := noHandle_ents rc bl (.ent a c cs) hs
  simpa [copyT, entsT] using this

/-! alloc -/

private def RefOK (n0 : Nat) (sh : List Nat) (n' : Nat) : Ref → Prop
  | .own c => (n0 ≤ c ∧ c < n') ∨ c ∈ sh
  | _ => True

private theorem RefOK.weaken {n0 n0' n n' : Nat} {sh sh' : List Nat} {r : Ref} (h : RefOK n0 sh n r)
    (h0 : n0' ≤ n0) (hn : n ≤ n') (hs : ∀ s ∈ sh, s ∈ sh') : RefOK n0' sh' n' r := by
  cases r with
  | own c =>
    simp only [RefOK] at h ⊢
    rcases h with ⟨h1, h2⟩ | h1
    · exact Or.inl ⟨by omega, by omega⟩
    · exact Or.inr (hs c h1)
  | val v => trivial
  | nav a => trivial

private structure Ext (h0 : Heap) (sh : List Nat) (h' : Heap) : Prop where
  ext : ∃ e, h' = h0 ++ e
  refs : ∀ i, h0.length ≤ i → ∀ o, h'[i]? = some o → ∀ r ∈ o.slots, RefOK h0.length sh h'.length r

private theorem Ext.refl (h0 : Heap) : Ext h0 [] h0 :=
  ⟨⟨[], by simp⟩, fun i hi o ho => by
    rw [List.getElem?_eq_none (by omega)] at ho; simp at ho⟩

private theorem Ext.len {h0 h' : Heap} {sh : List Nat} (E : Ext h0 sh h') : h0.length ≤ h'.length := by
  obtain ⟨e, rfl⟩ := E.ext; simp

private theorem Ext.old {h0 h' : Heap} {sh : List Nat} (E : Ext h0 sh h') {i : Nat} (hi : i < h0.length) :
    h'[i]? = h0[i]? := by
  obtain ⟨e, rfl⟩ := E.ext
  exact List.getElem?_append_left hi

private theorem Ext.weaken {h0 h' : Heap} {sh sh' : List Nat} (E : Ext h0 sh h') (hs : ∀ s ∈ sh, s ∈ sh') :
    Ext h0 sh' h' :=
  ⟨E.ext, fun i hi o ho r hr => (E.refs i hi o ho r hr).weaken (Nat.le_refl _) (Nat.le_refl _) hs⟩

private theorem Ext.trans {h0 h1 h2 : Heap} {sh1 sh2 : List Nat} (E1 : Ext h0 sh1 h1) (E2 : Ext h1 sh2 h2) :
    Ext h0 (sh1 ++ sh2) h2 := by
  obtain ⟨e1, rfl⟩ := E1.ext
  obtain ⟨e2, rfl⟩ := E2.ext
  refine ⟨⟨e1 ++ e2, by simp⟩, ?_⟩
  intro i hi o ho r hr
  by_cases h1 : i < (h0 ++ e1).length
  · have : (h0 ++ e1 ++ e2)[i]? = (h0 ++ e1)[i]? := List.getElem?_append_left h1
    rw [this] at ho
    exact (E1.refs i hi o ho r hr).weaken (Nat.le_refl _) (by simp) (by intro s hs; simp [hs])
  · exact (E2.refs i (by omega) o ho r hr).weaken (by simp) (Nat.le_refl _) (by intro s hs; simp [hs])

private theorem Ext.push {h0 h1 : Heap} {sh : List Nat} (E : Ext h0 sh h1) (k : Kind) (rs : List Ref)
    (hrs : ∀ r ∈ rs, RefOK h0.length sh h1.length r) :
    Ext h0 sh (h1 ++ [(⟨k, rs⟩ : Obj)]) ∧
      RefOK h0.length sh (h1 ++ [(⟨k, rs⟩ : Obj)]).length (.own h1.length) := by
  have hl := E.len
  obtain ⟨e1, rfl⟩ := E.ext
  refine ⟨⟨⟨e1 ++ [(⟨k, rs⟩ : Obj)], by simp⟩, ?_⟩, ?_⟩
  · intro i hi o ho r hr
    by_cases h1 : i < (h0 ++ e1).length
    · have : (h0 ++ e1 ++ [(⟨k, rs⟩ : Obj)])[i]? = (h0 ++ e1)[i]? := List.getElem?_append_left h1
      rw [this] at ho
      exact (E.refs i hi o ho r hr).weaken (Nat.le_refl _) (by simp) (fun s hs => hs)
    · by_cases h2 : i = (h0 ++ e1).length
      · subst h2
        simp at ho
        subst ho
        exact (hrs r hr).weaken (Nat.le_refl _) (by simp) (fun s hs => hs)
      · rw [List.getElem?_eq_none (by simp at h1 h2 ⊢; omega)] at ho; simp at ho
  · simp only [RefOK]
    left
    constructor
    · exact hl
    · simp

private theorem alloc_ext_aux :
    (∀ t h0, Ext h0 (shares t) (alloc h0 t).1 ∧
       RefOK h0.length (shares t) (alloc h0 t).1.length (alloc h0 t).2) ∧
    (∀ ts h0, Ext h0 (sharesL ts) (allocs h0 ts).1 ∧
       ∀ r ∈ (allocs h0 ts).2, RefOK h0.length (sharesL ts) (allocs h0 ts).1.length r) := by
  apply deepT.mutual_induct
  · intro v h0; simp only [alloc, shares]; exact ⟨Ext.refl h0, trivial⟩
  · intro a h0; simp only [alloc, shares]; exact ⟨Ext.refl h0, trivial⟩
  · intro a o h0
    simp only [alloc, shares]
    exact ⟨(Ext.refl h0).weaken (by simp), by simp [RefOK]⟩
  · intro a k cs ih h0
    simp only [alloc, shares]
    exact (ih h0).1.push k _ (ih h0).2
  · intro a c cs ih h0
    simp only [alloc, shares]
    exact (ih h0).1.push .cell _ (ih h0).2
  · intro h0; simp only [allocs, sharesL]; exact ⟨Ext.refl h0, by simp⟩
  · intro t ts iht ihts h0
    simp only [allocs, sharesL]
    have h1 := iht h0
    have h2 := ihts (alloc h0 t).1
    refine ⟨h1.1.trans h2.1, ?_⟩
    intro r hr
    rcases List.mem_cons.mp hr with rfl | hr
    · exact h1.2.weaken (Nat.le_refl _) h2.1.len (by intro s hs; simp [hs])
    · exact (h2.2 r hr).weaken h1.1.len (Nat.le_refl _) (by intro s hs; simp [hs])

/-- `copy.deepcopy` preserves the value -/
theorem deep_content (t : ATree) : content (deepT t) = content t := deep_content_aux.1 t

private theorem ext_reach {h0 h' : Heap} {sh : List Nat} (wf : WF h0) (hsh : ∀ s ∈ sh, s < h0.length)
    (E : Ext h0 sh h') (c x : Nat) (hc : h0.length ≤ c ∨ ∃ s ∈ sh, Reach h0 s c) (r : Reach h' c x) :
    h0.length ≤ x ∨ ∃ s ∈ sh, Reach h0 s x := by
  induction r with
  | refl => exact hc
  | @step y x _ e ih =>
    obtain ⟨o, ho, hm⟩ := e
    rcases ih with hy | ⟨s, hs, rs⟩
    · have := E.refs y hy o ho _ hm
      simp only [RefOK] at this
      rcases this with ⟨h1, _⟩ | h1
      · exact Or.inl h1
      · exact Or.inr ⟨x, h1, Reach.refl⟩
    · have hy : y < h0.length := reach_lt wf (hsh s hs) rs
      rw [E.old hy] at ho
      exact Or.inr ⟨s, hs, Reach.step rs ⟨o, ho, hm⟩⟩

private theorem ext_old_reach {h0 h' : Heap} {sh : List Nat} (wf : WF h0) (E : Ext h0 sh h') {a : Nat}
    (ha : a < h0.length) : ∀ x, Reach h' a x → Reach h0 a x :=
  reach_local (fun _ rx => E.old (reach_lt wf ha rx))

private theorem ext_wf {h0 h' : Heap} {sh : List Nat} (wf : WF h0) (hsh : ∀ s ∈ sh, s < h0.length)
    (E : Ext h0 sh h') : WF h' := by
  intro y x ⟨o, ho, hm⟩
  have hl := E.len
  by_cases hy : y < h0.length
  · rw [E.old hy] at ho
    have := wf y x ⟨o, ho, hm⟩
    omega
  · have := E.refs y (by omega) o ho _ hm
    simp only [RefOK] at this
    rcases this with ⟨_, h2⟩ | h1
    · exact h2
    · have := hsh x h1; omega

/-- **copy_separates**: build the result of the model copy of an entity tree `t` in a heap `h` that holds the
    source `a` (and everything else).  The clone reaches only new objects and what the aliased parts
    (`shares`) reach; so if those reach only immutable or frozen objects, source and clone satisfy the
    hypothesis of `frame` - for every recipe, every tree, every heap. -/
theorem copy_separates (rc : Nat → List Policy) (bl : Nat → List ATree) (frozen : List Nat)
    (h : Heap) (wf : WF h) (a : Nat) (ha : a < h.length) (t : ATree)
    (hsh : ∀ s ∈ shares (copyT rc bl t), s < h.length)
    (hfro : ∀ s ∈ shares (copyT rc bl t), ∀ x, Reach h s x → isImm h x = true ∨ x ∈ frozen)
    (c : Nat) (hc : (alloc h (copyT rc bl t)).2 = .own c) :
    WF (alloc h (copyT rc bl t)).1 ∧ a < (alloc h (copyT rc bl t)).1.length ∧
    c < (alloc h (copyT rc bl t)).1.length ∧ Sep frozen (alloc h (copyT rc bl t)).1 a c := by
  have ⟨E, hr⟩ := alloc_ext_aux.1 (copyT rc bl t) h
  rw [hc] at hr
  simp only [RefOK] at hr
  have hl := E.len
  refine ⟨ext_wf wf hsh E, by omega, ?_, ?_⟩
  · rcases hr with ⟨_, h2⟩ | h1
    · exact h2
    · have := hsh c h1; omega
  · intro x ra rb
    have ra0 : Reach h a x := ext_old_reach wf E ha x ra
    have hx : x < h.length := reach_lt wf ha ra0
    have hcstart : h.length ≤ c ∨ ∃ s ∈ shares (copyT rc bl t), Reach h s c := by
      rcases hr with ⟨h1, _⟩ | h1
      · exact Or.inl h1
      · exact Or.inr ⟨c, h1, Reach.refl⟩
    rcases ext_reach wf hsh E c x hcstart rb with h1 | ⟨s, hs, rs⟩
    · omega
    · rcases hfro s hs x rs with h2 | h2
      · left; rw [isImm_of_getElem? (E.old hx)]; exact h2
      · exact Or.inr h2

/-- `copy_separates` for an arbitrary result tree (the proof never looks at how the tree was made) -/
private theorem alloc_separates (frozen : List Nat) (h : Heap) (wf : WF h) (a : Nat) (ha : a < h.length) (t' : ATree)
    (hsh : ∀ s ∈ shares t', s < h.length)
    (hfro : ∀ s ∈ shares t', ∀ x, Reach h s x → isImm h x = true ∨ x ∈ frozen)
    (c : Nat) (hc : (alloc h t').2 = .own c) :
    WF (alloc h t').1 ∧ a < (alloc h t').1.length ∧ c < (alloc h t').1.length ∧ Sep frozen (alloc h t').1 a c := by
  have ⟨E, hr⟩ := alloc_ext_aux.1 t' h
  rw [hc] at hr
  simp only [RefOK] at hr
  have hl := E.len
  refine ⟨ext_wf wf hsh E, by omega, ?_, ?_⟩
  · rcases hr with ⟨_, h2⟩ | h1
    · exact h2
    · have := hsh c h1; omega
  · intro x ra rb
    have ra0 : Reach h a x := ext_old_reach wf E ha x ra
    have hx : x < h.length := reach_lt wf ha ra0
    have hcstart : h.length ≤ c ∨ ∃ s ∈ shares t', Reach h s c := by
      rcases hr with ⟨h1, _⟩ | h1
      · exact Or.inl h1
      · exact Or.inr ⟨c, h1, Reach.refl⟩
    rcases ext_reach wf hsh E c x hcstart rb with h1 | ⟨s, hs, rs⟩
    · omega
    · rcases hfro s hs x rs with h2 | h2
      · left; rw [isImm_of_getElem? (E.old hx)]; exact h2
      · exact Or.inr h2

/-! ### recipes as programs (Model/HeapRecipe.lean): every class, every source tree -/

/-- **recipe_shares_ok**: for every recipe table `rc` that passes the static check `partsSafe` against a type table
    `cty` (class by class), every heap, every well typed source tree `t` that the heap holds, and every table of
    generator inputs: whatever the model copy `copyTop rc env t` references instead of copying is a value that is
    harmless to share (`okT`: immutable kinds and members of the Frozen list only) and that the heap holds. -/
theorem recipe_shares_ok (rc : Nat → List PPol) (cty : Nat → List Ty) (env : Nat → ATree) (h : Heap) (fro : List Nat)
    (hsafe : ∀ c, partsSafe (rc c) (cty c) = true)
    (henv : ∀ i, wt fro cty (env i) = true ∧ ∃ r, Rep h (env i) r)
    (t : ATree) (r : Ref) (hw : wt fro cty t = true) (hr : Rep h t r) :
    ∀ p ∈ sharesO (copyTop rc env t), okT fro p.2 = true ∧ noSh p.2 = true ∧ Rep h p.2 (.own p.1) :=
  Recipe.copyTop_good rc cty env h fro hsafe henv t r hw hr

/-- **copyP_no_handle**: the program-recipe model of `CopyStrategy.copy` (the one correspondence X2 runs against every
    class) resets handle and owner and drops the reactors of EVERY entity it copies - the top entity and, because
    `polT .ents` is the same function, every sub-entity reached through an `ents` policy (extension dictionary and its
    entries, attribs, vertices, SEQEND, linked MTEXT columns, virtual block content): for every recipe table, every
    generator table and every entity tree with a namespace, whatever its parts are.  The attribute values are passed
    by reference, `source_of_copy` is set to the source. -/
theorem copyP_no_handle (rc : Nat → List PPol) (g : Nat → ATree) (a c na : Nat) (nk : Kind)
    (d hd ow xd re px ad xt so : ATree) (attrs parts : List ATree) :
    ∃ xd' parts', copyP rc g (.ent a c (d :: .node na nk (hd :: ow :: attrs) :: xd :: re :: px :: ad :: xt :: so :: parts)) =
      .ent a c (d :: .node na nk (.leaf NONE :: .leaf NONE :: attrs.map aliasT) :: xd' :: .leaf NONE :: px ::
        deepT ad :: deepT xt :: .navr a :: parts') := by
  refine ⟨if hasDoc (d :: .node na nk (hd :: ow :: attrs) :: xd :: re :: px :: ad :: xt :: so :: parts) then polT rc g .ents xd else .leaf NONE,
    kidsP rc g (hasDoc (d :: .node na nk (hd :: ow :: attrs) :: xd :: re :: px :: ad :: xt :: so :: parts)) a ((rc c).map RoleP.part) parts, ?_⟩
  simp only [copyP, polT, rolesOfP, headerRolesP, List.cons_append, List.nil_append, kidsP, nsT]

/-- **recipe_separates**: under the same hypotheses, building the copy in the heap gives a root `c` that is
    separated from the source `a` in the sense of `frame` - for every safe recipe table, heap, source tree. -/
theorem recipe_separates (rc : Nat → List PPol) (cty : Nat → List Ty) (env : Nat → ATree) (h : Heap) (fro : List Nat)
    (hsafe : ∀ c, partsSafe (rc c) (cty c) = true)
    (henv : ∀ i, wt fro cty (env i) = true ∧ ∃ r, Rep h (env i) r)
    (wf : WF h) (a : Nat) (t : ATree) (hw : wt fro cty t = true) (hr : Rep h t (.own a)) (ha : a < h.length)
    (c : Nat) (hc : (copyInto rc env h t).2 = .own c) :
    WF (copyInto rc env h t).1 ∧ a < (copyInto rc env h t).1.length ∧ c < (copyInto rc env h t).1.length ∧
    Sep fro (copyInto rc env h t).1 a c := by
  have hg := Recipe.copyTop_good rc cty env h fro hsafe henv t (.own a) hw hr
  have ⟨h1, h2⟩ := Recipe.good_shares hg
  exact alloc_separates fro h wf a ha (copyTop rc env t) h1 h2 c hc

/-- **flow_frame** (virtual_entities / explode / copy_to_layout / add_attrib as heap programs): produce the copy,
    then do ANY sequence of writes through it (transformation, re-linking into a layout's entity list, new
    attributes, ...): the observation of the source is unchanged, at every depth, and source and product stay
    separated (so the next product, or writes through the source, are covered again). -/
theorem flow_frame (rc : Nat → List PPol) (cty : Nat → List Ty) (env : Nat → ATree) (h : Heap) (fro : List Nat)
    (hsafe : ∀ c, partsSafe (rc c) (cty c) = true)
    (henv : ∀ i, wt fro cty (env i) = true ∧ ∃ r, Rep h (env i) r)
    (wf : WF h) (a : Nat) (t : ATree) (hw : wt fro cty t = true) (hr : Rep h t (.own a)) (ha : a < h.length)
    (c : Nat) (hc : (copyInto rc env h t).2 = .own c) (ws : List Write) :
    (∀ n, observe (applyAll fro c (copyInto rc env h t).1 ws) n (.own a) = observe h n (.own a)) ∧
    Sep fro (applyAll fro c (copyInto rc env h t).1 ws) a c := by
  obtain ⟨wf', ha', hc', sep⟩ := recipe_separates rc cty env h fro hsafe henv wf a t hw hr ha c hc
  refine ⟨fun n => ?_, (sep_preserved fro _ a c ws wf' ha' hc' sep).2⟩
  rw [frame fro _ a c ws wf' ha' hc' sep n]
  -- building the copy appends objects to the heap: what the source observes is what it observed before
  have ⟨E, _⟩ := alloc_ext_aux.1 (copyTop rc env t) h
  exact observe_local n a (fun x rx => E.old (reach_lt wf ha rx))

/-- a tree that the heap holds at an owning reference lives inside the heap -/
private theorem rep_own_lt (h : Heap) : ∀ (t : ATree) (a : Nat), Rep h t (.own a) → a < h.length := by
  have hlt : ∀ (a : Nat) (o : Obj), h[a]? = some o → a < h.length := by
    intro a o ho
    rcases Nat.lt_or_ge a h.length with hl | hl
    · exact hl
    · rw [List.getElem?_eq_none hl] at ho; simp at ho
  intro t
  induction t using ATree.rec (motive_2 := fun _ => True) with
  | leaf v => intro a hr; simp [Rep] at hr
  | navr n => intro a hr; simp [Rep] at hr
  | share a' o ih =>
    intro a hr
    simp only [Rep, Ref.own.injEq] at hr
    obtain ⟨rfl, h2⟩ := hr
    exact ih _ h2
  | node a' k cs _ =>
    intro a hr
    simp only [Rep, Ref.own.injEq] at hr
    obtain ⟨rfl, rs, h2, _⟩ := hr
    exact hlt _ _ h2
  | ent a' c cs _ =>
    intro a hr
    simp only [Rep, Ref.own.injEq] at hr
    obtain ⟨rfl, rs, h2, _⟩ := hr
    exact hlt _ _ h2
  | nil => trivial
  | cons _ _ _ _ => trivial

/-- **recipe_separates_of_rep**: `recipe_separates` and `flow_frame` without the hypothesis `a < h.length` (it follows
    from `Rep h t (.own a)`) and without naming the root of the copy: the copy of an entity / object tree always has an
    owning root. -/
theorem recipe_separates_of_rep (rc : Nat → List PPol) (cty : Nat → List Ty) (env : Nat → ATree) (h : Heap) (fro : List Nat)
    (hsafe : ∀ c, partsSafe (rc c) (cty c) = true)
    (henv : ∀ i, wt fro cty (env i) = true ∧ ∃ r, Rep h (env i) r)
    (wf : WF h) (a : Nat) (t : ATree) (hw : wt fro cty t = true) (hr : Rep h t (.own a)) (ws : List Write) :
    ∀ c, (copyInto rc env h t).2 = .own c →
      Sep fro (copyInto rc env h t).1 a c ∧
      (∀ n, observe (applyAll fro c (copyInto rc env h t).1 ws) n (.own a) = observe h n (.own a)) ∧
      Sep fro (applyAll fro c (copyInto rc env h t).1 ws) a c := by
  intro c hc
  have ha := rep_own_lt h t a hr
  have h1 := recipe_separates rc cty env h fro hsafe henv wf a t hw hr ha c hc
  have h2 := flow_frame rc cty env h fro hsafe henv wf a t hw hr ha c hc ws
  exact ⟨h1.2.2.2, h2.1, h2.2⟩

/-! ### flows: many products collected under one root -/

private theorem ext_sep {h0 h' : Heap} {sh : List Nat} {fro : List Nat} {a b : Nat} (wf : WF h0) (E : Ext h0 sh h')
    (ha : a < h0.length) (hb : b < h0.length) (sep : Sep fro h0 a b) : Sep fro h' a b := by
  intro x ra rb
  have ra0 := ext_old_reach wf E ha x ra
  have rb0 := ext_old_reach wf E hb x rb
  have hx := reach_lt wf ha ra0
  rcases sep x ra0 rb0 with h1 | h1
  · left; rw [isImm_of_getElem? (E.old hx)]; exact h1
  · exact Or.inr h1

/-- appending an owning reference to a separated object `c` to the mutable collection `b` keeps `a` and `b` separated -/
private theorem push_sep {fro : List Nat} {h : Heap} {a b c : Nat} {o : Obj}
    (wf : WF h) (_ha : a < h.length) (hc : c < h.length) (sab : Sep fro h a b) (sac : Sep fro h a c)
    (ho : h[b]? = some o) (hk : o.kind ≠ .imm) (hf : b ∉ fro) :
    WF (h.set b ⟨o.kind, o.slots ++ [.own c]⟩) ∧ Sep fro (h.set b ⟨o.kind, o.slots ++ [.own c]⟩) a b ∧
    (∀ x, Reach h a x → (h.set b ⟨o.kind, o.slots ++ [.own c]⟩)[x]? = h[x]?) := by
  have hbl : b < h.length := by
    rcases Nat.lt_or_ge b h.length with hl | hl
    · exact hl
    · rw [List.getElem?_eq_none hl] at ho; simp at ho
  have hnab : ¬ Reach h a b := by
    intro r
    rcases sab b r Reach.refl with h1 | h1
    · simp [isImm, ho] at h1; exact hk h1
    · exact hf h1
  have same : ∀ x, Reach h a x → (h.set b ⟨o.kind, o.slots ++ [.own c]⟩)[x]? = h[x]? := by
    intro x rx
    exact List.getElem?_set_ne (by intro e; subst e; exact hnab rx)
  have hobj : ∀ y o', (h.set b ⟨o.kind, o.slots ++ [.own c]⟩)[y]? = some o' →
      (y ≠ b ∧ h[y]? = some o') ∨ (y = b ∧ o' = ⟨o.kind, o.slots ++ [.own c]⟩) := by
    intro y o' hy
    by_cases hyb : y = b
    · subst hyb
      rw [List.getElem?_set_self hbl] at hy
      simp at hy
      exact Or.inr ⟨rfl, hy.symm⟩
    · rw [List.getElem?_set_ne (Ne.symm hyb)] at hy
      exact Or.inl ⟨hyb, hy⟩
  have reachB : ∀ x, Reach (h.set b ⟨o.kind, o.slots ++ [.own c]⟩) b x → Reach h b x ∨ Reach h c x := by
    intro x r
    induction r with
    | refl => exact Or.inl Reach.refl
    | @step y x _ e ih =>
      obtain ⟨o', ho', hm⟩ := e
      rcases hobj y o' ho' with ⟨_, hy⟩ | ⟨hy, rfl⟩
      · rcases ih with ih | ih
        · exact Or.inl (Reach.step ih ⟨o', hy, hm⟩)
        · exact Or.inr (Reach.step ih ⟨o', hy, hm⟩)
      · subst hy
        simp only [List.mem_append, List.mem_singleton] at hm
        rcases hm with hm | hm
        · exact Or.inl (Reach.step Reach.refl ⟨o, ho, hm⟩)
        · simp at hm; subst hm; exact Or.inr Reach.refl
  refine ⟨?_, ?_, same⟩
  · intro y x ⟨o', ho', hm⟩
    simp only [List.length_set]
    rcases hobj y o' ho' with ⟨_, hy⟩ | ⟨_, rfl⟩
    · exact wf y x ⟨o', hy, hm⟩
    · simp only [List.mem_append, List.mem_singleton] at hm
      rcases hm with hm | hm
      · exact wf b x ⟨o, ho, hm⟩
      · simp at hm; subst hm; exact hc
  · intro x ra rb
    have ra' : Reach h a x := reach_local same x ra
    have himm : isImm (h.set b ⟨o.kind, o.slots ++ [.own c]⟩) x = isImm h x := isImm_of_getElem? (same x ra')
    rcases reachB x rb with rb' | rc'
    · rcases sab x ra' rb' with h1 | h1
      · exact Or.inl (by rw [himm]; exact h1)
      · exact Or.inr h1
    · rcases sac x ra' rc' with h1 | h1
      · exact Or.inl (by rw [himm]; exact h1)
      · exact Or.inr h1

/-- the invariant of a flow: `a` and the collection `b` are separated and `b` is a mutable, non frozen object -/
private structure FInv (fro : List Nat) (h : Heap) (a b : Nat) : Prop where
  inv : Inv fro h a b
  coll : ∃ o, h[b]? = some o ∧ o.kind ≠ .imm

private theorem apply1_kind (fro : List Nat) (b : Nat) (h : Heap) (w : Write) (x : Nat) (o : Obj)
    (ho : h[x]? = some o) : ∃ o', (apply1 fro b h w)[x]? = some o' ∧ o'.kind = o.kind := by
  have hx : x < h.length := by
    rcases Nat.lt_or_ge x h.length with hl | hl
    · exact hl
    · rw [List.getElem?_eq_none hl] at ho; simp at ho
  rcases (apply1_step fro b h w).unchanged_or with e | ⟨t, o1, ss, fr, ho1, _, _, _, e, _, _⟩
  · rw [e]; exact ⟨o, ho, rfl⟩
  · rw [e]
    by_cases hxt : x = t
    · subst hxt
      rw [List.getElem?_append_left (by simpa using hx), List.getElem?_set_self hx]
      rw [ho] at ho1
      simp only [Option.some.injEq] at ho1
      subst ho1
      exact ⟨_, rfl, rfl⟩
    · rw [getElem?_step hx hxt]; exact ⟨o, ho, rfl⟩

private theorem flow_step (rc : Nat → List PPol) (cty : Nat → List Ty) (env : Nat → ATree) (fro : List Nat)
    (hsafe : ∀ c, partsSafe (rc c) (cty c) = true) (a b : Nat) (hbf : b ∉ fro) (h : Heap) (s : FlowStep)
    (I : FInv fro h a b)
    (ok : StepOK cty env fro h s) :
    FInv fro (flowStep rc env fro b h s) a b ∧ ∀ x, Reach h a x → (flowStep rc env fro b h s)[x]? = h[x]? := by
  cases s with
  | write w =>
    have ⟨inv', same⟩ := step_frame I.inv (apply1_step fro b h w)
    obtain ⟨o, ho, hk⟩ := I.coll
    obtain ⟨o', ho', hk'⟩ := apply1_kind fro b h w b o ho
    exact ⟨⟨inv', o', ho', by rw [hk']; exact hk⟩, same⟩
  | produce t =>
    simp only [StepOK] at ok
    obtain ⟨hw, ⟨r0, hr0⟩, henv⟩ := ok
    have wf := I.inv.wf
    have ha := I.inv.ha
    have hb := I.inv.hb
    obtain ⟨o, ho, hk⟩ := I.coll
    have hg := Recipe.copyTop_good rc cty env h fro hsafe henv t r0 hw hr0
    have ⟨hsh, hfro⟩ := Recipe.good_shares hg
    have ⟨E, hrr⟩ := alloc_ext_aux.1 (copyTop rc env t) h
    have hl := E.len
    have wf1 : WF (alloc h (copyTop rc env t)).1 := ext_wf wf hsh E
    have sep1 : Sep fro (alloc h (copyTop rc env t)).1 a b := ext_sep wf E ha hb I.inv.sep
    have hob : (alloc h (copyTop rc env t)).1[b]? = some o := by rw [E.old hb]; exact ho
    have same1 : ∀ x, Reach h a x → (alloc h (copyTop rc env t)).1[x]? = h[x]? :=
      fun x rx => E.old (reach_lt wf ha rx)
    have inv1 : Inv fro (alloc h (copyTop rc env t)).1 a b := ⟨wf1, by omega, by omega, sep1⟩
    simp only [flowStep, produceInto, copyInto]
    cases hc : (alloc h (copyTop rc env t)).2 with
    | val v => simp only []; exact ⟨⟨inv1, o, hob, hk⟩, same1⟩
    | nav n => simp only []; exact ⟨⟨inv1, o, hob, hk⟩, same1⟩
    | own c =>
      simp only [hob]
      obtain ⟨_, _, hc1, sac⟩ := alloc_separates fro h wf a ha (copyTop rc env t) hsh hfro c hc
      have ⟨wf2, sep2, same2⟩ := push_sep (c := c) wf1 (by omega) hc1 sep1 sac hob hk hbf
      have hb1 : b < (alloc h (copyTop rc env t)).1.length := by omega
      refine ⟨⟨⟨wf2, by simp; omega, by simp; omega, sep2⟩, ⟨⟨o.kind, o.slots ++ [.own c]⟩, List.getElem?_set_self hb1, hk⟩⟩, ?_⟩
      intro x rx
      have rx1 : Reach (alloc h (copyTop rc env t)).1 a x :=
        reach_local (h := (alloc h (copyTop rc env t)).1) (h' := h)
          (fun y ry => (E.old (reach_lt wf ha (ext_old_reach wf E ha y ry))).symm) x rx
      rw [same2 x rx1, same1 x rx]

/-- **flows_frame**: a flow is any interleaving of (a) producing the strategy copy of a value tree of the current
    heap and appending it to the collection `b` and (b) arbitrary writes through `b` (transformations of the
    products, re-linking, new attributes, deleting products ...).  If `a` and the collection are separated at the start
    then after the whole flow the observation of `a` is unchanged at every depth, and they are still separated - for
    every safe recipe table, every heap, every flow of any length. -/
theorem flows_frame (rc : Nat → List PPol) (cty : Nat → List Ty) (env : Nat → ATree) (fro : List Nat)
    (hsafe : ∀ c, partsSafe (rc c) (cty c) = true) (h : Heap) (a b : Nat)
    (wf : WF h) (ha : a < h.length) (hb : b < h.length) (sep : Sep fro h a b)
    (hcoll : ∃ o, h[b]? = some o ∧ o.kind ≠ .imm) (hbf : b ∉ fro)
    (ss : List FlowStep) (ok : FlowOK rc cty env fro b h ss) :
    (∀ n, observe (runFlow rc env fro b h ss) n (.own a) = observe h n (.own a)) ∧
    WF (runFlow rc env fro b h ss) ∧ Sep fro (runFlow rc env fro b h ss) a b := by
  have I : FInv fro h a b := ⟨⟨wf, ha, hb, sep⟩, hcoll⟩
  clear wf ha hb sep hcoll
  induction ss generalizing h with
  | nil => exact ⟨fun _ => rfl, I.inv.wf, I.inv.sep⟩
  | cons s ss ih =>
    simp only [FlowOK] at ok
    have ⟨I', same⟩ := flow_step rc cty env fro hsafe a b hbf h s I ok.1
    have ⟨h1, h2, h3⟩ := ih _ ok.2 I'
    refine ⟨fun n => ?_, h2, h3⟩
    simp only [runFlow]
    rw [h1 n]
    exact observe_local n a same


/-! ### two documents, each running flows (final round) -/

private structure DInv (fro : List Nat) (h : Heap) (a b : Nat) : Prop where
  inv : Inv fro h a b
  ca : ∃ o, h[a]? = some o ∧ o.kind ≠ .imm
  cb : ∃ o, h[b]? = some o ∧ o.kind ≠ .imm

private theorem dinv_symm {fro : List Nat} {h : Heap} {a b : Nat} (D : DInv fro h a b) : DInv fro h b a :=
  ⟨⟨D.inv.wf, D.inv.hb, D.inv.ha, sep_symm _ _ _ _ D.inv.sep⟩, D.cb, D.ca⟩

/-- one flow step through `b`: the invariant is kept and `a` observes the same -/
private theorem dflow_step (rc : Nat → List PPol) (cty : Nat → List Ty) (env : Nat → ATree) (fro : List Nat)
    (hsafe : ∀ c, partsSafe (rc c) (cty c) = true) (a b : Nat) (hbf : b ∉ fro) (h : Heap) (s : FlowStep)
    (D : DInv fro h a b) (ok : StepOK cty env fro h s) :
    DInv fro (flowStep rc env fro b h s) a b ∧
    ∀ n, observe (flowStep rc env fro b h s) n (.own a) = observe h n (.own a) := by
  have ⟨I', same⟩ := flow_step rc cty env fro hsafe a b hbf h s ⟨D.inv, D.cb⟩ ok
  obtain ⟨o, ho, hk⟩ := D.ca
  refine ⟨⟨I'.inv, ⟨o, by rw [same a Reach.refl]; exact ho, hk⟩, I'.coll⟩, fun n => observe_local n a same⟩

/-- **interleaved_flows**: two collections (two documents, two layouts) that are separated at the start, each running
    its own flow - producing strategy copies of value trees of the current heap into itself (copy_to_layout,
    duplicate_entity, explode, virtual entities, add_attrib) and arbitrary writes through itself - in ANY
    interleaving: every single step leaves the observation of the OTHER collection unchanged at every depth (stated
    for every prefix of the interleaving), and at the end the two are still separated in a well formed heap.  For
    every safe recipe table, every heap, interleavings of any length. -/
theorem interleaved_flows (rc : Nat → List PPol) (cty : Nat → List Ty) (env : Nat → ATree) (fro : List Nat)
    (hsafe : ∀ c, partsSafe (rc c) (cty c) = true) (h : Heap) (a b : Nat)
    (wf : WF h) (ha : a < h.length) (hb : b < h.length) (sep : Sep fro h a b)
    (hca : ∃ o, h[a]? = some o ∧ o.kind ≠ .imm) (hcb : ∃ o, h[b]? = some o ∧ o.kind ≠ .imm)
    (haf : a ∉ fro) (hbf : b ∉ fro)
    (ss : List (Bool × FlowStep)) (ok : FlowTaggedOK rc cty env fro a b h ss) :
    (∀ (pre : List (Bool × FlowStep)) (t : Bool) (s : FlowStep) (post : List (Bool × FlowStep)), ss = pre ++ (t, s) :: post →
      ∀ n, observe (flowStep rc env fro (if t then b else a) (flowTagged rc env fro a b h pre) s) n (.own (if t then a else b))
         = observe (flowTagged rc env fro a b h pre) n (.own (if t then a else b))) ∧
    WF (flowTagged rc env fro a b h ss) ∧ Sep fro (flowTagged rc env fro a b h ss) a b := by
  have D : DInv fro h a b := ⟨⟨wf, ha, hb, sep⟩, hca, hcb⟩
  clear wf ha hb sep hca hcb
  induction ss generalizing h with
  | nil =>
    refine ⟨?_, D.inv.wf, D.inv.sep⟩
    intro pre t s post e
    cases pre <;> simp at e
  | cons ts ss ih =>
    obtain ⟨t0, s0⟩ := ts
    simp only [FlowTaggedOK] at ok
    have hstep : DInv fro (flowStep rc env fro (if t0 then b else a) h s0) a b ∧
        ∀ n, observe (flowStep rc env fro (if t0 then b else a) h s0) n (.own (if t0 then a else b))
           = observe h n (.own (if t0 then a else b)) := by
      cases t0
      · have ⟨D', hobs⟩ := dflow_step rc cty env fro hsafe b a haf h s0 (dinv_symm D) ok.1
        simpa using And.intro (dinv_symm D') hobs
      · simpa using dflow_step rc cty env fro hsafe a b hbf h s0 D ok.1
    have ⟨h1, h2, h3⟩ := ih _ ok.2 hstep.1
    refine ⟨?_, by simpa [flowTagged] using h2, by simpa [flowTagged] using h3⟩
    intro pre t s post e
    cases pre with
    | nil =>
      simp only [List.nil_append, List.cons.injEq, Prod.mk.injEq] at e
      obtain ⟨⟨rfl, rfl⟩, _⟩ := e
      simpa [flowTagged] using hstep.2
    | cons p pre' =>
      simp only [List.cons_append, List.cons.injEq] at e
      obtain ⟨rfl, e'⟩ := e
      simpa [flowTagged] using h1 pre' t s post e'

/-! ### two copies of one source (siblings) -/

private theorem rep_ext (h e : Heap) : ∀ (t : ATree) (r : Ref), Rep h t r → Rep (h ++ e) t r := by
  have hget : ∀ (a : Nat) (o : Obj), h[a]? = some o → (h ++ e)[a]? = some o := by
    intro a o ho
    have hlt : a < h.length := by
      rcases Nat.lt_or_ge a h.length with hl | hl
      · exact hl
      · rw [List.getElem?_eq_none hl] at ho; simp at ho
    rw [List.getElem?_append_left hlt]; exact ho
  intro t
  induction t using ATree.rec (motive_2 := fun ts => ∀ rs, RepL h ts rs → RepL (h ++ e) ts rs) with
  | leaf v => intro r hr; simpa [Rep] using hr
  | navr a => intro r hr; simpa [Rep] using hr
  | share a o ih => intro r hr; simp only [Rep] at hr ⊢; exact ⟨hr.1, ih _ hr.2⟩
  | node a k cs ih =>
    intro r hr; simp only [Rep] at hr ⊢
    obtain ⟨h1, rs, h2, h3⟩ := hr
    exact ⟨h1, rs, hget _ _ h2, ih rs h3⟩
  | ent a c cs ih =>
    intro r hr; simp only [Rep] at hr ⊢
    obtain ⟨h1, rs, h2, h3⟩ := hr
    exact ⟨h1, rs, hget _ _ h2, ih rs h3⟩
  | nil => rename_i rs hr; simpa [RepL] using hr
  | cons t ts iht ihts =>
    rename_i rs hr; simp only [RepL] at hr ⊢
    obtain ⟨r1, rs', h1, h2, h3⟩ := hr
    exact ⟨r1, rs', h1, iht _ h2, ihts _ h3⟩

/-- a value tree that the heap holds is still held after objects were appended (building a copy) -/
private theorem rep_copyInto (rc : Nat → List PPol) (env : Nat → ATree) (h : Heap) (t0 t : ATree) (r : Ref)
    (hr : Rep h t r) : Rep (copyInto rc env h t0).1 t r := by
  obtain ⟨e, he⟩ := (alloc_ext_aux.1 (copyTop rc env t0) h).1.ext
  simp only [copyInto]
  rw [he]
  exact rep_ext h e t r hr

/-- **siblings_separate**: copy the same source twice (an unbound template copied several times, two virtual
    copies of one entity, copy and copy_to_layout of the same entity): the two copies are separated from EACH OTHER
    and each from the source, so by `frame` writes through any one of the three leave the other two unchanged - for
    every safe recipe table, every heap, every well typed source tree. -/
theorem siblings_separate (rc : Nat → List PPol) (cty : Nat → List Ty) (env : Nat → ATree) (h : Heap) (fro : List Nat)
    (hsafe : ∀ c, partsSafe (rc c) (cty c) = true)
    (henv : ∀ i, wt fro cty (env i) = true ∧ ∃ r, Rep h (env i) r)
    (wf : WF h) (a : Nat) (t : ATree) (hw : wt fro cty t = true) (hr : Rep h t (.own a)) (ha : a < h.length)
    (c1 c2 : Nat) (hc1 : (copyInto rc env h t).2 = .own c1)
    (hc2 : (copyInto rc env (copyInto rc env h t).1 t).2 = .own c2) :
    Sep fro (copyInto rc env (copyInto rc env h t).1 t).1 c1 c2 ∧
    Sep fro (copyInto rc env (copyInto rc env h t).1 t).1 a c1 ∧
    Sep fro (copyInto rc env (copyInto rc env h t).1 t).1 a c2 := by
  obtain ⟨wf1, ha1, hc1lt, sep1⟩ := recipe_separates rc cty env h fro hsafe henv wf a t hw hr ha c1 hc1
  have hr1 : Rep (copyInto rc env h t).1 t (.own a) := rep_copyInto rc env h t t _ hr
  have henv1 : ∀ i, wt fro cty (env i) = true ∧ ∃ r, Rep (copyInto rc env h t).1 (env i) r := by
    intro i
    obtain ⟨hwi, ri, hri⟩ := henv i
    exact ⟨hwi, ri, rep_copyInto rc env h t (env i) ri hri⟩
  -- the second copy, observed from the source and from the first copy
  have hg := Recipe.copyTop_good rc cty env (copyInto rc env h t).1 fro hsafe henv1 t (.own a) hw hr1
  have ⟨hsh, hfro⟩ := Recipe.good_shares hg
  have s2a := alloc_separates fro (copyInto rc env h t).1 wf1 a ha1 (copyTop rc env t) hsh hfro c2 hc2
  have s2c := alloc_separates fro (copyInto rc env h t).1 wf1 c1 hc1lt (copyTop rc env t) hsh hfro c2 hc2
  have ⟨E, _⟩ := alloc_ext_aux.1 (copyTop rc env t) (copyInto rc env h t).1
  exact ⟨s2c.2.2.2, ext_sep wf1 E ha1 hc1lt sep1, s2a.2.2.2⟩

private theorem copyN_sep (rc : Nat → List PPol) (cty : Nat → List Ty) (env : Nat → ATree) (fro : List Nat)
    (hsafe : ∀ c, partsSafe (rc c) (cty c) = true) (t : ATree) (a : Nat) (hw : wt fro cty t = true) :
    ∀ (n : Nat) (h : Heap) (obs : List Nat), WF h → Rep h t (.own a) →
      (∀ i, wt fro cty (env i) = true ∧ ∃ r, Rep h (env i) r) → (∀ o ∈ obs, o < h.length) →
      WF (copyN rc env t n h).1 ∧
      (∀ o ∈ obs, ∀ c ∈ (copyN rc env t n h).2, Sep fro (copyN rc env t n h).1 o c) ∧
      (copyN rc env t n h).2.Pairwise (Sep fro (copyN rc env t n h).1) ∧
      (∀ o ∈ obs, ∀ o' ∈ obs, Sep fro h o o' → Sep fro (copyN rc env t n h).1 o o') ∧
      h.length ≤ (copyN rc env t n h).1.length := by
  intro n
  induction n with
  | zero =>
    intro h obs wf _ _ _
    simp only [copyN]
    exact ⟨wf, fun _ _ c hc => by simp at hc, List.Pairwise.nil, fun _ _ _ _ s => s, Nat.le_refl _⟩
  | succ n ih =>
    intro h obs wf hr henv hobs
    have hg := Recipe.copyTop_good rc cty env h fro hsafe henv t (.own a) hw hr
    have ⟨hsh, hfro⟩ := Recipe.good_shares hg
    have ⟨E, _⟩ := alloc_ext_aux.1 (copyTop rc env t) h
    have hl := E.len
    have wf1 : WF (copyInto rc env h t).1 := ext_wf wf hsh E
    have hr1 : Rep (copyInto rc env h t).1 t (.own a) := rep_copyInto rc env h t t _ hr
    have henv1 : ∀ i, wt fro cty (env i) = true ∧ ∃ r, Rep (copyInto rc env h t).1 (env i) r := by
      intro i
      obtain ⟨hwi, ri, hri⟩ := henv i
      exact ⟨hwi, ri, rep_copyInto rc env h t (env i) ri hri⟩
    have hlift : ∀ o ∈ obs, ∀ o' ∈ obs, Sep fro h o o' → Sep fro (copyInto rc env h t).1 o o' :=
      fun o ho o' ho' s => ext_sep wf E (hobs o ho) (hobs o' ho') s
    simp only [copyN]
    cases hc : (copyInto rc env h t).2 with
    | val v =>
      simp only []
      have ⟨h1, h2, h3, h4, h5⟩ := ih (copyInto rc env h t).1 obs wf1 hr1 henv1
        (fun o ho => by have := hobs o ho; simp only [copyInto] at hl ⊢; omega)
      exact ⟨h1, h2, h3, fun o ho o' ho' s => h4 o ho o' ho' (hlift o ho o' ho' s), by simp only [copyInto] at hl h5 ⊢; omega⟩
    | nav m =>
      simp only []
      have ⟨h1, h2, h3, h4, h5⟩ := ih (copyInto rc env h t).1 obs wf1 hr1 henv1
        (fun o ho => by have := hobs o ho; simp only [copyInto] at hl ⊢; omega)
      exact ⟨h1, h2, h3, fun o ho o' ho' s => h4 o ho o' ho' (hlift o ho o' ho' s), by simp only [copyInto] at hl h5 ⊢; omega⟩
    | own c =>
      simp only []
      -- the new copy, seen from every observer
      have hsepc : ∀ o ∈ obs, Sep fro (copyInto rc env h t).1 o c ∧ c < (copyInto rc env h t).1.length := by
        intro o ho
        have := alloc_separates fro h wf o (hobs o ho) (copyTop rc env t) hsh hfro c hc
        exact ⟨this.2.2.2, this.2.2.1⟩
      have hclt : c < (copyInto rc env h t).1.length := by
        have ha : a < h.length := rep_own_lt h t a hr
        exact (alloc_separates fro h wf a ha (copyTop rc env t) hsh hfro c hc).2.2.1
      have ⟨h1, h2, h3, h4, h5⟩ := ih (copyInto rc env h t).1 (c :: obs) wf1 hr1 henv1
        (by
          intro o ho
          rcases List.mem_cons.mp ho with rfl | ho
          · exact hclt
          · have := hobs o ho; simp only [copyInto] at hl ⊢; omega)
      refine ⟨h1, ?_, ?_, ?_, by simp only [copyInto] at hl h5 ⊢; omega⟩
      · intro o ho c' hc'
        rcases List.mem_cons.mp hc' with rfl | hc'
        · exact h4 o (by simp [ho]) c' (by simp) (hsepc o ho).1
        · exact h2 o (by simp [ho]) c' hc'
      · exact List.Pairwise.cons (fun c' hc' => h2 c (by simp) c' hc') h3
      · intro o ho o' ho' s
        exact h4 o (by simp [ho]) o' (by simp [ho']) (hlift o ho o' ho' s)

/-- **copies_separate**: any number of copies of the same source, made one after the other (a template copied n times,
    the n virtual copies of an entity produced for the n INSERTs of a block, the elements of a MINSERT): every copy is
    separated from the source and the copies are PAIRWISE separated from each other - so by `frame` writes through
    any one of them leave all the others and the source unchanged.  Every safe recipe table, every heap, every well
    typed source tree, every n. -/
theorem copies_separate (rc : Nat → List PPol) (cty : Nat → List Ty) (env : Nat → ATree) (h : Heap) (fro : List Nat)
    (hsafe : ∀ c, partsSafe (rc c) (cty c) = true)
    (henv : ∀ i, wt fro cty (env i) = true ∧ ∃ r, Rep h (env i) r)
    (wf : WF h) (a : Nat) (t : ATree) (hw : wt fro cty t = true) (hr : Rep h t (.own a)) (n : Nat) :
    WF (copyN rc env t n h).1 ∧
    (∀ c ∈ (copyN rc env t n h).2, Sep fro (copyN rc env t n h).1 a c) ∧
    (copyN rc env t n h).2.Pairwise (Sep fro (copyN rc env t n h).1) := by
  have ha : a < h.length := rep_own_lt h t a hr
  have ⟨h1, h2, h3, _, _⟩ := copyN_sep rc cty env fro hsafe t a hw n h [a] wf hr henv (by simp [ha])
  exact ⟨h1, fun c hc => h2 a (by simp) c hc, h3⟩

/-- the value of the copy of a well formed entity without extension dictionary whose recipe only uses
    deepcopy / alias / shallow copy: the value of the source with handle, owner and reactors `None` and
    `source_of_copy` set - **copy_equal** -/
theorem copy_equal (rc : Nat → List Policy) (bl : Nat → List ATree) (a c na : Nat) (nk : Kind)
    (d hd ow re px ad xt so : ATree) (attrs parts : List ATree)
    (hpol : ∀ p ∈ rc c, p = .deep ∨ p = .alias ∨ p = .shallow) (hlen : parts.length ≤ (rc c).length) :
    content (copyT rc bl (.ent a c (d :: .node na nk (hd :: ow :: attrs) :: .leaf NONE :: re :: px :: ad :: xt :: so :: parts))) =
    .node .cell (content d :: .node nk (.leaf NONE :: .leaf NONE :: contents attrs) :: .leaf NONE :: .leaf NONE ::
      content px :: content ad :: content xt :: .navref a :: contents parts) := by
  have hparts : ∀ (ps : List Policy) (parts blank : List ATree) (doc : Bool),
      (∀ p ∈ ps, p = .deep ∨ p = .alias ∨ p = .shallow) → parts.length ≤ ps.length →
      contents (kidsT rc bl doc a blank (ps.map Role.part) parts) = contents parts := by
    intro ps
    induction ps with
    | nil => intro parts blank doc _ hl; cases parts <;> simp_all [kidsT, contents]
    | cons p ps ih =>
      intro parts blank doc hp hl
      cases parts with
      | nil => simp [kidsT, contents]
      | cons t ts =>
        have hrest := ih ts (Role.nextBlank blank (.part p)) doc (fun q hq => hp q (by simp [hq])) (by simpa using hl)
        rcases hp p (by simp) with rfl | rfl | rfl <;>
          simp only [List.map_cons, kidsT, contents, hrest, deep_content, alias_content, shallow_content]
  simp only [copyT, rolesOf, headerRoles, List.cons_append, List.nil_append, kidsT, nsT, Role.nextBlank, content,
    contents, contents_map_alias, deep_content, hparts (rc c) parts (bl c) _ hpol hlen]
  cases hasDoc (d :: .node na nk (hd :: ow :: attrs) :: .leaf NONE :: re :: px :: ad :: xt :: so :: parts) <;>
    simp [entsT, content]


/-! ### extracted object graphs (Gen/HeapGraphs.lean, regenerated from the current source on every run) -/

private theorem graph_getElem? (g : Graph) (y : Nat) (o : Obj) (ho : g.heap[y]? = some o) :
    ∃ n, g.nodes[y]? = some n ∧ o = ⟨n.1, n.2.map Ref.own⟩ := by
  simp only [Graph.heap, List.getElem?_map] at ho
  cases hn : g.nodes[y]? with
  | none => simp [hn] at ho
  | some n => simp [hn] at ho; exact ⟨n, rfl, ho.symm⟩

private theorem graph_edge (g : Graph) (y x : Nat) (e : Edge g.heap y x) : x ∈ succOf g y := by
  obtain ⟨o, ho, hm⟩ := e
  obtain ⟨n, hn, rfl⟩ := graph_getElem? g y o ho
  simp only [succOf, hn]
  simpa using hm

private theorem closed_reach (g : Graph) (r : Nat) (s : List Nat) (hc : closedFrom g r s = true) :
    ∀ x, Reach g.heap r x → x ∈ s := by
  simp only [closedFrom, Bool.and_eq_true, List.all_eq_true, List.contains_eq_mem, decide_eq_true_eq] at hc
  intro x rx
  induction rx with
  | refl => exact hc.1
  | step _ e ih => exact hc.2 _ ih _ (graph_edge g _ _ e)

/-- soundness of the certificate checker: a graph accepted by `checkGraph` satisfies the hypotheses of
    `frame` with `frozen` := the frozen region listed in the graph -/
theorem check_sound (allowed : List Rule) (g : Graph) (hc : checkGraph allowed g = true) :
    WF g.heap ∧ g.rootA < g.heap.length ∧ g.rootB < g.heap.length ∧
    Sep g.frozenIds g.heap g.rootA g.rootB := by
  simp only [checkGraph, Bool.and_eq_true, decide_eq_true_eq] at hc
  obtain ⟨⟨⟨⟨⟨⟨ha, hb⟩, hca⟩, hcb⟩, hsep⟩, hwf⟩, _⟩ := hc
  refine ⟨?_, by simpa [Graph.heap] using ha, by simpa [Graph.heap] using hb, ?_⟩
  · intro y x e
    obtain ⟨o, ho, hm⟩ := e
    obtain ⟨n, hn, rfl⟩ := graph_getElem? g y o ho
    simp only [List.all_eq_true, decide_eq_true_eq] at hwf
    have hx : x ∈ n.2 := by simpa using hm
    have := hwf n (List.mem_of_getElem? hn) x hx
    simpa [Graph.heap] using this
  · intro x ra rb
    have xa := closed_reach g _ _ hca x ra
    have xb := closed_reach g _ _ hcb x rb
    simp only [List.all_eq_true, Bool.or_eq_true, Bool.not_eq_true', List.contains_eq_mem,
      decide_eq_false_iff_not, decide_eq_true_eq] at hsep
    rcases hsep x xa with (h1 | h1) | h1
    · exact absurd xb h1
    · left
      simp only [kindOf, beq_iff_eq] at h1
      cases hn : g.nodes[x]? with
      | none => simp [hn] at h1
      | some n =>
        simp only [hn, Option.map_some, Option.some.injEq] at h1
        simp [isImm, Graph.heap, List.getElem?_map, hn, h1]
    · exact Or.inr h1

/-- **graphs_separated**: for one fully populated instance of every copyable registered
    entity class the extracted object graph of (source, source.copy()) passes the certificate check: the
    listed reach sets are closed, and every object in both is immutable or in the frozen region, which is
    justified node by node by a rule of `allowedFrozen`.  (Reverting fix 3a74eae26 - `Body.copy_data` aliasing
    `_temporary_transformation` - makes this fail for the eight ACIS classes.) -/
theorem graphs_separated :
    Gen.HeapGraphs.graphs.all (fun p => checkGraph allowedFrozen p.2) = true := by
  decide +kernel

/-- `frame` instantiated with the extracted graphs: whatever is written through the copy (outside the frozen
    region) the observation of the source is unchanged, and vice versa -/
theorem graphs_frame (name : String) (g : Graph) (hm : (name, g) ∈ Gen.HeapGraphs.graphs)
    (ws : List Write) (n : Nat) :
    observe (applyAll g.frozenIds g.rootB g.heap ws) n (.own g.rootA) = observe g.heap n (.own g.rootA) ∧
    observe (applyAll g.frozenIds g.rootA g.heap ws) n (.own g.rootB) = observe g.heap n (.own g.rootB) := by
  have hall := graphs_separated
  simp only [List.all_eq_true] at hall
  have hc := hall (name, g) hm
  obtain ⟨wf, ha, hb, sep⟩ := check_sound allowedFrozen g hc
  exact ⟨frame _ _ _ _ ws wf ha hb sep n,
         frame _ _ _ _ ws wf hb ha (sep_symm _ _ _ _ sep) n⟩

/-- every entry of a shared mutable region found in any scenario (copy(), copy_to_layout(),
    duplicate_entity(), virtual entities of INSERT / POLYLINE / DIMENSION / ..., disassemble primitives,
    pairs of documents created by new()/readfile()/recover) is covered by the Frozen list.  (Reverting fix 6d1f8396b - module level Tags stored
    in every new(setup=True) document - makes this fail.) -/
theorem candidates_frozen :
    Gen.HeapGraphs.candidates.all (fun c => ruleAllowed allowedFrozen c.2) = true := by
  decide +kernel

/-- source level check, independent of the populated instances: every assignment `entity.x = ...` in every
    copy_data method (parsed from the current source text) is a deepcopy, a strategy copy of sub-entities, a
    reset, a new default object, or passes by reference only parts on the explicit lists `aliasAllowed` /
    `shallowAllowed`.  (Reverting fix 3a74eae26 or 9cace061f makes this fail.) -/
theorem recipes_sharing_allowed :
    Gen.HeapGraphs.recipes.all recipeOK = true ∧ 80 ≤ Gen.HeapGraphs.recipes.length := by
  decide +kernel

private theorem lookupL_safe (rcT : List (Nat × List PPol)) (ctyT : List (Nat × List Ty))
    (hs : tableSafe rcT ctyT = true) (c : Nat) : partsSafe (lookupL rcT c) (lookupL ctyT c) = true := by
  unfold lookupL
  cases hf : rcT.find? (fun r => r.1 == c) with
  | none => simp [partsSafe]
  | some r =>
    have hm : r ∈ rcT := List.mem_of_find?_eq_some hf
    have hc : (r.1 == c) = true := by simpa using List.find?_some hf
    simp only [tableSafe, List.all_eq_true] at hs
    have := hs r hm
    simp only [beq_iff_eq] at hc
    subst hc
    simpa [lookupL] using this

/-- **recipes_safe**: the recipe table translated on this run from the source text of EVERY `copy_data`, `copy`,
    `__copy__`, `__deepcopy__`, `deep_copy` ... method under src/ezdxf/entities (T-ast) passes the static check
    against the type table inferred on this run from the populated instances (T-heap): a policy passes by reference
    only parts whose type is `ok`.  (A `deepcopy` replaced by a reference, a flat hand written `__deepcopy__`, a
    helper `copy()` that shares a list ... make this fail.) -/
theorem recipes_safe :
    tableSafe Gen.HeapGraphs.recipesP Gen.HeapGraphs.partTypes = true ∧
    60 ≤ Gen.HeapGraphs.recipesP.length := by
  decide +kernel

/-- **recipes_complete**: no copy method of the package was left untranslated, every method found by the scanner
    is accounted for, and every `ok` in the type table is backed by the explicit allow lists. -/
theorem recipes_complete :
    Gen.HeapGraphs.untranslated = [] ∧ 50 ≤ Gen.HeapGraphs.copyMethods.length ∧
    Gen.HeapGraphs.copyMethods.all (fun m => copyDispositions.contains m.2) = true ∧
    Gen.HeapGraphs.okParts.all (fun r => partListed aliasAllowed r.1 r.2 || partListed shallowAllowed r.1 r.2
      || partListed helperAllowed r.1 r.2) = true := by
  decide +kernel

/-- **all_recipes_separate**: `recipe_separates` and `flow_frame` instantiated with the generated tables: for EVERY
    registered class (every row of the regenerated recipe table; classes without a row copy every part by
    deepcopy), every heap without dangling references and every well typed source tree in it, the model copy is
    separated from its source, stays so under any writes through the copy, and the source observes the same. -/
theorem all_recipes_separate (env : Nat → ATree) (h : Heap) (fro : List Nat)
    (henv : ∀ i, wt fro (lookupL Gen.HeapGraphs.partTypes) (env i) = true ∧ ∃ r, Rep h (env i) r)
    (wf : WF h) (a : Nat) (t : ATree) (hw : wt fro (lookupL Gen.HeapGraphs.partTypes) t = true)
    (hr : Rep h t (.own a)) (ha : a < h.length)
    (c : Nat) (hc : (copyInto (lookupL Gen.HeapGraphs.recipesP) env h t).2 = .own c) (ws : List Write) :
    Sep fro (copyInto (lookupL Gen.HeapGraphs.recipesP) env h t).1 a c ∧
    (∀ n, observe (applyAll fro c (copyInto (lookupL Gen.HeapGraphs.recipesP) env h t).1 ws) n (.own a)
            = observe h n (.own a)) ∧
    Sep fro (applyAll fro c (copyInto (lookupL Gen.HeapGraphs.recipesP) env h t).1 ws) a c := by
  have hsafe := lookupL_safe _ _ recipes_safe.1
  have h1 := recipe_separates _ _ env h fro hsafe henv wf a t hw hr ha c hc
  have h2 := flow_frame _ _ env h fro hsafe henv wf a t hw hr ha c hc ws
  exact ⟨h1.2.2.2, h2.1, h2.2⟩

/-- **all_flows_separate**: `flows_frame` instantiated with the generated tables: for every registered class, any
    flow (any interleaving of producing strategy copies of value trees of the current heap into a collection and
    writes through the collection) leaves the observation of every root that was separated from the collection at the
    start unchanged, and keeps them separated. -/
theorem all_flows_separate (env : Nat → ATree) (fro : List Nat) (h : Heap) (a b : Nat)
    (wf : WF h) (ha : a < h.length) (hb : b < h.length) (sep : Sep fro h a b)
    (hcoll : ∃ o, h[b]? = some o ∧ o.kind ≠ .imm) (hbf : b ∉ fro) (ss : List FlowStep)
    (ok : FlowOK (lookupL Gen.HeapGraphs.recipesP) (lookupL Gen.HeapGraphs.partTypes) env fro b h ss) :
    (∀ n, observe (runFlow (lookupL Gen.HeapGraphs.recipesP) env fro b h ss) n (.own a) = observe h n (.own a)) ∧
    WF (runFlow (lookupL Gen.HeapGraphs.recipesP) env fro b h ss) ∧
    Sep fro (runFlow (lookupL Gen.HeapGraphs.recipesP) env fro b h ss) a b :=
  flows_frame _ _ env fro (lookupL_safe _ _ recipes_safe.1) h a b wf ha hb sep hcoll hbf ss ok

/-- **all_interleaved_flows** / **all_siblings_separate**: `interleaved_flows` and `siblings_separate` instantiated with
    the generated recipe and type tables - for every registered class. -/
theorem all_interleaved_flows (env : Nat → ATree) (fro : List Nat) (h : Heap) (a b : Nat)
    (wf : WF h) (ha : a < h.length) (hb : b < h.length) (sep : Sep fro h a b)
    (hca : ∃ o, h[a]? = some o ∧ o.kind ≠ .imm) (hcb : ∃ o, h[b]? = some o ∧ o.kind ≠ .imm)
    (haf : a ∉ fro) (hbf : b ∉ fro) (ss : List (Bool × FlowStep))
    (ok : FlowTaggedOK (lookupL Gen.HeapGraphs.recipesP) (lookupL Gen.HeapGraphs.partTypes) env fro a b h ss) :
    (∀ (pre : List (Bool × FlowStep)) (t : Bool) (s : FlowStep) (post : List (Bool × FlowStep)), ss = pre ++ (t, s) :: post →
      ∀ n, observe (flowStep (lookupL Gen.HeapGraphs.recipesP) env fro (if t then b else a)
              (flowTagged (lookupL Gen.HeapGraphs.recipesP) env fro a b h pre) s) n (.own (if t then a else b))
         = observe (flowTagged (lookupL Gen.HeapGraphs.recipesP) env fro a b h pre) n (.own (if t then a else b))) ∧
    WF (flowTagged (lookupL Gen.HeapGraphs.recipesP) env fro a b h ss) ∧
    Sep fro (flowTagged (lookupL Gen.HeapGraphs.recipesP) env fro a b h ss) a b :=
  interleaved_flows _ _ env fro (lookupL_safe _ _ recipes_safe.1) h a b wf ha hb sep hca hcb haf hbf ss ok

theorem all_siblings_separate (env : Nat → ATree) (h : Heap) (fro : List Nat)
    (henv : ∀ i, wt fro (lookupL Gen.HeapGraphs.partTypes) (env i) = true ∧ ∃ r, Rep h (env i) r)
    (wf : WF h) (a : Nat) (t : ATree) (hw : wt fro (lookupL Gen.HeapGraphs.partTypes) t = true)
    (hr : Rep h t (.own a)) (ha : a < h.length) (c1 c2 : Nat)
    (hc1 : (copyInto (lookupL Gen.HeapGraphs.recipesP) env h t).2 = .own c1)
    (hc2 : (copyInto (lookupL Gen.HeapGraphs.recipesP) env (copyInto (lookupL Gen.HeapGraphs.recipesP) env h t).1 t).2 = .own c2) :
    Sep fro (copyInto (lookupL Gen.HeapGraphs.recipesP) env (copyInto (lookupL Gen.HeapGraphs.recipesP) env h t).1 t).1 c1 c2 ∧
    Sep fro (copyInto (lookupL Gen.HeapGraphs.recipesP) env (copyInto (lookupL Gen.HeapGraphs.recipesP) env h t).1 t).1 a c1 ∧
    Sep fro (copyInto (lookupL Gen.HeapGraphs.recipesP) env (copyInto (lookupL Gen.HeapGraphs.recipesP) env h t).1 t).1 a c2 :=
  siblings_separate _ _ env h fro (lookupL_safe _ _ recipes_safe.1) henv wf a t hw hr ha c1 c2 hc1 hc2

/-- **all_copies_separate**: `copies_separate` with the generated tables - any number of copies of an entity of any
    registered class. -/
theorem all_copies_separate (env : Nat → ATree) (h : Heap) (fro : List Nat)
    (henv : ∀ i, wt fro (lookupL Gen.HeapGraphs.partTypes) (env i) = true ∧ ∃ r, Rep h (env i) r)
    (wf : WF h) (a : Nat) (t : ATree) (hw : wt fro (lookupL Gen.HeapGraphs.partTypes) t = true)
    (hr : Rep h t (.own a)) (n : Nat) :
    WF (copyN (lookupL Gen.HeapGraphs.recipesP) env t n h).1 ∧
    (∀ c ∈ (copyN (lookupL Gen.HeapGraphs.recipesP) env t n h).2, Sep fro (copyN (lookupL Gen.HeapGraphs.recipesP) env t n h).1 a c) ∧
    (copyN (lookupL Gen.HeapGraphs.recipesP) env t n h).2.Pairwise (Sep fro (copyN (lookupL Gen.HeapGraphs.recipesP) env t n h).1) :=
  copies_separate _ _ env h fro (lookupL_safe _ _ recipes_safe.1) henv wf a t hw hr n

/-- **documents_separated**: the document level table, regenerated on every run: for every extracted pair of documents
    (new() twice for five DXF versions with and without setup, new / new of another version, a populated document and
    its readfile, readfile twice, readfile / recover.readfile, new / readfile) the two reachable object graphs share NO
    mutable object at all (not even a Frozen one), and no row of the module level state table is anything but
    `stable`.  With the empty Frozen list this is the hypothesis `Sep [] h docA docB` of `interleaved_flows`,
    `interleaved_frame` and `interleaved_solo` for the extracted heaps (reachability computed by the extractor). -/
theorem documents_separated :
    Gen.HeapGraphs.docPairs.all (fun p => p.2 == 0) = true ∧ 14 ≤ Gen.HeapGraphs.docPairs.length ∧
    Gen.HeapGraphs.globalsTable.all (fun r => r.2.2 == "stable") = true := by
  decide +kernel

/-- **globals_guarded**: the obligation table for module level state, regenerated on every run from the live modules:
    every module level / class level mutable object, every mutable default argument and every lru cache of the
    loaded ezdxf modules (add-ons excluded) is `stable` - the battery of document operations (copies by all routes,
    virtual entities, new / readfile / recover, save), run a second time after a warm-up run, leaves its content
    unchanged (write-barrier probe by content) and no mutable object below it is held by identity by any document or
    entity instance - or it is on one of the two explicit allow lists (both empty).  (Reverting fix 6d1f8396b makes
    the visual style templates of tools/standards.py `handed-out`.) -/
theorem globals_guarded :
    Gen.HeapGraphs.globalsTable.all globalOK = true ∧ 500 ≤ Gen.HeapGraphs.globalsTable.length := by
  decide +kernel

/-- **flow_effects_allowed**: the tie of `flows_frame` to the source text of the flow functions (regenerated on
    every run): in virtual_block_reference_entities, explode_block_reference, explode_entity, attrib_to_text,
    copy_to_layout, duplicate_entity, add_attrib, add_auto_attribs, multi_insert, the INSERT and DIMENSION generators,
    copy_data of DIMENSION, DXFEntity.copy, _new_compound_entity and the virtual_entities / explode methods of POLYLINE,
    LWPOLYLINE, LEADER, MULTILEADER, MLINE, POINT every store, every call with unknown effect and every
    hand-out concerns a PRODUCT of the function (strategy copy / new object / result of another flow) - the "produce"
    and "write through the products" steps of `flows_frame` - or is one of the listed effects on the target collection.
    (Yielding the block's own entity, transforming it in place, storing into it ... add a row that is not listed.) -/
theorem flow_effects_allowed :
    Gen.HeapGraphs.flowEffects.all (fun e => flowEffectsAllowed.contains e) = true ∧
    Gen.HeapGraphs.flowMissing = [] ∧ 30 ≤ Gen.HeapGraphs.flowFunctionCount ∧ 250 ≤ Gen.HeapGraphs.flowStatementCount := by
  decide +kernel

/-- the extractor skipped only navigation references of the documented kinds -/
theorem nav_edges_allowed :
    Gen.HeapGraphs.navUsed.all (fun n => allowedNav.contains n) = true := by
  decide +kernel

/-- non-vacuity of the generated data: the extractor produced graphs and scenarios -/
theorem graphs_nonempty : 80 ≤ Gen.HeapGraphs.graphs.length ∧ 250 ≤ Gen.HeapGraphs.scenarioCount := by
  decide +kernel

/-! ### the hypothesis of `frame` is necessary and satisfiable (non-vacuity) -/

private theorem wf_of_check (h : Heap)
    (hc : h.all (fun o => o.slots.all (fun r => match r with | .own c => decide (c < h.length) | _ => true)) = true) :
    WF h := by
  intro y x ⟨o, ho, hm⟩
  simp only [List.all_eq_true] at hc
  have := hc o (List.mem_of_getElem? ho) _ hm
  simpa using this

/-- without the separation hypothesis `frame` fails: one write through the copy changes what the source
    observes (the heap is well formed, both roots are valid) -/
theorem frame_needs_separation :
    WF aliasedHeap ∧ 0 < aliasedHeap.length ∧ 1 < aliasedHeap.length ∧
    observe (applyAll [] 1 aliasedHeap [.setVal [0] 0 1]) 3 (.own 0) ≠ observe aliasedHeap 3 (.own 0) := by
  refine ⟨wf_of_check _ (by decide), by decide, by decide, ?_⟩
  simp [aliasedHeap, applyAll, apply1, resolve, newSlots, Write.path, observe]

example : checkGraph allowedFrozen separatedGraph = true := by decide
-- the same graph is rejected when the shared object is not on the Frozen list
example : checkGraph [] separatedGraph = false := by decide
-- the hypotheses of `frame` hold for it, and writes through the copy are not no-ops: they change what the copy
-- observes while the source observes the same (checked here by evaluation, proved in general by `frame`)
example : WF separatedGraph.heap ∧ Sep separatedGraph.frozenIds separatedGraph.heap 0 1 :=
  let s := check_sound allowedFrozen separatedGraph (by decide)
  ⟨s.1, s.2.2.2⟩
/-- the hypotheses of `interleaved_frame` / `interleaved_solo` are satisfiable: the separated example graph with its
    frozen resource 4, and an interleaving with allocations on both sides (so the fresh addresses differ from the solo runs) -/
example : ∀ n, observe (applyTagged [4] 0 1 separatedGraph.heap
      [(true, .pushNew [0] .cell [5]), (false, .pushNew [0] .cont [6, 7]), (true, .push [0] 8), (false, .setVal [0, 0] 0 9)]) n (.own 0)
    = observe (applyAll [4] 0 separatedGraph.heap [.pushNew [0] .cont [6, 7], .setVal [0, 0] 0 9]) n (.own 0) :=
  let s := check_sound allowedFrozen separatedGraph (by decide)
  (interleaved_solo [4] separatedGraph.heap 0 1 _ s.1 s.2.1 s.2.2.1 s.2.2.2 (by decide)).1
#guard reprStr (observe (applyAll [4] 0 separatedGraph.heap [.pushNew [0] .cont [6, 7], .setVal [0, 0] 0 9]) 4 (.own 0))
        != reprStr (observe separatedGraph.heap 4 (.own 0))
#guard reprStr (observe (applyAll [4] 1 separatedGraph.heap [.push [0] 5, .setNew [] 0 .cont [1, 2]]) 4 (.own 1))
        != reprStr (observe separatedGraph.heap 4 (.own 1))
#guard reprStr (observe (applyAll [4] 1 separatedGraph.heap [.push [0] 5, .setNew [] 0 .cont [1, 2]]) 4 (.own 0))
        == reprStr (observe separatedGraph.heap 4 (.own 0))
-- a write to the frozen object is refused
#guard reprStr (observe (applyAll [4] 1 separatedGraph.heap [.push [1] 5]) 4 (.own 0))
        == reprStr (observe separatedGraph.heap 4 (.own 0))

/-! program recipes: non-vacuity.  The example table is safe; the example trees are well typed; the copies reference
    exactly the aliased tuple (14) and the first field of the helper object (17); a DIMENSION like entity takes the
    generator branch without virtual content and the strategy-copy branch with it; tables that are not safe (alias of a mutable
    part, a flat copy of a list of lists, a helper copy that passes a mutable field by reference) are rejected. -/
#guard partsSafe (rcP 0) (ctyP 0) && partsSafe (rcP 2) (ctyP 2) && partsSafe (rcP 3) (ctyP 3)
#guard !partsSafe [.one .alias] [.any]
#guard !partsSafe [.one (.each .alias)] [.coll (.coll .ok)]
#guard !partsSafe [.one (.fields [.alias, .alias])] [.obj [.ok, .any]]
#guard wt [] ctyP entP && wt [] ctyP dimP && wt [] ctyP dimVirtualP && wt [] ctyP (envP 0) && wt [] ctyP tinyT
#guard shares (copyTop rcP envP entP) == [14, 17]
#guard shares (copyTop rcP envP dimP) == [] && shares (copyTop rcP envP dimVirtualP) == []
#guard reprStr (content (copyTop rcP envP dimP)) != reprStr (content (copyTop rcP envP dimVirtualP))
#guard noHandle (fun _ => []) (copyTop rcP envP (subP 50)) && !noHandle (fun _ => []) (subP 50)   -- copyP_no_handle on an instance
#guard tableSafe [(0, rcP 0), (2, rcP 2), (3, rcP 3)] [(0, ctyP 0), (2, ctyP 2), (3, ctyP 3)]
#guard !tableSafe [(0, [.one .alias])] [(0, [.any])]

private theorem tiny_rep : Rep tinyHeap tinyT (.own 0) := by
  simp [tinyT, tinyHeap, Rep, RepL]

private theorem tiny_safe : ∀ c, partsSafe (rcP c) (ctyP c) = true := by
  intro c
  unfold rcP ctyP
  split
  · decide
  · split
    · decide
    · split <;> decide

/-- the hypotheses of `recipe_separates` / `flow_frame` are satisfiable: a concrete heap, a source entity whose
    recipe passes an immutable tuple by reference, its copy at address 4; a write through the copy changes what the
    copy observes and not what the source observes -/
example : Sep [] (copyInto rcP (fun _ => .leaf NONE) tinyHeap tinyT).1 0 4 ∧
    (∀ n, observe (applyAll [] 4 (copyInto rcP (fun _ => .leaf NONE) tinyHeap tinyT).1 [.setVal [1] 2 77]) n (.own 0)
          = observe tinyHeap n (.own 0)) := by
  have henv : ∀ i : Nat, wt [] ctyP ((fun _ => ATree.leaf NONE) i) = true ∧ ∃ r, Rep tinyHeap ((fun _ => ATree.leaf NONE) i) r :=
    fun _ => ⟨by simp [wt], .val NONE, by simp [Rep]⟩
  have hwf : WF tinyHeap := wf_of_check _ (by decide)
  have h1 := recipe_separates rcP ctyP (fun _ => .leaf NONE) tinyHeap [] tiny_safe henv hwf 0 tinyT (by decide) tiny_rep
    (by decide) 4 (by decide)
  have h2 := flow_frame rcP ctyP (fun _ => .leaf NONE) tinyHeap [] tiny_safe henv hwf 0 tinyT (by decide) tiny_rep
    (by decide) 4 (by decide) [.setVal [1] 2 77]
  exact ⟨h1.2.2.2, h2.1⟩
#guard reprStr (observe (applyAll [] 4 (copyInto rcP (fun _ => .leaf NONE) tinyHeap tinyT).1 [.setVal [1] 2 77]) 3 (.own 4))
        != reprStr (observe (copyInto rcP (fun _ => .leaf NONE) tinyHeap tinyT).1 3 (.own 4))

#guard shapeOK rcEx entEx
#guard noHandle rcEx (copyT rcEx blEx entEx)
#guard !noHandle rcEx entEx          -- the source has handles
-- shared with the source: the mutable value stored in the namespace (12), the aliased part (21) and the item
-- of the shallow copied part (23) - nothing else
#guard shares (copyT rcEx blEx entEx) == [12, 21, 23]
#guard (alloc [] (copyT rcEx blEx entEx)).1.length == 15

/-- reachability in a concrete heap: a set that contains `r` and is closed under owning references contains everything
    reachable from `r` (used by the examples) -/
private def closedH (h : Heap) (r : Nat) (s : List Nat) : Bool :=
  s.contains r && s.all (fun i => match h[i]? with
    | some o => o.slots.all (fun x => match x with | .own c => s.contains c | _ => true)
    | none => true)

private theorem closedH_reach (h : Heap) (r : Nat) (s : List Nat) (hc : closedH h r s = true) :
    ∀ x, Reach h r x → x ∈ s := by
  simp only [closedH, Bool.and_eq_true, List.all_eq_true, List.contains_eq_mem, decide_eq_true_eq] at hc
  intro x rx
  induction rx with
  | refl => exact hc.1
  | step _ e ih =>
    obtain ⟨o, ho, hm⟩ := e
    have := hc.2 _ ih
    simp only [ho, List.all_eq_true] at this
    simpa using this _ hm

private theorem sep_of_closed (fro : List Nat) (h : Heap) (a b : Nat) (sa sb : List Nat)
    (ha : closedH h a sa = true) (hb : closedH h b sb = true)
    (hd : sa.all (fun x => !sb.contains x || isImm h x || fro.contains x) = true) : Sep fro h a b := by
  intro x ra rb
  have xa := closedH_reach h a sa ha x ra
  have xb := closedH_reach h b sb hb x rb
  simp only [List.all_eq_true, Bool.or_eq_true, Bool.not_eq_true', List.contains_eq_mem, decide_eq_false_iff_not,
    decide_eq_true_eq] at hd
  rcases hd x xa with (h1 | h1) | h1
  · exact absurd xb h1
  · exact Or.inl h1
  · exact Or.inr h1

/-- the hypotheses of `flows_frame` are satisfiable: the tiny heap with an empty list at address 3 as collection; the
    flow copies the entity at 0 into the list and then writes through the list into the namespace of the product -/

example : ∀ n, observe (runFlow rcP (fun _ => .leaf NONE) [] 3 (tinyHeap ++ [⟨.cont, []⟩]) tinyFlow) n (.own 0)
    = observe (tinyHeap ++ [⟨.cont, []⟩]) n (.own 0) := by
  have hrep : Rep (tinyHeap ++ [⟨.cont, []⟩]) tinyT (.own 0) := by simp [tinyT, tinyHeap, Rep, RepL]
  have hok : FlowOK rcP ctyP (fun _ => .leaf NONE) [] 3 (tinyHeap ++ [⟨.cont, []⟩]) tinyFlow := by
    simp only [tinyFlow, FlowOK, StepOK, and_true]
    exact ⟨by decide, ⟨_, hrep⟩, fun _ => ⟨by simp [wt], .val NONE, by simp [Rep]⟩⟩
  exact (flows_frame rcP ctyP (fun _ => .leaf NONE) [] tiny_safe _ 0 3 (wf_of_check _ (by decide)) (by decide) (by decide)
    (sep_of_closed [] _ 0 3 [0, 1, 2] [3] (by decide) (by decide) (by decide))
    ⟨⟨.cont, []⟩, by decide, by decide⟩ (by decide) tinyFlow hok).1
-- the write is not a no-op: the product (slot 0 of the collection) has the new value in its namespace
#guard reprStr (observe (runFlow rcP (fun _ => .leaf NONE) [] 3 (tinyHeap ++ [⟨.cont, []⟩]) tinyFlow) 4 (.own 3))
        != reprStr (observe (runFlow rcP (fun _ => .leaf NONE) [] 3 (tinyHeap ++ [⟨.cont, []⟩]) [.produce tinyT]) 4 (.own 3))
#guard reprStr (observe (runFlow rcP (fun _ => .leaf NONE) [] 3 (tinyHeap ++ [⟨.cont, []⟩]) [.produce tinyT]) 4 (.own 3))
        != reprStr (observe (tinyHeap ++ [⟨.cont, []⟩]) 4 (.own 3))

-- non-vacuity: the separated example graph; a write through the copy, one through the source, one through the copy
#guard reprStr (observe (applyTagged [4] 0 1 separatedGraph.heap [(true, .push [0] 5), (false, .push [0] 6), (true, .push [0] 7)]) 4 (.own 0))
        == reprStr (observe (applyAll [4] 0 separatedGraph.heap [.push [0] 6]) 4 (.own 0))
#guard reprStr (observe (applyTagged [4] 0 1 separatedGraph.heap [(true, .push [0] 5), (false, .push [0] 6), (true, .push [0] 7)]) 4 (.own 1))
        == reprStr (observe (applyAll [4] 1 separatedGraph.heap [.push [0] 5, .push [0] 7]) 4 (.own 1))
#guard reprStr (observe (applyTagged [4] 0 1 separatedGraph.heap [(true, .push [0] 5), (false, .push [0] 6)]) 4 (.own 0))
        != reprStr (observe separatedGraph.heap 4 (.own 0))


/-- the hypotheses of `siblings_separate` are satisfiable: the tiny entity copied twice (copies at 4 and 6) -/
example : Sep [] (copyInto rcP (fun _ => .leaf NONE) (copyInto rcP (fun _ => .leaf NONE) tinyHeap tinyT).1 tinyT).1 4 6 :=
  (siblings_separate rcP ctyP (fun _ => .leaf NONE) tinyHeap [] tiny_safe
    (fun _ => ⟨by simp [wt], .val NONE, by simp [Rep]⟩) (wf_of_check _ (by decide)) 0 tinyT (by decide) tiny_rep (by decide)
    4 6 (by decide) (by decide)).1

/-- the hypotheses of `interleaved_flows` are satisfiable: two empty lists (3 and 4) as collections next to the tiny entity;
    the entity is copied into the one, then into the other, then the first product is written -/
example : ∀ n, observe (flowStep rcP (fun _ => .leaf NONE) [] 3
      (flowTagged rcP (fun _ => .leaf NONE) [] 3 4 (tinyHeap ++ [⟨.cont, []⟩, ⟨.cont, []⟩])
        [(false, .produce tinyT), (true, .produce tinyT)]) (.write (.setVal [0, 1] 2 77))) n (.own 4)
    = observe (flowTagged rcP (fun _ => .leaf NONE) [] 3 4 (tinyHeap ++ [⟨.cont, []⟩, ⟨.cont, []⟩])
        [(false, .produce tinyT), (true, .produce tinyT)]) n (.own 4) := by
  have hrep : ∀ h', Rep (tinyHeap ++ h') tinyT (.own 0) := fun h' => by simp [tinyT, tinyHeap, Rep, RepL]
  have hleaf : ∀ (h' : Heap) (i : Nat), wt [] ctyP ((fun _ => ATree.leaf NONE) i) = true ∧ ∃ r, Rep h' ((fun _ => ATree.leaf NONE) i) r :=
    fun _ _ => ⟨by simp [wt], .val NONE, by simp [Rep]⟩
  have hok : FlowTaggedOK rcP ctyP (fun _ => .leaf NONE) [] 3 4 (tinyHeap ++ [⟨.cont, []⟩, ⟨.cont, []⟩])
      [(false, .produce tinyT), (true, .produce tinyT), (false, .write (.setVal [0, 1] 2 77))] := by
    simp only [FlowTaggedOK, StepOK, and_true]
    refine ⟨⟨by decide, ⟨_, hrep _⟩, hleaf _⟩, ⟨by decide, ⟨.own 0, ?_⟩, hleaf _⟩⟩
    simp [tinyT, tinyHeap, Rep, RepL, flowStep, produceInto, copyInto, copyTop, copyP, polT, kidsP, rolesOfP, headerRolesP,
      rcP, pickP, nsT, aliasT, deepT, alloc, allocs, hasDoc]
  exact (interleaved_flows rcP ctyP (fun _ => .leaf NONE) [] tiny_safe _ 3 4 (wf_of_check _ (by decide)) (by decide) (by decide)
    (sep_of_closed [] _ 3 4 [3] [4] (by decide) (by decide) (by decide)) ⟨⟨.cont, []⟩, by decide, by decide⟩
    ⟨⟨.cont, []⟩, by decide, by decide⟩ (by decide) (by decide) _ hok).1
    [(false, .produce tinyT), (true, .produce tinyT)] false (.write (.setVal [0, 1] 2 77)) [] rfl

/-- the hypotheses of `copies_separate` are satisfiable: three copies of the tiny entity, at 4, 6 and 8 -/
example : (copyN rcP (fun _ => .leaf NONE) tinyT 3 tinyHeap).2.Pairwise (Sep [] (copyN rcP (fun _ => .leaf NONE) tinyT 3 tinyHeap).1) :=
  (copies_separate rcP ctyP (fun _ => .leaf NONE) tinyHeap [] tiny_safe
    (fun _ => ⟨by simp [wt], .val NONE, by simp [Rep]⟩) (wf_of_check _ (by decide)) 0 tinyT (by decide) tiny_rep 3).2.2
#guard (copyN rcP (fun _ => .leaf NONE) tinyT 3 tinyHeap).2 == [4, 6, 8]

end EzdxfVerif.Props.C16

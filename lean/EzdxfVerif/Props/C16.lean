import EzdxfVerif.Model.Heap
import EzdxfVerif.Gen.HeapGraphs

/-!
C16  Copies, virtual entities and documents never share mutable state  (DESIGN.md section 7, C16).
-/
namespace EzdxfVerif.Props.C16
open EzdxfVerif.Heap

/-! ### reachability -/

private theorem reach_trans {h : Heap} {a y x : Nat} (r1 : Reach h a y) (r2 : Reach h y x) : Reach h a x := by
  induction r2 with
  | refl => exact r1
  | step _ e ih => exact Reach.step ih e

private theorem reach_head {h : Heap} {a c x : Nat} (e : Edge h a c) (r : Reach h c x) : Reach h a x :=
  reach_trans (Reach.step Reach.refl e) r

private theorem reach_lt {h : Heap} (wf : WF h) {a x : Nat} (ha : a < h.length) (r : Reach h a x) :
    x < h.length := by
  induction r with
  | refl => exact ha
  | step _ e _ => exact wf _ _ e

private theorem mem_of_mem_dropLast {α : Type} {l : List α} {x : α} (h : x ∈ l.dropLast) : x ∈ l := by
  rw [List.dropLast_eq_take] at h
  exact List.mem_of_mem_take h

private theorem resolve_reach {h : Heap} : ∀ (p : List Nat) (b t : Nat), resolve h b p = some t → Reach h b t := by
  intro p
  induction p with
  | nil => intro b t hr; simp [resolve] at hr; subst hr; exact Reach.refl
  | cons i p ih =>
    intro b t hr
    simp only [resolve] at hr
    split at hr
    · exact absurd hr (by simp)
    · rename_i o ho
      split at hr
      · rename_i c hc
        have hm : Ref.own c ∈ o.slots := List.mem_of_getElem? hc
        exact reach_head ⟨o, ho, hm⟩ (ih c t hr)
      · exact absurd hr (by simp)

/-! ### locality of observation and reachability -/

/-- the observation of `a` only depends on the objects reachable from `a` -/
private theorem observe_local {h h' : Heap} :
    ∀ (n a : Nat), (∀ x, Reach h a x → h'[x]? = h[x]?) → observe h' n (.own a) = observe h n (.own a) := by
  intro n
  induction n with
  | zero => intro a _; rfl
  | succ n ih =>
    intro a same
    simp only [observe]
    rw [same a Reach.refl]
    cases ho : h[a]? with
    | none => rfl
    | some o =>
      simp only
      congr 1
      apply List.map_congr_left
      intro s hs
      cases s with
      | val v => cases n <;> rfl
      | nav c => cases n <;> rfl
      | own c =>
        apply ih
        intro x rx
        exact same x (reach_head ⟨o, ho, hs⟩ rx)

private theorem reach_local {h h' : Heap} {a : Nat} (same : ∀ x, Reach h a x → h'[x]? = h[x]?) :
    ∀ x, Reach h' a x → Reach h a x := by
  intro x r
  induction r with
  | refl => exact Reach.refl
  | step _ e ih =>
    obtain ⟨o, ho, hm⟩ := e
    rw [same _ ih] at ho
    exact Reach.step ih ⟨o, ho, hm⟩

/-! ### one write -/

private theorem newSlots_refs {h : Heap} {b : Nat} {ss ss' : List Ref} {fr : Option Obj} {w : Write}
    (hn : newSlots h b ss w = some (ss', fr)) :
    (∀ c, Ref.own c ∈ ss' → Ref.own c ∈ ss ∨ (c = h.length ∧ fr.isSome) ∨ Reach h b c) ∧
    (∀ o, fr = some o → ∀ c, Ref.own c ∉ o.slots) := by
  have hset : ∀ (i : Nat) (r : Ref) (c : Nat), Ref.own c ∈ ss.set i r → Ref.own c ∈ ss ∨ Ref.own c = r := by
    intro i r c hm
    exact List.mem_or_eq_of_mem_set hm
  have hmk : ∀ k vs c, Ref.own c ∉ (mkObj k vs).slots := by
    intro k vs c hm
    simp [mkObj] at hm
  cases w with
  | setVal p i v =>
    simp only [newSlots] at hn
    split at hn
    · simp only [Option.some.injEq, Prod.mk.injEq] at hn
      obtain ⟨rfl, rfl⟩ := hn
      refine ⟨fun c hm => ?_, fun o ho => by simp at ho⟩
      rcases hset _ _ _ hm with h1 | h1
      · exact Or.inl h1
      · simp at h1
    · simp at hn
  | setNav p i a =>
    simp only [newSlots] at hn
    split at hn
    · simp only [Option.some.injEq, Prod.mk.injEq] at hn
      obtain ⟨rfl, rfl⟩ := hn
      refine ⟨fun c hm => ?_, fun o ho => by simp at ho⟩
      rcases hset _ _ _ hm with h1 | h1
      · exact Or.inl h1
      · simp at h1
    · simp at hn
  | push p v =>
    simp only [newSlots, Option.some.injEq, Prod.mk.injEq] at hn
    obtain ⟨rfl, rfl⟩ := hn
    refine ⟨fun c hm => ?_, fun o ho => by simp at ho⟩
    simp at hm
    exact Or.inl hm
  | pop p =>
    simp only [newSlots, Option.some.injEq, Prod.mk.injEq] at hn
    obtain ⟨rfl, rfl⟩ := hn
    refine ⟨fun c hm => Or.inl (mem_of_mem_dropLast hm), fun o ho => by simp at ho⟩
  | erase p i =>
    simp only [newSlots, Option.some.injEq, Prod.mk.injEq] at hn
    obtain ⟨rfl, rfl⟩ := hn
    refine ⟨fun c hm => Or.inl (List.mem_of_mem_eraseIdx hm), fun o ho => by simp at ho⟩
  | setNew p i k vs =>
    simp only [newSlots] at hn
    split at hn
    · simp only [Option.some.injEq, Prod.mk.injEq] at hn
      obtain ⟨rfl, rfl⟩ := hn
      refine ⟨fun c hm => ?_, fun o ho => ?_⟩
      · rcases hset _ _ _ hm with h1 | h1
        · exact Or.inl h1
        · simp at h1; exact Or.inr (Or.inl ⟨h1, rfl⟩)
      · simp at ho; subst ho; exact hmk k vs
    · simp at hn
  | pushNew p k vs =>
    simp only [newSlots, Option.some.injEq, Prod.mk.injEq] at hn
    obtain ⟨rfl, rfl⟩ := hn
    refine ⟨fun c hm => ?_, fun o ho => ?_⟩
    · simp at hm
      rcases hm with h1 | h1
      · exact Or.inl h1
      · exact Or.inr (Or.inl ⟨h1, rfl⟩)
    · simp at ho; subst ho; exact hmk k vs
  | link p i q =>
    simp only [newSlots] at hn
    split at hn
    · split at hn
      · rename_i c0 hc0
        simp only [Option.some.injEq, Prod.mk.injEq] at hn
        obtain ⟨rfl, rfl⟩ := hn
        refine ⟨fun c hm => ?_, fun o ho => by simp at ho⟩
        rcases hset _ _ _ hm with h1 | h1
        · exact Or.inl h1
        · simp at h1; subst h1; exact Or.inr (Or.inr (resolve_reach q b c hc0))
      · simp at hn
    · simp at hn
  | pushLink p q =>
    simp only [newSlots] at hn
    split at hn
    · rename_i c0 hc0
      simp only [Option.some.injEq, Prod.mk.injEq] at hn
      obtain ⟨rfl, rfl⟩ := hn
      refine ⟨fun c hm => ?_, fun o ho => by simp at ho⟩
      simp at hm
      rcases hm with h1 | h1
      · exact Or.inl h1
      · subst h1; exact Or.inr (Or.inr (resolve_reach q b c hc0))
    · simp at hn

/-- what one write does, abstractly: it rewrites the slots of one mutable, non-frozen object `t` reachable
    from `b` and possibly allocates one object at the end of the heap -/
private structure Step (frozen : List Nat) (b : Nat) (h h' : Heap) : Prop where
  unchanged_or :
    h' = h ∨ ∃ (t : Nat) (o : Obj) (ss : List Ref) (fr : Option Obj),
      h[t]? = some o ∧ Reach h b t ∧ o.kind ≠ .imm ∧ t ∉ frozen ∧
      h' = h.set t ⟨o.kind, ss⟩ ++ fr.toList ∧
      (∀ c, Ref.own c ∈ ss → Ref.own c ∈ o.slots ∨ (c = h.length ∧ fr.isSome) ∨ Reach h b c) ∧
      (∀ o', fr = some o' → ∀ c, Ref.own c ∉ o'.slots)

private theorem apply1_step (frozen : List Nat) (b : Nat) (h : Heap) (w : Write) :
    Step frozen b h (apply1 frozen b h w) := by
  constructor
  unfold apply1
  split
  · exact Or.inl rfl
  · rename_i t ht
    split
    · exact Or.inl rfl
    · rename_i o ho
      split
      · exact Or.inl rfl
      · rename_i hk
        split
        · exact Or.inl rfl
        · rename_i ss fr hn
          have ⟨h1, h2⟩ := newSlots_refs hn
          refine Or.inr ⟨t, o, ss, fr, ho, resolve_reach _ _ _ ht, ?_, ?_, rfl, h1, h2⟩
          · intro hk'; exact hk (Or.inl hk')
          · intro hf; exact hk (Or.inr hf)

private theorem getElem?_step {h : Heap} {t : Nat} {o' : Obj} {fr : Option Obj} {x : Nat}
    (hx : x < h.length) (hne : x ≠ t) : (h.set t o' ++ fr.toList)[x]? = h[x]? := by
  rw [List.getElem?_append_left (by simpa using hx)]
  rw [List.getElem?_set_ne (Ne.symm hne)]

private theorem isImm_of_getElem? {h h' : Heap} {x : Nat} (e : h'[x]? = h[x]?) : isImm h' x = isImm h x := by
  simp [isImm, e]

/-- the invariant of the frame theorem -/
private structure Inv (frozen : List Nat) (h : Heap) (a b : Nat) : Prop where
  wf : WF h
  ha : a < h.length
  hb : b < h.length
  sep : Sep frozen h a b

private theorem step_frame {frozen : List Nat} {h h' : Heap} {a b : Nat}
    (inv : Inv frozen h a b) (st : Step frozen b h h') :
    Inv frozen h' a b ∧ ∀ x, Reach h a x → h'[x]? = h[x]? := by
  rcases st.unchanged_or with rfl | ⟨t, o, ss, fr, ho, rt, hk, hf, rfl, hrefs, hfresh⟩
  · exact ⟨inv, fun _ _ => rfl⟩
  have htlt : t < h.length := reach_lt inv.wf inv.hb rt
  -- the target is not reachable from a
  have hta : ¬ Reach h a t := by
    intro ra
    rcases inv.sep t ra rt with h1 | h1
    · simp [isImm, ho] at h1; exact hk h1
    · exact hf h1
  have same : ∀ x, Reach h a x → (h.set t ⟨o.kind, ss⟩ ++ fr.toList)[x]? = h[x]? := by
    intro x rx
    have hx : x < h.length := reach_lt inv.wf inv.ha rx
    exact getElem?_step hx (fun e => hta (e ▸ rx))
  have hlen : h.length ≤ (h.set t ⟨o.kind, ss⟩ ++ fr.toList).length := by simp
  have hlen' : (h.set t ⟨o.kind, ss⟩ ++ fr.toList).length ≤ h.length + 1 := by
    cases fr <;> simp
  -- objects of the new heap
  have hobj : ∀ y o', (h.set t ⟨o.kind, ss⟩ ++ fr.toList)[y]? = some o' →
      (y < h.length ∧ y ≠ t ∧ h[y]? = some o') ∨ (y = t ∧ o' = ⟨o.kind, ss⟩) ∨ (y = h.length ∧ fr = some o') := by
    intro y o' hy
    by_cases hyl : y < h.length
    · by_cases hyt : y = t
      · subst hyt
        rw [List.getElem?_append_left (by simpa using hyl)] at hy
        rw [List.getElem?_set_self hyl] at hy
        simp at hy
        exact Or.inr (Or.inl ⟨rfl, hy.symm⟩)
      · rw [getElem?_step hyl hyt] at hy
        exact Or.inl ⟨hyl, hyt, hy⟩
    · have hge : (h.set t ⟨o.kind, ss⟩).length ≤ y := by simp; omega
      rw [List.getElem?_append_right hge] at hy
      cases fr with
      | none => simp at hy
      | some f =>
        simp at hy
        have : y - h.length = 0 := by
          rcases Nat.eq_zero_or_pos (y - h.length) with h0 | h0
          · exact h0
          · rw [List.getElem?_eq_none (by simp; omega)] at hy; simp at hy
        rw [this] at hy
        simp at hy
        exact Or.inr (Or.inr ⟨by omega, by rw [hy]⟩)
  -- everything b reaches afterwards was reachable before or is the fresh object
  have reachB : ∀ x, Reach (h.set t ⟨o.kind, ss⟩ ++ fr.toList) b x → Reach h b x ∨ (x = h.length ∧ fr.isSome) := by
    intro x r
    induction r with
    | refl => exact Or.inl Reach.refl
    | @step y x _ e ih =>
      obtain ⟨o', ho', hm⟩ := e
      rcases hobj y o' ho' with ⟨_, _, hy⟩ | ⟨hy, rfl⟩ | ⟨hy, hfr⟩
      · rcases ih with ih | ih
        · exact Or.inl (Reach.step ih ⟨o', hy, hm⟩)
        · omega
      · subst hy
        rcases hrefs x hm with h1 | h1 | h1
        · exact Or.inl (Reach.step rt ⟨o, ho, h1⟩)
        · exact Or.inr h1
        · exact Or.inl h1
      · exact absurd hm (hfresh o' hfr x)
  have ha := inv.ha
  have hb := inv.hb
  refine ⟨⟨?_, by omega, by omega, ?_⟩, same⟩
  · -- WF
    intro y x ⟨o', ho', hm⟩
    rcases hobj y o' ho' with ⟨_, _, hy⟩ | ⟨hy, rfl⟩ | ⟨hy, hfr⟩
    · have := inv.wf y x ⟨o', hy, hm⟩; omega
    · rcases hrefs x hm with h1 | h1 | h1
      · have := inv.wf t x ⟨o, ho, h1⟩; omega
      · obtain ⟨rfl, hs⟩ := h1
        cases fr with
        | none => simp at hs
        | some f => simp
      · have := reach_lt inv.wf inv.hb h1; omega
    · exact absurd hm (hfresh o' hfr x)
  · -- Sep
    intro x ra rb
    have ra' : Reach h a x := reach_local same x ra
    rcases reachB x rb with rb' | ⟨rfl, _⟩
    · rcases inv.sep x ra' rb' with h1 | h1
      · exact Or.inl (by rw [isImm_of_getElem? (same x ra')]; exact h1)
      · exact Or.inr h1
    · have := reach_lt inv.wf inv.ha ra'; omega

/-- **frame**: if everything reachable from both `a` and `b` is immutable or frozen, then no sequence of
    writes through `b` changes what an observer of `a` sees -- for every heap without dangling
    references, every pair of roots, every write sequence and every observation depth. -/
theorem frame (frozen : List Nat) (h : Heap) (a b : Nat) (ws : List Write)
    (wf : WF h) (ha : a < h.length) (hb : b < h.length) (sep : Sep frozen h a b) :
    ∀ n, observe (applyAll frozen b h ws) n (.own a) = observe h n (.own a) := by
  have inv : Inv frozen h a b := ⟨wf, ha, hb, sep⟩
  clear wf ha hb sep
  induction ws generalizing h with
  | nil => intro n; rfl
  | cons w ws ih =>
    intro n
    have ⟨inv', same⟩ := step_frame inv (apply1_step frozen b h w)
    simp only [applyAll]
    rw [ih _ inv' n]
    exact observe_local n a same

/-- the hypothesis of `frame` is an invariant of writing through `b` (so `frame` can be applied again
    afterwards, and with the roles of `a` and `b` exchanged) -/
theorem sep_preserved (frozen : List Nat) (h : Heap) (a b : Nat) (ws : List Write)
    (wf : WF h) (ha : a < h.length) (hb : b < h.length) (sep : Sep frozen h a b) :
    WF (applyAll frozen b h ws) ∧ Sep frozen (applyAll frozen b h ws) a b := by
  have inv : Inv frozen h a b := ⟨wf, ha, hb, sep⟩
  clear wf ha hb sep
  induction ws generalizing h with
  | nil => exact ⟨inv.wf, inv.sep⟩
  | cons w ws ih =>
    have ⟨inv', _⟩ := step_frame inv (apply1_step frozen b h w)
    exact ih _ inv'

private theorem sep_symm (frozen : List Nat) (h : Heap) (a b : Nat) (sep : Sep frozen h a b) : Sep frozen h b a :=
  fun x rb ra => sep x ra rb

/-! ### the model of CopyStrategy.copy -/

/-- induction over value trees: children of `node` / `ent` satisfy the property -/
private theorem atree_induct (P : ATree → Prop)
    (hleaf : ∀ v, P (.leaf v)) (hnav : ∀ a, P (.navr a)) (hshare : ∀ a o, P (.share a o))
    (hnode : ∀ a k cs, (∀ t ∈ cs, P t) → P (.node a k cs))
    (hent : ∀ a c cs, (∀ t ∈ cs, P t) → P (.ent a c cs)) : ∀ t, P t := by
  have h := deepT.mutual_induct P (fun ts => ∀ t ∈ ts, P t) hleaf hnav hshare hnode hent
    (by intro t ht; simp at ht)
    (by
      intro t ts h1 h2 x hx
      rcases List.mem_cons.mp hx with rfl | hx
      · exact h1
      · exact h2 x hx)
  exact h.1

private theorem deep_content_aux :
    (∀ t, content (deepT t) = content t) ∧ (∀ ts, contents (deepTs ts) = contents ts) := by
  apply deepT.mutual_induct
  · intro v; simp [deepT, content]
  · intro a; simp [deepT, content]
  · intro a o; simp [deepT, content]
  · intro a k cs ih; simp [deepT, content, ih]
  · intro a c cs ih; simp [deepT, content, ih]
  · simp [deepTs, contents]
  · intro t ts h1 h2; simp [deepTs, contents, h1, h2]

private theorem contents_map_alias : ∀ cs, contents (cs.map aliasT) = contents cs := by
  intro cs
  induction cs with
  | nil => rfl
  | cons t ts ih =>
    simp only [List.map_cons, contents, ih]
    cases t <;> simp [aliasT, content]

private theorem alias_content (t : ATree) : content (aliasT t) = content t := by
  cases t <;> simp [aliasT, content]

private theorem shallow_content (t : ATree) : content (shallowT t) = content t := by
  cases t <;> simp [shallowT, content, contents_map_alias]

private theorem ns_content (a : Nat) (k : Kind) (h o : ATree) (attrs : List ATree) :
    content (nsT (.node a k (h :: o :: attrs))) = .node k (.leaf NONE :: .leaf NONE :: contents attrs) := by
  simp [nsT, content, contents, contents_map_alias]

/-! copy_no_handle -/

private theorem noHandle_parts (rc : Nat → List Policy) (bl : Nat → List ATree) (doc : Bool) (src : Nat) :
    ∀ (ps : List Policy) (parts blank : List ATree),
      (∀ t ∈ parts, shapeOK rc t = true → noHandle rc (entsT rc bl t) = true) →
      shapeParts rc ps parts = true →
      noHandleParts rc ps (kidsT rc bl doc src blank (ps.map Role.part) parts) = true := by
  intro ps
  induction ps with
  | nil => intro parts blank _ _; cases parts <;> simp [kidsT, noHandleParts]
  | cons p ps ih =>
    intro parts blank hP hs
    cases parts with
    | nil => simp [kidsT, noHandleParts]
    | cons t ts =>
      have hrest : ∀ x ∈ ts, shapeOK rc x = true → noHandle rc (entsT rc bl x) = true :=
        fun x hx => hP x (by simp [hx])
      cases p <;> simp only [List.map_cons, kidsT, noHandleParts, shapeParts, Bool.and_eq_true] at hs ⊢
      all_goals first
        | exact ih ts _ hrest hs
        | exact ⟨hP t (by simp) hs.1, ih ts _ hrest hs.2⟩

private theorem noHandle_ents (rc : Nat → List Policy) (bl : Nat → List ATree) :
    ∀ t, shapeOK rc t = true → noHandle rc (entsT rc bl t) = true := by
  apply atree_induct
  · intro v _; simp [entsT, noHandle]
  · intro a _; simp [entsT, noHandle]
  · intro a o _; simp [entsT, noHandle]
  · intro a k cs ih hs
    simp only [entsT, noHandle]
    simp only [shapeOK] at hs
    induction cs with
    | nil => simp [entsTs, noHandleL]
    | cons t ts ihl =>
      simp only [shapeOKL, Bool.and_eq_true] at hs
      simp only [entsTs, noHandleL, Bool.and_eq_true]
      exact ⟨ih t (by simp) hs.1, ihl (fun x hx => ih x (by simp [hx])) hs.2⟩
  · intro a c cs ih hs
    unfold shapeOK at hs
    split at hs
    · rename_i x a' c' d na nk h o attrs xd re px ad xt so parts heq
      cases heq
      simp only [Bool.and_eq_true] at hs
      have hxd : noHandle rc (entsT rc bl xd) = true := ih xd (by simp) hs.1
      have hparts := noHandle_parts rc bl (hasDoc (d :: .node na nk (h :: o :: attrs) :: xd :: re :: px :: ad :: xt :: so :: parts)) a
        (rc c) parts (bl c) (fun t ht => ih t (by simp [ht])) hs.2
      simp only [entsT, rolesOf, headerRoles, List.cons_append, List.nil_append, kidsT, nsT, Role.nextBlank]
      cases hd : hasDoc (d :: .node na nk (h :: o :: attrs) :: xd :: re :: px :: ad :: xt :: so :: parts)
      · rw [hd] at hparts
        simp [noHandle, hparts, NONE]
      · rw [hd] at hparts
        simp [noHandle, hparts, hxd, NONE]
    all_goals first
      | (simp at hs; done)
      | (rename_i heq; cases heq; done)
      | (rename_i hne _; exact (hne _ _ _ rfl).elim)

/-- **copy_no_handle**: for every recipe table, every table of default parts and every well formed entity tree:
    the top entity of the model copy and every entity that the strategy produces below it (extension dictionary
    and its entries, sub-entities of `ents` parts, recursively) have handle = owner = reactors = None -/
theorem copy_no_handle (rc : Nat → List Policy) (bl : Nat → List ATree) (a c : Nat) (cs : List ATree)
    (hs : shapeOK rc (.ent a c cs) = true) : noHandle rc (copyT rc bl (.ent a c cs)) = true := by
  have := noHandle_ents rc bl (.ent a c cs) hs
  simpa [copyT, entsT] using this

/-! alloc -/

private def RefOK (n0 : Nat) (sh : List Nat) (n' : Nat) : Ref → Prop
  | .own c => (n0 ≤ c ∧ c < n') ∨ c ∈ sh
  | _ => True

private theorem RefOK.weaken {n0 n0' n n' : Nat} {sh sh' : List Nat} {r : Ref} (h : RefOK n0 sh n r)
    (h0 : n0' ≤ n0) (hn : n ≤ n') (hs : ∀ s ∈ sh, s ∈ sh') : RefOK n0' sh' n' r := by
  cases r with
  | own c =>
    simp only [RefOK] at h ⊢
    rcases h with ⟨h1, h2⟩ | h1
    · exact Or.inl ⟨by omega, by omega⟩
    · exact Or.inr (hs c h1)
  | val v => trivial
  | nav a => trivial

private structure Ext (h0 : Heap) (sh : List Nat) (h' : Heap) : Prop where
  ext : ∃ e, h' = h0 ++ e
  refs : ∀ i, h0.length ≤ i → ∀ o, h'[i]? = some o → ∀ r ∈ o.slots, RefOK h0.length sh h'.length r

private theorem Ext.refl (h0 : Heap) : Ext h0 [] h0 :=
  ⟨⟨[], by simp⟩, fun i hi o ho => by
    rw [List.getElem?_eq_none (by omega)] at ho; simp at ho⟩

private theorem Ext.len {h0 h' : Heap} {sh : List Nat} (E : Ext h0 sh h') : h0.length ≤ h'.length := by
  obtain ⟨e, rfl⟩ := E.ext; simp

private theorem Ext.old {h0 h' : Heap} {sh : List Nat} (E : Ext h0 sh h') {i : Nat} (hi : i < h0.length) :
    h'[i]? = h0[i]? := by
  obtain ⟨e, rfl⟩ := E.ext
  exact List.getElem?_append_left hi

private theorem Ext.weaken {h0 h' : Heap} {sh sh' : List Nat} (E : Ext h0 sh h') (hs : ∀ s ∈ sh, s ∈ sh') :
    Ext h0 sh' h' :=
  ⟨E.ext, fun i hi o ho r hr => (E.refs i hi o ho r hr).weaken (Nat.le_refl _) (Nat.le_refl _) hs⟩

private theorem Ext.trans {h0 h1 h2 : Heap} {sh1 sh2 : List Nat} (E1 : Ext h0 sh1 h1) (E2 : Ext h1 sh2 h2) :
    Ext h0 (sh1 ++ sh2) h2 := by
  obtain ⟨e1, rfl⟩ := E1.ext
  obtain ⟨e2, rfl⟩ := E2.ext
  refine ⟨⟨e1 ++ e2, by simp⟩, ?_⟩
  intro i hi o ho r hr
  by_cases h1 : i < (h0 ++ e1).length
  · have : (h0 ++ e1 ++ e2)[i]? = (h0 ++ e1)[i]? := List.getElem?_append_left h1
    rw [this] at ho
    exact (E1.refs i hi o ho r hr).weaken (Nat.le_refl _) (by simp) (by intro s hs; simp [hs])
  · exact (E2.refs i (by omega) o ho r hr).weaken (by simp) (Nat.le_refl _) (by intro s hs; simp [hs])

private theorem Ext.push {h0 h1 : Heap} {sh : List Nat} (E : Ext h0 sh h1) (k : Kind) (rs : List Ref)
    (hrs : ∀ r ∈ rs, RefOK h0.length sh h1.length r) :
    Ext h0 sh (h1 ++ [(⟨k, rs⟩ : Obj)]) ∧
      RefOK h0.length sh (h1 ++ [(⟨k, rs⟩ : Obj)]).length (.own h1.length) := by
  have hl := E.len
  obtain ⟨e1, rfl⟩ := E.ext
  refine ⟨⟨⟨e1 ++ [(⟨k, rs⟩ : Obj)], by simp⟩, ?_⟩, ?_⟩
  · intro i hi o ho r hr
    by_cases h1 : i < (h0 ++ e1).length
    · have : (h0 ++ e1 ++ [(⟨k, rs⟩ : Obj)])[i]? = (h0 ++ e1)[i]? := List.getElem?_append_left h1
      rw [this] at ho
      exact (E.refs i hi o ho r hr).weaken (Nat.le_refl _) (by simp) (fun s hs => hs)
    · by_cases h2 : i = (h0 ++ e1).length
      · subst h2
        simp at ho
        subst ho
        exact (hrs r hr).weaken (Nat.le_refl _) (by simp) (fun s hs => hs)
      · rw [List.getElem?_eq_none (by simp at h1 h2 ⊢; omega)] at ho; simp at ho
  · simp only [RefOK]
    left
    constructor
    · exact hl
    · simp

private theorem alloc_ext_aux :
    (∀ t h0, Ext h0 (shares t) (alloc h0 t).1 ∧
       RefOK h0.length (shares t) (alloc h0 t).1.length (alloc h0 t).2) ∧
    (∀ ts h0, Ext h0 (sharesL ts) (allocs h0 ts).1 ∧
       ∀ r ∈ (allocs h0 ts).2, RefOK h0.length (sharesL ts) (allocs h0 ts).1.length r) := by
  apply deepT.mutual_induct
  · intro v h0; simp only [alloc, shares]; exact ⟨Ext.refl h0, trivial⟩
  · intro a h0; simp only [alloc, shares]; exact ⟨Ext.refl h0, trivial⟩
  · intro a o h0
    simp only [alloc, shares]
    exact ⟨(Ext.refl h0).weaken (by simp), by simp [RefOK]⟩
  · intro a k cs ih h0
    simp only [alloc, shares]
    exact (ih h0).1.push k _ (ih h0).2
  · intro a c cs ih h0
    simp only [alloc, shares]
    exact (ih h0).1.push .cell _ (ih h0).2
  · intro h0; simp only [allocs, sharesL]; exact ⟨Ext.refl h0, by simp⟩
  · intro t ts iht ihts h0
    simp only [allocs, sharesL]
    have h1 := iht h0
    have h2 := ihts (alloc h0 t).1
    refine ⟨h1.1.trans h2.1, ?_⟩
    intro r hr
    rcases List.mem_cons.mp hr with rfl | hr
    · exact h1.2.weaken (Nat.le_refl _) h2.1.len (by intro s hs; simp [hs])
    · exact (h2.2 r hr).weaken h1.1.len (Nat.le_refl _) (by intro s hs; simp [hs])

/-- `copy.deepcopy` preserves the value -/
theorem deep_content (t : ATree) : content (deepT t) = content t := deep_content_aux.1 t

private theorem ext_reach {h0 h' : Heap} {sh : List Nat} (wf : WF h0) (hsh : ∀ s ∈ sh, s < h0.length)
    (E : Ext h0 sh h') (c x : Nat) (hc : h0.length ≤ c ∨ ∃ s ∈ sh, Reach h0 s c) (r : Reach h' c x) :
    h0.length ≤ x ∨ ∃ s ∈ sh, Reach h0 s x := by
  induction r with
  | refl => exact hc
  | @step y x _ e ih =>
    obtain ⟨o, ho, hm⟩ := e
    rcases ih with hy | ⟨s, hs, rs⟩
    · have := E.refs y hy o ho _ hm
      simp only [RefOK] at this
      rcases this with ⟨h1, _⟩ | h1
      · exact Or.inl h1
      · exact Or.inr ⟨x, h1, Reach.refl⟩
    · have hy : y < h0.length := reach_lt wf (hsh s hs) rs
      rw [E.old hy] at ho
      exact Or.inr ⟨s, hs, Reach.step rs ⟨o, ho, hm⟩⟩

private theorem ext_old_reach {h0 h' : Heap} {sh : List Nat} (wf : WF h0) (E : Ext h0 sh h') {a : Nat}
    (ha : a < h0.length) : ∀ x, Reach h' a x → Reach h0 a x :=
  reach_local (fun _ rx => E.old (reach_lt wf ha rx))

private theorem ext_wf {h0 h' : Heap} {sh : List Nat} (wf : WF h0) (hsh : ∀ s ∈ sh, s < h0.length)
    (E : Ext h0 sh h') : WF h' := by
  intro y x ⟨o, ho, hm⟩
  have hl := E.len
  by_cases hy : y < h0.length
  · rw [E.old hy] at ho
    have := wf y x ⟨o, ho, hm⟩
    omega
  · have := E.refs y (by omega) o ho _ hm
    simp only [RefOK] at this
    rcases this with ⟨_, h2⟩ | h1
    · exact h2
    · have := hsh x h1; omega

/-- **copy_separates**: build the result of the model copy of an entity tree `t` in a heap `h` that holds the
    source `a` (and everything else).  The clone reaches only new objects and what the aliased parts
    (`shares`) reach; so if those reach only immutable or frozen objects, source and clone satisfy the
    hypothesis of `frame` - for every recipe, every tree, every heap. -/
theorem copy_separates (rc : Nat → List Policy) (bl : Nat → List ATree) (frozen : List Nat)
    (h : Heap) (wf : WF h) (a : Nat) (ha : a < h.length) (t : ATree)
    (hsh : ∀ s ∈ shares (copyT rc bl t), s < h.length)
    (hfro : ∀ s ∈ shares (copyT rc bl t), ∀ x, Reach h s x → isImm h x = true ∨ x ∈ frozen)
    (c : Nat) (hc : (alloc h (copyT rc bl t)).2 = .own c) :
    WF (alloc h (copyT rc bl t)).1 ∧ a < (alloc h (copyT rc bl t)).1.length ∧
    c < (alloc h (copyT rc bl t)).1.length ∧ Sep frozen (alloc h (copyT rc bl t)).1 a c := by
  have ⟨E, hr⟩ := alloc_ext_aux.1 (copyT rc bl t) h
  rw [hc] at hr
  simp only [RefOK] at hr
  have hl := E.len
  refine ⟨ext_wf wf hsh E, by omega, ?_, ?_⟩
  · rcases hr with ⟨_, h2⟩ | h1
    · exact h2
    · have := hsh c h1; omega
  · intro x ra rb
    have ra0 : Reach h a x := ext_old_reach wf E ha x ra
    have hx : x < h.length := reach_lt wf ha ra0
    have hcstart : h.length ≤ c ∨ ∃ s ∈ shares (copyT rc bl t), Reach h s c := by
      rcases hr with ⟨h1, _⟩ | h1
      · exact Or.inl h1
      · exact Or.inr ⟨c, h1, Reach.refl⟩
    rcases ext_reach wf hsh E c x hcstart rb with h1 | ⟨s, hs, rs⟩
    · omega
    · rcases hfro s hs x rs with h2 | h2
      · left; rw [isImm_of_getElem? (E.old hx)]; exact h2
      · exact Or.inr h2

/-- the value of the copy of a well formed entity without extension dictionary whose recipe only uses
    deepcopy / alias / shallow copy: the value of the source with handle, owner and reactors `None` and
    `source_of_copy` set - **copy_equal** -/
theorem copy_equal (rc : Nat → List Policy) (bl : Nat → List ATree) (a c na : Nat) (nk : Kind)
    (d hd ow re px ad xt so : ATree) (attrs parts : List ATree)
    (hpol : ∀ p ∈ rc c, p = .deep ∨ p = .alias ∨ p = .shallow) (hlen : parts.length ≤ (rc c).length) :
    content (copyT rc bl (.ent a c (d :: .node na nk (hd :: ow :: attrs) :: .leaf NONE :: re :: px :: ad :: xt :: so :: parts))) =
    .node .cell (content d :: .node nk (.leaf NONE :: .leaf NONE :: contents attrs) :: .leaf NONE :: .leaf NONE ::
      content px :: content ad :: content xt :: .navref a :: contents parts) := by
  have hparts : ∀ (ps : List Policy) (parts blank : List ATree) (doc : Bool),
      (∀ p ∈ ps, p = .deep ∨ p = .alias ∨ p = .shallow) → parts.length ≤ ps.length →
      contents (kidsT rc bl doc a blank (ps.map Role.part) parts) = contents parts := by
    intro ps
    induction ps with
    | nil => intro parts blank doc _ hl; cases parts <;> simp_all [kidsT, contents]
    | cons p ps ih =>
      intro parts blank doc hp hl
      cases parts with
      | nil => simp [kidsT, contents]
      | cons t ts =>
        have hrest := ih ts (Role.nextBlank blank (.part p)) doc (fun q hq => hp q (by simp [hq])) (by simpa using hl)
        rcases hp p (by simp) with rfl | rfl | rfl <;>
          simp only [List.map_cons, kidsT, contents, hrest, deep_content, alias_content, shallow_content]
  simp only [copyT, rolesOf, headerRoles, List.cons_append, List.nil_append, kidsT, nsT, Role.nextBlank, content,
    contents, contents_map_alias, deep_content, hparts (rc c) parts (bl c) _ hpol hlen]
  cases hasDoc (d :: .node na nk (hd :: ow :: attrs) :: .leaf NONE :: re :: px :: ad :: xt :: so :: parts) <;>
    simp [entsT, content]


/-! ### extracted object graphs (Gen/HeapGraphs.lean, regenerated from the current source on every run) -/

private theorem graph_getElem? (g : Graph) (y : Nat) (o : Obj) (ho : g.heap[y]? = some o) :
    ∃ n, g.nodes[y]? = some n ∧ o = ⟨n.1, n.2.map Ref.own⟩ := by
  simp only [Graph.heap, List.getElem?_map] at ho
  cases hn : g.nodes[y]? with
  | none => simp [hn] at ho
  | some n => simp [hn] at ho; exact ⟨n, rfl, ho.symm⟩

private theorem graph_edge (g : Graph) (y x : Nat) (e : Edge g.heap y x) : x ∈ succOf g y := by
  obtain ⟨o, ho, hm⟩ := e
  obtain ⟨n, hn, rfl⟩ := graph_getElem? g y o ho
  simp only [succOf, hn]
  simpa using hm

private theorem closed_reach (g : Graph) (r : Nat) (s : List Nat) (hc : closedFrom g r s = true) :
    ∀ x, Reach g.heap r x → x ∈ s := by
  simp only [closedFrom, Bool.and_eq_true, List.all_eq_true, List.contains_eq_mem, decide_eq_true_eq] at hc
  intro x rx
  induction rx with
  | refl => exact hc.1
  | step _ e ih => exact hc.2 _ ih _ (graph_edge g _ _ e)

/-- soundness of the certificate checker: a graph accepted by `checkGraph` satisfies the hypotheses of
    `frame` with `frozen` := the frozen region listed in the graph -/
theorem check_sound (allowed : List Rule) (g : Graph) (hc : checkGraph allowed g = true) :
    WF g.heap ∧ g.rootA < g.heap.length ∧ g.rootB < g.heap.length ∧
    Sep g.frozenIds g.heap g.rootA g.rootB := by
  simp only [checkGraph, Bool.and_eq_true, decide_eq_true_eq] at hc
  obtain ⟨⟨⟨⟨⟨⟨ha, hb⟩, hca⟩, hcb⟩, hsep⟩, hwf⟩, _⟩ := hc
  refine ⟨?_, by simpa [Graph.heap] using ha, by simpa [Graph.heap] using hb, ?_⟩
  · intro y x e
    obtain ⟨o, ho, hm⟩ := e
    obtain ⟨n, hn, rfl⟩ := graph_getElem? g y o ho
    simp only [List.all_eq_true, decide_eq_true_eq] at hwf
    have hx : x ∈ n.2 := by simpa using hm
    have := hwf n (List.mem_of_getElem? hn) x hx
    simpa [Graph.heap] using this
  · intro x ra rb
    have xa := closed_reach g _ _ hca x ra
    have xb := closed_reach g _ _ hcb x rb
    simp only [List.all_eq_true, Bool.or_eq_true, Bool.not_eq_true', List.contains_eq_mem,
      decide_eq_false_iff_not, decide_eq_true_eq] at hsep
    rcases hsep x xa with (h1 | h1) | h1
    · exact absurd xb h1
    · left
      simp only [kindOf, beq_iff_eq] at h1
      cases hn : g.nodes[x]? with
      | none => simp [hn] at h1
      | some n =>
        simp only [hn, Option.map_some, Option.some.injEq] at h1
        simp [isImm, Graph.heap, List.getElem?_map, hn, h1]
    · exact Or.inr h1

/-- **graphs_separated**: for one fully populated instance of every copyable registered
    entity class the extracted object graph of (source, source.copy()) passes the certificate check: the
    listed reach sets are closed, and every object in both is immutable or in the frozen region, which is
    justified node by node by a rule of `allowedFrozen`.  (Reverting fix 3a74eae26 - `Body.copy_data` aliasing
    `_temporary_transformation` - makes this fail for the eight ACIS classes.) -/
theorem graphs_separated :
    Gen.HeapGraphs.graphs.all (fun p => checkGraph allowedFrozen p.2) = true := by
  decide +kernel

/-- `frame` instantiated with the extracted graphs: whatever is written through the copy (outside the frozen
    region) the observation of the source is unchanged, and vice versa -/
theorem graphs_frame (name : String) (g : Graph) (hm : (name, g) ∈ Gen.HeapGraphs.graphs)
    (ws : List Write) (n : Nat) :
    observe (applyAll g.frozenIds g.rootB g.heap ws) n (.own g.rootA) = observe g.heap n (.own g.rootA) ∧
    observe (applyAll g.frozenIds g.rootA g.heap ws) n (.own g.rootB) = observe g.heap n (.own g.rootB) := by
  have hall := graphs_separated
  simp only [List.all_eq_true] at hall
  have hc := hall (name, g) hm
  obtain ⟨wf, ha, hb, sep⟩ := check_sound allowedFrozen g hc
  exact ⟨frame _ _ _ _ ws wf ha hb sep n,
         frame _ _ _ _ ws wf hb ha (sep_symm _ _ _ _ sep) n⟩

/-- every entry of a shared mutable region found in any scenario (copy(), copy_to_layout(),
    duplicate_entity(), virtual entities of INSERT / POLYLINE / DIMENSION / ..., disassemble primitives,
    pairs of documents created by new()/readfile()/recover) is covered by the Frozen list.  (Reverting fix 6d1f8396b - module level Tags stored
    in every new(setup=True) document - makes this fail.) -/
theorem candidates_frozen :
    Gen.HeapGraphs.candidates.all (fun c => ruleAllowed allowedFrozen c.2) = true := by
  decide +kernel

/-- source level check, independent of the populated instances: every assignment `entity.x = ...` in every
    copy_data method (parsed from the current source text) is a deepcopy, a strategy copy of sub-entities, a
    reset, a new default object, or passes by reference only parts on the explicit lists `aliasAllowed` /
    `shallowAllowed`.  (Reverting fix 3a74eae26 or 9cace061f makes this fail.) -/
theorem recipes_sharing_allowed :
    Gen.HeapGraphs.recipes.all recipeOK = true ∧ 80 ≤ Gen.HeapGraphs.recipes.length := by
  decide +kernel

/-- the extractor skipped only navigation references of the documented kinds -/
theorem nav_edges_allowed :
    Gen.HeapGraphs.navUsed.all (fun n => allowedNav.contains n) = true := by
  decide +kernel

/-- non-vacuity of the generated data: the extractor produced graphs and scenarios -/
theorem graphs_nonempty : 80 ≤ Gen.HeapGraphs.graphs.length ∧ 250 ≤ Gen.HeapGraphs.scenarioCount := by
  decide +kernel

/-! ### the hypothesis of `frame` is necessary and satisfiable (non-vacuity) -/

private theorem wf_of_check (h : Heap)
    (hc : h.all (fun o => o.slots.all (fun r => match r with | .own c => decide (c < h.length) | _ => true)) = true) :
    WF h := by
  intro y x ⟨o, ho, hm⟩
  simp only [List.all_eq_true] at hc
  have := hc o (List.mem_of_getElem? ho) _ hm
  simpa using this

/-- without the separation hypothesis `frame` fails: one write through the copy changes what the source
    observes (the heap is well formed, both roots are valid) -/
theorem frame_needs_separation :
    WF aliasedHeap ∧ 0 < aliasedHeap.length ∧ 1 < aliasedHeap.length ∧
    observe (applyAll [] 1 aliasedHeap [.setVal [0] 0 1]) 3 (.own 0) ≠ observe aliasedHeap 3 (.own 0) := by
  refine ⟨wf_of_check _ (by decide), by decide, by decide, ?_⟩
  simp [aliasedHeap, applyAll, apply1, resolve, newSlots, Write.path, observe]

example : checkGraph allowedFrozen separatedGraph = true := by decide
-- the same graph is rejected when the shared object is not on the Frozen list
example : checkGraph [] separatedGraph = false := by decide
-- the hypotheses of `frame` hold for it, and writes through the copy are not no-ops: they change what the copy
-- observes while the source observes the same (checked here by evaluation, proved in general by `frame`)
example : WF separatedGraph.heap ∧ Sep separatedGraph.frozenIds separatedGraph.heap 0 1 :=
  let s := check_sound allowedFrozen separatedGraph (by decide)
  ⟨s.1, s.2.2.2⟩
#guard reprStr (observe (applyAll [4] 1 separatedGraph.heap [.push [0] 5, .setNew [] 0 .cont [1, 2]]) 4 (.own 1))
        != reprStr (observe separatedGraph.heap 4 (.own 1))
#guard reprStr (observe (applyAll [4] 1 separatedGraph.heap [.push [0] 5, .setNew [] 0 .cont [1, 2]]) 4 (.own 0))
        == reprStr (observe separatedGraph.heap 4 (.own 0))
-- a write to the frozen object is refused
#guard reprStr (observe (applyAll [4] 1 separatedGraph.heap [.push [1] 5]) 4 (.own 0))
        == reprStr (observe separatedGraph.heap 4 (.own 0))

#guard shapeOK rcEx entEx
#guard noHandle rcEx (copyT rcEx blEx entEx)
#guard !noHandle rcEx entEx          -- the source has handles
-- shared with the source: the mutable value stored in the namespace (12), the aliased part (21) and the item
-- of the shallow copied part (23) - nothing else
#guard shares (copyT rcEx blEx entEx) == [12, 21, 23]
#guard (alloc [] (copyT rcEx blEx entEx)).1.length == 15

end EzdxfVerif.Props.C16

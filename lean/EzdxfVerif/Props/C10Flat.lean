/-
C10 (growth round 2): Bezier4P / Bezier3P `flattening` - pure Python stack machine vs the recursion of the Cython twin.

The loop structure of both twins is C14's model (Model/Flatten.lean: `bezierFlat` over `stackSub` / `recSub`), for which C14 proves
`twins_agree` for ANY curve `C : Curve V` (point function + subdivision test).  This file instantiates that curve with the kernels that
harness/props/c10_loops.py cuts out of the CURRENT source of both twins (Gen/TwinLoops{Py,Pyx}.lean: `fl4Point`, `fl4Dist_rad1`, `fl4Mid`,
`fl4Accept`, …; the remaining loop text of `flattening` / `_Flattening.flatten` is pinned in c10_skeletons.json), proves the kernels of the
two twins equal, and concludes the twin statement for the real arithmetic.  Imported read-only: Props/C14 (twins_agree), Model/Flatten.
The end-of-curve snapping tolerances are those of C14's model (Gen/FlattenKernels: decimal 1e-9 / 1e-12 / 0); the translated snapping tests
of this file use the exact doubles - `flSnap_py`, `flSnap_pyx` state what they are; they are not twins (abs_tol 0 vs 1e-12), which is why
`twins_agree` needs `segments < 10^9`.
-/
import EzdxfVerif.Props.C14
import EzdxfVerif.Gen.TwinLoopsPy
import EzdxfVerif.Gen.TwinLoopsPyx
import Mathlib.Tactic.Ring
import Mathlib.Tactic.Linarith

namespace EzdxfVerif.Props.C10Flat
open EzdxfVerif EzdxfVerif.Rat3 EzdxfVerif.Gen

/-- C14's curve built from translated kernels: `P` = the twin's curve point, test = `sqrt(rad s e m) < distance` in exact arithmetic -/
def curveOf (point : Rat → V3) (rad : V3 → V3 → V3 → Rat) (distance : Rat) : Flatten.Curve V3 :=
  ⟨point, fun s e m => if Flatten.sqrtLt (rad s e m) distance then .accept else .split⟩

/-! ## kernels of both twins -/
theorem twin_fl4Point : TwinLoopsPy.fl4Point = TwinLoopsPyx.fl4Point := by
  funext p0 p1 p2 p3 t
  simp only [TwinLoopsPy.fl4Point, TwinLoopsPyx.fl4Point, V3.mk.injEq]
  refine ⟨?_, ?_, ?_⟩ <;> ring
theorem twin_fl3Point : TwinLoopsPy.fl3Point = TwinLoopsPyx.fl3Point := by
  funext p0 p1 p2 t
  simp only [TwinLoopsPy.fl3Point, TwinLoopsPyx.fl3Point, V3.mk.injEq]
  refine ⟨?_, ?_, ?_⟩ <;> ring
/-- squared distance between the curve's mid point and the chord's mid point: `start.lerp(end).distance(mid)` vs `v3_dist(mid, v3_lerp(start, end, 0.5))` -/
theorem twin_flDistRad : TwinLoopsPy.fl4Dist_rad1 = TwinLoopsPyx.fl4Dist_rad1 ∧ TwinLoopsPy.fl3Dist_rad1 = TwinLoopsPyx.fl3Dist_rad1 := by
  constructor <;> first | rfl | (funext s e m; simp only [TwinLoopsPy.fl4Dist_rad1, TwinLoopsPyx.fl4Dist_rad1, TwinLoopsPy.fl3Dist_rad1, TwinLoopsPyx.fl3Dist_rad1]; ring)
theorem twin_flScalars : TwinLoopsPy.fl4Mid = TwinLoopsPyx.fl4Mid ∧ TwinLoopsPy.fl4Dt = TwinLoopsPyx.fl4Dt ∧ TwinLoopsPy.fl4NextT = TwinLoopsPyx.fl4NextT
    ∧ TwinLoopsPy.fl4More = TwinLoopsPyx.fl4More ∧ TwinLoopsPy.fl4Accept = TwinLoopsPyx.fl4Accept ∧ TwinLoopsPy.fl4Dist = TwinLoopsPyx.fl4Dist
    ∧ TwinLoopsPy.fl3Mid = TwinLoopsPyx.fl3Mid ∧ TwinLoopsPy.fl3Dt = TwinLoopsPyx.fl3Dt ∧ TwinLoopsPy.fl3NextT = TwinLoopsPyx.fl3NextT
    ∧ TwinLoopsPy.fl3More = TwinLoopsPyx.fl3More ∧ TwinLoopsPy.fl3Accept = TwinLoopsPyx.fl3Accept ∧ TwinLoopsPy.fl3Dist = TwinLoopsPyx.fl3Dist :=
  ⟨rfl, rfl, rfl, rfl, rfl, rfl, rfl, rfl, rfl, rfl, rfl, rfl⟩

/-- the translated test `d < distance` with `d` the (non negative) square root of the radicand IS the test of `curveOf` -/
theorem accept_is_sqrtLt (s e m : V3) (distance r1 : Rat) (h0 : 0 ≤ r1) (hr : r1 * r1 = TwinLoopsPy.fl4Dist_rad1 s e m) :
    TwinLoopsPy.fl4Accept (TwinLoopsPy.fl4Dist s e m r1) distance = Flatten.sqrtLt (TwinLoopsPy.fl4Dist_rad1 s e m) distance := by
  simp only [TwinLoopsPy.fl4Accept, TwinLoopsPy.fl4Dist, Flatten.sqrtLt, ← hr]
  by_cases h : r1 < distance
  · have hd : 0 < distance := lt_of_le_of_lt h0 h
    have : r1 * r1 < distance * distance := by nlinarith
    simp [h, hd, this]
  · have h' : distance ≤ r1 := not_lt.mp h
    by_cases hd : 0 < distance
    · have : ¬ r1 * r1 < distance * distance := by nlinarith
      simp [h, this]
    · simp [h, hd]
example : TwinLoopsPy.fl4Accept (TwinLoopsPy.fl4Dist ⟨0, 0, 0⟩ ⟨2, 0, 0⟩ ⟨1, 3, 0⟩ 3) 4 = true
    ∧ TwinLoopsPy.fl4Dist_rad1 ⟨0, 0, 0⟩ ⟨2, 0, 0⟩ ⟨1, 3, 0⟩ = 3 * 3 := by decide +kernel

/-- the snapping tests as translated: Python `math.isclose(t1, 1.0)` has no absolute tolerance, Cython `isclose(t1, 1.0, REL_TOL, ABS_TOL)` has -/
theorem flSnap_py (t1 : Rat) : TwinLoopsPy.fl4Snap t1 = pyIsclose t1 1 ((4835703278458517 : Rat) / 4835703278458516698824704) 0
    ∧ TwinLoopsPy.fl3Snap t1 = TwinLoopsPy.fl4Snap t1 := ⟨rfl, rfl⟩
theorem flSnap_pyx (t1 : Rat) : TwinLoopsPyx.fl3Snap t1 = TwinLoopsPyx.fl4Snap t1 := rfl

/-! ## the twin statement for the translated arithmetic -/
def curve4Py (p0 p1 p2 p3 : V3) (distance : Rat) := curveOf (TwinLoopsPy.fl4Point p0 p1 p2 p3) TwinLoopsPy.fl4Dist_rad1 distance
def curve4Pyx (p0 p1 p2 p3 : V3) (distance : Rat) := curveOf (TwinLoopsPyx.fl4Point p0 p1 p2 p3) TwinLoopsPyx.fl4Dist_rad1 distance
def curve3Py (p0 p1 p2 : V3) (distance : Rat) := curveOf (TwinLoopsPy.fl3Point p0 p1 p2) TwinLoopsPy.fl3Dist_rad1 distance
def curve3Pyx (p0 p1 p2 : V3) (distance : Rat) := curveOf (TwinLoopsPyx.fl3Point p0 p1 p2) TwinLoopsPyx.fl3Dist_rad1 distance

theorem curve_twin : curve4Py = curve4Pyx ∧ curve3Py = curve3Pyx := by
  constructor
  · funext p0 p1 p2 p3 d; simp only [curve4Py, curve4Pyx, twin_fl4Point, twin_flDistRad.1]
  · funext p0 p1 p2 d; simp only [curve3Py, curve3Pyx, twin_fl3Point, twin_flDistRad.2]

open EzdxfVerif.Gen.FlattenKernels in
/-- **Bezier4P.flattening(distance, segments)**: whenever the pure Python stack machine (its own point and distance arithmetic) finishes with the
    vertex list `out`, the Cython recursion (ITS arithmetic, any RECURSION_LIMIT) returns exactly `out` or raises RecursionError - nothing else;
    any control points, any distance, any segment count below 10^9 -/
theorem twin_flattening4 (p0 p1 p2 p3 : V3) (distance : Rat) (n fuel subfuel budget : Nat) (out : List (Flatten.TV V3))
    (hn : 0 < n) (hn9 : n < 10 ^ 9)
    (h : Flatten.bezierFlat (curve4Py p0 p1 p2 p3 distance) (Flatten.stackSub (curve4Py p0 p1 p2 p3 distance) subfuel)
          mathRelTol mathAbsTol p0 p3 n fuel = .ok out) :
    Flatten.bezierFlat (curve4Pyx p0 p1 p2 p3 distance) (Flatten.recSub (curve4Pyx p0 p1 p2 p3 distance) budget) pyxRelTol pyxAbsTol p0 p3 n fuel = .ok out
    ∨ Flatten.bezierFlat (curve4Pyx p0 p1 p2 p3 distance) (Flatten.recSub (curve4Pyx p0 p1 p2 p3 distance) budget) pyxRelTol pyxAbsTol p0 p3 n fuel
        = .error .recursion := by
  rw [← curve_twin.1]
  exact C14.twins_agree _ p0 p3 n fuel subfuel budget out hn hn9 h

open EzdxfVerif.Gen.FlattenKernels in
/-- the same for Bezier3P -/
theorem twin_flattening3 (p0 p1 p2 : V3) (distance : Rat) (n fuel subfuel budget : Nat) (out : List (Flatten.TV V3))
    (hn : 0 < n) (hn9 : n < 10 ^ 9)
    (h : Flatten.bezierFlat (curve3Py p0 p1 p2 distance) (Flatten.stackSub (curve3Py p0 p1 p2 distance) subfuel)
          mathRelTol mathAbsTol p0 p2 n fuel = .ok out) :
    Flatten.bezierFlat (curve3Pyx p0 p1 p2 distance) (Flatten.recSub (curve3Pyx p0 p1 p2 distance) budget) pyxRelTol pyxAbsTol p0 p2 n fuel = .ok out
    ∨ Flatten.bezierFlat (curve3Pyx p0 p1 p2 distance) (Flatten.recSub (curve3Pyx p0 p1 p2 distance) budget) pyxRelTol pyxAbsTol p0 p2 n fuel
        = .error .recursion := by
  rw [← curve_twin.2]
  exact C14.twins_agree _ p0 p2 n fuel subfuel budget out hn hn9 h

-- non-vacuity: a cubic flattened with 4 start segments at distance 1/100 gives 11 vertices in the Python model (as the real Bezier4P.flattening(0.01, 4) of both twins does)
#guard (Flatten.bezierFlat (curve4Py ⟨0, 0, 0⟩ ⟨0, 1, 0⟩ ⟨1, 2, 0⟩ ⟨2, 2, 0⟩ (1 / 100))
          (Flatten.stackSub (curve4Py ⟨0, 0, 0⟩ ⟨0, 1, 0⟩ ⟨1, 2, 0⟩ ⟨2, 2, 0⟩ (1 / 100)) 100) FlattenKernels.mathRelTol FlattenKernels.mathAbsTol
          ⟨0, 0, 0⟩ ⟨2, 2, 0⟩ 4 100).toOption.map List.length = some 11

/-! ## `approximate(segments)` for ANY segment count (Props/C10 has the unrolled case 4) and `approximated_length(segments)` -/
theorem twin_axKernels : TwinLoopsPy.ax4Bad = TwinLoopsPyx.ax4Bad ∧ TwinLoopsPy.ax4Delta = TwinLoopsPyx.ax4Delta ∧ TwinLoopsPy.ax4Param = TwinLoopsPyx.ax4Param
    ∧ TwinLoopsPy.ax3Bad = TwinLoopsPyx.ax3Bad ∧ TwinLoopsPy.ax3Delta = TwinLoopsPyx.ax3Delta ∧ TwinLoopsPy.ax3Param = TwinLoopsPyx.ax3Param :=
  ⟨rfl, rfl, rfl, rfl, rfl, rfl⟩
/-- `length += prev_point.distance(point)` vs `length += v3_dist(prev_point, point)`: same radicand, same sum -/
theorem twin_alAdd : TwinLoopsPy.al4Add = TwinLoopsPyx.al4Add ∧ TwinLoopsPy.al4Add_rad1 = TwinLoopsPyx.al4Add_rad1
    ∧ TwinLoopsPy.al3Add = TwinLoopsPyx.al3Add ∧ TwinLoopsPy.al3Add_rad1 = TwinLoopsPyx.al3Add_rad1 := by
  refine ⟨rfl, ?_, rfl, ?_⟩ <;> first | rfl | (funext l a b; simp only [TwinLoopsPy.al4Add_rad1, TwinLoopsPyx.al4Add_rad1, TwinLoopsPy.al3Add_rad1, TwinLoopsPyx.al3Add_rad1]; ring)
theorem twin_approximate : TwinLoopsPy.approximate4 = TwinLoopsPyx.approximate4 ∧ TwinLoopsPy.approximate3 = TwinLoopsPyx.approximate3 := by
  constructor
  · funext p0 p1 p2 p3; simp only [TwinLoopsPy.approximate4, TwinLoopsPyx.approximate4, twin_fl4Point, twin_axKernels.1, twin_axKernels.2.1, twin_axKernels.2.2.1]
  · funext p0 p1 p2; simp only [TwinLoopsPy.approximate3, TwinLoopsPyx.approximate3, twin_fl3Point, twin_axKernels.2.2.2.1, twin_axKernels.2.2.2.2.1, twin_axKernels.2.2.2.2.2]
/-- `approximated_length(segments)`: equal for every square root function (the same libm sqrt on both sides) -/
theorem twin_approximatedLength (sqrt : Rat → Rat) : TwinLoopsPy.approximatedLength4 sqrt = TwinLoopsPyx.approximatedLength4 sqrt
    ∧ TwinLoopsPy.approximatedLength3 sqrt = TwinLoopsPyx.approximatedLength3 sqrt := by
  constructor
  · funext p0 p1 p2 p3 n; simp only [TwinLoopsPy.approximatedLength4, TwinLoopsPyx.approximatedLength4, twin_approximate.1, twin_alAdd.1, twin_alAdd.2.1]
  · funext p0 p1 p2 n; simp only [TwinLoopsPy.approximatedLength3, TwinLoopsPyx.approximatedLength3, twin_approximate.2, twin_alAdd.2.2.1, twin_alAdd.2.2.2]
#guard (TwinLoopsPy.approximate4 ⟨0, 0, 0⟩ ⟨0, 1, 0⟩ ⟨1, 2, 0⟩ ⟨2, 2, 0⟩ 7).toOption.map List.length = some 8
#guard (TwinLoopsPyx.approximate3 ⟨0, 0, 0⟩ ⟨0, 1, 0⟩ ⟨1, 2, 0⟩ 0).toOption.isNone

end EzdxfVerif.Props.C10Flat

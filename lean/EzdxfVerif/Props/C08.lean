/-
C08  All readers agree on the output of all writers.
Property theorems over Model/Readers.lean (tag-level models of the five readers, the entity linker and the tag
structure of the writers); helper lemmas live in Lemmas/Readers.lean; tables and probes regenerated from the source
in Gen/ReaderTables.lean.  Every theorem below is stated for ALL files / entity lists / call sequences that meet
the explicit decidable hypotheses; `Cfg` (what `factory.load` tells the readers about an entity) is arbitrary.
-/
import EzdxfVerif.Lemmas.Readers
import EzdxfVerif.Gen.ReaderTables

namespace EzdxfVerif.Props.C08
open EzdxfVerif.Readers EzdxfVerif.Gen

/-! ## generated tables and probes the model relies on -/

/-- The constants copied into the model are the ones of the current source: LINKED_ENTITIES, the accepted group
    code range of fileindex.load, ENTITIES is a managed section, and SUPPORTED_TYPES contains the linked
    structures completely (so `ReqLinked` holds for `types=None`). -/
theorem gen_tables :
    ReaderTables.linkedEntities = [("INSERT", "ATTRIB"), ("POLYLINE", "VERTEX")] ∧
    2 ≤ ReaderTables.maxGroupCode ∧
    ReaderTables.managedSections.contains "ENTITIES" = true ∧
    (["POLYLINE", "INSERT", "VERTEX", "ATTRIB", "SEQEND"].all ReaderTables.supportedTypes.contains) = true := by
  decide

/-! ## the entity linker: linking and flattening are inverse -/

/-- `link (flatten es) = es`: the linker rebuilds every well-formed list of linked entities from the entity
    sequence of the ENTITIES section (all lists, any number of sub-entities, open last entity included). -/
theorem linker_roundtrip (cfg : Cfg) (es : List Ent) (hwf : EntsWF cfg es = true) :
    Spec.link cfg (es.flatMap Ent.groups) = es :=
  link_flatten cfg es hwf

/-- `flatten (link gs) = gs` for every entity sequence whose linked structures are complete, and the result is a
    well-formed list of linked entities: nothing is dropped, duplicated or re-ordered by linking. -/
theorem linker_flatten (cfg : Cfg) (gs : List Group) (h : LinkOK cfg gs = true) :
    (Spec.link cfg gs).flatMap Ent.groups = gs ∧ EntsWF cfg (Spec.link cfg gs) = true :=
  flatten_link cfg gs h

/-! ## every reader model computes the Spec on every well-formed file -/

private theorem delivered_eq (cfg : Cfg) (m : Nat) (f : List Tag) (secs pre : List Section) (es : List Ent)
    (post : List Section) (b : Bridge cfg m f secs pre es post) :
    delivered cfg es = (Spec.ofFile cfg f).filter cfg.truthy := by
  simp only [Spec.ofFile, b.parse, Spec.modelspace, b.link, delivered]

private theorem msp_eq (cfg : Cfg) (m : Nat) (f : List Tag) (secs pre : List Section) (es : List Ent)
    (post : List Section) (b : Bridge cfg m f secs pre es post) :
    (es.filter (fun e => !cfg.pspS e.main)).filter (fun e => cfg.req (dxftype e.main)) = Spec.ofFile cfg f := by
  simp only [Spec.ofFile, b.parse, Spec.modelspace, b.link, List.filter_filter]
  apply List.filter_congr
  intro e he
  rw [b.pspAgree e he, Bool.and_comm]

private theorem pre_body (m : Nat) (pre : List Section) (h : ∀ s ∈ pre, idxSecOK m s) :
    ∀ s ∈ pre, bodyOK s.body = true ∧ s.name ≠ "ENTITIES" :=
  fun s hs => ⟨(h s hs).1, (h s hs).2.2.1⟩

private theorem pre_hdr (m : Nat) (pre : List Section) (h : ∀ s ∈ pre, idxSecOK m s) :
    ∀ x ∈ pre.head?, x.name = "HEADER" → ∀ t ∈ x.body, nz t = true := by
  intro x hx hn
  have : x ∈ pre := by
    cases pre with
    | nil => simp at hx
    | cons a r => simp at hx; subst hx; simp
  exact ((h x this).2.2.2 hn).1

/-- iterdxf.modelspace(): on every well-formed file the state machine delivers the Spec's modelspace (entities
    with `bool(entity)` False are not yielded: `if queued:`). -/
theorem iter_agrees (cfg : Cfg) (m : Nat) (hr : ReqLinked cfg) (f : List Tag) (h : FileWF' cfg m f = true) :
    iterModelspace cfg f = .ok ((Spec.ofFile cfg f).filter cfg.truthy) := by
  obtain ⟨secs, pre, es, post, b⟩ := wf_bridge cfg m f h
  rw [← delivered_eq cfg m f secs pre es post b]
  have := iter_ok cfg pre post es (pre_body m pre b.pre_ok) b.wf b.groups hr
    (by rw [← b.file]; exact b.ascii) (by rw [← b.file]; exact b.comp)
  rw [← b.file] at this; exact this

/-- single_pass_modelspace(), for both orders of the ENDSEC test: with `flush` (patched code) the Spec's modelspace,
    without (`flush = false`, the unchanged tree) the modelspace of the section WITHOUT ITS LAST GROUP. -/
theorem single_pass_characterised (cfg : Cfg) (m : Nat) (hr : ReqLinked cfg) (flush : Bool) (f : List Tag)
    (h : FileWF' cfg m f = true) :
    singlePass cfg flush f =
      .ok (if flush then (Spec.ofFile cfg f).filter cfg.truthy
           else delivered cfg (dropLastGroup (Spec.linked cfg f))) := by
  obtain ⟨secs, pre, es, post, b⟩ := wf_bridge cfg m f h
  have hsp := sp_ok cfg flush pre post es (pre_body m pre b.pre_ok) (pre_hdr m pre b.pre_ok) b.groups
    (by rw [← b.file]; exact b.comp)
  rw [← b.file] at hsp
  rw [hsp]
  cases flush with
  | true =>
    simp only [if_true]
    rw [qLoop_result cfg hr es b.wf b.groups, delivered_eq cfg m f secs pre es post b]
  | false =>
    simp only [Bool.false_eq_true, if_false]
    have hl : Spec.linked cfg f = es := by simp [Spec.linked, b.parse, b.link]
    rw [hl, flatMap_dropLast, qLoop_result cfg hr _ (EntsWF_dropLast cfg es b.wf) (entGroupsOK_dropLast es b.groups)]

/-- single_pass_modelspace() as the current source behaves (the probe `singlePassFlush` is regenerated from the
    source on every run): instance of `single_pass_characterised`. -/
theorem single_pass_current (cfg : Cfg) (m : Nat) (hr : ReqLinked cfg) (f : List Tag) (h : FileWF' cfg m f = true) :
    singlePass cfg ReaderTables.singlePassFlush f =
      .ok (if ReaderTables.singlePassFlush then (Spec.ofFile cfg f).filter cfg.truthy
           else delivered cfg (dropLastGroup (Spec.linked cfg f))) :=
  single_pass_characterised cfg m hr ReaderTables.singlePassFlush f h

/-- opendxf(...).modelspace(): fileindex.load + IterDXF on every well-formed file. -/
theorem index_agrees (cfg : Cfg) (m : Nat) (hm : 2 ≤ m) (hr : ReqLinked cfg) (f : List Tag)
    (h : FileWF' cfg m f = true) :
    indexModelspace cfg m f = .ok ((Spec.ofFile cfg f).filter cfg.truthy) := by
  obtain ⟨secs, pre, es, post, b⟩ := wf_bridge cfg m f h
  rw [← delivered_eq cfg m f secs pre es post b]
  have := index_ok cfg m hm pre post es b.pre_ok b.post_ok b.wf b.groups hr b.codes
    (by rw [← b.secsEq]; exact b.objects)
  rw [← b.file] at this; exact this

/-- ezdxf.read / readfile: load_dxf_structure + EntitySection._build; restricted to the requested types the
    modelspace of the loaded Drawing is the Spec's modelspace. -/
theorem strict_agrees (cfg : Cfg) (m : Nat) (f : List Tag) (h : FileWF' cfg m f = true) :
    onlyReq cfg (strictModelspace cfg f) = .ok (Spec.ofFile cfg f) := by
  obtain ⟨secs, pre, es, post, b⟩ := wf_bridge cfg m f h
  have := strict_ok cfg pre post es (pre_body m pre b.pre_ok) (pre_body m post b.post_ok) b.wf b.groups
    (by rw [← b.file]; exact b.ascii) (by rw [← b.file]; exact b.comp)
  rw [← b.file] at this
  rw [this, onlyReq, msp_eq cfg m f secs pre es post b]

/-- recover.read (front end: rebuild_sections, load_section_dict, then the same `_build`). -/
theorem recover_agrees (cfg : Cfg) (m : Nat) (f : List Tag) (h : FileWF' cfg m f = true) :
    onlyReq cfg (recoverModelspace cfg f) = .ok (Spec.ofFile cfg f) := by
  obtain ⟨secs, pre, es, post, b⟩ := wf_bridge cfg m f h
  have := recover_ok cfg pre post es (pre_body m pre b.pre_ok) (pre_body m post b.post_ok) b.wf b.groups b.managed
    (by rw [← b.file]; exact b.ascii) (by rw [← b.file]; exact b.compB)
  rw [← b.file] at this
  rw [this, onlyReq, msp_eq cfg m f secs pre es post b]

/-- DESIGN C08 `readers_agree`: on every well-formed file whose modelspace entities are all truthy, the five reader
    models (single_pass with the ENDSEC fix) deliver the same entity list, the Spec's modelspace. -/
theorem readers_agree (cfg : Cfg) (m : Nat) (hm : 2 ≤ m) (hr : ReqLinked cfg) (f : List Tag)
    (h : FileWF' cfg m f = true) (ht : ∀ e ∈ Spec.ofFile cfg f, cfg.truthy e = true) :
    iterModelspace cfg f = .ok (Spec.ofFile cfg f) ∧
    singlePass cfg true f = .ok (Spec.ofFile cfg f) ∧
    indexModelspace cfg m f = .ok (Spec.ofFile cfg f) ∧
    onlyReq cfg (strictModelspace cfg f) = .ok (Spec.ofFile cfg f) ∧
    onlyReq cfg (recoverModelspace cfg f) = .ok (Spec.ofFile cfg f) := by
  have hf : (Spec.ofFile cfg f).filter cfg.truthy = Spec.ofFile cfg f := List.filter_eq_self.mpr ht
  refine ⟨?_, ?_, ?_, strict_agrees cfg m f h, recover_agrees cfg m f h⟩
  · rw [iter_agrees cfg m hr f h, hf]
  · rw [single_pass_characterised cfg m hr true f h]; simp [hf]
  · rw [index_agrees cfg m hm hr f h, hf]

/-! ## the two defects of the unchanged tree, as theorems about the model of the current code -/

/-- a tiny concrete `Cfg`: nothing is paperspace, every type is requested, a POLYLINE without vertices is falsy -/
def cfgS : Cfg where
  truthy := fun e => !(dxftype e.main == "POLYLINE" && e.subs.isEmpty)
  psp := fun _ => false
  pspS := fun _ => false
  af := fun g => g.any (fun t => t.code == 66 && t.val == "1")
  req := fun _ => true
  strip := id
  stripB := id
  upper := id
  managed := fun _ => true

/-- `SECTION ENTITIES / LINE / ENDSEC / EOF` -/
def oneLine : List Tag := [tSECTION, ⟨2, "ENTITIES"⟩, ⟨0, "LINE"⟩, ⟨8, "0"⟩, tENDSEC, tEOF]

/-- the same with a POLYLINE that has no vertices in front -/
def emptyPolyline : List Tag :=
  [tSECTION, ⟨2, "ENTITIES"⟩, ⟨0, "POLYLINE"⟩, ⟨66, "1"⟩, ⟨0, "SEQEND"⟩, ⟨0, "LINE"⟩, ⟨8, "0"⟩, tENDSEC, tEOF]

/-- single_pass_modelspace with the ENDSEC test first (unchanged tree) loses the only entity of the section, all other
    readers deliver it: the full-strength agreement is false for `flush = false`. -/
theorem single_pass_loses_last_entity :
    singlePass cfgS false oneLine = .ok [] ∧
    singlePass cfgS true oneLine = .ok [Ent.single [⟨0, "LINE"⟩, ⟨8, "0"⟩]] ∧
    iterModelspace cfgS oneLine = .ok [Ent.single [⟨0, "LINE"⟩, ⟨8, "0"⟩]] := by
  decide

/-- `if queued: yield queued`: the iterdxf readers drop a POLYLINE without vertices, the Drawing readers keep it. -/
theorem falsy_entity_dropped :
    iterModelspace cfgS emptyPolyline = .ok [Ent.single [⟨0, "LINE"⟩, ⟨8, "0"⟩]] ∧
    strictModelspace { cfgS with truthy := fun _ => true } emptyPolyline
      = .ok [⟨[⟨0, "POLYLINE"⟩, ⟨66, "1"⟩], [], some [⟨0, "SEQEND"⟩]⟩, Ent.single [⟨0, "LINE"⟩, ⟨8, "0"⟩]] := by
  constructor
  · decide
  · have h := strict_ok { cfgS with truthy := fun _ => true } [] []
      [⟨[⟨0, "POLYLINE"⟩, ⟨66, "1"⟩], [], some [⟨0, "SEQEND"⟩]⟩, Ent.single [⟨0, "LINE"⟩, ⟨8, "0"⟩]]
      (by simp) (by simp) (by decide) (by decide) (by decide) (by decide)
    exact h

/-! ## writers -/

/-- `Ent.flat` (what IterDXFWriter.write emits for one entity) is the flattening of its groups -/
private theorem flat_eq (e : Ent) (h : e.exportable = true) : e.flat = e.groups.flatten := by
  obtain ⟨main, subs, seqend⟩ := e
  by_cases hi : dxftype main = "INSERT" ∧ subs.isEmpty = true
  · have hs : subs = [] := by simpa using hi.2
    subst hs
    cases seqend with
    | none => simp [Ent.flat, Ent.groups, hi.1]
    | some q => simp [Ent.exportable, hi.1] at h
  · have hi' : ¬(dxftype main = "INSERT" ∧ subs.isEmpty = true) := hi
    simp only [Ent.flat, if_neg hi']
    cases seqend <;> simp [Ent.groups]

private theorem flatMap_flat (es : List Ent) (h : ∀ e ∈ es, e.exportable = true) : es.flatMap Ent.flat = flatEnts es := by
  induction es with
  | nil => rfl
  | cons e r ih =>
    have ih' := ih (fun x hx => h x (by simp [hx]))
    simp only [flatEnts, List.flatMap_cons, List.flatten_append] at ih' ⊢
    rw [flat_eq e (h e (by simp)), ih']

/-- iterdxf exporter without the second sub-entity loop (.scratch/fixes/C08-3.diff): the written file is exactly the
    file whose ENTITIES section consists of the written entities, in front of it the copied sections, behind it the
    copied OBJECTS section (if any) - for every source prefix and every sequence of written entities. -/
theorem export_structure (pre : List Section) (written : List Ent) (objects : Option Section)
    (h : ∀ e ∈ written, e.exportable = true) :
    exportFile false pre written objects = fileOf pre written objects.toList := by
  rw [fileOf_eq]
  unfold exportFile
  simp only [Bool.false_eq_true, if_false, List.append_nil]
  rw [flatMap_flat written h]
  cases objects <;> simp [renderSec]

/-- one POLYLINE with a vertex and SEQEND -/
def polyEnt : Ent := ⟨[⟨0, "POLYLINE"⟩, ⟨5, "A"⟩], [[⟨0, "VERTEX"⟩, ⟨5, "B"⟩]], some [⟨0, "SEQEND"⟩, ⟨5, "C"⟩]⟩

/-- the exporter of the unchanged tree writes the sub-entities twice: every reader gets the copies back as stand-alone
    entities (here: iterdxf.modelspace on the exported file of one POLYLINE). -/
theorem export_duplicates_subs :
    iterModelspace cfgS (exportFile true [] [polyEnt] none) =
      .ok [polyEnt, Ent.single [⟨0, "VERTEX"⟩, ⟨5, "B"⟩], Ent.single [⟨0, "SEQEND"⟩, ⟨5, "C"⟩]] ∧
    iterModelspace cfgS (exportFile false [] [polyEnt] none) = .ok [polyEnt] := by
  decide

private theorem r12_flat (calls : List R12Call) : flatEnts (calls.map R12Call.expected) = calls.flatMap R12Call.emit := by
  induction calls with
  | nil => rfl
  | cons c r ih =>
    have hc : (c.expected).groups.flatten = c.emit := by
      cases c with
      | simple ty a => simp [R12Call.expected, R12Call.emit, Ent.groups, Ent.single]
      | polyline a vs =>
        simp only [R12Call.expected, R12Call.emit, Ent.groups, Option.toList_some, List.flatten_cons,
          List.flatten_append, List.flatten_nil, List.append_nil, List.cons_append, List.nil_append, List.append_assoc]
        induction vs with
        | nil => rfl
        | cons v vr ihv => simp_all [List.flatMap_cons]
    simp only [flatEnts, List.map_cons, List.flatMap_cons, List.flatten_append] at ih ⊢
    rw [hc, ih]

/-- DESIGN C08 `r12_structure`: for every call sequence of the R12FastStreamWriter the emitted tag stream is the file
    whose ENTITIES section holds exactly the expected entities (POLYLINE with its VERTEX list and SEQEND), and that
    entity list is well-formed - so by the reader theorems every reader returns `delivered cfg (expected entities)`. -/
theorem r12_structure (cfg : Cfg) (preface : List Section) (calls : List R12Call)
    (hc : ∀ c ∈ calls, r12CallOK cfg c = true) :
    r12File preface calls = fileOf preface (calls.map R12Call.expected) [] ∧
    EntsWF cfg (calls.map R12Call.expected) = true ∧
    entGroupsOK (calls.map R12Call.expected) = true := by
  refine ⟨?_, ?_, ?_⟩
  · rw [fileOf_eq, r12File, r12_flat]
    simp [renderSec]
  · induction calls with
    | nil => rfl
    | cons c r ih =>
      have hr := ih (fun x hx => hc x (by simp [hx]))
      have h1 := hc c (by simp)
      apply EntsWF_cons _ _ _ _ _ hr
      · cases c with
        | simple ty a =>
          simp only [r12CallOK, Bool.and_eq_true, Option.isNone_iff_eq_none] at h1
          simp [R12Call.expected, entWF, Ent.single, h1.2]
        | polyline a vs =>
          have he : expects cfg (⟨0, "POLYLINE"⟩ :: a) = some "VERTEX" := by simp [expects, dxftype]
          simp [R12Call.expected, entWF, he, hasType]
      · cases c with
        | simple ty a =>
          simp only [r12CallOK, Bool.and_eq_true, Option.isNone_iff_eq_none] at h1
          simp [R12Call.expected, Ent.isOpen, Ent.single, h1.2]
        | polyline a vs => simp [R12Call.expected, Ent.isOpen]
  · simp only [entGroupsOK, List.all_eq_true, List.mem_map]
    rintro e ⟨c, hcm, rfl⟩ g hg
    have h1 := hc c hcm
    cases c with
    | simple ty a =>
      simp only [r12CallOK, Bool.and_eq_true, bne_iff_ne] at h1
      simp only [R12Call.expected, Ent.single, Ent.groups, List.append_nil, Option.toList_none, List.mem_singleton] at hg
      subst hg
      simp [groupOK, dxftype, h1.1.1.1.1, h1.1.1.1.2, h1.1.1.2, h1.1.2]
    | polyline a vs =>
      simp only [r12CallOK, Bool.and_eq_true, List.all_eq_true] at h1
      simp only [R12Call.expected, Ent.groups, Option.toList_some, List.mem_cons, List.mem_append, List.mem_map,
        List.not_mem_nil, or_false] at hg
      rcases hg with rfl | ⟨v, hv, rfl⟩ | rfl
      · simp only [groupOK, dxftype, beq_self_eq_true, Bool.true_and, Bool.and_eq_true, List.all_eq_true, bne_iff_ne]
        exact ⟨⟨⟨h1.1, by decide⟩, by decide⟩, by decide⟩
      · simp only [groupOK, dxftype, beq_self_eq_true, Bool.true_and, Bool.and_eq_true, List.all_eq_true, bne_iff_ne]
        exact ⟨⟨⟨h1.2 v hv, by decide⟩, by decide⟩, by decide⟩
      · simp [groupOK, dxftype]

/-- the fast R12 writer read back by iterdxf.modelspace: the expected entities, for every call sequence -/
theorem r12_iter (cfg : Cfg) (hr : ReqLinked cfg) (preface : List Section) (calls : List R12Call)
    (hc : ∀ c ∈ calls, r12CallOK cfg c = true)
    (hp : ∀ s ∈ preface, bodyOK s.body = true ∧ s.name ≠ "ENTITIES")
    (hA : asciiLoad (r12File preface calls) = r12File preface calls)
    (hC : compile cfg (r12File preface calls) = r12File preface calls) :
    iterModelspace cfg (r12File preface calls) = .ok (delivered cfg (calls.map R12Call.expected)) := by
  obtain ⟨h1, h2, h3⟩ := r12_structure cfg preface calls hc
  rw [h1] at hA hC ⊢
  exact iter_ok cfg preface [] _ hp h2 h3 hr hA hC

/-! ## JSON tags -/

private theorem asciiLoad_prefix (a b : List Tag) (h : ∀ t ∈ a, t.code ≠ 999 ∧ t ≠ tEOF) :
    asciiLoad (a ++ b) = a ++ asciiLoad b := by
  induction a with
  | nil => rfl
  | cons t r ih =>
    obtain ⟨h1, h2⟩ := h t (by simp)
    simp only [List.cons_append, asciiLoad, h2, if_false, h1]
    rw [ih (fun x hx => h x (by simp [hx]))]

private theorem jsonLoad_singles (isPt : Nat → Bool) (a : List Tag) (b : List JTag)
    (h : ∀ t ∈ a, t.code ≠ 999 ∧ t ≠ tEOF) :
    jsonLoad isPt (a.map (fun t => JTag.single t.code t.val) ++ b) = a ++ jsonLoad isPt b := by
  induction a with
  | nil => rfl
  | cons t r ih =>
    obtain ⟨h1, h2⟩ := h t (by simp)
    have h3 : ¬(t.code = 0 ∧ t.val = "EOF") := by
      intro hh; apply h2; cases t; simp_all [tEOF]
    simp only [List.map_cons, List.cons_append, jsonLoad, h3, if_false, h1]
    rw [ih (fun x hx => h x (by simp [hx]))]

/-- JSON tags, compact and verbose: `json_tag_loader (JSONTagWriter ts)` is what `ascii_tags_loader` gets from
    `TagWriter ts`, for every list of compiled tags (comment skipping and the stop at EOF included). -/
theorem json_roundtrip (isPt : Nat → Bool) (compact : Bool) (ws : List WTag) (h : ∀ w ∈ ws, wtagOK isPt w = true) :
    jsonLoad isPt (jsonWrite compact ws) = asciiLoad (asciiWrite ws) := by
  induction ws with
  | nil => rfl
  | cons w r ih =>
    have hr := ih (fun x hx => h x (by simp [hx]))
    cases w with
    | single c v =>
      simp only [jsonWrite, asciiWrite, jsonLoad, asciiLoad]
      by_cases h0 : c = 0 ∧ v = "EOF"
      · obtain ⟨rfl, rfl⟩ := h0; simp [tEOF]
      · have : (⟨c, v⟩ : Tag) ≠ tEOF := by intro hh; apply h0; simpa [tEOF] using hh
        simp only [h0, if_false, this]
        by_cases h9 : c = 999 <;> simp [h9, hr]
    | vertex c xs =>
      have hw := h (.vertex c xs) (by simp)
      simp only [wtagOK, Bool.and_eq_true, List.all_eq_true, bne_iff_ne] at hw
      have hclean : ∀ t ∈ expandPoint c xs 0, t.code ≠ 999 ∧ t ≠ tEOF := fun t ht => hw.2 t ht
      simp only [asciiWrite]
      rw [asciiLoad_prefix _ _ hclean]
      cases compact with
      | true => simp [jsonWrite, jsonLoad, hw.1, hr]
      | false =>
        simp only [jsonWrite, Bool.false_eq_true, if_false]
        rw [jsonLoad_singles isPt _ _ hclean, hr]

/-! ## the decidable well-formedness predicate is met by rendered files (non-vacuity) -/

private theorem parseBody_render (b rest : List Tag) (hb : bodyOK b = true) :
    parseBody (b ++ tENDSEC :: rest) = some (b, rest) := by
  induction b with
  | nil => simp [parseBody]
  | cons t r ih =>
    obtain ⟨ht, hr⟩ := bodyOK_cons t r hb
    have h1 : t ≠ tENDSEC := by intro h; subst h; exact ht ⟨rfl, Or.inr (Or.inl rfl)⟩
    simp only [List.cons_append, parseBody, h1, if_false, ht, ih hr]

/-- `parseFile (render secs) = secs`: the structural parser behind `FileWF'` accepts exactly the rendered section
    lists (with `parseFile_sound` of the lemma file: `parseFile f = some secs ↔ f = render secs ∧ bodies OK`). -/
theorem parse_render (secs : List Section) (hb : ∀ s ∈ secs, bodyOK s.body = true) :
    parseFile (render secs) = some secs := by
  induction secs with
  | nil => simp [render, parseFile]
  | cons s r ih =>
    have h1 := ih (fun x hx => hb x (by simp [hx]))
    have h2 := parseBody_render s.body (render r) (hb s (by simp))
    simp only [render, List.flatMap_cons, renderSec, List.cons_append, List.append_assoc, List.nil_append] at h1 h2 ⊢
    rw [parseFile]
    simp only [show tSECTION ≠ tEOF by decide, if_false, if_true]
    split
    · rename_i b r3 heq
      rw [h2] at heq
      simp only [Option.some.injEq, Prod.mk.injEq] at heq
      obtain ⟨rfl, rfl⟩ := heq
      rw [h1]
      cases s; rfl
    · rename_i heq; rw [h2] at heq; simp at heq

/-! ## non-vacuity: concrete files meet the hypotheses (evaluated, WF recursion does not reduce under `decide`) -/

/-- HEADER, TABLES, ENTITIES with a polyline, a paperspace-free insert with attribs, OBJECTS -/
def sampleFile : List Tag :=
  [tSECTION, ⟨2, "HEADER"⟩, ⟨9, "$ACADVER"⟩, ⟨1, "AC1015"⟩, ⟨9, "$HANDSEED"⟩, ⟨5, "FF"⟩, tENDSEC,
   tSECTION, ⟨2, "TABLES"⟩, ⟨0, "TABLE"⟩, ⟨2, "LAYER"⟩, ⟨0, "ENDTAB"⟩, tENDSEC,
   tSECTION, ⟨2, "ENTITIES"⟩,
   ⟨0, "LINE"⟩, ⟨5, "A"⟩,
   ⟨0, "POLYLINE"⟩, ⟨5, "B"⟩, ⟨66, "1"⟩, ⟨0, "VERTEX"⟩, ⟨5, "C"⟩, ⟨0, "VERTEX"⟩, ⟨5, "D"⟩, ⟨0, "SEQEND"⟩, ⟨5, "E"⟩,
   ⟨0, "INSERT"⟩, ⟨5, "F"⟩, ⟨66, "1"⟩, ⟨0, "ATTRIB"⟩, ⟨5, "10"⟩, ⟨0, "SEQEND"⟩, ⟨5, "11"⟩,
   ⟨0, "CIRCLE"⟩, ⟨5, "12"⟩, tENDSEC,
   tSECTION, ⟨2, "OBJECTS"⟩, ⟨0, "DICTIONARY"⟩, ⟨5, "C0"⟩, tENDSEC, tEOF]

#guard FileWF' cfgS 1071 sampleFile
#guard (Spec.ofFile cfgS sampleFile).length == 4
#guard (Spec.ofFile cfgS sampleFile).all cfgS.truthy
#guard iterModelspace cfgS sampleFile == .ok (Spec.ofFile cfgS sampleFile)
#guard singlePass cfgS true sampleFile == .ok (Spec.ofFile cfgS sampleFile)
#guard indexModelspace cfgS 1071 sampleFile == .ok (Spec.ofFile cfgS sampleFile)
#guard strictModelspace cfgS sampleFile == .ok (Spec.ofFile cfgS sampleFile)
#guard recoverModelspace cfgS sampleFile == .ok (Spec.ofFile cfgS sampleFile)
#guard singlePass cfgS false sampleFile == .ok ((Spec.ofFile cfgS sampleFile).take 3)
#guard FileWF' cfgS 1071 oneLine && FileWF' cfgS 1071 emptyPolyline
#guard !FileWF' cfgS 1071 (sampleFile.take 40)                       -- no EOF
#guard !FileWF' cfgS 1071 (sampleFile.map fun t => if t.val = "SEQEND" then ⟨0, "LINE"⟩ else t)   -- broken links
#guard EntsWF cfgS (Spec.linked cfgS sampleFile) && entGroupsOK (Spec.linked cfgS sampleFile)
#guard r12CallOK cfgS (.polyline [⟨8, "0"⟩, ⟨66, "1"⟩] [[⟨10, "1.0"⟩], [⟨10, "2.0"⟩]]) && r12CallOK cfgS (.simple "LINE" [⟨8, "0"⟩])
#guard wtagOK (fun c => c == 10) (.vertex 10 ["1.0", "2.0", "3.0"])
#guard polyEnt.exportable && (Spec.linked cfgS sampleFile).all Ent.exportable

example : ReqLinked cfgS := ⟨rfl, rfl, rfl, rfl, rfl⟩

end EzdxfVerif.Props.C08

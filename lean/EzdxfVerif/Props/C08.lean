/-
C08  All readers agree on the output of all writers.
Property theorems over Model/Readers.lean (tag-level models of the five readers, the entity linker and the tag
structure of the writers) and, since session 3, Model/ReadersWrite.lean (Drawing.write, r12export), ReadersDetect.lean
(version / encoding decisions, Binary DXF scan), ReadersLines.lean (bytes -> lines -> tags, file locations, exporter
bytes), ReadersRepair.lean (recover's re-ordering filter), ReadersSniff.lean (readfile's sniffer), ReadersRecVer.lean
(recover's version decision); helper lemmas live in Lemmas/Readers*.lean; tables, probes and statement orders
regenerated from the source in Gen/ReaderTables.lean.  Every theorem below is stated for ALL files / entity lists / call sequences that meet
the explicit decidable hypotheses; `Cfg` (what `factory.load` tells the readers about an entity) is arbitrary.
-/
import EzdxfVerif.Lemmas.Readers
import EzdxfVerif.Lemmas.ReadersWrite
import EzdxfVerif.Lemmas.ReadersCompose
import EzdxfVerif.Model.ReadersLoad
import EzdxfVerif.Lemmas.ReadersDetect
import EzdxfVerif.Lemmas.ReadersLines
import EzdxfVerif.Lemmas.ReadersRepair
import EzdxfVerif.Lemmas.ReadersSniff
import EzdxfVerif.Lemmas.ReadersRecVer
import EzdxfVerif.Model.ReadersFilter
import EzdxfVerif.Gen.ReaderTables

namespace EzdxfVerif.Props.C08
open EzdxfVerif.Readers EzdxfVerif.Gen

/-! ## generated tables and probes the model relies on -/

/-- The constants copied into the model are the ones of the current source: LINKED_ENTITIES, the accepted group
    code range of fileindex.load, ENTITIES is a managed section, and SUPPORTED_TYPES contains the linked
    structures completely (so `ReqLinked` holds for `types=None`). -/
theorem gen_tables :
    ReaderTables.linkedEntities = [("INSERT", "ATTRIB"), ("POLYLINE", "VERTEX")] ∧
    2 ≤ ReaderTables.maxGroupCode ∧
    ReaderTables.managedSections.contains "ENTITIES" = true ∧
    (["POLYLINE", "INSERT", "VERTEX", "ATTRIB", "SEQEND"].all ReaderTables.supportedTypes.contains) = true := by
  decide

/-- the behaviour probes of the current source show the repaired readers (fix commits ec191f7e7, 58225a01d):
    `single_pass_modelspace` delivers the last entity of the section and the iterdxf readers yield falsy entities.  The
    theorems below that are stated for `singlePass cfg true` and the composition theorems describe THIS tree; if a
    probe flips, this theorem fails and `single_pass_current` / the truthy filter say what holds instead. -/
theorem gen_probes_fixed : ReaderTables.singlePassFlush = true ∧ ReaderTables.iterdxfYieldsFalsy = true := by
  decide

/-! ## the entity linker: linking and flattening are inverse -/

/-- `link (flatten es) = es`: the linker rebuilds every well-formed list of linked entities from the entity
    sequence of the ENTITIES section (all lists, any number of sub-entities, open last entity included). -/
theorem linker_roundtrip (cfg : Cfg) (es : List Ent) (hwf : EntsWF cfg es = true) :
    Spec.link cfg (es.flatMap Ent.groups) = es :=
  link_flatten cfg es hwf

/-- `flatten (link gs) = gs` for every entity sequence whose linked structures are complete, and the result is a
    well-formed list of linked entities: nothing is dropped, duplicated or re-ordered by linking. -/
theorem linker_flatten (cfg : Cfg) (gs : List Group) (h : LinkOK cfg gs = true) :
    (Spec.link cfg gs).flatMap Ent.groups = gs ∧ EntsWF cfg (Spec.link cfg gs) = true :=
  flatten_link cfg gs h

/-! ## every reader model computes the Spec on every well-formed file -/

private theorem delivered_eq (cfg : Cfg) (m : Nat) (f : List Tag) (secs pre : List Section) (es : List Ent)
    (post : List Section) (b : Bridge cfg m f secs pre es post) :
    delivered cfg es = (Spec.ofFile cfg f).filter cfg.truthy := by
  simp only [Spec.ofFile, b.parse, Spec.modelspace, b.link, delivered]

private theorem msp_eq (cfg : Cfg) (m : Nat) (f : List Tag) (secs pre : List Section) (es : List Ent)
    (post : List Section) (b : Bridge cfg m f secs pre es post) :
    (es.filter (fun e => !cfg.pspS e.main)).filter (fun e => cfg.req (dxftype e.main)) = Spec.ofFile cfg f := by
  simp only [Spec.ofFile, b.parse, Spec.modelspace, b.link, List.filter_filter]
  apply List.filter_congr
  intro e he
  rw [b.pspAgree e he, Bool.and_comm]

private theorem pre_body (m : Nat) (pre : List Section) (h : ∀ s ∈ pre, idxSecOK m s) :
    ∀ s ∈ pre, bodyOK s.body = true ∧ s.name ≠ "ENTITIES" :=
  fun s hs => ⟨(h s hs).1, (h s hs).2.2.1⟩

private theorem pre_hdr (m : Nat) (pre : List Section) (h : ∀ s ∈ pre, idxSecOK m s) :
    ∀ x ∈ pre.head?, x.name = "HEADER" → ∀ t ∈ x.body, nz t = true := by
  intro x hx hn
  have : x ∈ pre := by
    cases pre with
    | nil => simp at hx
    | cons a r => simp at hx; subst hx; simp
  exact ((h x this).2.2.2 hn).1

/-- iterdxf.modelspace(): on every well-formed file the state machine delivers the Spec's modelspace (entities
    with `bool(entity)` False are not yielded: `if queued:`). -/
theorem iter_agrees (cfg : Cfg) (m : Nat) (hr : ReqLinked cfg) (f : List Tag) (h : FileWF' cfg m f = true) :
    iterModelspace cfg f = .ok ((Spec.ofFile cfg f).filter cfg.truthy) := by
  obtain ⟨secs, pre, es, post, b⟩ := wf_bridge cfg m f h
  rw [← delivered_eq cfg m f secs pre es post b]
  have := iter_ok cfg pre post es (pre_body m pre b.pre_ok) b.wf b.groups hr
    (by rw [← b.file]; exact b.ascii) (by rw [← b.file]; exact b.comp)
  rw [← b.file] at this; exact this

/-- single_pass_modelspace(), for both orders of the ENDSEC test: with `flush` (patched code) the Spec's modelspace,
    without (`flush = false`, the unchanged tree) the modelspace of the section WITHOUT ITS LAST GROUP. -/
theorem single_pass_characterised (cfg : Cfg) (m : Nat) (hr : ReqLinked cfg) (flush : Bool) (f : List Tag)
    (h : FileWF' cfg m f = true) :
    singlePass cfg flush f =
      .ok (if flush then (Spec.ofFile cfg f).filter cfg.truthy
           else delivered cfg (dropLastGroup (Spec.linked cfg f))) := by
  obtain ⟨secs, pre, es, post, b⟩ := wf_bridge cfg m f h
  have hsp := sp_ok cfg flush pre post es (pre_body m pre b.pre_ok) (pre_hdr m pre b.pre_ok) b.groups
    (by rw [← b.file]; exact b.comp)
  rw [← b.file] at hsp
  rw [hsp]
  cases flush with
  | true =>
    simp only [if_true]
    rw [qLoop_result cfg hr es b.wf b.groups, delivered_eq cfg m f secs pre es post b]
  | false =>
    simp only [Bool.false_eq_true, if_false]
    have hl : Spec.linked cfg f = es := by simp [Spec.linked, b.parse, b.link]
    rw [hl, flatMap_dropLast, qLoop_result cfg hr _ (EntsWF_dropLast cfg es b.wf) (entGroupsOK_dropLast es b.groups)]

/-- single_pass_modelspace() as the current source behaves (the probe `singlePassFlush` is regenerated from the
    source on every run): instance of `single_pass_characterised`. -/
theorem single_pass_current (cfg : Cfg) (m : Nat) (hr : ReqLinked cfg) (f : List Tag) (h : FileWF' cfg m f = true) :
    singlePass cfg ReaderTables.singlePassFlush f =
      .ok (if ReaderTables.singlePassFlush then (Spec.ofFile cfg f).filter cfg.truthy
           else delivered cfg (dropLastGroup (Spec.linked cfg f))) :=
  single_pass_characterised cfg m hr ReaderTables.singlePassFlush f h

/-- opendxf(...).modelspace(): fileindex.load + IterDXF on every well-formed file. -/
theorem index_agrees (cfg : Cfg) (m : Nat) (hm : 2 ≤ m) (hr : ReqLinked cfg) (f : List Tag)
    (h : FileWF' cfg m f = true) :
    indexModelspace cfg m f = .ok ((Spec.ofFile cfg f).filter cfg.truthy) := by
  obtain ⟨secs, pre, es, post, b⟩ := wf_bridge cfg m f h
  rw [← delivered_eq cfg m f secs pre es post b]
  have := index_ok cfg m hm pre post es b.pre_ok b.post_ok b.wf b.groups hr b.codes
    (by rw [← b.secsEq]; exact b.objects)
  rw [← b.file] at this; exact this

/-- ezdxf.read / readfile: load_dxf_structure + EntitySection._build; restricted to the requested types the
    modelspace of the loaded Drawing is the Spec's modelspace. -/
theorem strict_agrees (cfg : Cfg) (m : Nat) (f : List Tag) (h : FileWF' cfg m f = true) :
    onlyReq cfg (strictModelspace cfg f) = .ok (Spec.ofFile cfg f) := by
  obtain ⟨secs, pre, es, post, b⟩ := wf_bridge cfg m f h
  have := strict_ok cfg pre post es (pre_body m pre b.pre_ok) (pre_body m post b.post_ok) b.wf b.groups
    (by rw [← b.file]; exact b.ascii) (by rw [← b.file]; exact b.comp)
  rw [← b.file] at this
  rw [this, onlyReq, msp_eq cfg m f secs pre es post b]

/-- recover.read (front end: rebuild_sections, load_section_dict, then the same `_build`). -/
theorem recover_agrees (cfg : Cfg) (m : Nat) (f : List Tag) (h : FileWF' cfg m f = true) :
    onlyReq cfg (recoverModelspace cfg f) = .ok (Spec.ofFile cfg f) := by
  obtain ⟨secs, pre, es, post, b⟩ := wf_bridge cfg m f h
  have := recover_ok cfg pre post es (pre_body m pre b.pre_ok) (pre_body m post b.post_ok) b.wf b.groups b.managed
    (by rw [← b.file]; exact b.ascii) (by rw [← b.file]; exact b.compB)
  rw [← b.file] at this
  rw [this, onlyReq, msp_eq cfg m f secs pre es post b]

/-- DESIGN C08 `readers_agree`: on every well-formed file whose modelspace entities are all truthy, the five reader
    models (single_pass with the ENDSEC fix) deliver the same entity list, the Spec's modelspace. -/
theorem readers_agree (cfg : Cfg) (m : Nat) (hm : 2 ≤ m) (hr : ReqLinked cfg) (f : List Tag)
    (h : FileWF' cfg m f = true) (ht : ∀ e ∈ Spec.ofFile cfg f, cfg.truthy e = true) :
    iterModelspace cfg f = .ok (Spec.ofFile cfg f) ∧
    singlePass cfg true f = .ok (Spec.ofFile cfg f) ∧
    indexModelspace cfg m f = .ok (Spec.ofFile cfg f) ∧
    onlyReq cfg (strictModelspace cfg f) = .ok (Spec.ofFile cfg f) ∧
    onlyReq cfg (recoverModelspace cfg f) = .ok (Spec.ofFile cfg f) := by
  have hf : (Spec.ofFile cfg f).filter cfg.truthy = Spec.ofFile cfg f := List.filter_eq_self.mpr ht
  refine ⟨?_, ?_, ?_, strict_agrees cfg m f h, recover_agrees cfg m f h⟩
  · rw [iter_agrees cfg m hr f h, hf]
  · rw [single_pass_characterised cfg m hr true f h]; simp [hf]
  · rw [index_agrees cfg m hm hr f h, hf]

/-! ## the two defects of the unchanged tree, as theorems about the model of the current code -/

/-- a tiny concrete `Cfg`: nothing is paperspace, every type is requested, a POLYLINE without vertices is falsy -/
def cfgS : Cfg where
  truthy := fun e => !(dxftype e.main == "POLYLINE" && e.subs.isEmpty)
  psp := fun _ => false
  pspS := fun _ => false
  af := fun g => g.any (fun t => t.code == 66 && t.val == "1")
  req := fun _ => true
  strip := id
  stripB := id
  upper := id
  managed := fun _ => true

/-- `SECTION ENTITIES / LINE / ENDSEC / EOF` -/
def oneLine : List Tag := [tSECTION, ⟨2, "ENTITIES"⟩, ⟨0, "LINE"⟩, ⟨8, "0"⟩, tENDSEC, tEOF]

/-- the same with a POLYLINE that has no vertices in front -/
def emptyPolyline : List Tag :=
  [tSECTION, ⟨2, "ENTITIES"⟩, ⟨0, "POLYLINE"⟩, ⟨66, "1"⟩, ⟨0, "SEQEND"⟩, ⟨0, "LINE"⟩, ⟨8, "0"⟩, tENDSEC, tEOF]

/-- single_pass_modelspace with the ENDSEC test first (unchanged tree) loses the only entity of the section, all other
    readers deliver it: the full-strength agreement is false for `flush = false`. -/
theorem single_pass_loses_last_entity :
    singlePass cfgS false oneLine = .ok [] ∧
    singlePass cfgS true oneLine = .ok [Ent.single [⟨0, "LINE"⟩, ⟨8, "0"⟩]] ∧
    iterModelspace cfgS oneLine = .ok [Ent.single [⟨0, "LINE"⟩, ⟨8, "0"⟩]] := by
  decide

/-- `if queued: yield queued`: the iterdxf readers drop a POLYLINE without vertices, the Drawing readers keep it. -/
theorem falsy_entity_dropped :
    iterModelspace cfgS emptyPolyline = .ok [Ent.single [⟨0, "LINE"⟩, ⟨8, "0"⟩]] ∧
    strictModelspace { cfgS with truthy := fun _ => true } emptyPolyline
      = .ok [⟨[⟨0, "POLYLINE"⟩, ⟨66, "1"⟩], [], some [⟨0, "SEQEND"⟩]⟩, Ent.single [⟨0, "LINE"⟩, ⟨8, "0"⟩]] := by
  constructor
  · decide
  · have h := strict_ok { cfgS with truthy := fun _ => true } [] []
      [⟨[⟨0, "POLYLINE"⟩, ⟨66, "1"⟩], [], some [⟨0, "SEQEND"⟩]⟩, Ent.single [⟨0, "LINE"⟩, ⟨8, "0"⟩]]
      (by simp) (by simp) (by decide) (by decide) (by decide) (by decide)
    exact h

/-! ## writers -/

/-- `Ent.flat` (what IterDXFWriter.write emits for one entity) is the flattening of its groups -/
private theorem flat_eq (e : Ent) (h : e.exportable = true) : e.flat = e.groups.flatten := by
  obtain ⟨main, subs, seqend⟩ := e
  by_cases hi : dxftype main = "INSERT" ∧ subs.isEmpty = true
  · have hs : subs = [] := by simpa using hi.2
    subst hs
    cases seqend with
    | none => simp [Ent.flat, Ent.groups, hi.1]
    | some q => simp [Ent.exportable, hi.1] at h
  · have hi' : ¬(dxftype main = "INSERT" ∧ subs.isEmpty = true) := hi
    simp only [Ent.flat, if_neg hi']
    cases seqend <;> simp [Ent.groups]

private theorem flatMap_flat (es : List Ent) (h : ∀ e ∈ es, e.exportable = true) : es.flatMap Ent.flat = flatEnts es := by
  induction es with
  | nil => rfl
  | cons e r ih =>
    have ih' := ih (fun x hx => h x (by simp [hx]))
    simp only [flatEnts, List.flatMap_cons, List.flatten_append] at ih' ⊢
    rw [flat_eq e (h e (by simp)), ih']

/-- iterdxf exporter without the second sub-entity loop (.scratch/fixes/C08-3.diff): the written file is exactly the
    file whose ENTITIES section consists of the written entities, in front of it the copied sections, behind it the
    copied OBJECTS section (if any) - for every source prefix and every sequence of written entities. -/
theorem export_structure (pre : List Section) (written : List Ent) (objects : Option Section)
    (h : ∀ e ∈ written, e.exportable = true) :
    exportFile false pre written objects = fileOf pre written objects.toList := by
  rw [fileOf_eq]
  unfold exportFile
  simp only [Bool.false_eq_true, if_false, List.append_nil]
  rw [flatMap_flat written h]
  cases objects <;> simp [renderSec]

/-- one POLYLINE with a vertex and SEQEND -/
def polyEnt : Ent := ⟨[⟨0, "POLYLINE"⟩, ⟨5, "A"⟩], [[⟨0, "VERTEX"⟩, ⟨5, "B"⟩]], some [⟨0, "SEQEND"⟩, ⟨5, "C"⟩]⟩

/-- the exporter of the unchanged tree writes the sub-entities twice: every reader gets the copies back as stand-alone
    entities (here: iterdxf.modelspace on the exported file of one POLYLINE). -/
theorem export_duplicates_subs :
    iterModelspace cfgS (exportFile true [] [polyEnt] none) =
      .ok [polyEnt, Ent.single [⟨0, "VERTEX"⟩, ⟨5, "B"⟩], Ent.single [⟨0, "SEQEND"⟩, ⟨5, "C"⟩]] ∧
    iterModelspace cfgS (exportFile false [] [polyEnt] none) = .ok [polyEnt] := by
  decide

private theorem r12_flat (calls : List R12Call) : flatEnts (calls.map R12Call.expected) = calls.flatMap R12Call.emit := by
  induction calls with
  | nil => rfl
  | cons c r ih =>
    have hc : (c.expected).groups.flatten = c.emit := by
      cases c with
      | simple ty a => simp [R12Call.expected, R12Call.emit, Ent.groups, Ent.single]
      | polyline a vs =>
        simp only [R12Call.expected, R12Call.emit, Ent.groups, Option.toList_some, List.flatten_cons,
          List.flatten_append, List.flatten_nil, List.append_nil, List.cons_append, List.nil_append, List.append_assoc]
        induction vs with
        | nil => rfl
        | cons v vr ihv => simp_all [List.flatMap_cons]
    simp only [flatEnts, List.map_cons, List.flatMap_cons, List.flatten_append] at ih ⊢
    rw [hc, ih]

/-- DESIGN C08 `r12_structure`: for every call sequence of the R12FastStreamWriter the emitted tag stream is the file
    whose ENTITIES section holds exactly the expected entities (POLYLINE with its VERTEX list and SEQEND), and that
    entity list is well-formed - so by the reader theorems every reader returns `delivered cfg (expected entities)`. -/
theorem r12_structure (cfg : Cfg) (preface : List Section) (calls : List R12Call)
    (hc : ∀ c ∈ calls, r12CallOK cfg c = true) :
    r12File preface calls = fileOf preface (calls.map R12Call.expected) [] ∧
    EntsWF cfg (calls.map R12Call.expected) = true ∧
    entGroupsOK (calls.map R12Call.expected) = true := by
  refine ⟨?_, ?_, ?_⟩
  · rw [fileOf_eq, r12File, r12_flat]
    simp [renderSec]
  · induction calls with
    | nil => rfl
    | cons c r ih =>
      have hr := ih (fun x hx => hc x (by simp [hx]))
      have h1 := hc c (by simp)
      apply EntsWF_cons _ _ _ _ _ hr
      · cases c with
        | simple ty a =>
          simp only [r12CallOK, Bool.and_eq_true, Option.isNone_iff_eq_none] at h1
          simp [R12Call.expected, entWF, Ent.single, h1.2]
        | polyline a vs =>
          have he : expects cfg (⟨0, "POLYLINE"⟩ :: a) = some "VERTEX" := by simp [expects, dxftype]
          simp [R12Call.expected, entWF, he, hasType]
      · cases c with
        | simple ty a =>
          simp only [r12CallOK, Bool.and_eq_true, Option.isNone_iff_eq_none] at h1
          simp [R12Call.expected, Ent.isOpen, Ent.single, h1.2]
        | polyline a vs => simp [R12Call.expected, Ent.isOpen]
  · simp only [entGroupsOK, List.all_eq_true, List.mem_map]
    rintro e ⟨c, hcm, rfl⟩ g hg
    have h1 := hc c hcm
    cases c with
    | simple ty a =>
      simp only [r12CallOK, Bool.and_eq_true, bne_iff_ne] at h1
      simp only [R12Call.expected, Ent.single, Ent.groups, List.append_nil, Option.toList_none, List.mem_singleton] at hg
      subst hg
      simp [groupOK, dxftype, h1.1.1.1.1, h1.1.1.1.2, h1.1.1.2, h1.1.2]
    | polyline a vs =>
      simp only [r12CallOK, Bool.and_eq_true, List.all_eq_true] at h1
      simp only [R12Call.expected, Ent.groups, Option.toList_some, List.mem_cons, List.mem_append, List.mem_map,
        List.not_mem_nil, or_false] at hg
      rcases hg with rfl | ⟨v, hv, rfl⟩ | rfl
      · simp only [groupOK, dxftype, beq_self_eq_true, Bool.true_and, Bool.and_eq_true, List.all_eq_true, bne_iff_ne]
        exact ⟨⟨⟨h1.1, by decide⟩, by decide⟩, by decide⟩
      · simp only [groupOK, dxftype, beq_self_eq_true, Bool.true_and, Bool.and_eq_true, List.all_eq_true, bne_iff_ne]
        exact ⟨⟨⟨h1.2 v hv, by decide⟩, by decide⟩, by decide⟩
      · simp [groupOK, dxftype]

/-- the fast R12 writer read back by iterdxf.modelspace: the expected entities, for every call sequence -/
theorem r12_iter (cfg : Cfg) (hr : ReqLinked cfg) (preface : List Section) (calls : List R12Call)
    (hc : ∀ c ∈ calls, r12CallOK cfg c = true)
    (hp : ∀ s ∈ preface, bodyOK s.body = true ∧ s.name ≠ "ENTITIES")
    (hA : asciiLoad (r12File preface calls) = r12File preface calls)
    (hC : compile cfg (r12File preface calls) = r12File preface calls) :
    iterModelspace cfg (r12File preface calls) = .ok (delivered cfg (calls.map R12Call.expected)) := by
  obtain ⟨h1, h2, h3⟩ := r12_structure cfg preface calls hc
  rw [h1] at hA hC ⊢
  exact iter_ok cfg preface [] _ hp h2 h3 hr hA hC

/-! ## Drawing.write: `writers_wf` proved, and the composition writer → every reader (session 3) -/

/-- the order of the export statements of `Drawing.export_sections` and `EntitySection.export_dxf` in the CURRENT source
    (regenerated from the AST) is the order `writeDoc` hard-codes -/
theorem gen_export_order :
    ReaderTables.exportOrder = exportOrderModel ∧ ReaderTables.entitySpaceOrder = entitySpaceOrderModel := by
  decide

/-- DESIGN C08 `writers_wf` for Drawing.write: for EVERY document content whose records are well-formed one by one
    (`DocOK`: a condition per section body and per entity, no global condition) the tag stream emitted by
    `Drawing.export_sections` satisfies the global predicate `FileWF'` all reader theorems start from. -/
theorem writers_wf (cfg : Cfg) (m : Nat) (d : DocW) (h : DocOK cfg m d = true) :
    FileWF' cfg m (writeDoc d) = true :=
  writeDoc_wf cfg m d h

/-- DESIGN C08 composition `write_then_read_agree`: on every file `Drawing.write` can produce, all five reader models
    deliver the same list - the entities of the written entity spaces that are not flagged paperspace, in the order of
    the document (iterdxf readers: of the requested types, falsy ones filtered when the tree does so). -/
theorem write_then_read_agree (cfg : Cfg) (m : Nat) (hr : ReqLinked cfg) (d : DocW) (h : DocOK cfg m d = true) :
    let expected := (d.msp ++ d.psp).filter (fun e => cfg.req (dxftype e.main) && !cfg.psp e.main)
    iterModelspace cfg (writeDoc d) = .ok (expected.filter cfg.truthy) ∧
    singlePass cfg true (writeDoc d) = .ok (expected.filter cfg.truthy) ∧
    indexModelspace cfg m (writeDoc d) = .ok (expected.filter cfg.truthy) ∧
    onlyReq cfg (strictModelspace cfg (writeDoc d)) = .ok expected ∧
    onlyReq cfg (recoverModelspace cfg (writeDoc d)) = .ok expected := by
  intro expected
  have hwf := writeDoc_wf cfg m d h
  have hspec : Spec.ofFile cfg (writeDoc d) = expected := spec_writeDoc cfg m d h
  have hm : 2 ≤ m := (docFacts cfg m d h).m2
  refine ⟨?_, ?_, ?_, ?_, ?_⟩
  · rw [iter_agrees cfg m hr _ hwf, hspec]
  · rw [single_pass_characterised cfg m hr true _ hwf, hspec]; rfl
  · rw [index_agrees cfg m hm hr _ hwf, hspec]
  · rw [strict_agrees cfg m _ hwf, hspec]
  · rw [recover_agrees cfg m _ hwf, hspec]

/-- with the paperspace flags as `set_owner` maintains them (clear in the modelspace, set in the active paperspace) the
    common result is exactly the modelspace entity space of the document, restricted to the requested types -/
theorem write_then_read_modelspace (cfg : Cfg) (d : DocW) (hfl : flagsOK cfg d = true) :
    (d.msp ++ d.psp).filter (fun e => cfg.req (dxftype e.main) && !cfg.psp e.main)
      = d.msp.filter (fun e => cfg.req (dxftype e.main)) := by
  simp only [flagsOK, Bool.and_eq_true, List.all_eq_true, Bool.not_eq_true'] at hfl
  rw [List.filter_append]
  have h1 : d.msp.filter (fun e => cfg.req (dxftype e.main) && !cfg.psp e.main)
      = d.msp.filter (fun e => cfg.req (dxftype e.main)) :=
    List.filter_congr (fun e he => by simp [hfl.1 e he])
  have h2 : d.psp.filter (fun e => cfg.req (dxftype e.main) && !cfg.psp e.main) = [] := by
    rw [List.filter_eq_nil_iff]; intro e he; simp [hfl.2 e he]
  rw [h1, h2, List.append_nil]

/-- the handle level of C04/C05 composed with the readers: for EVERY document state `s` of Model/Doc.lean (reachable or
    not), every frame and every content function `handle → record` that is locally well-formed, the five readers
    deliver the records of exactly the handles `Doc.writeFile s` puts into the ENTITIES section, in that order,
    minus the ones flagged paperspace. -/
theorem state_write_read (cfg : Cfg) (m : Nat) (hr : ReqLinked cfg) (s : Doc.State) (frame : DocW) (content : Nat → Ent)
    (h : DocOK cfg m (ofAbs frame content (Doc.writeFile s)) = true) :
    let f := writeDoc (ofAbs frame content (Doc.writeFile s))
    let expected := ((Doc.writeFile s).entities.map content).filter (fun e => cfg.req (dxftype e.main) && !cfg.psp e.main)
    iterModelspace cfg f = .ok (expected.filter cfg.truthy) ∧
    singlePass cfg true f = .ok (expected.filter cfg.truthy) ∧
    indexModelspace cfg m f = .ok (expected.filter cfg.truthy) ∧
    onlyReq cfg (strictModelspace cfg f) = .ok expected ∧
    onlyReq cfg (recoverModelspace cfg f) = .ok expected := by
  have := write_then_read_agree cfg m hr _ h
  simpa [ofAbs] using this

/-! ## format dispatch: which DXF version and text encoding each reader decides for the same file (session 3) -/

/-- the file `Drawing.write` / the iterdxf exporter / r12export produce, seen from the header: HEADER section with the
    variables `vars`, then well-formed sections none of which is called HEADER -/
def SecsPlain (secs : List Section) : Prop := ∀ s ∈ secs, s.name ≠ "HEADER" ∧ bodyOK s.body = true

/-- Same file → same (version, encoding) decision by `dxf_info` (ezdxf.readfile, iterdxf.modelspace), `fileindex.load`
    (iterdxf.opendxf) and the header scan of `single_pass_modelspace`: for EVERY header written variable by variable
    (`hvarOK` per variable, at most five occurrences of the five variables dxf_info counts - a dict has each once), any
    code page table, any sections behind it.  The common value is the declarative `specInfo` (last `$ACADVER`, last
    `$DWGCODEPAGE` through `toencoding`, utf-8 from AC1021 on). -/
theorem detect_agree (tbl : List (String × String)) (vars : List HVar) (secs : List Section)
    (hok : ∀ v ∈ vars, hvarOK v = true) (hcnt : (vars.filter (fun v => isCounted v.name)).length ≤ 5)
    (hs : SecsPlain secs) :
    dxfInfo tbl (headerFile vars (render secs)) = specInfo tbl vars ∧
    indexInfo tbl (headerFile vars (render secs)) = specInfo tbl vars ∧
    spInfo tbl (headerFile vars (render secs)) = specInfo tbl vars :=
  ⟨dxfInfo_header tbl vars _ hok hcnt, indexInfo_header tbl vars secs hok hs, spInfo_header tbl vars _ hok⟩

/-- recover's `detect_encoding` joins them when the header holds `$DWGCODEPAGE` (group code 3) and `$ACADVER` (group code
    1, non-empty) exactly once each - whatever follows the header -/
theorem detect_recover_agrees (tbl : List (String × String)) (vars : List HVar) (rest : List Tag)
    (hok : ∀ v ∈ vars, hvarOK v = true ∧ recVarOK v = true)
    (hu1 : (vars.filter (fun v => decide (v.name = "$DWGCODEPAGE"))).length = 1)
    (hu2 : (vars.filter (fun v => decide (v.name = "$ACADVER"))).length = 1) :
    recoverEnc tbl (headerFile vars rest) = (specInfo tbl vars).encoding :=
  recoverEnc_header tbl vars rest hok hu1 hu2

/-- composition with `writers_wf`: on every file `Drawing.write` produces from a locally well-formed document whose
    HEADER holds the variables `vars`, all four ASCII readers take the same decision -/
theorem detect_on_written_file (tbl : List (String × String)) (cfg : Cfg) (m : Nat) (d : DocW) (vars : List HVar)
    (h : DocOK cfg m d = true) (hv : d.header = renderVars vars)
    (hok : ∀ v ∈ vars, hvarOK v = true ∧ recVarOK v = true)
    (hcnt : (vars.filter (fun v => isCounted v.name)).length ≤ 5)
    (hu1 : (vars.filter (fun v => decide (v.name = "$DWGCODEPAGE"))).length = 1)
    (hu2 : (vars.filter (fun v => decide (v.name = "$ACADVER"))).length = 1) :
    dxfInfo tbl (writeDoc d) = specInfo tbl vars ∧ indexInfo tbl (writeDoc d) = specInfo tbl vars ∧
    spInfo tbl (writeDoc d) = specInfo tbl vars ∧ recoverEnc tbl (writeDoc d) = (specInfo tbl vars).encoding := by
  have hf := docFacts cfg m d h
  have hexp : ∀ e ∈ d.msp ++ d.psp, e.exportable = true := fun e he => (wEnt_facts cfg m e (hf.ents e he)).2.2.1
  have hsecs := secsOK_of cfg m _ hf.cfgok hf.secs
  -- the sections behind HEADER
  let tailSecs : List Section :=
    ((if d.r12 then [] else [⟨"CLASSES", d.classes⟩]) ++ [⟨"TABLES", d.tables⟩, ⟨"BLOCKS", d.blocks⟩])
      ++ ⟨"ENTITIES", flatEnts (d.msp ++ d.psp)⟩ :: d.post
  have hfile : writeDoc d = headerFile vars (render tailSecs) := by
    rw [writeDoc_eq d hexp, fileOf]
    simp only [DocW.pre, List.cons_append, render, List.flatMap_cons, renderSec, hv, headerFile, tailSecs]
    simp [List.append_assoc]
  have hplain : SecsPlain tailSecs := by
    intro s hs
    simp only [tailSecs, List.mem_append, List.mem_cons] at hs
    rcases hs with (hs | hs) | rfl | hs
    · have hmem : s ∈ d.pre ++ d.post := by
        simp only [DocW.pre, List.mem_append, List.mem_cons]; exact Or.inl (Or.inr (Or.inl hs))
      refine ⟨?_, hsecs.body s hmem⟩
      cases hr : d.r12 <;> simp [hr] at hs <;> subst hs <;> simp
    · have hmem : s ∈ d.pre ++ d.post := by
        simp only [DocW.pre, List.mem_append, List.mem_cons]; exact Or.inl (Or.inr (Or.inr hs))
      refine ⟨?_, hsecs.body s hmem⟩
      simp only [List.mem_cons, List.not_mem_nil, or_false] at hs
      rcases hs with rfl | rfl <;> simp
    · exact ⟨by simp, bodyOK_flatEnts _ (docEnts_groups cfg m d hf)⟩
    · have hmem : s ∈ d.pre ++ d.post := by simp [hs]
      refine ⟨?_, hsecs.body s hmem⟩
      simp only [DocW.post, List.mem_append] at hs
      rcases hs with hs | hs | hs
      · cases hr : d.r12 <;> simp [hr] at hs
        subst hs; simp
      · cases ha : d.acds with
        | none => simp [ha] at hs
        | some a => simp [ha] at hs; subst hs; simp
      · exact hf.stored s hs
  rw [hfile]
  have hok1 : ∀ v ∈ vars, hvarOK v = true := fun v hv => (hok v hv).1
  exact ⟨dxfInfo_header tbl vars _ hok1 hcnt, indexInfo_header tbl vars tailSecs hok1 hplain, spInfo_header tbl vars _ hok1,
    recoverEnc_header tbl vars _ hok hu1 hu2⟩

/-- recover decides the DXF version on its own (`_detect_dxf_version`: the first `$ACADVER` of the merged HEADER section
    plus rescued orphans, stripped, accepted only as `AC` + four digits): on every well-formed file whose header holds
    `$ACADVER` at most once, as an unpadded `ACnnnn`, it is the version every other reader decides -/
theorem recover_version_agrees (tbl : List (String × String)) (cfg : Cfg) (vars : List HVar) (secs : List Section)
    (hok : ∀ v ∈ vars, hvarOK v = true ∧ verVarOK cfg.strip v = true)
    (hu : (vars.filter (fun v => decide (v.name = "$ACADVER"))).length ≤ 1)
    (hs : SecsPlain secs)
    (hA : asciiLoad (headerFile vars (render secs)) = headerFile vars (render secs))
    (hC : compileB cfg (headerFile vars (render secs)) = headerFile vars (render secs)) :
    recoverVersion cfg (headerFile vars (render secs)) = (specInfo tbl vars).version := by
  have hfile : headerFile vars (render secs) = render (⟨"HEADER", renderVars vars⟩ :: secs) := by
    simp [headerFile, render, renderSec]
  have hbody : bodyOK (renderVars vars) = true := by
    simp only [bodyOK, List.all_eq_true]
    intro t ht
    simp only [renderVars, List.mem_flatMap, HVar.tags, List.mem_cons] at ht
    obtain ⟨v, hv, rfl | ht⟩ := ht
    · simp
    · obtain ⟨x, xs, hval, hcodes, _⟩ := hvar_value v (hok v hv).1
      rw [hval] at ht
      have := (hcodes t ht).1
      simp [this]
  rw [hfile] at hA hC ⊢
  unfold recoverVersion
  rw [recoverHeader_file cfg (renderVars vars) secs hbody hs hA hC]
  have h1 : recVersionLoop cfg.strip (tSECTION :: ⟨2, "HEADER"⟩ :: renderVars vars) false
      = recVersionLoop cfg.strip (renderVars vars ++ []) false := by
    simp [recVersionLoop, tSECTION]
  rw [h1, recVersion_vars cfg.strip vars [] hok]
  have h2 := specFold_version tbl vars Info.default hu
  have h3 : recVersionLoop cfg.strip [] false = Info.default.version := rfl
  rw [h3, ← h2]
  simp only [specInfo, Info.final]
  split <;> rfl

/-- where recover's version decision differs (files no writer produces): a padded or lower-case version text is
    stripped by recover but compared as it is by `dxf_info`; a text that is not `AC` + four digits makes recover fall back
    to R12 while the other readers keep it -/
theorem recover_version_differs :
    recVersionLoop (fun s => if s = " AC1032 " then "AC1032" else s) [tSECTION, ⟨2, "HEADER"⟩, ⟨9, "$ACADVER"⟩, ⟨1, " AC1032 "⟩] false = "AC1032" ∧
    (dxfInfo ReaderTables.codepageTable (headerFile [⟨"$ACADVER", [⟨1, " AC1032 "⟩]⟩] [tEOF])).version = " AC1032 " ∧
    recVersionLoop id [tSECTION, ⟨2, "HEADER"⟩, ⟨9, "$ACADVER"⟩, ⟨1, "AC10321"⟩] false = "AC1009" ∧
    (dxfInfo ReaderTables.codepageTable (headerFile [⟨"$ACADVER", [⟨1, "AC10321"⟩]⟩] [tEOF])).version = "AC10321" := by
  decide

/-- a written document, seen from its header: HEADER with the variables, then plain sections -/
private theorem written_as_header_file (cfg : Cfg) (m : Nat) (d : DocW) (vars : List HVar)
    (h : DocOK cfg m d = true) (hv : d.header = renderVars vars) :
    ∃ tailSecs, writeDoc d = headerFile vars (render tailSecs) ∧ SecsPlain tailSecs := by
  have hf := docFacts cfg m d h
  have hexp : ∀ e ∈ d.msp ++ d.psp, e.exportable = true := fun e he => (wEnt_facts cfg m e (hf.ents e he)).2.2.1
  have hsecs := secsOK_of cfg m _ hf.cfgok hf.secs
  -- the sections behind HEADER
  let tailSecs : List Section :=
    ((if d.r12 then [] else [⟨"CLASSES", d.classes⟩]) ++ [⟨"TABLES", d.tables⟩, ⟨"BLOCKS", d.blocks⟩])
      ++ ⟨"ENTITIES", flatEnts (d.msp ++ d.psp)⟩ :: d.post
  have hfile : writeDoc d = headerFile vars (render tailSecs) := by
    rw [writeDoc_eq d hexp, fileOf]
    simp only [DocW.pre, List.cons_append, render, List.flatMap_cons, renderSec, hv, headerFile, tailSecs]
    simp [List.append_assoc]
  have hplain : SecsPlain tailSecs := by
    intro s hs
    simp only [tailSecs, List.mem_append, List.mem_cons] at hs
    rcases hs with (hs | hs) | rfl | hs
    · have hmem : s ∈ d.pre ++ d.post := by
        simp only [DocW.pre, List.mem_append, List.mem_cons]; exact Or.inl (Or.inr (Or.inl hs))
      refine ⟨?_, hsecs.body s hmem⟩
      cases hr : d.r12 <;> simp [hr] at hs <;> subst hs <;> simp
    · have hmem : s ∈ d.pre ++ d.post := by
        simp only [DocW.pre, List.mem_append, List.mem_cons]; exact Or.inl (Or.inr (Or.inr hs))
      refine ⟨?_, hsecs.body s hmem⟩
      simp only [List.mem_cons, List.not_mem_nil, or_false] at hs
      rcases hs with rfl | rfl <;> simp
    · exact ⟨by simp, bodyOK_flatEnts _ (docEnts_groups cfg m d hf)⟩
    · have hmem : s ∈ d.pre ++ d.post := by simp [hs]
      refine ⟨?_, hsecs.body s hmem⟩
      simp only [DocW.post, List.mem_append] at hs
      rcases hs with hs | hs | hs
      · cases hr : d.r12 <;> simp [hr] at hs
        subst hs; simp
      · cases ha : d.acds with
        | none => simp [ha] at hs
        | some a => simp [ha] at hs; subst hs; simp
      · exact hf.stored s hs
  exact ⟨tailSecs, hfile, hplain⟩

/-- `recover_version_agrees` without its two global hypotheses (`asciiLoad f = f`, `compileB cfg f = f`), for the files
    `Drawing.write` produces: on every locally well-formed document whose HEADER holds `$ACADVER` at most once as an
    unpadded `ACnnnn`, recover's own version decision is the version every other reader decides -/
theorem recover_version_on_written_file (tbl : List (String × String)) (cfg : Cfg) (m : Nat) (d : DocW) (vars : List HVar)
    (h : DocOK cfg m d = true) (hv : d.header = renderVars vars)
    (hok : ∀ v ∈ vars, hvarOK v = true ∧ verVarOK cfg.strip v = true)
    (hu : (vars.filter (fun v => decide (v.name = "$ACADVER"))).length ≤ 1) :
    recoverVersion cfg (writeDoc d) = (specInfo tbl vars).version := by
  obtain ⟨tailSecs, hfile, hplain⟩ := written_as_header_file cfg m d vars h hv
  obtain ⟨secs, pre, es, post, b⟩ := wf_bridge cfg m _ (writeDoc_wf cfg m d h)
  have hA := b.ascii
  have hC := b.compB
  rw [hfile] at hA hC ⊢
  exact recover_version_agrees tbl cfg vars tailSecs hok hu hplain hA hC

/-- where the readers genuinely differ (files no ezdxf writer produces): (1) a R2018 header WITHOUT `$DWGCODEPAGE`:
    recover decodes as cp1252, every other reader as utf-8; (2) six counted variables (a duplicate) in front of
    `$DWGCODEPAGE`: `dxf_info` stops after five and keeps cp1252, `fileindex.load` reads on; (3) a comment between the
    name and its value: the text-mode loaders skip it, the binary-mode loaders take it for the value -/
theorem detect_differs :
    (let f := headerFile [⟨"$ACADVER", [⟨1, "AC1032"⟩]⟩] [tEOF]
     recoverEnc ReaderTables.codepageTable f = "cp1252" ∧ (dxfInfo ReaderTables.codepageTable f).encoding = "utf-8") ∧
    (let f := headerFile [⟨"$ACADVER", [⟨1, "AC1015"⟩]⟩, ⟨"$HANDSEED", [⟨5, "A"⟩]⟩, ⟨"$HANDSEED", [⟨5, "B"⟩]⟩, ⟨"$INSUNITS", [⟨70, "6"⟩]⟩,
        ⟨"$INSBASE", [⟨10, "0"⟩, ⟨20, "0"⟩, ⟨30, "0"⟩]⟩, ⟨"$DWGCODEPAGE", [⟨3, "ANSI_1251"⟩]⟩] [tEOF]
     (dxfInfo ReaderTables.codepageTable f).encoding = "cp1252" ∧ (indexInfo ReaderTables.codepageTable f).encoding = "cp1251") ∧
    (let f := tSECTION :: ⟨2, "HEADER"⟩ :: ⟨9, "$DWGCODEPAGE"⟩ :: ⟨999, "note"⟩ :: ⟨3, "ANSI_1251"⟩ :: [tENDSEC, tEOF]
     (dxfInfo ReaderTables.codepageTable f).encoding = "cp1251" ∧ (spInfo ReaderTables.codepageTable f).encoding = "cp1252") := by
  decide

/-- Binary DXF, `scan_params`: the current source reads the `$DWGCODEPAGE` value up to its zero byte (regenerated probe) -/
theorem gen_bin_scan_full : ReaderTables.binScanFull = true := by decide

/-- ... so for EVERY data that continues behind the `$DWGCODEPAGE` name with its value tag (1- or 2-byte group code, a code
    page name of ≥ 5 characters starting with `A`, without zero byte: `ANSI_932` as well as `ANSI_1252`), the scan
    returns `toencoding(name)` -/
theorem bin_scan_codepage (tbl : List (String × String)) (r12 : Bool) (pre rest : List Nat) (cp : String) (tl : List Char)
    (hA : cp.toList = 'A' :: tl) (h5 : 5 ≤ cp.length) (h0 : ∀ c ∈ cp.toList, c.toNat ≠ 0) :
    scanCodepage tbl ReaderTables.binScanFull (pre ++ bytesOf "$DWGCODEPAGE" ++ [0] ++ binTag r12 3 cp ++ rest) pre.length
      = some (toEncoding tbl cp) := by
  rw [gen_bin_scan_full]
  exact scanCodepage_full tbl r12 pre rest cp tl hA h5 h0

/-- a fixed 9-byte slice instead (`data[start : start + 9]`) misses every 3-digit code page: the zero byte becomes part
    of the name and `toencoding` falls back to cp1252 -/
theorem bin_fixed_slice_misses_3_digit :
    findSub (bytesOf "$DWGCODEPAGE") (binHeader true "AC1009" [] "ANSI_932" [1, 120, 0]) 22 1024 = some 58 ∧
    scanCodepage ReaderTables.codepageTable false (binHeader true "AC1009" [] "ANSI_932" [1, 120, 0]) 58 = some "cp1252" ∧
    scanCodepage ReaderTables.codepageTable true (binHeader true "AC1009" [] "ANSI_932" [1, 120, 0]) 58 = some "cp932" ∧
    binScan ReaderTables.codepageTable true (binHeader false "AC1018" [] "ANSI_936" [1, 0, 120, 0]) = some ⟨"AC1018", "gbk"⟩ := by
  decide

/-! ## the line level: how the byte stream becomes tags (session 3) -/

/-- DESIGN C08 line level: the five line splitters of the readers - text mode with universal newlines
    (ascii_tags_loader: ezdxf.readfile, iterdxf.modelspace), binary `readline()` + `rstrip(b"\r\n")` (fileindex.load;
    recover's bytes_loader with its `_search_int` fallback), iterdxf `binary_tagger`, and `replace("\r\n", "\n")` + `split("\n")` of `IterDXF.load_entities`
    - return exactly the written tags, for EVERY tag list (values of any length without line break characters, group
    codes 0‥1071) and EVERY choice of `\n` or `\r\n` per tag (Unix, Windows and the mixed files of the iterdxf
    exporter).  No reader reads in blocks, so there is no buffer boundary an entity could span. -/
theorem lines_agree (ts : List (RawTag × Bool)) (h : tagsClean ts) :
    tagsText (renderLines ts) = .ok (rawTags ts) ∧ tagsBin (renderLines ts) = .ok (rawTags ts) ∧
    tagsBytesLoader (renderLines ts) = .ok (rawTags ts) ∧
    tagsBinTagger (renderLines ts) = .ok (rawTags ts) ∧ tagsChunk (renderLines ts) = .ok (rawTags ts) :=
  lines_agree_all ts h

/-- the offset arithmetic of `opendxf()`: for every file `a ++ g ++ b` (any tags in front, the tags of one entity, any
    tags behind; LF / CRLF per tag) the chunk `IterDXF.load_entities` reads - from the fileindex location of the entity's
    first tag to the location of the next indexed tag - is exactly the rendering of the entity, and it compiles back to
    the entity's tags: no byte of a neighbour, none of its own missing, whatever the lengths -/
theorem index_chunk_is_entity (a g b : List (RawTag × Bool)) (hg : tagsClean g) :
    readChunk (renderLines (a ++ g ++ b)) (locationOf (a ++ g ++ b) a.length) (locationOf (a ++ g ++ b) (a.length + g.length))
      = renderLines g ∧
    tagsChunk (readChunk (renderLines (a ++ g ++ b)) (locationOf (a ++ g ++ b) a.length)
      (locationOf (a ++ g ++ b) (a.length + g.length))) = .ok (rawTags g) :=
  chunk_is_group a g b hg

/-- the iterdxf exporter at BYTE level (`IterDXF.export` + `IterDXFWriter.write`* + `close`), for every source file
    `a ++ m ++ o ++ z` (`a`: all tags in front of the first entity, `o`: the OBJECTS section; any line ends) and every
    list of written entity tags: the exported bytes are the rendering of `a` (copied), the written tags with `\n`, ENDSEC
    with `\r\n`, `o` (copied) and EOF with `\r\n` - a file with mixed line ends - and every line splitter reads exactly
    these tags back; together with `export_structure` (tag level) and `index_chunk_is_entity` this closes the exporter
    from bytes to bytes -/
theorem export_bytes (a m o z : List (RawTag × Bool)) (written : List RawTag)
    (ha : tagsClean a) (ho : tagsClean o) (hw : ∀ t ∈ written, t.code ≤ 1071 ∧ valOK t.val = true) :
    let out := exportBytes (a ++ m ++ o ++ z) a.length written (some ((a ++ m).length, o.length))
    let expected := rawTags a ++ written ++ [⟨0, [69, 78, 68, 83, 69, 67]⟩] ++ rawTags o ++ [⟨0, [69, 79, 70]⟩]
    tagsText out = .ok expected ∧ tagsBin out = .ok expected ∧ tagsBytesLoader out = .ok expected ∧
    tagsBinTagger out = .ok expected ∧ tagsChunk out = .ok expected := by
  intro out expected
  have hclean : tagsClean (a ++ written.map (fun t => (t, false)) ++ [(⟨0, [69, 78, 68, 83, 69, 67]⟩, true)] ++ o
      ++ [(⟨0, [69, 79, 70]⟩, true)]) := by
    apply tagsClean_append
    · apply tagsClean_append
      · apply tagsClean_append
        · apply tagsClean_append _ _ ha
          intro p hp
          obtain ⟨t, ht, rfl⟩ := List.mem_map.mp hp
          exact hw t ht
        · intro p hp; simp only [List.mem_singleton] at hp; subst hp; decide
      · exact ho
    · intro p hp; simp only [List.mem_singleton] at hp; subst hp; decide
  have hraw : rawTags (a ++ written.map (fun t => (t, false)) ++ [(⟨0, [69, 78, 68, 83, 69, 67]⟩, true)] ++ o
      ++ [(⟨0, [69, 79, 70]⟩, true)]) = expected := by
    simp [rawTags, expected, List.map_append, Function.comp_def]
  have := lines_agree_all _ hclean
  rw [hraw, ← exportBytes_eq a m o z written] at this
  exact this

/-- the written group code line `"%3d"` is read back by `int()`, with and without a trailing CR, for every group code
    0‥1071 (exhaustive) -/
theorem code_lines_roundtrip : (List.range 1072).all fmtOK = true := fmtOK_all

/-- where the line splitters genuinely differ (no writer emits such values): a lone CR inside a value ends the line for
    the text-mode readers (the stream loses its code/value rhythm: DXFStructureError) and is kept by the binary-mode
    ones; a value that ends with CR in a CRLF file is cut by `rstrip(b"\r\n")` and kept by the chunk reader -/
theorem lone_cr_differs :
    tagsText [49, 10, 65, 13, 66, 10] = .error .invalidGroupCode ∧
    tagsBin [49, 10, 65, 13, 66, 10] = .ok [⟨1, [65, 13, 66]⟩] ∧
    tagsBin [49, 13, 10, 65, 13, 13, 10] = .ok [⟨1, [65]⟩] ∧
    tagsChunk [49, 13, 10, 65, 13, 13, 10] = .ok [⟨1, [65, 13]⟩] := by
  decide

/-! ## recover's repair filter in front of the tag compiler (session 3) -/

/-- the entity types (and their point codes) recover's `tag_reorder_layer` re-orders, regenerated from
    `COORDINATE_FIXING_TOOLBOX`: only LINE, start and end point -/
theorem gen_reorder_toolbox : ReaderTables.coordinateFixing = [("LINE", [10, 11])] := by decide

/-- `fix_coordinate_order` is the identity on every entity whose coordinate tags stand in one run in canonical order
    (x, y, z of the first point, then of the second, ...; any of them may be missing), whatever surrounds the run -/
theorem fix_coordinate_order_identity (codes : List Nat) (pre mid post : List Tag) (hnd : (coordCodes codes).Nodup)
    (h : CanonCoords codes pre mid post) :
    fixCoordinateOrder codes (pre ++ mid ++ post) = pre ++ mid ++ post :=
  fix_identity codes pre mid post hnd h

/-- ... hence `tag_reorder_layer` (which only recover.read / readfile apply) is the identity on every stream of entities
    whose toolbox entities are written canonically and that ends with a non-toolbox group (EOF): recover and the other
    readers compile the same tags -/
theorem reorder_identity_on_canonical (toolbox : List (String × List Nat)) (gs : List Group) (last : Group)
    (hg : ∀ g ∈ gs ++ [last], groupOK g = true) (hcan : ∀ g ∈ gs, GroupCanon toolbox g)
    (hlast : inToolbox toolbox last = false) :
    tagReorderLayer toolbox (gs ++ [last]).flatten = (gs ++ [last]).flatten :=
  reorder_layer_identity toolbox gs last hg hcan hlast

/-- why the toolbox must stay as small as it is: with DIMENSION (codes 10‥16) in it, the definition points 13/14 of a
    DXF R2000 DIMENSION move in front of the second subclass marker, where the loader does not look for them; and a
    legacy LINE (x1, x2, y1, y2) is repaired as intended -/
theorem reorder_moves_split_coordinates :
    reorderGroup [("LINE", [10, 11]), ("DIMENSION", [10, 11, 12, 13, 14, 15, 16])]
      [⟨0, "DIMENSION"⟩, ⟨100, "AcDbDimension"⟩, ⟨10, "1"⟩, ⟨20, "2"⟩, ⟨100, "AcDbAlignedDimension"⟩, ⟨13, "3"⟩, ⟨23, "4"⟩]
      = [⟨0, "DIMENSION"⟩, ⟨100, "AcDbDimension"⟩, ⟨10, "1"⟩, ⟨20, "2"⟩, ⟨13, "3"⟩, ⟨23, "4"⟩, ⟨100, "AcDbAlignedDimension"⟩] ∧
    reorderGroup ReaderTables.coordinateFixing
      [⟨0, "DIMENSION"⟩, ⟨100, "AcDbDimension"⟩, ⟨10, "1"⟩, ⟨20, "2"⟩, ⟨100, "AcDbAlignedDimension"⟩, ⟨13, "3"⟩, ⟨23, "4"⟩]
      = [⟨0, "DIMENSION"⟩, ⟨100, "AcDbDimension"⟩, ⟨10, "1"⟩, ⟨20, "2"⟩, ⟨100, "AcDbAlignedDimension"⟩, ⟨13, "3"⟩, ⟨23, "4"⟩] ∧
    reorderGroup ReaderTables.coordinateFixing [⟨0, "LINE"⟩, ⟨8, "0"⟩, ⟨10, "1"⟩, ⟨11, "4"⟩, ⟨20, "2"⟩, ⟨21, "5"⟩]
      = [⟨0, "LINE"⟩, ⟨8, "0"⟩, ⟨10, "1"⟩, ⟨20, "2"⟩, ⟨11, "4"⟩, ⟨21, "5"⟩] := by
  decide

/-- no reader strips a UTF-8 byte order mark (no writer emits one): `int()` rejects the first group code line in text
    and in binary mode; only recover's `bytes_loader` reads past it, through its `_search_int` fallback -/
theorem bom_differs :
    tagsText ([239, 187, 191] ++ renderLines [(⟨0, [69, 79, 70]⟩, false)]) = .error .invalidGroupCode ∧
    tagsBin ([239, 187, 191] ++ renderLines [(⟨0, [69, 79, 70]⟩, false)]) = .error .invalidGroupCode ∧
    tagsBytesLoader ([239, 187, 191] ++ renderLines [(⟨0, [69, 79, 70]⟩, false)]) = .ok [⟨0, [69, 79, 70]⟩] := by
  decide

/-! ## sniffing in front of `ezdxf.readfile`, and the levels composed (session 3) -/

/-- every file that satisfies `FileWF'` - in particular (`writers_wf`) every file `Drawing.write` produces - starts with
    `(0, SECTION)` and is accepted by the sniffer `is_dxf_stream` of `ezdxf.readfile`, which therefore behaves like
    `ezdxf.read` on it (no `IOError: not a DXF file`) -/
theorem readfile_accepts_wf (cfg : Cfg) (m : Nat) (f : List Tag) (h : FileWF' cfg m f = true) :
    strictFileModelspace cfg f = some (strictModelspace cfg f) := by
  simp [strictFileModelspace, wf_isDxfStream cfg m f h]

/-- what the ASCII tag writer emits never starts with the Binary DXF sentinel: `is_binary_dxf_file` is False, the file is
    routed to the ASCII loader -/
theorem ascii_never_binary (ts : List (RawTag × Bool)) (h : tagsClean ts) : isBinaryFile (renderLines ts) = false :=
  ascii_not_binary ts h

/-- the sniffer is a real restriction of `ezdxf.readfile` compared with `ezdxf.read` / recover / iterdxf (which do not
    sniff): a group code > 999 in front of the first SECTION makes `readfile` raise IOError -/
theorem sniffer_rejects :
    isDxfStream [⟨1000, "x"⟩, tSECTION, ⟨2, "ENTITIES"⟩, tENDSEC, tEOF] = false ∧
    isDxfStream [⟨999, "comment"⟩, ⟨5, "x"⟩, tSECTION, ⟨2, "ENTITIES"⟩, tENDSEC, tEOF] = true ∧
    isDxfStream [⟨0, " SECTION"⟩, ⟨2, "ENTITIES"⟩, tENDSEC, tEOF] = false := by
  decide

/-- the levels composed for `Drawing.write`: for every locally well-formed document, every encoding `enc` of the values
    that produces no line break bytes and every choice of LF / CRLF per tag, the five line splitters turn the bytes on
    disk back into exactly the (encoded) tags of `writeDoc d` - on which `write_then_read_agree` and
    `detect_on_written_file` then speak -/
theorem written_bytes_to_tags (cfg : Cfg) (d : DocW) (h : DocOK cfg 1071 d) (enc : String → Bytes)
    (fs : List (Tag × Bool)) (hfs : fs.map (·.1) = writeDoc d)
    (henc : ∀ t ∈ writeDoc d, valOK (enc t.val) = true) :
    let raw : List (RawTag × Bool) := fs.map (fun p => (⟨p.1.code, enc p.1.val⟩, p.2))
    let expected : List RawTag := (writeDoc d).map (fun t => ⟨t.code, enc t.val⟩)
    tagsText (renderLines raw) = .ok expected ∧ tagsBin (renderLines raw) = .ok expected ∧
    tagsBytesLoader (renderLines raw) = .ok expected ∧ tagsBinTagger (renderLines raw) = .ok expected ∧
    tagsChunk (renderLines raw) = .ok expected := by
  intro raw expected
  have hwf := writeDoc_wf cfg 1071 d h
  obtain ⟨secs, pre, es, post, b⟩ := wf_bridge cfg 1071 _ hwf
  -- every group code of the file is ≤ 1071
  have hcodes : ∀ t ∈ writeDoc d, t.code ≤ 1071 := by
    intro t ht
    rw [b.file] at ht
    rcases mem_fileOf pre post es t ht with ⟨s, hs, h⟩ | h | rfl | rfl | rfl | rfl
    · have hso : idxSecOK 1071 s := by
        rcases List.mem_append.mp hs with hs | hs
        · exact b.pre_ok s hs
        · exact b.post_ok s hs
      simp only [renderSec, List.mem_cons, List.mem_append, List.not_mem_nil, or_false] at h
      rcases h with rfl | rfl | h | rfl
      · decide
      · show (2 : Nat) ≤ 1071; decide
      · exact hso.2.1 t h
      · decide
    · simp only [flatEnts, List.mem_flatten] at h
      obtain ⟨g, hg, htg⟩ := h
      exact b.codes g hg t htg
    · decide
    · decide
    · decide
    · decide
  have hclean : tagsClean raw := by
    intro p hp
    simp only [raw, List.mem_map] at hp
    obtain ⟨q, hq, rfl⟩ := hp
    have hmem : q.1 ∈ writeDoc d := by rw [← hfs]; exact List.mem_map.mpr ⟨q, hq, rfl⟩
    exact ⟨hcodes _ hmem, henc _ hmem⟩
  have hraw : rawTags raw = expected := by
    simp only [rawTags, raw, expected, ← hfs, List.map_map]
    rfl
  have := lines_agree_all raw hclean
  rw [hraw] at this
  exact this

/-! ## r12export: the third document writer (session 3) -/

/-- the order in which `R12Exporter.to_string` joins its parts and `export_layouts_to_string` writes the ENTITIES section,
    regenerated from the AST, is the order `r12exportFile` hard-codes -/
theorem gen_r12export_order :
    ReaderTables.r12exportOrder = r12exportOrderModel ∧ ReaderTables.r12exportLayouts = r12exportLayoutsModel := by
  decide

/-- the file r12export assembles is the file the R12 branch of `Drawing.export_sections` writes for the converted
    content - so `writers_wf`, `write_then_read_agree`, `detect_on_written_file` and `written_bytes_to_tags` hold for
    r12export as they stand -/
theorem r12export_structure (header tables blocks : List Tag) (msp psp : List Ent) :
    r12exportFile header tables blocks msp psp = writeDoc (r12exportDoc header tables blocks msp psp) := by
  simp [r12exportFile, writeDoc, r12exportDoc, List.append_assoc]

/-- all five readers agree on every r12export file whose converted records are locally well-formed -/
theorem r12export_read_agree (cfg : Cfg) (m : Nat) (hr : ReqLinked cfg) (header tables blocks : List Tag) (msp psp : List Ent)
    (h : DocOK cfg m (r12exportDoc header tables blocks msp psp) = true) :
    let f := r12exportFile header tables blocks msp psp
    let expected := (msp ++ psp).filter (fun e => cfg.req (dxftype e.main) && !cfg.psp e.main)
    FileWF' cfg m f = true ∧
    iterModelspace cfg f = .ok (expected.filter cfg.truthy) ∧
    singlePass cfg true f = .ok (expected.filter cfg.truthy) ∧
    indexModelspace cfg m f = .ok (expected.filter cfg.truthy) ∧
    onlyReq cfg (strictModelspace cfg f) = .ok expected ∧
    onlyReq cfg (recoverModelspace cfg f) = .ok expected := by
  intro f expected
  have hf : f = writeDoc (r12exportDoc header tables blocks msp psp) := r12export_structure header tables blocks msp psp
  rw [hf]
  exact ⟨writeDoc_wf cfg m _ h, write_then_read_agree cfg m hr _ h⟩

/-! ## the `types=` filter of the iterdxf readers and reader purity (follow-up to session 3) -/

/-- no filter (`None`) and an empty filter select every supported type: the set the module defines, unchanged -/
theorem requested_unfiltered (sup : List String) :
    requestedTypes sup none = sup ∧ requestedTypes sup (some []) = sup := ⟨rfl, rfl⟩

/-- `_requested_types` as a pure function of (`SUPPORTED_TYPES`, `types`): a type is requested iff it is supported and
    asked for, or it is a linked sub-entity type of a requested POLYLINE / INSERT -/
theorem requested_mem_iff (sup : List String) (t : String) (ts : List String) (x : String) :
    x ∈ requestedTypes sup (some (t :: ts)) ↔
      (x ∈ sup ∧ x ∈ t :: ts) ∨
      ("POLYLINE" ∈ sup ∧ "POLYLINE" ∈ t :: ts ∧ (x = "SEQEND" ∨ x = "VERTEX")) ∨
      ("INSERT" ∈ sup ∧ "INSERT" ∈ t :: ts ∧ (x = "SEQEND" ∨ x = "ATTRIB")) := by
  have hf : ∀ y, y ∈ sup.filter (fun s => (t :: ts).contains s) ↔ y ∈ sup ∧ y ∈ t :: ts := by
    intro y; simp [List.mem_filter]
  have hne : ("INSERT" : String) ∉ ["SEQEND", "VERTEX"] := by decide
  simp only [requestedTypes]
  by_cases hp : "POLYLINE" ∈ sup ∧ "POLYLINE" ∈ t :: ts
  · have c1 : (sup.filter (fun s => (t :: ts).contains s)).contains "POLYLINE" = true := by
      rw [List.contains_iff_mem]; exact (hf _).mpr hp
    simp only [c1, if_true]
    by_cases hi : "INSERT" ∈ sup ∧ "INSERT" ∈ t :: ts
    · have c2 : (sup.filter (fun s => (t :: ts).contains s) ++ ["SEQEND", "VERTEX"]).contains "INSERT" = true := by
        rw [List.contains_iff_mem]; exact List.mem_append_left _ ((hf _).mpr hi)
      simp only [c2, if_true, List.mem_append, hf]
      simp only [hp, hi, and_self, true_and, List.mem_cons, List.not_mem_nil, or_false, or_assoc]
    · have c2 : (sup.filter (fun s => (t :: ts).contains s) ++ ["SEQEND", "VERTEX"]).contains "INSERT" = false := by
        cases h : (sup.filter (fun s => (t :: ts).contains s) ++ ["SEQEND", "VERTEX"]).contains "INSERT" with
        | false => rfl
        | true =>
          rw [List.contains_iff_mem, List.mem_append] at h
          rcases h with h | h
          · exact absurd ((hf _).mp h) hi
          · exact absurd h hne
      simp only [c2, Bool.false_eq_true, if_false, List.mem_append, hf]
      have hi' : ¬("INSERT" ∈ sup ∧ "INSERT" ∈ t :: ts ∧ (x = "SEQEND" ∨ x = "ATTRIB")) := fun h => hi ⟨h.1, h.2.1⟩
      simp only [hi', or_false]
      simp only [hp, true_and, List.mem_cons, List.not_mem_nil, or_false]
  · have c1 : (sup.filter (fun s => (t :: ts).contains s)).contains "POLYLINE" = false := by
      cases h : (sup.filter (fun s => (t :: ts).contains s)).contains "POLYLINE" with
      | false => rfl
      | true => rw [List.contains_iff_mem] at h; exact absurd ((hf _).mp h) hp
    have hp' : ¬("POLYLINE" ∈ sup ∧ "POLYLINE" ∈ t :: ts ∧ (x = "SEQEND" ∨ x = "VERTEX")) := fun h => hp ⟨h.1, h.2.1⟩
    simp only [c1, Bool.false_eq_true, if_false]
    by_cases hi : "INSERT" ∈ sup ∧ "INSERT" ∈ t :: ts
    · have c2 : (sup.filter (fun s => (t :: ts).contains s)).contains "INSERT" = true := by
        rw [List.contains_iff_mem]; exact (hf _).mpr hi
      simp only [c2, if_true, List.mem_append, hf]
      simp only [hp', false_or]
      simp only [hi, true_and, List.mem_cons, List.not_mem_nil, or_false]
    · have c2 : (sup.filter (fun s => (t :: ts).contains s)).contains "INSERT" = false := by
        cases h : (sup.filter (fun s => (t :: ts).contains s)).contains "INSERT" with
        | false => rfl
        | true => rw [List.contains_iff_mem] at h; exact absurd ((hf _).mp h) hi
      have hi' : ¬("INSERT" ∈ sup ∧ "INSERT" ∈ t :: ts ∧ (x = "SEQEND" ∨ x = "ATTRIB")) := fun h => hi ⟨h.1, h.2.1⟩
      simp only [c2, Bool.false_eq_true, if_false, hf, hp', hi', or_false]

/-- a filter that asks for POLYLINE and INSERT satisfies `ReqLinked`: `iter_agrees`, `index_agrees`,
    `single_pass_characterised` hold for that filtered read as they stand -/
theorem filtered_req_linked (cfg : Cfg) (sup ts : List String) (h1 : "POLYLINE" ∈ sup) (h2 : "INSERT" ∈ sup)
    (h3 : "POLYLINE" ∈ ts) (h4 : "INSERT" ∈ ts) : ReqLinked (cfg.withTypes sup (some ts)) := by
  cases ts with
  | nil => simp at h3
  | cons t r =>
    have hm := fun x => requested_mem_iff sup t r x
    simp only [ReqLinked, Cfg.withTypes, List.contains_iff_mem]
    refine ⟨?_, ?_, ?_, ?_, ?_⟩
    · exact (hm _).mpr (Or.inl ⟨h1, h3⟩)
    · exact (hm _).mpr (Or.inl ⟨h2, h4⟩)
    · exact (hm _).mpr (Or.inr (Or.inl ⟨h1, h3, Or.inr rfl⟩))
    · exact (hm _).mpr (Or.inr (Or.inr ⟨h2, h4, Or.inr rfl⟩))
    · exact (hm _).mpr (Or.inr (Or.inl ⟨h1, h3, Or.inl rfl⟩))

/-- the regenerated probe shows the repaired filter (fix a635ea5a3): stand-alone entities of implicitly loaded types are
    kept back -/
theorem gen_filter_fixed : ReaderTables.filterDropsImplicit = true := by decide

/-- the defect the histories stream uncovered, and its repair: asking for POLYLINE alone also loads SEQEND; without the
    fix the SEQEND of an INSERT whose main entity was skipped came out as a stand-alone entity in front of the POLYLINE -/
theorem filter_drops_stray_seqend :
    let sup := ["INSERT", "LINE", "POLYLINE", "ATTRIB", "VERTEX", "SEQEND"]
    let f := [tSECTION, ⟨2, "ENTITIES"⟩, ⟨0, "INSERT"⟩, ⟨66, "1"⟩, ⟨0, "ATTRIB"⟩, ⟨5, "A"⟩, ⟨0, "SEQEND"⟩, ⟨5, "B"⟩,
       ⟨0, "POLYLINE"⟩, ⟨5, "C"⟩, ⟨0, "VERTEX"⟩, ⟨5, "D"⟩, ⟨0, "SEQEND"⟩, ⟨5, "E"⟩, tENDSEC, tEOF]
    let poly : Ent := ⟨[⟨0, "POLYLINE"⟩, ⟨5, "C"⟩], [[⟨0, "VERTEX"⟩, ⟨5, "D"⟩]], some [⟨0, "SEQEND"⟩, ⟨5, "E"⟩]⟩
    iterModelspace (cfgS.withTypes sup (some ["POLYLINE"]) false) f = .ok [Ent.single [⟨0, "SEQEND"⟩, ⟨5, "B"⟩], poly] ∧
    iterModelspace (cfgS.withTypes sup (some ["POLYLINE"]) true) f = .ok [poly] := by
  decide

/-- a filtered read that asks for POLYLINE and INSERT (and whatever else): on every file that is well-formed for the
    filter's `Cfg` the three iterdxf readers return the Spec's modelspace for that filter - the requested main entities
    with their linked sub-entities, without stand-alone VERTEX / ATTRIB / SEQEND entities nobody asked for -/
theorem filtered_read_agrees (cfg : Cfg) (m : Nat) (hm : 2 ≤ m) (sup ts : List String)
    (h1 : "POLYLINE" ∈ sup) (h2 : "INSERT" ∈ sup) (h3 : "POLYLINE" ∈ ts) (h4 : "INSERT" ∈ ts) (f : List Tag)
    (hwf : FileWF' (cfg.withTypes sup (some ts)) m f = true) :
    let c := cfg.withTypes sup (some ts)
    iterModelspace c f = .ok ((Spec.ofFile c f).filter c.truthy) ∧
    singlePass c true f = .ok ((Spec.ofFile c f).filter c.truthy) ∧
    indexModelspace c m f = .ok ((Spec.ofFile c f).filter c.truthy) := by
  intro c
  have hr : ReqLinked c := filtered_req_linked cfg sup ts h1 h2 h3 h4
  refine ⟨iter_agrees c m hr f hwf, ?_, index_agrees c m hm hr f hwf⟩
  rw [single_pass_characterised c m hr true f hwf]; rfl

/-- r12writer: every `add_*` method starts at most ONE iteration over each of its `Iterable` arguments (regenerated
    probe table over the live signatures: generators and other one-shot iterables are legal arguments), and the table
    covers the six methods the model knows -/
theorem gen_r12_iterables_once :
    ReaderTables.r12IterCounts.all (fun e => decide (e.2.2 ≤ 1)) = true ∧
    ReaderTables.r12IterCounts.map (fun e => (e.1, e.2.1)) =
      [("add_3dface", "vertices"), ("add_polyface", "vertices"), ("add_polyface", "faces"), ("add_polyline", "vertices"),
       ("add_polyline_2d", "points"), ("add_polymesh", "vertices"), ("add_solid", "vertices")] := by
  decide

/-! ## final round: one composition for every writer of the shape `fileOf pre es post` -/

/-- the general composition (Drawing.write, r12export, r12writer, iterdxf exporter are instances): sections and entities
    that are well-formed ONE BY ONE (`PartsOK`: the local conditions of `fileOf_wf`) make a file on which all five
    readers return the entity list, filtered by type and paperspace flag - no global hypothesis on the file -/
theorem parts_read_agree (cfg : Cfg) (m : Nat) (hm : 2 ≤ m) (hr : ReqLinked cfg) (pre post : List Section) (es : List Ent)
    (h : PartsOK cfg m pre post es) :
    let f := fileOf pre es post
    let expected := es.filter (fun e => cfg.req (dxftype e.main) && !cfg.psp e.main)
    FileWF' cfg m f = true ∧
    iterModelspace cfg f = .ok (expected.filter cfg.truthy) ∧
    singlePass cfg true f = .ok (expected.filter cfg.truthy) ∧
    indexModelspace cfg m f = .ok (expected.filter cfg.truthy) ∧
    onlyReq cfg (strictModelspace cfg f) = .ok expected ∧
    onlyReq cfg (recoverModelspace cfg f) = .ok expected := by
  intro f expected
  have hwf := parts_wf cfg m pre post es h
  have hspec : Spec.ofFile cfg f = expected := spec_fileOf cfg m pre post es h
  refine ⟨hwf, ?_, ?_, ?_, ?_, ?_⟩
  · rw [iter_agrees cfg m hr _ hwf, hspec]
  · rw [single_pass_characterised cfg m hr true _ hwf, hspec]; rfl
  · rw [index_agrees cfg m hm hr _ hwf, hspec]
  · rw [strict_agrees cfg m _ hwf, hspec]
  · rw [recover_agrees cfg m _ hwf, hspec]

/-- the iterdxf exporter composed with the readers (`export_structure` only gave the tag structure): for every copied
    prefix, every list of written entities that are well-formed one by one, and the copied OBJECTS section, all five
    readers return exactly the written entities from the exported file -/
theorem export_read_agree (cfg : Cfg) (m : Nat) (hm : 2 ≤ m) (hr : ReqLinked cfg) (pre : List Section) (written : List Ent)
    (objects : Option Section) (hcfg : cfgOK cfg = true) (hsecs : SecsOK cfg m (pre ++ objects.toList))
    (hw : ∀ e ∈ written, wEntOK cfg m e = true)
    (hobj : "AC1009" < verFold (verFold "AC1009" pre) objects.toList → ∃ s ∈ pre ++ objects.toList, s.name = "OBJECTS") :
    let f := exportFile false pre written objects
    let expected := written.filter (fun e => cfg.req (dxftype e.main) && !cfg.psp e.main)
    FileWF' cfg m f = true ∧
    iterModelspace cfg f = .ok (expected.filter cfg.truthy) ∧
    singlePass cfg true f = .ok (expected.filter cfg.truthy) ∧
    indexModelspace cfg m f = .ok (expected.filter cfg.truthy) ∧
    onlyReq cfg (strictModelspace cfg f) = .ok expected ∧
    onlyReq cfg (recoverModelspace cfg f) = .ok expected := by
  obtain ⟨h1, h2, h3, h4, h5⟩ := parts_of_wEnts cfg m written hw
  have hf : exportFile false pre written objects = fileOf pre written objects.toList := export_structure pre written objects h5
  simp only [hf]
  exact parts_read_agree cfg m hm hr pre objects.toList written ⟨hcfg, hsecs, h1, h2, h3, h4, hobj⟩

/-- the fast R12 writer composed with ALL readers (`r12_iter` covered iterdxf.modelspace only and assumed
    `asciiLoad f = f` and `compile cfg f = f` of the whole file): for every call sequence whose tags are writer tags
    (`wTagOK`, one tag at a time) all five readers return the expected entities - POLYLINE with one VERTEX per point and
    SEQEND - in call order -/
theorem r12_read_agree (cfg : Cfg) (m : Nat) (hm : 2 ≤ m) (hr : ReqLinked cfg) (preface : List Section) (calls : List R12Call)
    (hc : ∀ c ∈ calls, r12CallOK cfg c = true) (hcfg : cfgOK cfg = true) (hsecs : SecsOK cfg m preface)
    (hnh : ∀ s ∈ preface, s.name ≠ "HEADER")
    (ht : ∀ t ∈ flatEnts (calls.map R12Call.expected), wTagOK cfg m t = true)
    (hpsp : ∀ g ∈ (calls.map R12Call.expected).flatMap Ent.groups, cfg.pspS g = cfg.psp g) :
    let f := r12File preface calls
    let expected := (calls.map R12Call.expected).filter (fun e => cfg.req (dxftype e.main) && !cfg.psp e.main)
    FileWF' cfg m f = true ∧
    iterModelspace cfg f = .ok (expected.filter cfg.truthy) ∧
    singlePass cfg true f = .ok (expected.filter cfg.truthy) ∧
    indexModelspace cfg m f = .ok (expected.filter cfg.truthy) ∧
    onlyReq cfg (strictModelspace cfg f) = .ok expected ∧
    onlyReq cfg (recoverModelspace cfg f) = .ok expected := by
  obtain ⟨hfile, _, hgroups⟩ := r12_structure cfg preface calls hc
  have hclosed : EntsClosed cfg (calls.map R12Call.expected) := by
    intro e he
    obtain ⟨c, hcm, rfl⟩ := List.mem_map.mp he
    have h1 := hc c hcm
    cases c with
    | simple ty a =>
      simp only [r12CallOK, Bool.and_eq_true, Option.isNone_iff_eq_none] at h1
      exact ⟨by simp [R12Call.expected, entWF, Ent.single, h1.2], by simp [R12Call.expected, Ent.isOpen, Ent.single, h1.2]⟩
    | polyline a vs =>
      have he' : expects cfg (⟨0, "POLYLINE"⟩ :: a) = some "VERTEX" := by simp [expects, dxftype]
      exact ⟨by simp [R12Call.expected, entWF, he', hasType], by simp [R12Call.expected, Ent.isOpen]⟩
  have hver : verFold (verFold "AC1009" preface) [] = "AC1009" := by
    simp only [verFold, List.foldl_nil]
    exact verFold_noheader "AC1009" preface hnh
  simp only [hfile]
  exact parts_read_agree cfg m hm hr preface [] (calls.map R12Call.expected)
    ⟨hcfg, by simpa using hsecs, hclosed, hgroups, ht, hpsp, by rw [hver]; intro h; exact absurd h (by decide)⟩

/-! ## final round: records of the generic export path satisfy the writer's local predicate -/

/-- the only structure tag `DXFEntity.export_base_class` writes is the first one (regenerated probe: an entity with app
    data, extension dictionary and reactors in DXF R2000, and DXF R12 with handles) -/
theorem gen_base_class_codes :
    ReaderTables.baseClassCodes2000.head? = some 0 ∧ ReaderTables.baseClassCodes2000.tail.all (· != 0) = true ∧
    ReaderTables.baseClassCodesR12.head? = some 0 ∧ ReaderTables.baseClassCodesR12.tail.all (· != 0) = true := by
  decide

private theorem generic_group_facts (cfg : Cfg) (m : Nat) (g : GenericRecord) (h : genericOK cfg m g = true) :
    (groupOK g.group && dxftype g.group != "SECTION" && dxftype g.group != "ENDSEC" && dxftype g.group != "EOF") = true ∧
    (∀ t ∈ g.group, wTagOK cfg m t = true) ∧ cfg.pspS g.group = cfg.psp g.group := by
  simp only [genericOK, Bool.and_eq_true, bne_iff_ne, beq_iff_eq, List.all_eq_true] at h
  obtain ⟨⟨⟨⟨⟨⟨h1, h2⟩, h3⟩, h4⟩, h5⟩, h6⟩, h7⟩ := h
  have hattr : ∀ t ∈ g.base ++ g.body ++ g.xdata, t.code ≠ 0 ∧ t.code ≤ m ∧ t.code ≠ 999 := by
    intro t ht
    have := h6 t ht
    simp only [attrTagOK, Bool.and_eq_true, bne_iff_ne, decide_eq_true_eq] at this
    exact ⟨this.1.1, this.1.2, this.2⟩
  refine ⟨?_, ?_, h7⟩
  · simp only [GenericRecord.group, groupOK, dxftype, Bool.and_eq_true, beq_self_eq_true, true_and, List.all_eq_true,
      bne_iff_ne]
    exact ⟨⟨⟨fun t ht => by simpa [nz] using (hattr t ht).1, h1⟩, h2⟩, h3⟩
  · intro t ht
    simp only [GenericRecord.group, List.mem_cons] at ht
    rcases ht with rfl | ht
    · simp [wTagOK, h4, h5]
    · obtain ⟨a, b, c⟩ := hattr t ht
      simp [wTagOK, a, b, c]

/-- the entity part of `DocOK` reduced to conditions on single attribute tags: an entity written by the generic export path
    (`export_base_class`, `export_entity`, `export_xdata` behind the one structure tag) whose type starts no linked
    structure satisfies `wEntOK` as soon as each of its tags is an attribute tag (`attrTagOK`: code ≠ 0, ≤ m, ≠ 999) and
    its type name is a proper one -/
theorem generic_record_ok (cfg : Cfg) (m : Nat) (g : GenericRecord) (h : genericOK cfg m g = true)
    (hexp : expects cfg g.group = none) : wEntOK cfg m (Ent.single g.group) = true := by
  obtain ⟨h1, h2, h3⟩ := generic_group_facts cfg m g h
  have hne : ¬(dxftype g.group = "INSERT" ∧ True ∧ False) := by simp
  simp only [wEntOK, Ent.single, entWF, hexp, Ent.isOpen, Ent.exportable, Ent.groups, List.isEmpty_nil, Option.isNone_none,
    Option.isSome_none, Bool.and_true, Bool.and_false, Bool.not_false, Option.toList_none, List.append_nil, List.all_cons,
    List.all_nil, Bool.true_and, Bool.and_eq_true, List.all_eq_true, beq_iff_eq]
  exact ⟨⟨by simpa using h1, h2⟩, h3⟩

/-- ... and a POLYLINE / INSERT-with-attribs written with its sub-entities and SEQEND (`Polyline.export_dxf`,
    `Insert.export_dxf`: main record, one generic record per VERTEX / ATTRIB, the SEQEND record) satisfies `wEntOK` under
    the same per-tag conditions -/
theorem generic_linked_ok (cfg : Cfg) (m : Nat) (main : GenericRecord) (subs : List GenericRecord) (seqend : GenericRecord)
    (exp : String) (hm : genericOK cfg m main = true) (hs : ∀ s ∈ subs, genericOK cfg m s = true ∧ s.type = exp)
    (hq : genericOK cfg m seqend = true) (hqt : seqend.type = "SEQEND")
    (hexp : expects cfg main.group = some exp) (hsub : subs ≠ [] ∨ main.type ≠ "INSERT") :
    wEntOK cfg m ⟨main.group, subs.map GenericRecord.group, some seqend.group⟩ = true := by
  have hM := generic_group_facts cfg m main hm
  have hQ := generic_group_facts cfg m seqend hq
  have hS : ∀ s ∈ subs, _ := fun s hs' => generic_group_facts cfg m s (hs s hs').1
  simp only [wEntOK, entWF, hexp, Ent.isOpen, Ent.exportable, Ent.groups, Bool.and_eq_true, List.all_eq_true,
    Bool.not_eq_true', beq_iff_eq, Option.toList_some, List.mem_cons, List.mem_append, List.mem_map, List.not_mem_nil,
    or_false, Option.isSome_some, Option.isNone_some, Bool.and_false]
  refine ⟨⟨⟨⟨?_, ?_⟩, trivial⟩, ?_⟩, ?_⟩
  · rintro g ⟨s, hs', rfl⟩
    simp [hasType, GenericRecord.group, (hs s hs').2]
  · simp [hasType, GenericRecord.group, hqt]
  · rcases hsub with h | h
    · cases subs with
      | nil => exact absurd rfl h
      | cons a r => simp
    · simp [dxftype, GenericRecord.group, h]
  · rintro g (rfl | ⟨s, hs', rfl⟩ | rfl)
    · exact ⟨⟨by simpa using hM.1, hM.2.1⟩, hM.2.2⟩
    · exact ⟨⟨by simpa using (hS s hs').1, (hS s hs').2.1⟩, (hS s hs').2.2⟩
    · exact ⟨⟨by simpa using hQ.1, hQ.2.1⟩, hQ.2.2⟩

/-! ## JSON tags -/

private theorem asciiLoad_prefix (a b : List Tag) (h : ∀ t ∈ a, t.code ≠ 999 ∧ t ≠ tEOF) :
    asciiLoad (a ++ b) = a ++ asciiLoad b := by
  induction a with
  | nil => rfl
  | cons t r ih =>
    obtain ⟨h1, h2⟩ := h t (by simp)
    simp only [List.cons_append, asciiLoad, h2, if_false, h1]
    rw [ih (fun x hx => h x (by simp [hx]))]

private theorem jsonLoad_singles (isPt : Nat → Bool) (a : List Tag) (b : List JTag)
    (h : ∀ t ∈ a, t.code ≠ 999 ∧ t ≠ tEOF) :
    jsonLoad isPt (a.map (fun t => JTag.single t.code t.val) ++ b) = a ++ jsonLoad isPt b := by
  induction a with
  | nil => rfl
  | cons t r ih =>
    obtain ⟨h1, h2⟩ := h t (by simp)
    have h3 : ¬(t.code = 0 ∧ t.val = "EOF") := by
      intro hh; apply h2; cases t; simp_all [tEOF]
    simp only [List.map_cons, List.cons_append, jsonLoad, h3, if_false, h1]
    rw [ih (fun x hx => h x (by simp [hx]))]

/-- JSON tags, compact and verbose: `json_tag_loader (JSONTagWriter ts)` is what `ascii_tags_loader` gets from
    `TagWriter ts`, for every list of compiled tags (comment skipping and the stop at EOF included). -/
theorem json_roundtrip (isPt : Nat → Bool) (compact : Bool) (ws : List WTag) (h : ∀ w ∈ ws, wtagOK isPt w = true) :
    jsonLoad isPt (jsonWrite compact ws) = asciiLoad (asciiWrite ws) := by
  induction ws with
  | nil => rfl
  | cons w r ih =>
    have hr := ih (fun x hx => h x (by simp [hx]))
    cases w with
    | single c v =>
      simp only [jsonWrite, asciiWrite, jsonLoad, asciiLoad]
      by_cases h0 : c = 0 ∧ v = "EOF"
      · obtain ⟨rfl, rfl⟩ := h0; simp [tEOF]
      · have : (⟨c, v⟩ : Tag) ≠ tEOF := by intro hh; apply h0; simpa [tEOF] using hh
        simp only [h0, if_false, this]
        by_cases h9 : c = 999 <;> simp [h9, hr]
    | vertex c xs =>
      have hw := h (.vertex c xs) (by simp)
      simp only [wtagOK, Bool.and_eq_true, List.all_eq_true, bne_iff_ne] at hw
      have hclean : ∀ t ∈ expandPoint c xs 0, t.code ≠ 999 ∧ t ≠ tEOF := fun t ht => hw.2 t ht
      simp only [asciiWrite]
      rw [asciiLoad_prefix _ _ hclean]
      cases compact with
      | true => simp [jsonWrite, jsonLoad, hw.1, hr]
      | false =>
        simp only [jsonWrite, Bool.false_eq_true, if_false]
        rw [jsonLoad_singles isPt _ _ hclean, hr]

/-! ## final round: the JSON format composed with the reader theorems -/

/-- `Drawing.read` is `Drawing.load` behind `ascii_tags_loader` (both readers share the back end `loadModelspace`) -/
theorem strict_is_load (cfg : Cfg) (f : List Tag) : strictModelspace cfg f = loadModelspace cfg (asciiLoad f) := rfl

/-- `load_json_tags(export_json_tags(...))` delivers the modelspace `ezdxf.read` delivers for the ASCII rendering of the same
    compiled tags - for EVERY list of compiled tags, compact and verbose (composition of `json_roundtrip` with the
    common back end) -/
theorem json_read_agrees (cfg : Cfg) (isPt : Nat → Bool) (compact : Bool) (ws : List WTag)
    (h : ∀ w ∈ ws, wtagOK isPt w = true) :
    jsonModelspace cfg isPt (jsonWrite compact ws) = strictModelspace cfg (asciiWrite ws) := by
  unfold jsonModelspace
  rw [json_roundtrip isPt compact ws h]
  rfl

/-- `write_then_read_agree` for the JSON format: when the compiled tags a document hands to the tag writers render (ASCII)
    to the stream `writeDoc d` of a locally well-formed document, `load_json_tags` of the JSON rendering returns the same
    entities as every ASCII reader: the written entity spaces minus paperspace, restricted to the requested types -/
theorem write_then_read_agree_json (cfg : Cfg) (m : Nat) (d : DocW) (hd : DocOK cfg m d = true)
    (isPt : Nat → Bool) (compact : Bool) (ws : List WTag) (h : ∀ w ∈ ws, wtagOK isPt w = true)
    (hws : asciiWrite ws = writeDoc d) :
    onlyReq cfg (jsonModelspace cfg isPt (jsonWrite compact ws)) =
      .ok ((d.msp ++ d.psp).filter (fun e => cfg.req (dxftype e.main) && !cfg.psp e.main)) := by
  rw [json_read_agrees cfg isPt compact ws h, hws, strict_agrees cfg m _ (writeDoc_wf cfg m d hd), spec_writeDoc cfg m d hd]

/-! ## the decidable well-formedness predicate is met by rendered files (non-vacuity) -/

private theorem parseBody_render (b rest : List Tag) (hb : bodyOK b = true) :
    parseBody (b ++ tENDSEC :: rest) = some (b, rest) := by
  induction b with
  | nil => simp [parseBody]
  | cons t r ih =>
    obtain ⟨ht, hr⟩ := bodyOK_cons t r hb
    have h1 : t ≠ tENDSEC := by intro h; subst h; exact ht ⟨rfl, Or.inr (Or.inl rfl)⟩
    simp only [List.cons_append, parseBody, h1, if_false, ht, ih hr]

/-- `parseFile (render secs) = secs`: the structural parser behind `FileWF'` accepts exactly the rendered section
    lists (with `parseFile_sound` of the lemma file: `parseFile f = some secs ↔ f = render secs ∧ bodies OK`). -/
theorem parse_render (secs : List Section) (hb : ∀ s ∈ secs, bodyOK s.body = true) :
    parseFile (render secs) = some secs := by
  induction secs with
  | nil => simp [render, parseFile]
  | cons s r ih =>
    have h1 := ih (fun x hx => hb x (by simp [hx]))
    have h2 := parseBody_render s.body (render r) (hb s (by simp))
    simp only [render, List.flatMap_cons, renderSec, List.cons_append, List.append_assoc, List.nil_append] at h1 h2 ⊢
    rw [parseFile]
    simp only [show tSECTION ≠ tEOF by decide, if_false, if_true]
    split
    · rename_i b r3 heq
      rw [h2] at heq
      simp only [Option.some.injEq, Prod.mk.injEq] at heq
      obtain ⟨rfl, rfl⟩ := heq
      rw [h1]
      cases s; rfl
    · rename_i heq; rw [h2] at heq; simp at heq

/-! ## non-vacuity: concrete files meet the hypotheses (evaluated, WF recursion does not reduce under `decide`) -/

/-- HEADER, TABLES, ENTITIES with a polyline, a paperspace-free insert with attribs, OBJECTS -/
def sampleFile : List Tag :=
  [tSECTION, ⟨2, "HEADER"⟩, ⟨9, "$ACADVER"⟩, ⟨1, "AC1015"⟩, ⟨9, "$HANDSEED"⟩, ⟨5, "FF"⟩, tENDSEC,
   tSECTION, ⟨2, "TABLES"⟩, ⟨0, "TABLE"⟩, ⟨2, "LAYER"⟩, ⟨0, "ENDTAB"⟩, tENDSEC,
   tSECTION, ⟨2, "ENTITIES"⟩,
   ⟨0, "LINE"⟩, ⟨5, "A"⟩,
   ⟨0, "POLYLINE"⟩, ⟨5, "B"⟩, ⟨66, "1"⟩, ⟨0, "VERTEX"⟩, ⟨5, "C"⟩, ⟨0, "VERTEX"⟩, ⟨5, "D"⟩, ⟨0, "SEQEND"⟩, ⟨5, "E"⟩,
   ⟨0, "INSERT"⟩, ⟨5, "F"⟩, ⟨66, "1"⟩, ⟨0, "ATTRIB"⟩, ⟨5, "10"⟩, ⟨0, "SEQEND"⟩, ⟨5, "11"⟩,
   ⟨0, "CIRCLE"⟩, ⟨5, "12"⟩, tENDSEC,
   tSECTION, ⟨2, "OBJECTS"⟩, ⟨0, "DICTIONARY"⟩, ⟨5, "C0"⟩, tENDSEC, tEOF]

#guard FileWF' cfgS 1071 sampleFile
#guard (Spec.ofFile cfgS sampleFile).length == 4
#guard (Spec.ofFile cfgS sampleFile).all cfgS.truthy
#guard iterModelspace cfgS sampleFile == .ok (Spec.ofFile cfgS sampleFile)
#guard singlePass cfgS true sampleFile == .ok (Spec.ofFile cfgS sampleFile)
#guard indexModelspace cfgS 1071 sampleFile == .ok (Spec.ofFile cfgS sampleFile)
#guard strictModelspace cfgS sampleFile == .ok (Spec.ofFile cfgS sampleFile)
#guard recoverModelspace cfgS sampleFile == .ok (Spec.ofFile cfgS sampleFile)
#guard singlePass cfgS false sampleFile == .ok ((Spec.ofFile cfgS sampleFile).take 3)
#guard FileWF' cfgS 1071 oneLine && FileWF' cfgS 1071 emptyPolyline
#guard !FileWF' cfgS 1071 (sampleFile.take 40)                       -- no EOF
#guard !FileWF' cfgS 1071 (sampleFile.map fun t => if t.val = "SEQEND" then ⟨0, "LINE"⟩ else t)   -- broken links
#guard EntsWF cfgS (Spec.linked cfgS sampleFile) && entGroupsOK (Spec.linked cfgS sampleFile)
#guard r12CallOK cfgS (.polyline [⟨8, "0"⟩, ⟨66, "1"⟩] [[⟨10, "1.0"⟩], [⟨10, "2.0"⟩]]) && r12CallOK cfgS (.simple "LINE" [⟨8, "0"⟩])
#guard wtagOK (fun c => c == 10) (.vertex 10 ["1.0", "2.0", "3.0"])
#guard polyEnt.exportable && (Spec.linked cfgS sampleFile).all Ent.exportable

example : ReqLinked cfgS := ⟨rfl, rfl, rfl, rfl, rfl⟩

/-- a document content: R2000, two modelspace entities (a POLYLINE with vertex + SEQEND, an INSERT with ATTRIB), one
    paperspace LINE (flag 67), a stored THUMBNAILIMAGE section -/
def sampleDoc : DocW where
  r12 := false
  header := [⟨9, "$ACADVER"⟩, ⟨1, "AC1015"⟩, ⟨9, "$HANDSEED"⟩, ⟨5, "FF"⟩]
  classes := []
  tables := [⟨0, "TABLE"⟩, ⟨2, "LAYER"⟩, ⟨0, "ENDTAB"⟩]
  blocks := []
  objects := [⟨0, "DICTIONARY"⟩, ⟨5, "C"⟩]
  acds := none
  stored := [⟨"THUMBNAILIMAGE", [⟨90, "1"⟩]⟩]
  msp := [polyEnt, ⟨[⟨0, "INSERT"⟩, ⟨5, "F"⟩, ⟨66, "1"⟩], [[⟨0, "ATTRIB"⟩, ⟨5, "10"⟩]], some [⟨0, "SEQEND"⟩, ⟨5, "11"⟩]⟩]
  psp := [Ent.single [⟨0, "LINE"⟩, ⟨5, "20"⟩, ⟨67, "1"⟩]]

/-- `cfgS` with the paperspace flag read from group code 67 -/
def cfgP : Cfg := { cfgS with psp := fun g => g.any (fun t => t.code == 67 && t.val == "1"),
                              pspS := fun g => g.any (fun t => t.code == 67 && t.val == "1") }

#guard DocOK cfgP 1071 sampleDoc && flagsOK cfgP sampleDoc
#guard FileWF' cfgP 1071 (writeDoc sampleDoc)
#guard iterModelspace cfgP (writeDoc sampleDoc) == .ok sampleDoc.msp
#guard onlyReq cfgP (recoverModelspace cfgP (writeDoc sampleDoc)) == .ok sampleDoc.msp
#guard !DocOK cfgP 1071 { sampleDoc with msp := [{ polyEnt with seqend := none }] }      -- POLYLINE without SEQEND
#guard !DocOK cfgP 1071 { sampleDoc with tables := [⟨0, "ENDSEC"⟩] }                     -- a body that closes the section
#guard !DocOK cfgP 1071 { sampleDoc with r12 := true }

/-- a header as ezdxf writes it -/
def sampleVars : List HVar :=
  [⟨"$ACADVER", [⟨1, "AC1018"⟩]⟩, ⟨"$ACADMAINTVER", [⟨70, "6"⟩]⟩, ⟨"$DWGCODEPAGE", [⟨3, "ANSI_932"⟩]⟩,
   ⟨"$INSBASE", [⟨10, "0.0"⟩, ⟨20, "0.0"⟩, ⟨30, "0.0"⟩]⟩, ⟨"$EXTMIN", [⟨10, "1"⟩, ⟨20, "2"⟩]⟩, ⟨"$HANDSEED", [⟨5, "FF"⟩]⟩,
   ⟨"$INSUNITS", [⟨70, "6"⟩]⟩]

#guard sampleVars.all (fun v => hvarOK v && recVarOK v)
#guard (sampleVars.filter (fun v => isCounted v.name)).length == 5
#guard specInfo ReaderTables.codepageTable sampleVars == ⟨"AC1018", "cp932"⟩
#guard dxfInfo ReaderTables.codepageTable (headerFile sampleVars [tEOF]) == ⟨"AC1018", "cp932"⟩
#guard recoverEnc ReaderTables.codepageTable (headerFile sampleVars [tEOF]) == "cp932"
#guard specInfo ReaderTables.codepageTable [⟨"$ACADVER", [⟨1, "AC1021"⟩]⟩, ⟨"$DWGCODEPAGE", [⟨3, "ANSI_1251"⟩]⟩] == ⟨"AC1021", "utf-8"⟩
example : tagsClean [(⟨0, [83, 69, 67, 84, 73, 79, 78]⟩, true), (⟨10, [49, 46, 48]⟩, false), (⟨1071, []⟩, true)] := by
  intro p hp; simp only [List.mem_cons, List.not_mem_nil, or_false] at hp; rcases hp with rfl | rfl | rfl <;> decide
#guard tagsText (renderLines [(⟨0, [83]⟩, true), (⟨1, List.replicate 5000 120⟩, false)]) == .ok [⟨0, [83]⟩, ⟨1, List.replicate 5000 120⟩]
/-- a LINE as ezdxf writes it: thickness, start, end, extrusion -/
example : GroupCanon ReaderTables.coordinateFixing
    [⟨0, "LINE"⟩, ⟨5, "A"⟩, ⟨8, "0"⟩, ⟨39, "1"⟩, ⟨10, "1"⟩, ⟨20, "2"⟩, ⟨30, "0"⟩, ⟨11, "4"⟩, ⟨21, "5"⟩, ⟨31, "0"⟩, ⟨210, "0"⟩] := by
  intro codes hc
  have : codes = [10, 11] := by simpa [toolboxCodes, ReaderTables.coordinateFixing, dxftype] using hc.symm
  subst this
  refine ⟨by decide, [⟨0, "LINE"⟩, ⟨5, "A"⟩, ⟨8, "0"⟩, ⟨39, "1"⟩],
    [⟨10, "1"⟩, ⟨20, "2"⟩, ⟨30, "0"⟩, ⟨11, "4"⟩, ⟨21, "5"⟩, ⟨31, "0"⟩], [⟨210, "0"⟩], rfl, by decide, ?_⟩
  exact List.Sublist.refl _
#guard tagReorderLayer ReaderTables.coordinateFixing (writeDoc sampleDoc) == writeDoc sampleDoc
#guard tagReorderLayer ReaderTables.coordinateFixing [⟨0, "LINE"⟩, ⟨8, "0"⟩, ⟨10, "1"⟩, ⟨11, "4"⟩, ⟨20, "2"⟩, ⟨21, "5"⟩, tEOF]
  == [⟨0, "LINE"⟩, ⟨8, "0"⟩, ⟨10, "1"⟩, ⟨20, "2"⟩, ⟨11, "4"⟩, ⟨21, "5"⟩, tEOF]
#guard tagReorderLayer ReaderTables.coordinateFixing [⟨0, "LINE"⟩, ⟨10, "1"⟩] == []      -- never released without a next structure tag
#guard sampleVars.all (verVarOK id) && isAcVersion "AC1018" && !isAcVersion "AC101" && !isAcVersion "ac1018"
#guard recoverVersion cfgS (headerFile sampleVars (render [⟨"ENTITIES", []⟩])) == "AC1018"
-- final round: the general composition is not vacuous (exporter output, r12writer output, JSON path)
#guard (exportFile false sampleDoc.pre sampleDoc.msp (some ⟨"OBJECTS", sampleDoc.objects⟩)) == fileOf sampleDoc.pre sampleDoc.msp [⟨"OBJECTS", sampleDoc.objects⟩]
#guard sampleDoc.msp.all (wEntOK cfgP 1071)
#guard FileWF' cfgP 1071 (exportFile false sampleDoc.pre sampleDoc.msp (some ⟨"OBJECTS", sampleDoc.objects⟩))
#guard FileWF' cfgS 1071 (r12File [] [.polyline [⟨8, "0"⟩, ⟨66, "1"⟩] [[⟨10, "1.0"⟩], [⟨10, "2.0"⟩]], .simple "LINE" [⟨8, "0"⟩]])
#guard onlyReq cfgS (recoverModelspace cfgS (r12File [] [.simple "LINE" [⟨8, "0"⟩]])) == .ok [Ent.single [⟨0, "LINE"⟩, ⟨8, "0"⟩]]
#guard jsonModelspace cfgS (fun c => c == 10) (jsonWrite true ((oneLine.map fun t => WTag.single t.code t.val))) == strictModelspace cfgS oneLine
#guard recoverVersion cfgP (writeDoc sampleDoc) == "AC1015"
-- generic export path: a LINE record, and a POLYLINE with a vertex and SEQEND built from generic records
def gLine : GenericRecord := ⟨"LINE", [⟨5, "A"⟩, ⟨330, "1F"⟩], [⟨100, "AcDbEntity"⟩, ⟨8, "0"⟩, ⟨10, "0.0"⟩], [⟨1001, "APP"⟩]⟩
#guard genericOK cfgP 1071 gLine && (expects cfgP gLine.group).isNone && wEntOK cfgP 1071 (Ent.single gLine.group)
#guard genericOK cfgP 1071 ⟨"POLYLINE", [⟨5, "B"⟩], [⟨66, "1"⟩], []⟩ && genericOK cfgP 1071 ⟨"VERTEX", [⟨5, "C"⟩], [], []⟩
#guard wEntOK cfgP 1071 ⟨(⟨"POLYLINE", [⟨5, "B"⟩], [⟨66, "1"⟩], []⟩ : GenericRecord).group,
  [(⟨"VERTEX", [⟨5, "C"⟩], [], []⟩ : GenericRecord).group], some (⟨"SEQEND", [⟨5, "D"⟩], [], []⟩ : GenericRecord).group⟩
#guard !genericOK cfgP 1071 ⟨"LINE", [⟨0, "X"⟩], [], []⟩ && !genericOK cfgP 1071 ⟨"EOF", [], [], []⟩
#guard !hvarOK ⟨"$ACADVER", []⟩ && !hvarOK ⟨"$X", [⟨10, "1"⟩]⟩ && !hvarOK ⟨"$Y", [⟨1, "a"⟩, ⟨9, "$Z"⟩]⟩                                    -- $ACADVER newer than the writer's switch

end EzdxfVerif.Props.C08
